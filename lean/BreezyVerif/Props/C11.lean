import BreezyVerif.Lemmas.C11
import BreezyVerif.Lemmas.C11Idem
import BreezyVerif.Lemmas.C11Closed
import BreezyVerif.Lemmas.C11Git
/-!
C11 — adding files versions exactly the intended paths.

Theorems about `smartAdd` (`Model/C11.lean`: `_SmartAddHelper.add` for bzr,
`GitWorkingTree.smart_add` for git) for every layout (no bound on size or
depth), every list of named paths (any number, nested or not — the `prev_dir`
rule of `_gather_dirs_to_add` is part of the model), every `skip_file`
predicate, recurse on and off, both formats.  `f` is the layout before, `f'`
the layout after a successful call.  No hypothesis on the layout is needed:
lookups take the first entry with a given name, and the pass keeps names in
place.
-/
namespace BreezyVerif.C11
open BreezyVerif.C46 Forest

variable {c : Cfg} {f f' : Forest} {q : Path} {i : Info} {k : Forest}

theorem smartAdd_ok (h : smartAdd c f = .ok f') :
    checkNames c.fmt c.gitRefusesCtl f c.names = none ∧ f' = pass c (preOf c f) [] (rootMode c) f := by
  unfold smartAdd at h
  split at h
  · cases h
  · rename_i hn
    cases h
    exact ⟨hn, rfl⟩

/-- the call fails iff validation of the named paths fails, with that error -/
theorem smartAdd_error (e : Err) : smartAdd c f = .error e ↔ checkNames c.fmt c.gitRefusesCtl f c.names = some e := by
  unfold smartAdd
  split
  · rename_i e' he
    rw [he]
    constructor
    · intro h; cases h; rfl
    · intro h; cases h; rfl
  · rename_i he
    rw [he]
    constructor <;> intro h <;> cases h

/-- nothing but `versioned` flags changes: same entries, names, kinds, other
flags, and no path appears -/
theorem pass_shape (h : smartAdd c f = .ok f') :
    clearV f' = clearV f ∧ ∀ p, f.get p = none → f'.get p = none := by
  obtain ⟨_, rfl⟩ := smartAdd_ok h
  exact ⟨pass_clearV _ _ _ _ _, fun _ hp => pass_get_none hp⟩

/-- level-by-level characterisation: after the call the entry at `q` is the same entry
with `versioned` = `step` evaluated at the mode `modeOf` hands down along `q`
(see `add_recursive_exact` for the closed form without `modeOf`) -/
theorem add_exact (h : smartAdd c f = .ok f') (hg : f.get q = some (i, k)) :
    ∃ m' k', modeOf c (preOf c f) [] (rootMode c) f q = some m' ∧
      f'.get q = some ({ i with versioned := (step c (preOf c f) q m' i k).1 }, k') := by
  obtain ⟨_, rfl⟩ := smartAdd_ok h
  obtain ⟨m', h1, h2⟩ := pass_get (c := c) (pre := preOf c f) (here := []) (m := rootMode c) hg
  exact ⟨m', _, h1, by simpa using h2⟩

/-- already-versioned paths are left unchanged -/
theorem versioned_untouched (h : smartAdd c f = .ok f') (hg : f.get q = some (i, k))
    (hv : i.versioned = true) : ∃ k', f'.get q = some (i, k') := by
  obtain ⟨m', k', _, h2⟩ := add_exact h hg
  refine ⟨k', ?_⟩
  rw [h2, step_of_v1 c _ q m' i k (by simp [hv])]
  cases i; simp_all

theorem onPath_bzr_of_prefix (hf : c.fmt = .bzr) {n : Path} (hn : n ∈ c.names) (hq : q <+: n) :
    onPath c q i = true := by
  simp only [onPath, hf, List.any_eq_true]
  exact ⟨n, hn, List.isPrefixOf_iff_prefix.mpr hq⟩

/-- bzr: every named path and each of its parents is versioned afterwards,
whatever the ignore rules, the action's `skip_file`, helper flags or nested trees say -/
theorem add_named (h : smartAdd c f = .ok f') (hf : c.fmt = .bzr) {n : Path} (hn : n ∈ c.names)
    (hq : q <+: n) (hg : f.get q = some (i, k)) :
    ∃ k', f'.get q = some ({ i with versioned := true }, k') := by
  obtain ⟨m', k', _, h2⟩ := add_exact h hg
  refine ⟨k', ?_⟩
  rw [h2, step_of_v1 c _ q m' i k (by simp [onPath_bzr_of_prefix hf hn hq])]

/-- git: every named file or link is in the index afterwards (directories are not index
entries: see `git_dir_flag_unchanged`) -/
theorem add_named_git (h : smartAdd c f = .ok f') (hf : c.fmt = .git) (hn : q ∈ c.names)
    (hk : i.kind ≠ .dir) (hg : f.get q = some (i, k)) :
    ∃ k', f'.get q = some ({ i with versioned := true }, k') := by
  obtain ⟨m', k', _, h2⟩ := add_exact h hg
  refine ⟨k', ?_⟩
  have : onPath c q i = true := by
    simp only [onPath, hf, Bool.and_eq_true, List.contains_eq_mem, decide_eq_true_eq, bne_iff_ne, ne_eq]
    exact ⟨hn, hk⟩
  rw [h2, step_of_v1 c _ q m' i k (by simp [this])]

theorem onPath_of_named_bzr (hf : c.fmt = .bzr) (hn : c.names.contains q = true) : onPath c q i = true := by
  simp only [onPath, hf, List.any_eq_true]
  exact ⟨q, by simpa using hn, List.isPrefixOf_iff_prefix.mpr (List.prefix_refl _)⟩

/-- bzr: only named directories are scheduled, and those are on a named path -/
theorem sched_onPath (hf : c.fmt = .bzr) (hs : sched c (preOf c f).ud q i = true) : onPath c q i = true := by
  simp only [sched, hf, Bool.and_eq_true] at hs
  exact onPath_of_named_bzr hf (gathered_sub c f hs.2)

/-- one level of the recursive walk, spelled out: a child `p` of a directory
being scanned ends up versioned iff it was, or was named (bzr: or is a parent of
a named path), or is eligible: (bzr) not in the control directory, not ignored,
not skipped by the action, not a conflict helper and not a nested tree; (git) a
file or link not in the control directory, not ignored and not a conflict
helper.  Outside the scanned listings (`m = idle`) nothing but the named paths changes. -/
theorem step_flag_exact (p : Path) (m : Mode) :
    (step c (preOf c f) p m i k).1 = (i.versioned || onPath c p i || ((m == .walk) && eligible c p i k)) :=
  step_fst_closed p m i k (fun hf hs => sched_onPath hf hs)

/-- … and its own content is scanned iff it is visited — listed by its parent's
scan (not in the control directory; not ignored, bzr: unless versioned / on a
named path) or a scheduled named directory that is not a tree reference — and
opens: a real directory, not a nested tree, (bzr) not skipped, not a helper -/
theorem step_mode_exact (pre : Pre) (p : Path) (m : Mode) :
    (step c pre p m i k).2 = .walk ↔
      (m = .walk ∧ (listed c p i (i.versioned || onPath c p i) && opens c p i k) = true) ∨
        (sched c pre.ud p i && !namedTreeRef c pre p i k && opens c p i k) = true :=
  step_snd_walk p m i k

/-- `reached` is the closed form of the recursion: the mode handed down to the
listing that contains `q` is `walk` iff some proper prefix of `q` (possibly the
root) is a scheduled named directory whose content is scanned, and the scan
passes through every entry strictly between it and `q` -/
theorem walk_reaches_iff (pre : Pre) {x : Info × Forest} (hg : f.get q = some x) :
    modeOf c pre [] (rootMode c) f q = some .walk ↔
      ∃ n, n < q.length ∧ startsAt c pre f (q.take n) = true ∧
        ∀ j, n < j → j < q.length → passesAt c f (q.take j) = true := by
  rw [modeOf_walk_iff_reached hg, reached_iff]

/-- **exact, global, closed form** (`add_recursive_exact`): after a successful
call every entry is the same entry with
`versioned' = versioned ∨ named / parent of a named path ∨ (reached ∧ eligible)`,
where `reached` / `eligible` look only at the entries along the path of `q`:
there is a named directory (or the named root) above `q` that is scanned (not a
nested tree, bzr: not a conflict helper, not skipped, not a tree reference, and
not dropped by `_gather_dirs_to_add`), every entry strictly between it and `q`
is not in the control directory, not ignored (bzr: unless versioned / on a named
path), a real directory, not a nested tree, (bzr) not a helper and not skipped;
and `q` itself is not in the control directory, not ignored, not a helper, (bzr)
not skipped and not a nested tree / (git) not a directory.  Nothing else changes. -/
theorem add_recursive_exact (h : smartAdd c f = .ok f') (hg : f.get q = some (i, k)) :
    ∃ k', f'.get q = some
      ({ i with versioned := (i.versioned || onPath c q i || (reached c (preOf c f) f q && eligible c q i k)) }, k') := by
  obtain ⟨m', k', hm, h2⟩ := add_exact h hg
  refine ⟨k', ?_⟩
  rw [h2, step_flag_exact]
  have : (m' == Mode.walk) = reached c (preOf c f) f q := by
    have hw := modeOf_walk_iff_reached (c := c) (pre := preOf c f) hg
    rw [hm] at hw
    cases hr : reached c (preOf c f) f q with
    | true => simpa using hw.mpr hr
    | false =>
      cases m' with
      | idle => rfl
      | walk => rw [hw.mp rfl] at hr; cases hr
  rw [this]

/-- nothing else becomes versioned: a path that is newly versioned was named
(bzr: or is a parent of a named path), or is reached by the walk and eligible -/
theorem add_nothing_else (h : smartAdd c f = .ok f') (hg : f.get q = some (i, k))
    (hv : i.versioned = false) {i' : Info} {k' : Forest} (hg' : f'.get q = some (i', k'))
    (hv' : i'.versioned = true) :
    onPath c q i = true ∨ (reached c (preOf c f) f q = true ∧ eligible c q i k = true) := by
  obtain ⟨k'', h2⟩ := add_recursive_exact h hg
  rw [h2] at hg'
  simp only [Option.some.injEq, Prod.mk.injEq] at hg'
  rw [← hg'.1] at hv'
  simp only [hv, Bool.false_or, Bool.or_eq_true, Bool.and_eq_true] at hv'
  exact hv'

/-- git: directories are not index entries — the flag of a directory entry (in
the model: "some index entry lies below it", as read before the call) is never
touched, named or not; only files and links get flags -/
theorem git_dir_flag_unchanged (h : smartAdd c f = .ok f') (hf : c.fmt = .git) (hg : f.get q = some (i, k))
    (hk : i.kind = .dir) : ∃ k', f'.get q = some (i, k') := by
  obtain ⟨k', h2⟩ := add_recursive_exact h hg
  refine ⟨k', ?_⟩
  rw [h2]
  have h1 : onPath c q i = false := by simp [onPath, hf, hk]
  have h3 : eligible c q i k = false := by simp [eligible, hf, hk]
  simp [h1, h3]

/-- git: … and the flags of directory entries are never *read* either: the
call on the layout with all directory flags erased is the call on the layout
itself with the directory flags erased afterwards (same error, same file and
link flags).  So it does not matter that the model does not refresh them. -/
theorem git_dir_flags_irrelevant (hf : c.fmt = .git) :
    smartAdd c (eraseDirV f) = (smartAdd c f).map eraseDirV := by
  unfold smartAdd
  rw [eraseDirV_checkNames]
  cases checkNames c.fmt c.gitRefusesCtl f c.names with
  | some e => rfl
  | none =>
    simp only [Except.map]
    rw [pass_git_pre hf (pre := preOf c f) (by simp [preOf, eraseDirV_userDirs]), pass_git_erase hf]

/-- **idempotence**: repeating a successful call changes nothing (same named
paths, same options, on the layout the first call produced) -/
theorem smartAdd_idempotent (h : smartAdd c f = .ok f') : smartAdd c f' = .ok f' := by
  obtain ⟨hn, rfl⟩ := smartAdd_ok h
  unfold smartAdd
  rw [checkNames_pass, hn]
  simp only
  rw [pass_idem c (preOf c f) _ f [] (rootMode c) (rootMode c) id (preOf_pass_ud c f) (preOf_pass_conv c f)]

/-! ### witnesses -/

private def fl (n : String) (v : Bool := false) : Info :=
  { name := n, kind := .file, versioned := v, ignored := false, valid := false }
private def dr (n : String) (v : Bool := false) (valid : Bool := false) : Info :=
  { name := n, kind := .dir, versioned := v, ignored := false, valid := valid }
private def added (c : Cfg) (f : Forest) : Option (List Path) :=
  match smartAdd c f with
  | .ok f' => some ((versionedPaths f').filter fun p => !(versionedPaths f).contains p)
  | .error _ => none

/-- git trees: an explicitly named file of the control directory is put into
the index (bzr trees refuse: `ForbiddenControlFileError`) -/
theorem git_named_control_file_witness :
    let f := cons (dr ".git" false true) (cons (fl "HEAD") nil nil) (cons (fl "a") nil nil)
    added { fmt := .git, names := [[".git", "HEAD"]], recurse := true } f = some [[".git", "HEAD"]] ∧
    added { fmt := .bzr, names := [[".bzr", "README"]], recurse := true }
      (cons (dr ".bzr" false true) (cons (fl "README") nil nil) nil) = none := by
  decide

/-- bzr: `add . w/e` where `w` is a versioned directory that is also a nested
tree: `w/e` is dropped from the scan list (it lies inside the named root), the
scan of the root stops at `w`, so `w/e/y` stays unversioned — although
`add w/e` alone versions it -/
theorem bzr_named_dir_below_blocked_witness :
    let f := cons (dr ".bzr" false true) nil <|
      cons (dr "w" true) (cons (dr ".git" false true) nil (cons (dr "e") (cons (fl "y") nil nil) nil)) nil
    added { fmt := .bzr, names := [["w", "e"], []], recurse := true } f = some [["w", "e"]] ∧
    added { fmt := .bzr, names := [["w", "e"]], recurse := true } f = some [["w", "e"], ["w", "e", "y"]] := by
  decide

/-- bzr, three named directories: `_gather_dirs_to_add` compares each named
directory with the one *just before it in sorted order* only.  `add a a/n/d a/n/e`
with a nested tree `a/n`: `a/n/d` is dropped (its predecessor `a` is an ancestor)
and never scanned — the walk of `a` stops at `a/n` —, `a/n/e` is scheduled (its
predecessor `a/n/d` is not an ancestor) and scanned.  `add a a-x a/b`: all three
are scheduled (`a-x` sorts between `a` and `a/b`). -/
theorem bzr_prev_dir_witness :
    let f := cons (dr ".bzr" false true) nil <|
      cons (dr "a") (cons (dr "n") (cons (dr ".git" false true) nil <|
          cons (dr "d") (cons (fl "x") nil nil) <| cons (dr "e") (cons (fl "y") nil nil) nil)
        (cons (fl "z") nil nil)) nil
    added { fmt := .bzr, names := [["a"], ["a", "n", "d"], ["a", "n", "e"]], recurse := true } f
      = some [["a"], ["a", "n"], ["a", "n", "d"], ["a", "n", "e"], ["a", "n", "e", "y"], ["a", "z"]] ∧
    added { fmt := .bzr, names := [["a"], ["a", "n", "d"]], recurse := true } f
      = some [["a"], ["a", "n"], ["a", "n", "d"], ["a", "z"]] ∧
    gathered [["a"], ["a-x"], ["a", "b"]] ["a", "b"] = true ∧
    gathered [["a"], ["a", "b"]] ["a", "b"] = false ∧
    gathered [["a"], ["a", "b"], ["a", "c"]] ["a", "c"] = true := by
  decide

/-- bzr, order of the names: `t` is versioned and holds a `.bzr` directory that is no control
directory, so the inventory reports it as a tree reference and `add t` does nothing.  Naming an
unversioned path below it *first* converts the entry to a directory (`_convert_to_directory`),
and then the named `t` is scanned; naming it after `t` does not. -/
theorem bzr_tree_reference_order_witness :
    let f := cons (dr ".bzr" false true) nil <|
      cons (dr "t" true) (cons (dr ".bzr") nil <| cons (fl "x") nil <| cons (dr "s") (cons (fl "y") nil nil) nil) nil
    added { fmt := .bzr, names := [["t"]], recurse := true } f = some [] ∧
    added { fmt := .bzr, names := [["t", "s"], ["t"]], recurse := true } f
      = some [["t", ".bzr"], ["t", "x"], ["t", "s"], ["t", "s", "y"]] ∧
    added { fmt := .bzr, names := [["t"], ["t", "s"]], recurse := true } f = some [["t", "s"]] := by
  decide

/-! ### non-vacuity -/

private def sample : Forest :=
  cons (dr ".bzr" false true) nil <|
  cons (dr "src") (cons (fl "main.c") nil <| cons { fl "main.o" with ignored := true } nil <|
    cons { fl "x.THIS" with helper := true } nil <|
    cons (dr "nest") (cons (dr ".bzr" false true) nil (cons (fl "inner") nil nil)) <|
    cons { dr "build" with ignored := true } (cons (fl "out") nil nil) <|
    cons (dr "lib") (cons (fl "big.bin") nil (cons (fl "small") nil nil)) nil) <|
  cons (fl "README" true) nil nil

/-- every branch of the walk on one layout: ignored file and directory, helper,
nested tree are skipped; the named ignored file is versioned; the action's
`skip_file` keeps a file out (and a skipped directory is not entered) -/
example :
    added { fmt := .bzr, names := [["src"]], recurse := true } sample
      = some [["src"], ["src", "main.c"], ["src", "lib"], ["src", "lib", "big.bin"], ["src", "lib", "small"]] ∧
    added { fmt := .bzr, names := [["src"]], recurse := true, skip := [["src", "lib", "big.bin"]] } sample
      = some [["src"], ["src", "main.c"], ["src", "lib"], ["src", "lib", "small"]] ∧
    added { fmt := .bzr, names := [["src"]], recurse := true, skip := [["src", "lib"]] } sample
      = some [["src"], ["src", "main.c"]] ∧
    added { fmt := .bzr, names := [["src", "lib", "big.bin"]], recurse := true, skip := [["src", "lib", "big.bin"]] } sample
      = some [["src"], ["src", "lib"], ["src", "lib", "big.bin"]] ∧
    added { fmt := .git, names := [["src"]], recurse := true, skip := [["src", "lib", "big.bin"]] } sample
      = some [["src", "main.c"], ["src", "lib", "big.bin"], ["src", "lib", "small"]] ∧
    added { fmt := .bzr, names := [["src", "main.o"]], recurse := true } sample
      = some [["src"], ["src", "main.o"]] ∧
    added { fmt := .bzr, names := [["src"]], recurse := false } sample = some [["src"]] ∧
    added { fmt := .bzr, names := [["nope"]], recurse := true } sample = none := by
  decide

/-- the closed form on the sample: `src/lib/small` is reached from the named `src` through `lib`;
`src/nest/inner` is not (nested tree), `src/build/out` is not (ignored directory) -/
example :
    let c : Cfg := { fmt := .bzr, names := [["src"]], recurse := true }
    reached c (preOf c sample) sample ["src", "lib", "small"] = true ∧
    reached c (preOf c sample) sample ["src", "nest", "inner"] = false ∧
    reached c (preOf c sample) sample ["src", "build", "out"] = false ∧
    reached c (preOf c sample) sample ["README"] = false := by
  decide

/-- git: erasing directory flags is not the identity, and the call commutes with it -/
example :
    let f := cons (dr ".git" false true) nil <| cons (dr "d" true) (cons (fl "k" true) nil (cons (fl "new") nil nil)) nil
    eraseDirV f ≠ f ∧
      added { fmt := .git, names := [["d"]], recurse := true } (eraseDirV f) = some [["d", "new"]] ∧
      added { fmt := .git, names := [["d"]], recurse := true } f = some [["d", "new"]] := by
  decide

/-- idempotence is not vacuous: a successful call that versions something -/
example : (smartAdd { fmt := .bzr, names := [["src"]], recurse := true } sample).toOption.map (· != sample)
    = some true := by
  decide

end BreezyVerif.C11
