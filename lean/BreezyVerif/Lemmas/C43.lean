import BreezyVerif.Model.C43
/-!
C43 — helper lemmas: sequential moves on a keyed store, and the top-level
operations of the remote model as function updates.
-/
namespace BreezyVerif.C43

/-! ### a store as a function; moves -/

def upd {V : Type} (G : String → Option V) (a : String) (v : Option V) : String → Option V :=
  fun x => if x = a then v else G x

/-- apply moves `(src, dst)` one after the other -/
def moveAll {V : Type} (G : String → Option V) : List (String × String) → String → Option V
  | [] => G
  | (a, b) :: ms => moveAll (upd (upd G a none) b (G a)) ms

/-- the simultaneous reading of a list of moves -/
def movesSpec {V : Type} (G : String → Option V) (ms : List (String × String)) (x : String) : Option V :=
  match ms.find? (fun m => m.2 == x) with
  | some (a, _) => G a
  | none => if ms.any (fun m => m.1 == x) then none else G x

/-- moves with distinct sources, distinct targets and no name on both sides -/
def Independent (ms : List (String × String)) : Prop :=
  (ms.map (·.1)).Nodup ∧ (ms.map (·.2)).Nodup ∧ ∀ a ∈ ms.map (·.1), a ∉ ms.map (·.2)

theorem Independent.tail {m : String × String} {ms : List (String × String)} (h : Independent (m :: ms)) :
    Independent ms := by
  obtain ⟨h1, h2, h3⟩ := h
  simp only [List.map_cons, List.nodup_cons] at h1 h2
  refine ⟨h1.2, h2.2, ?_⟩
  intro a ha hb
  exact h3 a (by simp only [List.map_cons]; exact List.mem_cons_of_mem _ ha)
    (by simp only [List.map_cons]; exact List.mem_cons_of_mem _ hb)

/-- **sequential = simultaneous** for independent moves -/
theorem moveAll_eq_spec {V : Type} (ms : List (String × String)) (h : Independent ms)
    (G : String → Option V) (x : String) : moveAll G ms x = movesSpec G ms x := by
  induction ms generalizing G with
  | nil => simp [moveAll, movesSpec]
  | cons m ms ih =>
    obtain ⟨a, b⟩ := m
    have ht := h.tail
    obtain ⟨h1, h2, h3⟩ := h
    simp only [List.map_cons, List.nodup_cons] at h1 h2
    have hab : a ≠ b := fun e => h3 a (by simp) (by simp [e])
    have ha_dst : a ∉ ms.map (·.2) := fun m => h3 a (by simp) (by simp [m])
    have hb_src : b ∉ ms.map (·.1) := fun m => h3 b (by simp [m]) (by simp)
    simp only [moveAll]
    rw [ih ht]
    unfold movesSpec
    simp only [List.find?_cons, List.any_cons]
    by_cases hxb : x = b
    · subst hxb
      have hf : ms.find? (fun m => m.2 == x) = none := by
        rw [List.find?_eq_none]
        intro m hm hc
        simp only [beq_iff_eq] at hc
        exact h2.1 (List.mem_map.mpr ⟨m, hm, hc⟩)
      have hs : ms.any (fun m => m.1 == x) = false := by
        rw [List.any_eq_false]
        intro m hm hc
        simp only [beq_iff_eq] at hc
        exact hb_src (List.mem_map.mpr ⟨m, hm, hc⟩)
      simp [hf, hs, upd]
    · have hbx : (b == x) = false := by simp [Ne.symm hxb]
      simp only [hbx]
      cases hf : ms.find? (fun m => m.2 == x) with
      | some m' =>
        obtain ⟨a', b'⟩ := m'
        have hm' := List.mem_of_find?_eq_some hf
        have ha' : a' ≠ a := fun e => h1.1 (List.mem_map.mpr ⟨(a', b'), hm', e⟩)
        have hb' : a' ≠ b := fun e => hb_src (List.mem_map.mpr ⟨(a', b'), hm', e⟩)
        simp [upd, ha', hb']
      | none =>
        simp only
        by_cases hxa : x = a
        · subst hxa
          have hs : ms.any (fun m => m.1 == x) = false := by
            rw [List.any_eq_false]
            intro m hm hc
            simp only [beq_iff_eq] at hc
            exact h1.1 (List.mem_map.mpr ⟨m, hm, hc⟩)
          simp [hs, upd, hab]
        · have hax : (a == x) = false := by simp [Ne.symm hxa]
          simp only [hax, Bool.false_or]
          by_cases hs : ms.any (fun m => m.1 == x) = true
          · simp [hs]
          · simp [hs, upd, hxa, hxb]

/-! ### the keyed children of a directory -/

theorem kget_kput (k : Kids) (a : String) (v : Node) (b : String) :
    kget (kput k a v) b = if b = a then some v else kget k b := by
  induction k with
  | nil =>
    by_cases h : b = a
    · simp [kput, kget, h]
    · simp [kput, kget, h, Ne.symm h]
  | cons e k ih =>
    obtain ⟨n, w⟩ := e
    by_cases hn : n = a
    · subst hn
      by_cases h : b = n
      · simp [kput, kget, h]
      · simp [kput, kget, h, Ne.symm h]
    · simp only [kput, hn, if_false, kget]
      by_cases hnb : n = b
      · subst hnb
        simp [hn]
      · simp [hnb, ih]

theorem kget_kdel (k : Kids) (a b : String) :
    kget (kdel k a) b = if b = a then none else kget k b := by
  induction k with
  | nil => simp [kdel, kget]
  | cons e k ih =>
    obtain ⟨n, w⟩ := e
    unfold kdel at ih ⊢
    by_cases hn : n = a
    · subst hn
      simp only [List.filter_cons, bne_self_eq_false, Bool.false_eq_true, if_false, ih, kget]
      by_cases h : b = n
      · simp [h]
      · simp [h, Ne.symm h]
    · have : (n != a) = true := by simp [hn]
      simp only [List.filter_cons, this, if_true, kget, ih]
      by_cases hnb : n = b
      · subst hnb; simp [hn]
      · simp [hnb]

/-- a top-level rename whose source exists and whose target is free is a move -/
theorem tRename_toplevel (kids : Kids) (a b : String) (n : Node) (ha : kget kids a = some n)
    (hb : kget kids b = none) (hab : a ≠ b) :
    ∃ kids', tRename (.dir kids) [a] [b] = .ok (.dir kids') ∧
      ∀ x, kget kids' x = upd (upd (kget kids) a none) b (kget kids a) x := by
  refine ⟨kput (kdel kids a) b n, ?_, ?_⟩
  · unfold tRename
    simp only [lookup, ha]
    have : kget (kdel kids a) b = none := by rw [kget_kdel]; simp [hb]
    simp [modify, kset, bind, Except.bind, pure, Except.pure, this]
  · intro x
    rw [kget_kput, kget_kdel, ha]
    unfold upd
    by_cases h1 : x = b
    · simp [h1]
    · by_cases h2 : x = a
      · simp [h1, h2]
      · simp [h1, h2]

/-- run top-level renames one after the other; stop at the first failure -/
def seqRename (root : Node) : List (String × String) → Node × Option Err
  | [] => (root, none)
  | (a, b) :: ms =>
    match tRename root [a] [b] with
    | .ok r => seqRename r ms
    | .error e => (root, some e)

/-- **execution of independent top-level renames**: if every source exists and
every target is free, all renames succeed and the directory afterwards is the
simultaneous reading of the moves -/
theorem seqRename_spec (ms : List (String × String)) (h : Independent ms) (kids : Kids)
    (hsrc : ∀ m ∈ ms, kget kids m.1 ≠ none) (hdst : ∀ m ∈ ms, kget kids m.2 = none) :
    ∃ kids', seqRename (.dir kids) ms = (.dir kids', none) ∧
      ∀ x, kget kids' x = movesSpec (kget kids) ms x := by
  induction ms generalizing kids with
  | nil => exact ⟨kids, rfl, fun x => by simp [movesSpec]⟩
  | cons m ms ih =>
    obtain ⟨a, b⟩ := m
    have ht := h.tail
    have hind := h
    obtain ⟨h1, h2, h3⟩ := h
    simp only [List.map_cons, List.nodup_cons] at h1 h2
    have hab : a ≠ b := fun e => h3 a (by simp) (by simp [e])
    have hsa := hsrc (a, b) List.mem_cons_self
    obtain ⟨n, hn⟩ := Option.ne_none_iff_exists'.mp hsa
    obtain ⟨k1, hr, hk1⟩ := tRename_toplevel kids a b n hn (hdst (a, b) List.mem_cons_self) hab
    have hsrc1 : ∀ m ∈ ms, kget k1 m.1 ≠ none := by
      intro m hm
      rw [hk1]
      have e1 : m.1 ≠ a := fun e => h1.1 (List.mem_map.mpr ⟨m, hm, e⟩)
      have e2 : m.1 ≠ b := fun e => h3 m.1 (by simp only [List.map_cons]; exact List.mem_cons_of_mem _ (List.mem_map.mpr ⟨m, hm, rfl⟩)) (by simp [e])
      simp only [upd, e1, e2, if_false]
      exact hsrc m (List.mem_cons_of_mem _ hm)
    have hdst1 : ∀ m ∈ ms, kget k1 m.2 = none := by
      intro m hm
      rw [hk1]
      have e1 : m.2 ≠ b := fun e => h2.1 (List.mem_map.mpr ⟨m, hm, e⟩)
      have e2 : m.2 ≠ a := fun e => h3 a (by simp) (by simp only [List.map_cons]; exact List.mem_cons_of_mem _ (List.mem_map.mpr ⟨m, hm, e⟩))
      simp only [upd, e1, e2, if_false]
      exact hdst m (List.mem_cons_of_mem _ hm)
    obtain ⟨k2, hr2, hk2⟩ := ih ht k1 hsrc1 hdst1
    refine ⟨k2, ?_, ?_⟩
    · simp only [seqRename, hr, hr2]
    · intro x
      rw [hk2, ← moveAll_eq_spec ms ht, ← moveAll_eq_spec _ hind]
      simp only [moveAll]
      congr 1
      funext y
      exact hk1 y

end BreezyVerif.C43
