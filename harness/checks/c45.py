r"""C45 - end-of-line filters round-trip canonical content
(breezy/filters/eol.py: _to_lf_converter, _to_crlf_converter,
_eol_filter_stack_map; breezy/filters/__init__.py: filtered_output_bytes,
filtered_input_file, internal_size_sha_file_byname, FilteredStat,
_get_filter_stack_for; breezy/bzr/workingtree_4.py:
ContentFilterAwareSHA1Provider.sha1 / .stat_and_sha1, InterDirStateTree;
breezy/tree.py: _content_filter_stack, InterTree.file_content_matches;
breezy/bzr/inventorytree.py: InterInventoryTree._changes_from_entries;
breezy/rules.py).

Model: lean/BreezyVerif/Model/C45.lean; theorems in Props/C45.lean (all byte
strings, all settings, both platforms, abstract hash function), T1 in
Props/C45T1.lean.

T1 (every run): Generated/C45.lean is rewritten from eol.py: the table
`_eol_filter_stack_map` (sorted by key), the `_native_output` platform switch,
and the byte constants / shape of the two converters; Lean re-proves that the
regenerated table has exactly the model's entries and restates the theorems
(round trip, binary, checkout_clean, FilteredStat size) for it.

T2 (every run):
 * both converters on every byte string over {CR, LF, NUL, a} up to length L
   (quick 8, thorough 10) and on random strings over a wider alphabet;
 * every setting x both platforms x every such string up to length L2 (quick
   6, thorough 8) through eol_lookup + filtered_output_bytes /
   filtered_input_file (write, read, read-after-write); the win32 table is
   obtained by executing a private copy of eol.py with sys.platform patched;
   random chunkings of the output side; unknown keys (error kind only);
 * real dirstate trees (format 2a = WorkingTree6; the ordered-sections trees
   also 1.14 = WorkingTree5) with rules in BRZ_HOME/rules; canonical
   files are committed, the branch is checked out afresh, and for every file:
   bytes on disk (model `out`), iter_changes against the basis (model `chg`:
   reportsChange with the identity as hash), get_file_text, get_file_sha1,
   get_file_with_stat, ContentFilterAwareSHA1Provider(wt).sha1(abspath) and
   .stat_and_sha1(abspath) called directly with str and bytes paths (model
   `stat`: FilteredStat's `st_size or base.st_size` and the text that is
   hashed), and a second commit.  The trees:
     - ONE tree per platform table in which every setting applies to some
       files (sections `[name *.k<i>]` in shuffled order, a section
       `[name deep/*]` on the tree-relative path placed first, a section
       that does not set eol, and paths no section matches): the stack is
       chosen per path;
     - the same tree with the registry's "eol" entry re-registered to the
       win32 copy of eol.py (restored in a finally, _stack_cache cleared), so
       `native*` write CRLF into a real checkout;
     - ordered sections `[name *.txt]` K1, `[name *.c]` K2, `[name *]` K3
       (quick one random combination; thorough every ordered pair K1 != K2
       and the single `[name *]` rule for every setting);
     - every setting gets a file larger than 65000 bytes (the buffer size of
       stat_and_sha1 / internal_size_sha_file_byname; thorough also ~140 KB),
       canonical for the setting by construction; the oracle looks at all of
       them, the model at one per tree (thorough: all) because the driver
       needs about a second for such a line.
   Every tree has TWO revisions (the tip changes only two small files per
   setting: appended line / one byte replaced) and is checked out TWICE: a
   sprout (accelerator tree, the source's working tree format) and a
   lightweight checkout straight from the repository with the OTHER dirstate
   format (2a <-> 1.14), so every setting is seen under WorkingTree5 and
   WorkingTree6 in every tree.  "Reports no changes" is asked through EVERY
   comparison route (_api_routes / _cmd_routes; ~40 per checkout), under a
   read lock and again, on a new tree object, under a write lock:
     dirstate's own comparison   iter_changes(basis) [first, on an untouched
                                 tree], with specific_files, against the
                                 repository's tree of the basis revision,
                                 changes_from, has_changes, `status`,
                                 `status -r basis`, `status FILES`, `diff`,
                                 `diff -r basis`;
     generic comparison (g)      InterInventoryTree.iter_changes ->
                                 InterTree.file_content_matches(.., lstat):
                                 iter_changes(basis, extra_trees=[older]),
                                 with specific_files / include_unchanged,
                                 basis.iter_changes(tree) (source_stat),
                                 iter_changes(older tree) and changes_from
                                 (older tree) (exactly the changed files),
                                 file_content_matches without stats, with
                                 target_stat=lstat, reversed with source_stat,
                                 from the repository tree and from the older
                                 tree, `status -r older [FILES]`, `diff -r
                                 older`.
   Model: `cmp off` = contentMatches without size shortcut for (recorded
   text, bytes on disk), per small file and checkout, for the changed files
   also against their older text; after the re-commit some files per setting
   are REWRITTEN (other line ending, one byte replaced, bytes appended; text
   and binary) and the answers of the dirstate route and the generic routes
   are compared with `cmp off` for the recorded text and the new bytes
   (T2 only; C45 itself speaks about fresh checkouts).
 * The model batches are handed to separate driver processes through files
   and run while the implementation side of the next part is computed
   (_submit/_join); a failing / timed-out driver is an infrastructure error.

Oracle (independent of the model): for every setting and every canonical c
without NUL: read(write(c)) == c; NUL => both converters and every stack are
the identity; `exact` and paths without an eol preference are never changed;
the CRLF reader only stores canonical content; settings named crlf* check out
with CRLF only and settings named lf* check canonical text (without CR CR LF)
out without any CRLF (on the byte level and on disk in the real trees); text
already in the form the setting's name promises for the repository is not
changed by the reader; the fresh checkout (both checkouts, both formats)
reports no changes through any comparison route and against the older
revision exactly the files the tip changed, stores/reads back the committed
bytes, sha1 / stat_and_sha1 / get_file_sha1 give
sha1(c), stat_and_sha1 and get_file_with_stat report st_size == len(c), and a
commit in the fresh checkout records nothing.

Comparison decision in Lean (Model: SizeCheck / targetSize / contentMatches =
InterTree.file_content_matches with an OPTIONAL "sizes differ => contents
differ" shortcut; the code has none = SizeCheck.off): `generic_path_agrees`
(the generic route and the dirstate route take the same decision),
`checkout_clean_every_route`, `size_check_filtered_sound` (a shortcut on
FilteredStat's size never changes the decision, any file content),
`length_writeOut_eq_iff` + `size_check_raw_dirty_iff` (a shortcut on the raw
lstat size reports a fresh checkout as changed exactly when the writer
converted the text), witnesses `size_check_raw_witness` (crlf, "a\n", every
hash function, both platforms) and `size_check_raw_witness_crlf_repo`.

Finding (family "crlf-repo-cr-cr-lf"): the settings that store CRLF and write
LF lose one CR of every "\r\r\n" (classifier: reader is _to_crlf_converter,
writer is _to_lf_converter, content without NUL contains b"\r\r\n"); theorem
`crlf_repo_witness`, exact characterisation `roundtrip_iff`; on the checkout
level `checkout_dirty_iff` / `checkout_dirty_witness`.

Observation (not a violation of C45, counted as `lf-reader-noncanonical`):
_to_lf_converter is not idempotent ("\r\r\n" -> "\r\n" -> "\n"), so a commit
under an LF-in-repo setting can store non-canonical text; theorem
`toLf_not_idempotent_witness`.  The CRLF reader always stores canonical text
(`toCrlf_canonical`).

Mutants this was built against (scratch worktree, run with the family above
treated as known; each reported as VIOLATION with the concrete input shown):
 M1 _to_lf_converter: NUL test dropped              native: b'a\r\n\x00' converted
 M2 _UNIX_NL_RE = rb"\n" (lookbehind dropped)       CRLF reader stores b'a\r\r\r\n' for b'a\r\r\n'
 M3 table: "crlf" writer -> _to_lf_converter         crlf must write CRLF: b'a\r\n' -> b'a\n'
 M4 table: "lf-with-crlf-in-repo" reader -> _to_lf   must store CRLF: b'a\r\n' read as b'a\n'
 M5 filtered_output_bytes applies filter.reader      crlf must write CRLF
 M6 content.replace(b"\r\n", b"\n", 3)              crlf: b'\n\n\n\n' read back b'\n\n\n\r\n'
 M7 _to_crlf_converter tests NUL in chunks[0] only   chunks [b'a', b'\n\x00'] -> b'a\r\n\x00'
 M8b ContentFilterAwareSHA1Provider.sha1 ignores filters   fresh checkout of b'a\n\ra\r' reports a change
 M9 filtered_input_file skips the first filter       native: b'a\r\r\n' ... read back differs
 M10 win32 `_native_output = _to_lf_converter`        native (win32) must write CRLF
 second round (direct provider calls, per-path rules, win32 tree, big files):
 M8 stat_and_sha1 ignores the filters (`if False:`)  crlf: stat_and_sha1 of the checkout of b'a\n\n\n' (disk
                                                     b'a\r\n\r\n\r\n') hashes to the raw file's sha1 (+48 model mismatches)
 M11 FilteredStat drops the size override            crlf: stat_and_sha1 reports st_size 7 for canonical 4 bytes
 M12 _stack_cache keyed by the preference names only registry returns a different stack for native (+60 mismatches)
 M13 _content_filter_stack looks up [''] not [path]  crlf: checkout of sub/f042.k3 wrote b'a\n\n\n', its stack gives CRLF
 M14 filtered_input_file reads f.read(65000)          77120-byte file: reader changes text already in repository form
 M15 provider.sha1 looks up dirname(relpath)          crlf: fresh checkout of b'a\n\n\n' reports a change
 M16 get_file_with_stat forgets FilteredStat          crlf: get_file_with_stat gives st_size 7 for 4 bytes
 M17 internal_size_sha_file_byname hashes 65000 bytes 77120-byte file under exact: fresh checkout reports a change
                                                     (only the files > 65000 bytes show it)
 M18 both provider methods look up basename(relpath)  native-with-crlf-in-repo via `[name deep/*]`: reports a change
                                                     (only the tree-relative rule shows it)
 H1 harmless: dict entries reordered + reader loop as comprehension: clean, 22/22
 H2 harmless but shape-changing (`content` renamed, `find() >= 0`): extraction
    fails, Generated/C45.lean is invalidated, T1 lemmas recorded as
    t1_unproved, exhaustive T2 clean: exit 0.
 third round (comparison routes; seeded change C45b):
 S1 InterTree.file_content_matches: `source size != target_stat.st_size -> False`    crlf: fresh sprout of b'\r\ra\n\r\r'
    (seed C45b: raw lstat size instead of the canonical size)           reported as changed by 16-21 generic routes
                                                                         (the dirstate routes stay clean) + ~120 `cmp off` mismatches
 S2 the same shortcut on source_stat (get_file_size of the target            only basis.iter_changes(tree) and file_content_matches(tree ->
    != source_stat.st_size -> False)                                          basis, source_stat=lstat) report the crlf file (4 routes)
 S3 _sha1_provider: WorkingTreeFormat5 trees get no filter-aware provider    crlf: only the fresh LIGHTWEIGHT CHECKOUT (working tree format
                                                                         1.14) is reported as changed (diff, status, iter_changes(basis) ...)
 S4 _changes_from_entries: entry.text_size != target_stat.st_size            crlf: iter_changes(basis, extra_trees=[older tree]) and 14 more
    -> changed_content                                                    generic routes; file_content_matches itself stays clean
 S5 get_file_sha1's stat-cache-miss fallback hashes the raw file             crlf: 22 routes
 S6 file_content_matches: equal raw sizes -> True                            not a C45 violation (fresh checkouts stay clean): tie breaks,
                                                                         43 `cmp off` mismatches (same-size rewrite / same-size change
                                                                         since the older revision not reported), no-failing-input-found
 H4 harmless: shortcut on the FILTERED size (source.get_file_size !=
    len(target.get_file_text())) - sound by size_check_filtered_sound: clean
 H3 harmless: stat_and_sha1 tests `len(filters) > 0`, FilteredStat uses
    `base.st_size if st_size is None else st_size` (equivalent by
    `filtered_size_zero_iff`): clean.
"""
import ast
import io
import itertools
import os
import re
import sys

from vlib import env

THEOREMS = [
    "roundtrip_iff", "roundtrip_lf_repo", "roundtrip_crlf_repo_partial", "crlf_repo_witness",
    "binary_untouched", "exact_identity", "output_chunking", "toLf_toCrlf", "toCrlf_toLf_iff",
    "roundtrip_crlf_repo_fixed", "toCrlf_canonical", "toLf_not_idempotent_witness",
    "crlf_settings_write_crlf", "lf_settings_write_lf", "crlf_repo_settings_store_crlf",
    "filtered_size_zero_iff", "stat_size_canonical", "checkout_clean", "checkout_dirty_iff",
    "checkout_dirty_witness", "checkout_clean_binary", "unset_pref_exact", "prefStack_some",
    "generic_path_agrees", "checkout_clean_every_route", "size_check_filtered_sound", "length_writeOut_eq_iff",
    "size_check_raw_dirty_iff", "size_check_raw_witness", "size_check_raw_witness_crlf_repo",
]
T1_EQUALITY_THEOREMS = ["eol_map_gen_eq", "eol_map_gen_keys_nodup", "converter_consts_gen_eq",
                        "roundtrip_iff_generated", "binary_untouched_generated", "checkout_clean_generated",
                        "filtered_size_zero_iff_generated", "checkout_clean_every_route_generated"]
RULE = ("case = (platform, eol setting, content) / (converter, content) / (platform table, setting the path gets "
        "from the rules file, file content in a checked-out tree); exhaustive over {CR,LF,NUL,a}^<=L for converters "
        "and settings, random wider strings and chunkings, files > 65000 bytes in the trees; every tree file is looked "
        "at in two fresh checkouts (sprout / lightweight checkout, WorkingTree6 / WorkingTree5) through every "
        "comparison route, and a few are rewritten afterwards (recorded text, new bytes on disk); non-trivial = content "
        "contains CR or LF and the setting is neither 'exact' nor unset")
ASSUMPTIONS = [
    "the win32 variant of the table is exercised by executing a copy of eol.py with sys.platform patched to 'win32'; "
    "for the win32 tree the filter registry's 'eol' entry is re-registered to that copy for the duration",
    "'reports no changes' is modelled as sha(read(disk)) == recorded for an abstract hash function (reportsChange for "
    "the dirstate's comparison, contentMatches with SizeCheck.off for InterTree.file_content_matches; "
    "generic_path_agrees); the driver instantiates the hash with the identity; SHA-1 itself, the dirstate's stat "
    "cache and the rules globbing are exercised on real trees, not modelled",
    "which comparison route a call takes (dirstate / generic) is not modelled: every route is asked on the real trees "
    "and all must give the model's single answer",
]
TRUSTED = [
    "bytes.replace and re.sub with a fixed-width lookbehind are modelled by replCrlf / subUnixNl (tied by the exhaustive converter comparison)",
    "tools/extract.py-style AST extraction in this module (T1)",
    "which rule section a path matches is decided by the oracle's own reading of the rules file (_expected_key: "
    "`*`, `*.ext`, `dir/*`, first match wins) and compared with the real checkout, sha1 provider and iter_changes",
]

ALPHA = [b"\r", b"\n", b"\x00", b"a"]
KEYS = ["exact", "native", "lf", "crlf", "native-with-crlf-in-repo", "lf-with-crlf-in-repo",
        "crlf-with-crlf-in-repo"]
FAMILY = "crlf-repo-cr-cr-lf"
BARE_LF = re.compile(rb"(?<!\r)\n")


def hx(b):
    return b.hex() if b else "-"


# ---------------------------------------------------------------- T1
def extract(ctx):
    sys.path.insert(0, os.path.join(env.VERIF, "tools"))
    import extract as ex
    try:
        return _extract(ex)
    except Exception as e:
        # never leave a stale table behind: the T1 theorems must not check against old source
        ex.write_if_changed(os.path.join(env.VERIF, "lean/BreezyVerif/Generated/C45.lean"),
                            "-- GENERATED by harness/checks/c45.py — extraction FAILED: %s\n"
                            "import BreezyVerif.Model.C45\n" % str(e).replace("\n", " ")[:300])
        raise


def _extract(ex):
    path = os.path.join(env.REPO, "breezy/filters/eol.py")
    tree = ast.parse(open(path).read())
    conv = {"_to_lf_converter": "Conv.toLf", "_to_crlf_converter": "Conv.toCrlf"}

    def conv_name(node, allow_native=True):
        if isinstance(node, ast.Constant) and node.value is None:
            return "none"
        if isinstance(node, ast.Name) and node.id in conv:
            return "(some %s)" % conv[node.id]
        if allow_native and isinstance(node, ast.Name) and node.id == "_native_output":
            return "(some (nativeOutputGen win))"
        raise ex.ExtractError("unexpected converter %s" % ast.unparse(node))

    # _native_output platform switch
    native = None
    for n in tree.body:
        if (isinstance(n, ast.If) and len(n.body) == 1 and len(n.orelse) == 1
                and all(isinstance(s, ast.Assign) and len(s.targets) == 1
                        and isinstance(s.targets[0], ast.Name) and s.targets[0].id == "_native_output"
                        for s in (n.body[0], n.orelse[0]))):
            if ast.unparse(n.test) != "sys.platform == 'win32'":
                raise ex.ExtractError("unexpected platform test %s" % ast.unparse(n.test))
            a, b = n.body[0].value, n.orelse[0].value
            if not (isinstance(a, ast.Name) and a.id in conv and isinstance(b, ast.Name) and b.id in conv):
                raise ex.ExtractError("unexpected _native_output values")
            native = (conv[a.id], conv[b.id])
    if native is None:
        raise ex.ExtractError("_native_output switch not found")

    # the table
    val = ex.find_assign(path, "_eol_filter_stack_map")
    if not isinstance(val, ast.Dict):
        raise ex.ExtractError("_eol_filter_stack_map is not a dict literal")
    entries = []
    for k, v in zip(val.keys, val.values):
        if not (isinstance(k, ast.Constant) and isinstance(k.value, str) and isinstance(v, ast.List)):
            raise ex.ExtractError("unexpected table entry %s" % ast.unparse(k))
        fl = []
        for call in v.elts:
            if not (isinstance(call, ast.Call) and isinstance(call.func, ast.Name) and call.func.id == "ContentFilter"
                    and len(call.args) == 2 and not call.keywords):
                raise ex.ExtractError("unexpected filter %s" % ast.unparse(call))
            fl.append("⟨%s, %s⟩" % (conv_name(call.args[0]), conv_name(call.args[1])))
        entries.append((k.value, "[" + ", ".join(fl) + "]"))
    entries.sort(key=lambda e: e[0])

    # shape and constants of the converters
    def conv_parts(fname):
        f = ex.find_func(path, fname)
        body = [s for s in f.body if not (isinstance(s, ast.Expr) and isinstance(s.value, ast.Constant))]
        if len(body) != 2 or ast.unparse(body[0]) != "content = b''.join(chunks)":
            raise ex.ExtractError("%s: unexpected body" % fname)
        iff = body[1]
        if not (isinstance(iff, ast.If) and isinstance(iff.test, ast.Compare) and len(iff.test.ops) == 1
                and isinstance(iff.test.ops[0], ast.In) and isinstance(iff.test.left, ast.Constant)
                and isinstance(iff.test.left.value, bytes) and ast.unparse(iff.test.comparators[0]) == "content"
                and len(iff.body) == 1 and ast.unparse(iff.body[0]) == "return [content]"
                and len(iff.orelse) == 1 and isinstance(iff.orelse[0], ast.Return)
                and isinstance(iff.orelse[0].value, ast.List) and len(iff.orelse[0].value.elts) == 1):
            raise ex.ExtractError("%s: unexpected NUL test / returns" % fname)
        return iff.test.left.value, iff.orelse[0].value.elts[0]

    nul1, e1 = conv_parts("_to_lf_converter")
    if not (isinstance(e1, ast.Call) and ast.unparse(e1.func) == "content.replace" and len(e1.args) == 2
            and all(isinstance(a, ast.Constant) and isinstance(a.value, bytes) for a in e1.args)):
        raise ex.ExtractError("_to_lf_converter: unexpected conversion %s" % ast.unparse(e1))
    nul2, e2 = conv_parts("_to_crlf_converter")
    if not (isinstance(e2, ast.Call) and ast.unparse(e2.func) == "_UNIX_NL_RE.sub" and len(e2.args) == 2
            and isinstance(e2.args[0], ast.Constant) and isinstance(e2.args[0].value, bytes)
            and ast.unparse(e2.args[1]) == "content" and not e2.keywords):
        raise ex.ExtractError("_to_crlf_converter: unexpected conversion %s" % ast.unparse(e2))
    rx = ex.find_assign(path, "_UNIX_NL_RE")
    if not (isinstance(rx, ast.Call) and ast.unparse(rx.func) == "re.compile" and len(rx.args) == 1
            and isinstance(rx.args[0], ast.Constant) and isinstance(rx.args[0].value, bytes) and not rx.keywords):
        raise ex.ExtractError("_UNIX_NL_RE: unexpected definition")

    text = "\n".join([
        "-- GENERATED by harness/checks/c45.py from breezy/filters/eol.py — do not edit",
        "import BreezyVerif.Model.C45",
        "namespace BreezyVerif.C45",
        "def nativeOutputGen (win : Bool) : Conv := if win then %s else %s" % native,
        "def eolMapGen (win : Bool) : List (String × List Filter) :=",
        "  [ " + ",\n    ".join("(%s, %s)" % (ex.lean_str(k), v) for k, v in entries) + " ]",
        "def lfReplaceFromGen : Bytes := %s" % ex.lean_bytes(e1.args[0].value),
        "def lfReplaceToGen : Bytes := %s" % ex.lean_bytes(e1.args[1].value),
        "def crlfPatternGen : Bytes := %s" % ex.lean_bytes(rx.args[0].value),
        "def crlfReplGen : Bytes := %s" % ex.lean_bytes(e2.args[0].value),
        "def nulMarkersGen : List Bytes := [%s, %s]" % (ex.lean_bytes(nul1), ex.lean_bytes(nul2)),
        "end BreezyVerif.C45", ""])
    ex.write_if_changed(os.path.join(env.VERIF, "lean/BreezyVerif/Generated/C45.lean"), text)
    return "regenerated eolMapGen (%d entries), nativeOutputGen and converter constants from eol.py" % len(entries)


# ---------------------------------------------------------------- implementation access
_WIN = []


def _mods():
    from breezy import filters
    from breezy.filters import eol
    if not _WIN:
        import importlib.util
        path = os.path.join(env.REPO, "breezy/filters/eol.py")
        spec = importlib.util.spec_from_file_location("breezy.filters._verif_eol_win32", path)
        mod = importlib.util.module_from_spec(spec)
        old = sys.platform
        sys.platform = "win32"
        try:
            spec.loader.exec_module(mod)
        finally:
            sys.platform = old
        _WIN.append(mod)
    return filters, eol, _WIN[0]


def _write(filters, stack, chunks):
    return b"".join(filters.filtered_output_bytes(chunks, stack))


def _read(ctx, filters, stack, d):
    f, size = filters.filtered_input_file(io.BytesIO(d), stack)
    t = f.read()
    if size != len(t):
        ctx.violation(dict(kind="size", d=hx(d)), "filtered_input_file reports size %d for %d bytes" % (size, len(t)))
    return t


def case0(win, key, c):
    return dict(kind="rt", win=win, key=key, c=hx(c))


def _family(eolmod, stack, c):
    """classifier of the known failing family, computed from the concrete input"""
    if (b"\x00" not in c and b"\r\r\n" in c and len(stack) == 1
            and getattr(stack[0].reader, "__name__", "") == "_to_crlf_converter"
            and getattr(stack[0].writer, "__name__", "") == "_to_lf_converter"
            and stack[0].reader(([b"x\n"])) == [b"x\r\n"] and stack[0].writer([b"x\r\n"]) == [b"x\n"]):
        return FAMILY
    return None


def _strings(L):
    for n in range(L + 1):
        for t in itertools.product(ALPHA, repeat=n):
            yield b"".join(t)


def _rand_bytes(rng, maxlen):
    pool = [b"\r", b"\n", b"\r\n", b"\r\r\n", b"\n\r", b"a", b"b", b" ", b"\t", b"\x0b", b"\x85", b"\xff", b"\x1a"]
    n = rng.randint(0, maxlen)
    out = b"".join(rng.choice(pool) for _ in range(n))
    if rng.random() < 0.1:
        i = rng.randint(0, len(out))
        out = out[:i] + b"\x00" + out[i:]
    return out


# ---------------------------------------------------------------- model calls
# The exhaustive batches keep the Lean driver busy for several seconds each.  A batch is written to
# a file in the scratch directory and handed to its own driver process (the executable
# vlib.lean.Driver uses, same line protocol as ctx.model), which runs while the implementation side
# of the next part is computed; _join waits for the processes in order and compares on the main
# thread.  _join is always called before run / widen / replay return.  A driver that is missing,
# fails, times out or answers a different number of lines is an infrastructure error (exit 2).
_PENDING = []
_MODEL_TIMEOUT = 1200


def _submit(ctx, cases, lines, outs, post=None):
    import subprocess
    from vlib import lean
    if not lines:
        return
    if sum(len(x[3]) for x in _PENDING) + len(lines) > 500000:
        _join(ctx)      # thorough tier: keep the memory for pending batches bounded
    exe = lean.Driver(ctx.pid).exe      # InfraError if the driver is not built
    for l in lines:
        if "\n" in l:
            raise ValueError("newline inside protocol line: %r" % l[:80])
    d = env.fresh_dir("c45model")
    with open(os.path.join(d, "in"), "w") as f:
        f.write("\n".join(lines) + "\n")
    with open(os.path.join(d, "in"), "rb") as fin, open(os.path.join(d, "out"), "wb") as fout, \
            open(os.path.join(d, "err"), "wb") as ferr:
        proc = subprocess.Popen([exe], stdin=fin, stdout=fout, stderr=ferr)
    _PENDING.append((proc, d, cases, lines, outs, post))


def _join(ctx):
    import shutil
    import subprocess
    try:
        while _PENDING:
            proc, d, cases, lines, outs, post = _PENDING.pop(0)
            try:
                rc = proc.wait(timeout=_MODEL_TIMEOUT)
            except subprocess.TimeoutExpired:
                raise env.InfraError("vdriver timed out after %d s on %d lines" % (_MODEL_TIMEOUT, len(lines)))
            if rc != 0:
                with open(os.path.join(d, "err"), "rb") as f:
                    raise env.InfraError("vdriver failed (%s): %s" % (rc, f.read().decode("utf-8", "replace")[-2000:]))
            with open(os.path.join(d, "out"), "rb") as f:
                replies = f.read().decode().split("\n")
            shutil.rmtree(d, ignore_errors=True)
            if replies and replies[-1] == "":
                replies.pop()
            if len(replies) != len(lines):
                raise env.InfraError("vdriver answered %d lines for %d requests" % (len(replies), len(lines)))
            for case, line, impl, m in zip(cases, lines, outs, replies):
                ctx.traces += 1
                if post is not None:
                    m = post(line, m)
                if impl != m:
                    ctx.mismatch(case, impl[:200], m[:200], line=line[:300], tie="T2")
    finally:
        for x in _PENDING:
            try:
                x[0].kill()
            except OSError:
                pass
        del _PENDING[:]


# ---------------------------------------------------------------- parts of the run
def _converters(ctx, eolmod, contents, tag):
    cases, lines, outs = [], [], []
    for c in contents:
        lf = b"".join(eolmod._to_lf_converter([c]))
        cr = b"".join(eolmod._to_crlf_converter([c]))
        if b"\x00" in c and (lf != c or cr != c):
            ctx.violation(dict(kind="conv", c=hx(c)), "binary content converted: %r -> lf %r / crlf %r" % (c, lf, cr))
        ctx.case([tag, hx(c)], nontrivial=(b"\r" in c or b"\n" in c))
        ctx.count("conv-len:%d" % min(len(c), 12))
        if b"\x00" in c:
            ctx.count("conv-binary")
        for op, out in (("lf", lf), ("crlf", cr)):
            cases.append([tag, op, hx(c)])
            lines.append("%s %s" % (op, hx(c)))
            outs.append(hx(out))
    _submit(ctx, cases, lines, outs)


def _settings(ctx, filters, tables, contents, tag, rng=None):
    """tables: [(win, eol module)].  write / read / read-after-write for every key."""
    cases, lines, outs = [], [], []
    for win, mod in tables:
        W = "T" if win else "F"
        for key in KEYS:
            stack = mod.eol_lookup(key)
            via_registry = None
            if not win:
                via_registry = filters._get_filter_stack_for((("eol", key),))
                if via_registry != stack:
                    ctx.violation(dict(kind="registry", key=key), "registry returns a different stack for %s" % key)
            for c in contents:
                rd = _read(ctx, filters, stack, c)
                disk = _write(filters, stack, [c])
                back = _read(ctx, filters, stack, disk)
                canonical = rd == c
                binary = b"\x00" in c
                if (not canonical and getattr(stack[0].reader, "__name__", "") == "_to_crlf_converter"
                        and _read(ctx, filters, stack, rd) != rd):
                    ctx.violation(case0(win, key, c), "%s: the CRLF reader stores %r for %r, which is not canonical "
                                  "(reading it again gives %r)" % (key, rd, c, _read(ctx, filters, stack, rd)))
                case = dict(kind="rt", win=win, key=key, c=hx(c))
                if binary and (disk != c or rd != c):
                    ctx.violation(case, "binary content converted by %s: %r -> tree %r, read %r" % (key, c, disk, rd))
                if key == "exact" and (disk != c or rd != c):
                    ctx.violation(case, "'exact' changed %r" % c)
                if (not canonical and not binary and _read(ctx, filters, stack, rd) != rd):
                    ctx.count("lf-reader-noncanonical")     # observation, see docstring
                if not binary:
                    # what the setting names promise about the working tree
                    writes_crlf = key in ("crlf", "crlf-with-crlf-in-repo") or (win and key.startswith("native"))
                    writes_lf = key in ("lf", "lf-with-crlf-in-repo") or (not win and key.startswith("native"))
                    if key.endswith("-with-crlf-in-repo") and BARE_LF.search(rd):
                        ctx.violation(case, "%s must store CRLF but %r is read as %r" % (key, c, rd))
                    if writes_crlf and BARE_LF.search(disk):
                        ctx.violation(case, "%s%s must write CRLF but %r is checked out as %r"
                                      % (key, " (win32)" if win else "", c, disk))
                    if writes_lf and canonical and b"\r\r\n" not in c and b"\r\n" in disk:
                        ctx.violation(case, "%s%s must write LF but canonical %r is checked out as %r"
                                      % (key, " (win32)" if win else "", c, disk))
                if canonical and not binary and back != c:
                    fam = _family(mod, stack, c)
                    ctx.count("roundtrip-fails:" + key)
                    # every failure outside the classified family is recorded; inside it the
                    # first few per setting (all are counted in the distribution)
                    if fam is None or tag in ("fixed", "replay") or ctx.dist["roundtrip-fails:" + key] <= 8:
                        ctx.violation(case, "%s%s: canonical %r -> working tree %r -> read back %r"
                                      % (key, " (win32)" if win else "", c, disk, back), family=fam)
                ctx.case([tag, win, key, hx(c)], nontrivial=(key != "exact" and (b"\r" in c or b"\n" in c)))
                ctx.count("canonical" if canonical else "non-canonical")
                if binary:
                    ctx.count("binary")
                disk_chunked = disk
                if len(c) > 1 and (tag == "fixed" or (rng is not None and rng.random() < 0.5)):
                    if tag == "fixed":
                        cuts = [len(c) // 2]
                    else:
                        cuts = sorted(rng.randint(0, len(c)) for _ in range(rng.randint(1, 3)))
                    chunks = [c[i:j] for i, j in zip([0] + cuts, cuts + [len(c)])]
                    disk_chunked = _write(filters, stack, iter(chunks))
                    if disk_chunked != disk:
                        ctx.violation(case, "%s: output depends on chunking: %r -> %r, unchunked %r"
                                      % (key, chunks, disk_chunked, disk))
                    ctx.count("chunked")
                else:
                    chunks = [c]
                for op, arg, out in (("in", hx(c), rd),
                                     ("out", ",".join(x.hex() or "_" for x in chunks) or "-", disk_chunked),
                                     ("rt", hx(c), back)):
                    cases.append([tag, op, win, key, hx(c)])
                    lines.append("%s %s %s %s" % (op, W, key, arg))
                    outs.append(hx(out))
    _submit(ctx, cases, lines, outs)


def _unknown_keys(ctx, eolmod):
    from breezy.errors import BzrError
    cases, lines, outs = [], [], []
    for key in ("", "LF", "crlf ", "native-with-lf-in-repo", "exact-with-crlf-in-repo", "none"):
        try:
            eolmod.eol_lookup(key)
            out = "accepted"
        except BzrError:
            out = "E:BzrError"
        if " " in key or not key:
            continue    # not expressible in the line protocol; rejection checked above
        ctx.case(["unknown-key", key], nontrivial=False)
        ctx.count("malformed-key")
        cases.append(["unknown-key", key])
        lines.append("in F %s 610a" % key)
        outs.append(out)
    _submit(ctx, cases, lines, outs)


def _canonical_sample(ctx, filters, stack, L, k, rng):
    pool = [c for c in _strings(L) if b"\x00" not in c and _read(ctx, filters, stack, c) == c
            and (b"\r" in c or b"\n" in c)]
    return rng.sample(pool, min(k, len(pool)))


# ---------------------------------------------------------------- trees
BIG_MIN = 65000          # stat_and_sha1 / internal_size_sha_file_byname open with a 65000 byte buffer


def _r(b, n=60):
    """repr of a byte string for messages, shortened"""
    return repr(b) if len(b) <= n else "%r...(%d bytes, sha1 %s)" % (b[:n], len(b), _sha(b)[:12])


def _sha(b):
    import hashlib
    return hashlib.sha1(b).hexdigest()


def _cid(c):
    """canonical, small identification of a content in ctx.case"""
    return hx(c) if len(c) <= 64 else "sha1:%s:%d" % (_sha(c), len(c))


def _repo_kind(key):
    """how the setting *names* say text is stored: 'crlf', 'lf' or None (as is)"""
    if key is None or key == "exact":
        return None
    return "crlf" if key.endswith("-with-crlf-in-repo") else "lf"


def _canonicalise(key, d):
    """the oracle's own canonical form of text for a setting (no breezy code involved)"""
    kind = _repo_kind(key)
    if kind is None or b"\x00" in d:
        return d
    if kind == "crlf":
        return BARE_LF.sub(b"\r\n", d)
    while b"\r\n" in d:
        d = d.replace(b"\r\n", b"\n")
    return d


def _big_content(rng, key, size):
    """> BIG_MIN bytes of mixed lines with CR / LF patterns, canonical for `key`, no CR CR LF
    for the CRLF-in-repo settings (that family is covered by the small files)"""
    pool = [b"\r\n", b"\n", b"\r", b"\n\r", b"\r\n", b"\n", b"a line of text", b"\t", b" ", b"x", b"\xff\xfe",
            b"word", b"\x1a", b"\x85", b"The quick brown fox"]
    parts, n = [], 0
    while n < size + size // 8:
        p = rng.choice(pool)
        parts.append(p)
        n += len(p)
    c = _canonicalise(key, b"".join(parts))
    if _repo_kind(key) == "crlf":
        while b"\r\r\n" in c:
            c = c.replace(b"\r\r\n", b"\r\n")
    if len(c) < size:
        c += b"a" * (size - len(c))
    return c


class _Acc:
    """model requests of all trees of a run, sent to the driver in one batch"""

    def __init__(self):
        self.cases, self.lines, self.outs = [], [], []

    def add(self, case, line, out):
        self.cases.append(case)
        self.lines.append(line)
        self.outs.append(out)

    def flush(self, ctx):
        _submit(ctx, self.cases, self.lines, self.outs, post=_stat_reply)
        self.cases, self.lines, self.outs = [], [], []


def _stat_reply(line, m):
    """the model answers `stat` with `size text`; the implementation can only show sha1(text)"""
    if line.startswith("stat ") and " " in m:
        size, text = m.split(" ", 1)
        try:
            return "%s %s" % (size, _sha(bytes.fromhex(text) if text != "-" else b""))
        except ValueError:
            return m
    return m


def _expected_key(sections, path):
    """the oracle's own reading of the rules file: the first section whose glob matches decides
    (globs used here: `*` and `*.ext` on the base name, `dir/*` on the tree-relative path)"""
    base = path.rsplit("/", 1)[-1]
    for glob, key in sections:
        if glob.endswith("/*"):
            # directory pattern: the direct children of that directory
            if path.startswith(glob[:-1]) and "/" not in path[len(glob) - 1:]:
                return key
        elif glob == "*" or (glob.startswith("*") and base.endswith(glob[1:])):
            return key
    return None


def _rules_text(sections):
    out = []
    for glob, key in sections:
        out.append("[name %s]" % glob)
        out.append("eol = %s" % key if key is not None else "verif_other_pref = 1")
    return "\n".join(out) + "\n"


OTHER_FMT = {"2a": "1.14", "1.14": "2a"}
# routes that go through the generic tree comparison (InterInventoryTree.iter_changes ->
# _changes_from_entries -> InterTree.file_content_matches with the lstat of the working file)
# rather than the dirstate's own comparison; recorded in the evidence only
GENERIC_ROUTES = ("extra_trees", "older-tree", "reverse", "fcm", "status -r old", "diff -r old")


def _run_cmd(cls, argv):
    """run a builtin command in-process with its output captured -> (exit code, bytes)"""
    import codecs
    buf = io.BytesIO()

    class _Captured(cls):
        def _setup_outf(self):
            if self.encoding_type == "exact":
                self.outf = buf
            else:
                self.outf = codecs.getwriter("utf-8")(buf)
                self.outf.encoding = "utf-8"

    from breezy import trace
    level = trace.get_verbosity_level()
    try:
        rc = _Captured().run_argv_aliases(list(argv))
    finally:
        trace.set_verbosity_level(level)     # run_argv_aliases resets it (we run with be_quiet)
    return rc, buf.getvalue()


def _status_paths(out):
    """paths of a `status -S` listing (three flag columns, a blank, the path)"""
    return {l[4:].rstrip("/") for l in out.decode("utf-8").split("\n") if l.strip()}


_DIFF_HEAD = re.compile(rb"^=== (?:modified|added|removed|renamed) \S+ '(.*?)'", re.M)


def _diff_paths(out):
    return {m.decode("utf-8") for m in _DIFF_HEAD.findall(out)}


def _other_checkout(branch, revid, fmt):
    """a lightweight checkout straight from the repository (no accelerator tree) whose working
    tree has format `fmt` (what Branch.create_checkout(lightweight=True) does, with the
    control directory format chosen here)"""
    from breezy.controldir import format_registry
    from breezy.transport import get_transport
    t = get_transport(os.path.join(env.fresh_dir("lco"), "t"))
    t.ensure_base()
    co = format_registry.make_controldir(fmt).initialize_on_transport(t)
    from_branch = co.set_branch_reference(target_branch=branch)
    return co.create_workingtree(revid, from_branch=from_branch)


def _changed(changes):
    return {ch.path[1] if ch.path[1] is not None else ch.path[0] for ch in changes}


def _api_routes(path, names, rev_old, subset):
    """Ask a checkout, through every tree-comparison route of the API, which files differ from
    its basis / from the older revision.  -> ({route: set(paths)} against the basis revision,
    {route: set(paths)} against the older revision), each under a read lock and again, on a
    newly opened tree object, under a write lock.  Routes marked (g) take the generic
    comparison (InterInventoryTree.iter_changes / InterTree.file_content_matches), the others
    the dirstate's own; routes marked <subset> only look at the paths in `subset`."""
    from breezy import workingtree
    from breezy.tree import InterTree
    tip, old = {}, {}
    for lock in ("read", "write"):
        wt = workingtree.WorkingTree.open(path)
        with (wt.lock_read() if lock == "read" else wt.lock_write()):
            repo = wt.branch.repository
            basis = wt.basis_tree()
            t_tip = repo.revision_tree(wt.last_revision())
            t_old = repo.revision_tree(rev_old)
            with basis.lock_read(), t_tip.lock_read(), t_old.lock_read():
                L = "%s-locked " % lock
                tip[L + "iter_changes(basis)"] = _changed(wt.iter_changes(basis))
                tip[L + "iter_changes(basis, specific_files)"] = _changed(wt.iter_changes(basis, specific_files=subset))
                tip[L + "iter_changes(repository tree of the basis revision)"] = _changed(wt.iter_changes(t_tip))
                tip[L + "iter_changes(basis, extra_trees=[older tree]) (g)"] = _changed(
                    wt.iter_changes(basis, extra_trees=[t_old]))
                tip[L + "iter_changes(repository tree, specific_files, extra_trees=[basis]) (g)"] = _changed(
                    wt.iter_changes(t_tip, specific_files=subset, extra_trees=[basis]))
                tip[L + "iter_changes(basis, include_unchanged=True, extra_trees) (g)"] = {
                    ch.path[1] for ch in wt.iter_changes(basis, include_unchanged=True, extra_trees=[t_old])
                    if ch.changed_content or ch.path[0] != ch.path[1]}
                tip[L + "basis.iter_changes(working tree) (g)"] = _changed(basis.iter_changes(wt))
                d = wt.changes_from(basis)
                tip[L + "changes_from(basis)"] = {c.path[1] or c.path[0] for c in
                                                  list(d.modified) + list(d.added) + list(d.removed) + list(d.renamed)
                                                  + list(d.kind_changed)}
                tip[L + "has_changes()"] = {"<tree>"} if wt.has_changes() else set()
                old[L + "iter_changes(repository tree of the older revision) (g)"] = _changed(wt.iter_changes(t_old))
                old[L + "iter_changes(older tree, specific_files) (g) <subset>"] = _changed(
                    wt.iter_changes(t_old, specific_files=subset))
                d = wt.changes_from(t_old)
                old[L + "changes_from(older tree) (g)"] = {c.path[1] or c.path[0] for c in
                                                           list(d.modified) + list(d.added) + list(d.removed)
                                                           + list(d.renamed) + list(d.kind_changed)}
                fwd, fwd_tip, rev = InterTree.get(basis, wt), InterTree.get(t_tip, wt), InterTree.get(wt, basis)
                fwd_old = InterTree.get(t_old, wt)
                a, b, c, e, f = set(), set(), set(), set(), set()
                for n in names:
                    st = os.lstat(wt.abspath(n))
                    if not fwd.file_content_matches(n, n):
                        a.add(n)
                    if not fwd.file_content_matches(n, n, None, st):
                        b.add(n)
                    if not rev.file_content_matches(n, n, st, None):
                        c.add(n)
                    if not fwd_tip.file_content_matches(n, n, None, st):
                        e.add(n)
                    if not fwd_old.file_content_matches(n, n, None, st):
                        f.add(n)
                tip[L + "file_content_matches(basis -> tree) (g)"] = a
                tip[L + "file_content_matches(basis -> tree, target_stat=lstat) (g)"] = b
                tip[L + "file_content_matches(tree -> basis, source_stat=lstat) (g)"] = c
                tip[L + "file_content_matches(repository tree -> tree, target_stat=lstat) (g)"] = e
                old[L + "file_content_matches(older tree -> tree, target_stat=lstat) (g)"] = f
    return tip, old


def _cmd_routes(path, rev_old, rev_tip, subset):
    """the same question asked through the status and diff commands"""
    from breezy.builtins import cmd_diff, cmd_status
    tip, old = {}, {}
    r_old, r_tip = "revid:" + rev_old.decode("utf-8"), "revid:" + rev_tip.decode("utf-8")
    sub = [os.path.join(path, n) for n in subset]
    tip["status"] = _status_paths(_run_cmd(cmd_status, ["-S", path])[1])
    tip["status -r basis"] = _status_paths(_run_cmd(cmd_status, ["-S", "-r", r_tip, path])[1])
    tip["status <files>"] = _status_paths(_run_cmd(cmd_status, ["-S"] + sub)[1])
    rc, out = _run_cmd(cmd_diff, [path])
    tip["diff"] = _diff_paths(out) | ({"<exit code %s>" % rc} if rc not in (0, None) and not _diff_paths(out) else set())
    rc, out = _run_cmd(cmd_diff, ["-r", r_tip, path])
    tip["diff -r basis"] = _diff_paths(out)
    old["status -r older (g)"] = _status_paths(_run_cmd(cmd_status, ["-S", "-r", r_old, path])[1])
    old["status -r older <files> (g) <subset>"] = _status_paths(_run_cmd(cmd_status, ["-S", "-r", r_old] + sub)[1])
    rc, out = _run_cmd(cmd_diff, ["-r", r_old, path])
    old["diff -r older (g)"] = _diff_paths(out)
    return tip, old


def _flip_eol(d):
    """the same lines with the other line ending (LF <-> CRLF)"""
    return d.replace(b"\r\n", b"\n") if b"\r\n" in d else BARE_LF.sub(b"\r\n", d)


def _judge_routes(ctx, filters, mod, win, sections, fmt, files, stacks, routes, trees, old_text, subset, acc, W,
                  report_cap=3):
    """oracle: no route may report a file of a fresh checkout as changed against the revision it
    was checked out from, nor - unless the file is one of `old_text` - against the older revision.
    T2: the answer for every small file is compared with the model's contentMatches (`cmp off`),
    for the files of `old_text` also against their older text."""
    for co, tree in trees.items():
        tip, old = routes[co]
        wtfmt = fmt if co == "sprout" else OTHER_FMT[fmt]
        tree_case = dict(kind="tree", win=win, key=files[0][1], fmt=fmt, name=files[0][0],
                         sections=[list(s) for s in sections], c=hx(files[0][2]), checkout=co, wt_format=wtfmt)
        for lock in ("read", "write"):
            L = "%s-locked " % lock
            if bool(tip.pop(L + "has_changes()")) != bool(tip[L + "iter_changes(basis)"]):
                ctx.violation(dict(tree_case, route=L + "has_changes()"),
                              "fresh %s (working tree format %s): %shas_changes() is %s although iter_changes(basis) reports %s"
                              % (co, wtfmt, L, not tip[L + "iter_changes(basis)"], sorted(tip[L + "iter_changes(basis)"])[:5]))
        ctx.count("comparison-routes:%d" % (len(tip) + len(old)))
        known = set(files_n for files_n, _k, _c in files)
        for r, got in list(tip.items()) + list(old.items()):
            stray = sorted(x for x in got if x not in known)
            if stray:
                ctx.violation(dict(tree_case, route=r), "fresh %s (working tree format %s): %s reports %s, which "
                              "are not files of the tree" % (co, wtfmt, r, stray[:5]))
        reported = 0
        for name, key, c in files:
            stack = stacks[key]
            with open(os.path.join(tree.basedir, name), "rb") as f:
                disk = f.read()
            fam = _family(mod, stack, c)
            sk = "%s%s" % (key, " (win32)" if win else "")
            case = dict(kind="tree", win=win, key=key, fmt=fmt, name=name, sections=[list(s) for s in sections],
                        c=hx(c), checkout=co, wt_format=wtfmt)
            if co != "sprout":
                if disk != _write(filters, stack, [c]):
                    ctx.violation(case, "%s: the lightweight checkout (working tree format %s) of %s wrote %s for %s, its "
                                  "stack's filtered_output_bytes gives %s"
                                  % (sk, wtfmt, name, _r(disk), _r(c), _r(_write(filters, stack, [c]))))
                ctx.case(["tree-lco", wtfmt, win, key, _cid(c)],
                         nontrivial=(key not in (None, "exact") and (b"\r" in c or b"\n" in c)))
            spurious = sorted(r for r, got in tip.items() if name in got)
            if name not in old_text:
                spurious += sorted(r for r, got in old.items() if name in got)
            if spurious:
                ctx.count("spurious-change-reports")
                for r in spurious:
                    ctx.count("spurious:" + ("generic route" if "(g)" in r else "dirstate route"))
                if fam is not None or reported < report_cap:
                    reported += fam is None
                    ctx.violation(dict(case, route=spurious[0]),
                                  "%s: the fresh %s (working tree format %s) of canonical %s (on disk %s) is reported as "
                                  "changed by %s%s" % (sk, co, wtfmt, _r(c), _r(disk), spurious[0],
                                                       (" and %d more routes: %s" % (len(spurious) - 1, "; ".join(spurious[1:4])))
                                                       if len(spurious) > 1 else ""), family=fam)
            if len(c) > BIG_MIN:
                continue
            mk = key if key is not None else "-"
            acc.add(["tree", W, mk, _cid(c), co, "matches"] + spurious[:3],
                    "cmp off %s %s %s %s" % (W, mk, hx(c), hx(disk)), "F" if spurious else "T")
            if name in old_text:
                asked = [r for r in old if "<subset>" not in r or name in subset]
                hit = [r for r in asked if name in old[r]]
                impl = "F" if len(hit) == len(asked) else "T" if not hit else "F/T"
                acc.add(["tree", W, mk, _cid(c), co, "matches-older", _cid(old_text[name])]
                        + sorted(set(asked) - set(hit))[:3],
                        "cmp off %s %s %s %s" % (W, mk, hx(old_text[name]), hx(disk)), impl)
                ctx.count("older-revision-change:" + ("reported" if impl == "F" else "NOT reported"))


def _modified_files(ctx, wt, files, recorded, rev_old, acc, W, nmod):
    """T2 only (C45 speaks about fresh checkouts): some small files of the checkout are rewritten
    - the same lines with the other line ending, one byte replaced (same size), bytes appended -
    and what the dirstate route and the generic routes say is compared with the model's
    contentMatches for the recorded text and the new bytes on disk."""
    from breezy import workingtree
    from breezy.tree import InterTree
    # per setting: each kind of modification once (quick) on the first small file it changes
    by_key, mods = {}, []
    for name, key, _c in files:
        if len(recorded[name]) <= 64:
            by_key.setdefault(key, []).append(name)
    for key, cands in by_key.items():
        used = set()
        for j in range(nmod):
            kind = ("flip-eol", "flip-eol-binary", "same-size", "append-eol", "append")[j % 5]
            for name in cands:
                if name in used:
                    continue
                path = os.path.join(wt.basedir, name)
                with open(path, "rb") as f:
                    disk = f.read()
                if kind.startswith("flip-eol"):
                    d = _flip_eol(disk) if (b"\x00" in disk) == (kind == "flip-eol-binary") else disk
                elif kind == "same-size":
                    d = disk.replace(b"a", b"b", 1) if b"a" in disk else disk[:-1] + b"#" if disk else disk
                elif kind == "append-eol":
                    d = disk + (b"\r\n" if b"\r\n" in disk else b"\n")
                else:
                    d = disk + b"x"
                if d == disk:
                    continue
                used.add(name)
                with open(path, "wb") as f:
                    f.write(d)
                mods.append((name, key, kind, d))
                break
    if not mods:
        return
    wt = workingtree.WorkingTree.open(wt.basedir)
    with wt.lock_read():
        basis = wt.basis_tree()
        t_old = wt.branch.repository.revision_tree(rev_old)
        with basis.lock_read(), t_old.lock_read():
            answers = {"iter_changes(basis)": _changed(wt.iter_changes(basis)),
                       "iter_changes(basis, extra_trees) (g)": _changed(wt.iter_changes(basis, extra_trees=[t_old])),
                       "basis.iter_changes(tree) (g)": _changed(basis.iter_changes(wt))}
            fwd = InterTree.get(basis, wt)
            a, b = set(), set()
            for name, _key, _kind, _d in mods:
                if not fwd.file_content_matches(name, name):
                    a.add(name)
                if not fwd.file_content_matches(name, name, None, os.lstat(wt.abspath(name))):
                    b.add(name)
            answers["file_content_matches (g)"] = a
            answers["file_content_matches(target_stat) (g)"] = b
    untouched = {n for n, _k, _c in files} - {m[0] for m in mods}
    for name, key, kind, d in mods:
        said = sorted(r for r in answers if name in answers[r])
        impl = "F" if len(said) == len(answers) else "T" if not said else "F/T"
        mk = key if key is not None else "-"
        acc.add(["tree-modified", W, mk, kind, _cid(recorded[name]), hx(d)] + (said if impl == "F/T" else []),
                "cmp off %s %s %s %s" % (W, mk, hx(recorded[name]), hx(d)), impl)
        ctx.case(["tree-modified", W, mk, hx(recorded[name]), hx(d)], nontrivial=(key not in (None, "exact")))
        ctx.count("modified:%s:%s" % (kind, "reported" if impl == "F" else "not reported" if impl == "T" else "routes disagree"))


def _tree_part(ctx, filters, mod, win, sections, files, acc, fmt="2a", model_names=None, nmod=5, report_cap=3):
    """sections: [(glob, key | None)] written to BRZ_HOME/rules in this order (None = a section
    that does not set `eol`); files: [(path, key | None, content)] with the key the path must get
    (None = no rule matches / eol unset).  Commit the files, check the branch out afresh, look at
    the bytes on disk, iter_changes, the texts read back, ContentFilterAwareSHA1Provider.sha1 /
    .stat_and_sha1 on every file, and a second commit.  `win`: the registry's "eol" entry resolves
    to the win32 copy of eol.py for the duration.  Files larger than BIG_MIN are compared with
    the model only if their path is in `model_names` (the driver needs seconds per such line)."""
    from breezy import osutils, rules
    from breezy.bzr import workingtree_4
    W = "T" if win else "F"
    reg = filters.filter_stacks_registry
    orig_lookup = reg.get("eol")
    rp = rules.rules_path()
    os.makedirs(os.path.dirname(rp), exist_ok=True)
    with open(rp, "w") as f:
        f.write(_rules_text(sections))
    try:
        if win:
            reg.register("eol", mod.eol_lookup, override_existing=True)
        rules.reset_rules()
        filters._stack_cache.clear()
        if filters._get_filter_stack_for((("eol", "native"),)) != mod.eol_lookup("native"):
            raise env.InfraError("C45: the filter registry does not resolve 'eol' to the %s table"
                                 % ("win32" if win else "host"))
        filters._stack_cache.clear()
        stacks = {key: (mod.eol_lookup(key) if key is not None else []) for _g, key in sections}
        stacks[None] = []
        kept = []
        for path, key, c in files:
            if _expected_key(sections, path) != key:
                raise env.InfraError("C45: generator error, %s should get %r under %r" % (path, key, sections))
            rd = _read(ctx, filters, stacks[key], c)
            if rd == c:
                kept.append((path, key, c))
            elif _canonicalise(key, c) == c:
                # already in the form the setting's name promises for the repository (LF only /
                # CRLF only / anything for 'exact' and binary): the reader must not change it
                ctx.violation(dict(kind="tree", win=win, key=key, fmt=fmt, name=path, sections=[list(x) for x in sections],
                                   c=hx(c)),
                              "%s%s: the reader changes text that is already in the repository form: %s is read as %s"
                              % (key, " (win32)" if win else "", _r(c), _r(rd)))
                kept.append((path, key, c))
            else:
                ctx.count("tree-skipped-noncanonical")
        files = kept
        # a few more files that differ between the older revision and the tip (nothing else does)
        others, seen = [], {}
        for path, key, c in files:
            if len(c) > 64 or seen.get(key, 0) >= 2:
                continue
            d, base = os.path.split(path)
            opath = (d + "/" if d else "") + "o" + base[1:]
            o_old = _canonicalise(key, b"one\ntwo\n\nlast" if seen.get(key) else b"one\ntwo\n")
            o_new = (o_old[:-1] + b"T") if seen.get(key) else o_old + _canonicalise(key, b"three\n")
            if (_expected_key(sections, opath) != key or _read(ctx, filters, stacks[key], o_old) != o_old
                    or _read(ctx, filters, stacks[key], o_new) != o_new):
                raise env.InfraError("C45: generator error, %s / %r / %r under %r" % (opath, o_old, o_new, key))
            seen[key] = seen.get(key, 0) + 1
            others.append((opath, key, o_old, o_new))
        old_text = {p_: o for p_, _k, o, _n in others}
        wt = env.make_tree(fmt)
        dirs = sorted({"/".join(p.split("/")[:i]) for p, _k, _c in files for i in range(1, p.count("/") + 1)})
        for d in dirs:
            os.makedirs(os.path.join(wt.basedir, d), exist_ok=True)
        for path, _key, c in files + [(p_, k_, o) for p_, k_, o, _n in others]:
            with open(os.path.join(wt.basedir, path), "wb") as f:
                f.write(c)
        files = files + [(p_, k_, n_) for p_, k_, _o, n_ in others]
        names = [p for p, _k, _c in files]
        wt.add(dirs + names)
        rev0 = wt.commit("add")
        for path, _key, _o, c in others:
            with open(os.path.join(wt.basedir, path), "wb") as f:
                f.write(c)
        rev1 = wt.commit("change the other files")
        # two fresh checkouts: a sprout (the source tree is the accelerator tree) with the source's
        # working tree format, and a lightweight checkout straight from the repository with the
        # other dirstate format that supports content filtering
        wt2 = wt.controldir.sprout(os.path.join(env.fresh_dir("co"), "t")).open_workingtree()
        wt3 = _other_checkout(wt.branch, rev1, OTHER_FMT[fmt])
        for t_ in (wt2, wt3):
            if not t_.supports_content_filtering():
                raise env.InfraError("C45: %r does not support content filtering" % (t_._format,))
        if type(wt2._format) is type(wt3._format):
            raise env.InfraError("C45: both checkouts have working tree format %r" % (wt2._format,))
        provider = wt2._sha1_provider()
        if not isinstance(provider, workingtree_4.ContentFilterAwareSHA1Provider):
            ctx.violation(dict(kind="provider", fmt=fmt), "the working tree's SHA1 provider is %r, not "
                          "ContentFilterAwareSHA1Provider" % (provider,))
        # every route of asking "did anything change?", on both checkouts (the dirstate's own
        # comparison comes first, on a tree nothing else has looked at yet)
        subset = names[::4]
        routes = {}
        for co, t_ in (("sprout", wt2), ("lightweight checkout", wt3)):
            routes[co] = _api_routes(t_.basedir, names, rev0, subset)
        changed = routes["sprout"][0]["read-locked iter_changes(basis)"]
        provider = workingtree_4.ContentFilterAwareSHA1Provider(wt2)
        shas, stats, fstat = {}, {}, {}
        with wt2.lock_read():
            basis = wt2.basis_tree()
            with basis.lock_read():
                stored = {n: basis.get_file_text(n) for n in names}
                filerev = {n: basis.get_file_revision(n) for n in names}
            readback = {n: wt2.get_file_text(n) for n in names}
            for i, n in enumerate(names):
                ap = wt2.abspath(n)
                # the provider is handed str or bytes paths (it calls safe_unicode)
                a1 = provider.sha1(ap if i % 2 else ap.encode("utf-8"))
                st, a2 = provider.stat_and_sha1(ap.encode("utf-8") if i % 2 else ap)
                shas[n] = (a1, a2, wt2.get_file_sha1(n))
                stats[n] = st.st_size
                fobj, st2 = wt2.get_file_with_stat(n)
                try:
                    fstat[n] = (st2.st_size, fobj.read())
                finally:
                    fobj.close()
        with wt3.lock_read():
            readback3 = {n: wt3.get_file_text(n) for n in names}
        for co, t_ in (("sprout", wt2), ("lightweight checkout", wt3)):
            ct, co_ = _cmd_routes(t_.basedir, rev0, rev1, subset)
            routes[co][0].update(ct)
            routes[co][1].update(co_)
        _judge_routes(ctx, filters, mod, win, sections, fmt, files, stacks, routes, {"sprout": wt2, "lightweight checkout": wt3},
                      old_text, set(subset), acc, W, report_cap=report_cap)
        # a commit in the fresh checkout must not see any file as modified either
        wt2.commit("nothing changed")
        with wt2.lock_read():
            basis2 = wt2.basis_tree()
            with basis2.lock_read():
                recommitted = {n for n in names if basis2.get_file_revision(n) != filerev[n]}
                stored2 = {n: basis2.get_file_text(n) for n in names}
        for name, key, c in files:
            stack = stacks[key]
            case = dict(kind="tree", win=win, key=key, fmt=fmt, name=name, sections=[list(s) for s in sections],
                        c=hx(c))
            with open(os.path.join(wt2.basedir, name), "rb") as f:
                disk = f.read()
            fam = _family(mod, stack, c)
            sk = "%s%s" % (key, " (win32)" if win else "")
            want_sha = osutils.sha_string(c)
            if stored[name] != c:
                ctx.violation(case, "%s: committed canonical %s but the repository stores %s" % (sk, _r(c), _r(stored[name])))
            if disk != _write(filters, stack, [c]):
                ctx.violation(case, "%s: checkout of %s wrote %s for %s, its stack's filtered_output_bytes gives %s"
                              % (sk, name, _r(disk), _r(c), _r(_write(filters, stack, [c]))))
            if key in (None, "exact") and disk != c:
                ctx.violation(case, "%s: %s has no eol conversion but %s was checked out as %s" % (sk, name, _r(c), _r(disk)))
            if key is not None and b"\x00" not in c:
                # what the setting names promise about the bytes in the real working tree
                if (key in ("crlf", "crlf-with-crlf-in-repo") or (win and key.startswith("native"))) and BARE_LF.search(disk):
                    ctx.violation(case, "%s must write CRLF but the checkout of %s is %s on disk" % (sk, _r(c), _r(disk)))
                if ((key in ("lf", "lf-with-crlf-in-repo") or (not win and key.startswith("native")))
                        and b"\r\r\n" not in c and b"\r\n" in disk):
                    ctx.violation(case, "%s must write LF but the checkout of canonical %s is %s on disk" % (sk, _r(c), _r(disk)))
            if readback[name] != c:
                ctx.violation(case, "%s: fresh checkout reads %s back as %s" % (sk, _r(c), _r(readback[name])), family=fam)
            if readback3[name] != c:
                ctx.violation(case, "%s: fresh lightweight checkout (%s working tree) reads %s back as %s"
                              % (sk, OTHER_FMT[fmt], _r(c), _r(readback3[name])), family=fam)
            if name in recommitted or stored2[name] != c:
                ctx.violation(case, "%s: a commit in the fresh checkout of canonical %s (on disk %s) records the file "
                              "as modified (new text %s)" % (sk, _r(c), _r(disk), _r(stored2[name])), family=fam)
            a1, a2, a3 = shas[name]
            if a1 != want_sha:
                ctx.violation(case, "%s: ContentFilterAwareSHA1Provider.sha1 of the fresh checkout of canonical %s (on disk %s) "
                              "is %s, the sha1 of the canonical text is %s" % (sk, _r(c), _r(disk), a1, want_sha), family=fam)
            if a2 != want_sha:
                ctx.violation(case, "%s: ContentFilterAwareSHA1Provider.stat_and_sha1 of the fresh checkout of canonical %s "
                              "(on disk %s) hashes to %s, the sha1 of the canonical text is %s" % (sk, _r(c), _r(disk), a2, want_sha),
                              family=fam)
            if a3 != want_sha:
                ctx.violation(case, "%s: get_file_sha1 of the fresh checkout of canonical %s (on disk %s) is %s, not %s"
                              % (sk, _r(c), _r(disk), a3, want_sha), family=fam)
            if stats[name] != len(c):
                ctx.violation(case, "%s: stat_and_sha1 of the fresh checkout of canonical %s (%d bytes; on disk %s, %d bytes) "
                              "reports st_size %d" % (sk, _r(c), len(c), _r(disk), len(disk), stats[name]), family=fam)
            if fstat[name] != (len(c), c):
                ctx.violation(case, "%s: get_file_with_stat of the fresh checkout of canonical %s gives st_size %d and text %s"
                              % (sk, _r(c), fstat[name][0], _r(fstat[name][1])), family=fam)
            big = len(c) > BIG_MIN
            ctx.case(["tree", fmt, win, key, _cid(c)], nontrivial=(key not in (None, "exact") and (b"\r" in c or b"\n" in c)))
            ctx.count("tree-file:%s%s" % (key, ":win32" if win else ""))
            if big:
                ctx.count("tree-big-file")
                if len(c) > 2 * BIG_MIN:
                    ctx.count("tree-big-file>130000")
                if model_names is None or name not in model_names:
                    continue
                ctx.count("tree-big-file-modelled")
            mk = key if key is not None else "-"
            cc = ["tree", W, mk, _cid(c)]
            acc.add(cc + ["disk"], "out %s %s %s" % (W, mk, c.hex() or "_"), hx(disk))
            acc.add(cc + ["stat"], "stat %s %s %s" % (W, mk, hx(disk)), "%d %s" % (stats[name], a2.decode("ascii")))
            if not big:
                acc.add(cc + ["changed"], "chg %s %s %s" % (W, mk, hx(c)), "T" if name in changed else "F")
        _modified_files(ctx, wt2, files, stored2, rev0, acc, W, nmod)
    finally:
        if win:
            reg.register("eol", orig_lookup, override_existing=True)
        os.unlink(rp)
        rules.reset_rules()
        filters._stack_cache.clear()


def _small_contents(ctx, filters, mod, key, k, rng):
    """small files for one setting: empty, plain, binary, canonical strings with CR / LF"""
    stack = mod.eol_lookup(key) if key is not None else []
    contents = [b"", b"plain", b"bin\r\n\x00\n\r"] + _canonical_sample(ctx, filters, stack, 6, k, rng)
    if _repo_kind(key) == "crlf":
        contents.append(b"a\r\r\nb\r\n")
    return contents


def _all_keys_tree(ctx, filters, mod, win, acc, rng, k, big_sizes, fmt="2a"):
    """ONE tree in which every setting (and 'no eol preference', twice: a section that does not
    set eol, and paths no section matches) applies to some files: the stack is chosen per path.
    Every setting also gets a file larger than BIG_MIN per size in big_sizes."""
    order = list(KEYS)
    rng.shuffle(order)
    sections = [("*.k%d" % KEYS.index(key), key) for key in order]
    sections.insert(rng.randint(0, len(sections)), ("*.dat", None))
    # a rule on the tree-relative path, first in the file: it wins over the extension of the base name
    deep_key = rng.choice([x for x in KEYS if x != "exact"])
    sections.insert(0, ("deep/*", deep_key))
    kinds = [(key, ".k%d" % KEYS.index(key)) for key in KEYS] + [(None, ""), (None, ".dat")]
    files, n = [], 0
    for other in [x for x in KEYS if x != deep_key] + [None]:
        ext = ".k%d" % KEYS.index(other) if other is not None else ""
        for c in _small_contents(ctx, filters, mod, deep_key, 2, rng)[3:]:
            files.append(("deep/h%03d%s" % (n, ext), deep_key, c))
            n += 1
    for key, ext in kinds:
        contents = _small_contents(ctx, filters, mod, key, k, rng)
        if key is None:
            contents += [b"a\r\nb\n\r\r\nc\r", b"\n"]
        for c in contents:
            d = ("sub/" if n % 3 == 0 else "sub/dir two/" if n % 7 == 0 else "")
            files.append(("%sf%03d%s" % (d, n, ext), key, c))
            n += 1
    model_names = set()
    nonexact = [x for x in KEYS if x != "exact"]
    for si, size in enumerate(big_sizes):
        # model comparison (driver time!): quick one setting, thorough all settings for the first
        # size and two for the larger one; the oracle looks at every big file
        if ctx.tier == "thorough" and si == 0:
            modelled = set(KEYS) | {None}
        else:
            modelled = set(rng.sample(nonexact, 1 if ctx.tier != "thorough" else 2))
        for key, ext in kinds[:-1]:
            name = "%sbig%03d%s" % ("sub/" if n % 2 else "", n, ext)
            files.append((name, key, _big_content(rng, key, size + rng.randint(0, 5000))))
            if key in modelled:
                model_names.add(name)
            n += 1
    _tree_part(ctx, filters, mod, win, sections, files, acc, fmt=fmt, model_names=model_names, nmod=ctx.pick(5, 15))
    ctx.count("tree-format:" + fmt)


def _trees(ctx, filters, eolmod, winmod, rng):
    acc = _Acc()
    k = ctx.pick(10, 40)
    big_sizes = ctx.pick((66000,), (66000, 135000))
    nonexact = [x for x in KEYS if x != "exact"]
    # source format (= the sprout's): one of the two trees each; the lightweight checkout has the other
    fmts = rng.sample(["2a", "1.14"], 2)
    for (win, mod), fmt in zip(((False, eolmod), (True, winmod)), fmts):
        _all_keys_tree(ctx, filters, mod, win, acc, rng, k, big_sizes, fmt=fmt)
    # ordered sections: two different converting settings by extension and a catch-all last;
    # thorough: every ordered pair, and the single `[name *]` rule for every setting
    if ctx.tier == "thorough":
        combos = [(a, b, rng.choice(KEYS)) for a in nonexact for b in nonexact if a != b]
        combos += [(None, None, key) for key in KEYS]
    else:
        a, b = rng.sample(nonexact, 2)
        combos = [(a, b, rng.choice(KEYS))]
    for j, (a, b, rest_key) in enumerate(combos):
        win = bool(ctx.tier == "thorough" and j % 2)
        mod = winmod if win else eolmod
        if a is None:
            sections = [("*", rest_key)]
            kinds = [("", rest_key), (".txt", rest_key)]
        else:
            sections = [("*.txt", a), ("*.c", b), ("*", rest_key)]
            kinds = [(".txt", a), (".c", b), ("", rest_key), (".txt.c", b)]
        files, n = [], 0
        for ext, key in kinds:
            for c in _small_contents(ctx, filters, mod, key, ctx.pick(4, 6), rng):
                files.append(("%sg%03d%s" % ("d/" if n % 2 else "", n, ext), key, c))
                n += 1
        # WorkingTree5 ("1.14") is the other dirstate format with content filtering
        fmt = rng.choice(("2a", "1.14")) if ctx.tier != "thorough" else ("2a", "2a", "1.14")[j % 3]
        _tree_part(ctx, filters, mod, win, sections, files, acc, fmt=fmt, nmod=ctx.pick(5, 10))
        ctx.count("tree-ordered-sections")
        ctx.count("tree-format:" + fmt)
    acc.flush(ctx)


def run(ctx, L=None, L2=None, nrand=None):
    filters, eolmod, winmod = _mods()
    rng = ctx.rng
    L = L or ctx.pick(8, 10)
    L2 = L2 or ctx.pick(6, 8)
    nrand = nrand or ctx.pick(3000, 20000)
    tables = [(False, eolmod), (True, winmod)]

    # corpus-like fixed cases first
    fixed = [b"", b"a\r\r\n", b"\r\r\n", b"a\r\n", b"a\n", b"\r", b"\n\r", b"a\r\r\r\n\r\n", b"a\r\n\x00", b"\x00",
             b"a\n\x00", b"\x00\r\n"]
    _settings(ctx, filters, tables, fixed, "fixed")
    _unknown_keys(ctx, eolmod)

    # exhaustive
    _converters(ctx, eolmod, list(_strings(L)), "conv-exh")
    _settings(ctx, filters, tables, list(_strings(L2)), "set-exh")
    ctx.exhaustive = True
    ctx.extra["exhaustive_domain"] = dict(alphabet=["\\r", "\\n", "\\0", "a"], converters_max_len=L,
                                          settings_max_len=L2, settings=len(KEYS), platforms=2)

    # random, wider alphabet, with chunkings
    rnd = [_rand_bytes(rng, rng.choice((4, 10, 30, 64))) for _ in range(nrand)]
    _converters(ctx, eolmod, rnd, "conv-rand")
    _settings(ctx, filters, tables, rnd[: nrand // 6], "set-rand", rng=rng)

    # trees
    _trees(ctx, filters, eolmod, winmod, rng)
    _join(ctx)


def widen(ctx):
    run(ctx, L=10, L2=8, nrand=20000)


def replay(ctx, case):
    filters, eolmod, winmod = _mods()
    c = bytes.fromhex(case["c"]) if case.get("c", "-") != "-" else b""
    if case.get("kind") == "tree":
        win = bool(case.get("win", False))
        mod = winmod if win else eolmod
        key = case["key"]
        sections = [tuple(x) for x in case.get("sections") or [["*", key]]]
        name = case.get("name", "f00")
        # the file itself, after one small canonical companion per other section (the choice
        # of the stack per path / the stack cache is part of what is replayed)
        files = []
        for i, (glob, k2) in enumerate(sections):
            cname = glob.replace("*", "companion%d" % i)
            if cname != name and _expected_key(sections, cname) == k2:
                files.append((cname, k2, _canonicalise(k2, b"x\ny\r\n")))
        files.append((name, key, c))
        acc = _Acc()
        _tree_part(ctx, filters, mod, win, sections, files, acc, fmt=case.get("fmt", "2a"), model_names={name},
                   report_cap=10 ** 6)
        acc.flush(ctx)
        _join(ctx)
        return dict(case=dict(case, c=_cid(c)), content=_r(c), oracle_failures=[v["what"] for v in ctx.violations],
                    families=[v["family"] for v in ctx.violations], mismatches=[m for m in ctx.mismatches if m])
    if case.get("kind") == "conv":
        _converters(ctx, eolmod, [c], "replay")
        _join(ctx)
        return dict(case=case, content=repr(c), lf=repr(b"".join(eolmod._to_lf_converter([c]))),
                    crlf=repr(b"".join(eolmod._to_crlf_converter([c]))),
                    oracle_failures=[v["what"] for v in ctx.violations], mismatches=[m for m in ctx.mismatches if m])
    win, key = case.get("win", False), case["key"]
    mod = winmod if win else eolmod
    stack = mod.eol_lookup(key)
    rd = _read(ctx, filters, stack, c)
    disk = _write(filters, stack, [c])
    back = _read(ctx, filters, stack, disk)
    _settings(ctx, filters, [(win, mod)], [c], "replay")
    _join(ctx)
    m = ctx.model(["rt %s %s %s" % ("T" if win else "F", key, hx(c))])
    return dict(case=case, content=repr(c), canonical=(rd == c), working_tree=repr(disk), read_back=repr(back),
                impl=hx(back), model=m[0], oracle_failures=[v["what"] for v in ctx.violations],
                families=[v["family"] for v in ctx.violations])
