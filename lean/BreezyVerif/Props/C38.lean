import BreezyVerif.Model.C38
import BreezyVerif.Lemmas.C38
import BreezyVerif.Lemmas.C38B
/-
C38 — all git SHA-map cache backends answer identically.

`dict` (the in-memory backend) is the specification: three finite maps plus the
rows of `lookup_git_sha`, later adds override.  The laws of the specification
are proved for every state and every add; the agreement of the `sqlite` and
`index` policies with it is proved for every update sequence that satisfies an
explicit hypothesis (`okSeq okSqlite`, `okSeq okIndex`), and witnesses show
that the hypotheses are necessary — the unchanged code really disagrees on
sequences outside them (reported as findings by the check).
-/
namespace BreezyVerif.C38

/-! ### laws of the specification -/

/-- **lookup after add**: in every state, after any `add_object`, the added
entry is among `lookup_git_sha(sha)` and the matching id lookup returns the
added sha — whatever was recorded before (later adds override). -/
theorem dict_model_laws (st : St) (o : Op) :
    o.entry ∈ gitSha (step .dict st o) o.sha ∧
    (match o with
     | .commit r s _ _ => commitId (step .dict st o) r = some s
     | .blob s f r => blobId (step .dict st o) (f, r) = some s
     | .tree s f r => treeId .dict (step .dict st o) (f, r) = .found s) := by
  constructor
  · have hmem : o.row ∈ (step .dict st o).git := by
      cases o <;> simp only [step] <;> exact mem_upsertRow _ _
    unfold gitSha
    rw [List.mem_map]
    exact ⟨o.row, List.mem_filter.2 ⟨hmem, by simp [Op.row]⟩, rfl⟩
  · cases o with
    | commit r s t tm => simp [step, commitId, alGet_alSet_same]
    | blob s f r => simp [step, blobId, alGet_alSet_same]
    | tree s f r => simp [step, treeId, alGet_alSet_same]

/-- the override rule spelled out: the second of two adds for one key wins -/
theorem dict_override (st : St) (s1 s2 f r : B) :
    blobId (step .dict (step .dict st (.blob s1 f r)) (.blob s2 f r)) (f, r) = some s2 ∧
    ∀ t1 t2 tm1 tm2 rv, commitId (step .dict (step .dict st (.commit rv s1 t1 tm1)) (.commit rv s2 t2 tm2)) rv = some s2 := by
  refine ⟨(dict_model_laws _ (.blob s2 f r)).2, ?_⟩
  intro t1 t2 tm1 tm2 rv
  exact (dict_model_laws _ (.commit rv s2 t2 tm2)).2

/-- **frame**: an add changes nothing for other shas and other keys -/
theorem dict_frame (st : St) (o : Op) :
    (∀ sha, sha ≠ o.sha → gitSha (step .dict st o) sha = gitSha st sha) ∧
    (∀ k, (∀ s f r, o = .blob s f r → (f, r) ≠ k) → blobId (step .dict st o) k = blobId st k) ∧
    (∀ k, (∀ s f r, o = .tree s f r → (f, r) ≠ k) → treeId .dict (step .dict st o) k = treeId .dict st k) ∧
    (∀ rv, (∀ r s t tm, o = .commit r s t tm → r ≠ rv) → commitId (step .dict st o) rv = commitId st rv) := by
  refine ⟨?_, ?_, ?_, ?_⟩
  · intro sha hne
    have : (step .dict st o).git = upsertRow o.row st.git := by cases o <;> rfl
    unfold gitSha
    rw [this, upsertRow_filter_other o.row sha (fun h => hne h.symm) st.git]
  · intro k hk
    cases o with
    | blob s f r => simp only [step, blobId]; exact alGet_alSet_other _ _ _ (hk s f r rfl) _
    | commit => rfl
    | tree => rfl
  · intro k hk
    cases o with
    | tree s f r => simp only [step, treeId]; rw [alGet_alSet_other _ _ _ (hk s f r rfl) _]
    | commit => rfl
    | blob => rfl
  · intro rv hk
    cases o with
    | commit r s t tm => simp only [step, commitId]; exact alGet_alSet_other _ _ _ (hk r s t tm rfl) _
    | blob => rfl
    | tree => rfl

/-- `missing_revisions(s) = s \ known`, for every state and every argument
(duplicates and unknown ids included) -/
theorem missing_spec (st : St) (xs : List B) (x : B) :
    x ∈ missing st xs ↔ x ∈ xs ∧ x ∉ revids st := by
  unfold missing
  rw [List.mem_eraseDups, List.mem_filter]
  simp

/-! ### agreement of the backends -/

/-- **agreement (partial: under the stated hypotheses).**  For every start
state and every update sequence: if along the sequence no add meets a recorded
row with the same sha but another entry and no key is re-bound (`okIndex`), the
index policy reaches exactly the state of the specification; if no key is
re-bound and no tree sha is shared by two tree keys (`okSqlite`), so does the
sqlite policy.  Nothing is claimed outside the hypotheses — see the witnesses. -/
theorem backends_agree_partial (st : St) (ops : List Op) :
    (okSeq okIndex st ops = true → run .index st ops = run .dict st ops) ∧
    (okSeq okSqlite st ops = true → run .sqlite st ops = run .dict st ops) :=
  ⟨run_eq_of_okSeq .index okIndex step_index_eq_dict ops st,
   run_eq_of_okSeq .sqlite okSqlite step_sqlite_eq_dict ops st⟩

/-- consequently every query has the same answer (the index backend abstains
from `lookup_tree_id`) -/
theorem agree_queries_partial (b : Backend) (st : St) (ops : List Op)
    (h : (b = .index ∧ okSeq okIndex st ops = true) ∨ (b = .sqlite ∧ okSeq okSqlite st ops = true)) :
    (∀ sha, gitSha (run b st ops) sha = gitSha (run .dict st ops) sha) ∧
    (∀ k, blobId (run b st ops) k = blobId (run .dict st ops) k) ∧
    (∀ r, commitId (run b st ops) r = commitId (run .dict st ops) r) ∧
    revids (run b st ops) = revids (run .dict st ops) ∧
    sha1s (run b st ops) = sha1s (run .dict st ops) ∧
    (∀ xs, missing (run b st ops) xs = missing (run .dict st ops) xs) ∧
    (∀ k, b = .sqlite → treeId b (run b st ops) k = treeId .dict (run .dict st ops) k) := by
  have heq : run b st ops = run .dict st ops := by
    rcases h with ⟨rfl, h⟩ | ⟨rfl, h⟩
    · exact (backends_agree_partial st ops).1 h
    · exact (backends_agree_partial st ops).2 h
  rw [heq]
  refine ⟨fun _ => rfl, fun _ => rfl, fun _ => rfl, rfl, rfl, fun _ => rfl, ?_⟩
  intro k hb
  subst hb
  rfl

/-- a sequence taken from a native history (a copied text, then a second
revision with an unchanged root tree) satisfies `okSqlite` up to the second
root tree and `okIndex` up to the copy -/
def exOps : List Op :=
  [.blob [1] [10] [20], .tree [2] [11] [20], .commit [20] [3] [2] none]

example : okSeq okIndex St.empty exOps = true ∧ okSeq okSqlite St.empty exOps = true := by decide

example : okSeq okSqlite St.empty (exOps ++ [.blob [1] [12] [20]]) = true ∧
    okSeq okIndex St.empty (exOps ++ [.blob [1] [12] [20]]) = false := by decide

/-- **witness**: the same blob under two file ids — the index policy answers
`lookup_git_sha` with the first entry only -/
theorem index_shared_sha_witness :
    gitSha (run .index St.empty [.blob [1] [10] [20], .blob [1] [12] [20]]) [1] = [.blob [10] [20]] ∧
    gitSha (run .dict St.empty [.blob [1] [10] [20], .blob [1] [12] [20]]) [1] = [.blob [10] [20], .blob [12] [20]] ∧
    gitSha (run .sqlite St.empty [.blob [1] [10] [20], .blob [1] [12] [20]]) [1] = [.blob [10] [20], .blob [12] [20]] := by
  decide

/-- **witness**: an unchanged root tree recorded for a second revision — the
sqlite policy forgets the first key -/
theorem sqlite_tree_sha_witness :
    treeId .sqlite (run .sqlite St.empty [.tree [2] [11] [20], .tree [2] [11] [21]]) ([11], [20]) = .missing ∧
    treeId .dict (run .dict St.empty [.tree [2] [11] [20], .tree [2] [11] [21]]) ([11], [20]) = .found [2] ∧
    gitSha (run .sqlite St.empty [.tree [2] [11] [20], .tree [2] [11] [21]]) [2] = [.tree [11] [21]] ∧
    gitSha (run .dict St.empty [.tree [2] [11] [20], .tree [2] [11] [21]]) [2] = [.tree [11] [20], .tree [11] [21]] := by
  decide

/-! ### persistence of the index backend -/

/-- `_add_node` then `_get_entry`: the key is bound afterwards — to the value
it already had, else to the new one -/
theorem addNode_get (s s' : IdxStore) (k : IKey) (v : B) (h : s.addNode k v = some s') :
    s'.get k = some (match s.get k with | some v' => v' | none => v) := by
  unfold IdxStore.addNode at h
  cases hb : s.builder with
  | none => simp [hb] at h
  | some b =>
    simp only [hb] at h
    cases hg : s.get k with
    | some v' =>
      simp only [hg, Option.some.injEq] at h
      subst h
      simp [hg]
    | none =>
      simp only [hg, Option.some.injEq] at h
      subst h
      unfold IdxStore.get at hg ⊢
      cases hf : filesGet s.files k with
      | some x => simp [hf] at hg
      | none =>
        simp only [hf, hb] at hg
        simp only [hf, layerGet_append, hg]
        simp [layerGet]

/-- the invariant behind reopen: `_add_node` never makes a key occur twice in
the store (files and builder together) -/
theorem addNode_keeps_keys_unique (s s' : IdxStore) (k : IKey) (v : B)
    (hn : s.allKeys.Nodup) (h : s.addNode k v = some s') : s'.allKeys.Nodup := by
  unfold IdxStore.addNode at h
  cases hb : s.builder with
  | none => simp [hb] at h
  | some b =>
    simp only [hb] at h
    cases hg : s.get k with
    | some v' =>
      simp only [hg, Option.some.injEq] at h
      subst h
      exact hn
    | none =>
      simp only [hg, Option.some.injEq] at h
      subst h
      unfold IdxStore.get at hg
      cases hf : filesGet s.files k with
      | some x => simp [hf] at hg
      | none =>
        simp only [hf, hb] at hg
        have h1 : k ∉ keysOf s.files := by
          rw [filesGet_eq_flat] at hf
          exact layerGet_none _ k hf
        have h2 : k ∉ b.map (·.1) := layerGet_none b k hg
        simp only [IdxStore.allKeys, hb] at hn ⊢
        simp only [List.map_append, List.map_cons, List.map_nil]
        rw [← List.append_assoc]
        rw [List.nodup_append]
        refine ⟨hn, by simp, ?_⟩
        intro a ha b' hb'
        simp only [List.mem_singleton] at hb'
        subst hb'
        intro he
        subst he
        rcases List.mem_append.1 ha with ha | ha
        · exact h1 ha
        · exact h2 ha

/-- **reopen.**  After the write group is committed, a new `IndexGitShaMap` on
the same directory — whatever order the directory listing gives the index
files in — answers every `_get_entry` as the live one did, provided no key
occurs twice (the invariant `_add_node` maintains). -/
theorem reopen_id (s : IdxStore) (hb : s.builder = none) (hn : s.allKeys.Nodup)
    (files' : List Layer) (hp : s.files.Perm files') (k : IKey) :
    (IdxStore.reopen files').get k = s.get k := by
  unfold IdxStore.get IdxStore.reopen
  simp only [hb]
  have hflat : (s.files.flatMap id).Perm (files'.flatMap id) := hp.flatMap_right id
  have hn' : ((s.files.flatMap id).map (·.1)).Nodup := by
    simpa [IdxStore.allKeys, hb, keysOf] using hn
  rw [filesGet_eq_flat, filesGet_eq_flat, layerGet_perm _ _ hflat hn' k]

/-- committing the write group does not change any answer -/
theorem commit_get (s s' : IdxStore) (h : s.commitWriteGroup = some s') (hn : s.allKeys.Nodup) (k : IKey) :
    s'.get k = s.get k := by
  unfold IdxStore.commitWriteGroup at h
  cases hb : s.builder with
  | none => simp [hb] at h
  | some b =>
    simp only [hb, Option.some.injEq] at h
    subst h
    have hn1 : ((s.files.flatMap id ++ b).map (·.1)).Nodup := by
      simpa [IdxStore.allKeys, hb, keysOf] using hn
    have hperm : (s.files.flatMap id ++ b).Perm (b ++ s.files.flatMap id) := List.perm_append_comm
    have := layerGet_perm _ _ hperm hn1 k
    unfold IdxStore.get
    simp only [hb, filesGet, filesGet_eq_flat]
    rw [layerGet_append] at this
    rw [layerGet_append] at this
    generalize layerGet b k = x at this ⊢
    generalize layerGet (s.files.flatMap id) k = y at this ⊢
    cases x <;> cases y <;> simp at this ⊢ <;> exact this

/-- with a file name not used before, committing a write group keeps every
earlier file (this is what `commitWriteGroup` above assumes) -/
theorem commitNamed_fresh (files : NamedFiles) (name : B) (b : Layer)
    (h : ∀ f ∈ files, f.1 ≠ name) : commitNamed files name b = (name, b) :: files := by
  unfold commitNamed
  congr 1
  rw [List.filter_eq_self]
  intro f hf
  simpa using h f hf

/-- **witness**: a write group that feeds the name hash with the same shas as an
earlier one (the same revision converted again: every node already exists, the
builder stays empty) replaces the earlier file — the entries are gone after
reopen -/
theorem name_clash_witness :
    namedGet [([7], [(([1], [2], [3]), [9])])] ([1], [2], [3]) = some [9] ∧
    namedGet (commitNamed [([7], [(([1], [2], [3]), [9])])] [7] []) ([1], [2], [3]) = none := by
  decide

/-- non-vacuity: two committed files and the hypotheses of `reopen_id` -/
def exStore : IdxStore :=
  { files := [[(([1], [2], [3]), [9])], [(([4], [2], [3]), [8]), (([5], [2], [3]), [7])]], builder := none }

example : exStore.allKeys.Nodup := by decide

example : (IdxStore.reopen exStore.files.reverse).get ([4], [2], [3]) = some [8] := by decide

/-! ### the index backend's files refine its policy; reopen at the level of the queries -/

def exGroups : List (List Op) :=
  [[.blob [1] [10] [20], .tree [2] [11] [20], .commit [20] (List.replicate 40 7) [2] none],
   [.blob [1] [12] [21], .commit [21] (List.replicate 40 8) [2] (some [5])]]

/-- **write-group scripts.**  Starting from an empty directory, ANY sequence of
write groups (start_write_group, every `add_object` of every session through
`IndexCacheUpdater`, commit_write_group) succeeds, leaves no builder open and
never stores a key twice — the hypotheses of `reopen_id` always hold — and the
store answers the three kinds of keys exactly as the flat index policy
(`run .index`, the model the correspondence check compares with the real
backend) does: the `git` node of a sha is the encoded FIRST entry recorded for
it, the `blob` node is `lookup_blob_id`, the first 40 bytes of the `commit` node
are `lookup_commit`. -/
theorem index_store_refines (gs : List (List Op)) (hw : ∀ g ∈ gs, ∀ o ∈ g, o.wf = true) :
    ∃ s, IdxStore.empty.runGroups gs = some s ∧ s.builder = none ∧ s.allKeys.Nodup ∧
      (∀ sha, s.get (gitKey sha) = (firstRow (run .index St.empty gs.flatten) sha).map (fun r => encEntry r.2)) ∧
      (∀ f r, s.get (blobKey f r) = blobId (run .index St.empty gs.flatten) (f, r)) ∧
      (∀ r, (s.get (commitKey r)).map commitShaOf = commitId (run .index St.empty gs.flatten) r) := by
  obtain ⟨s, h, hb, hn, hR⟩ := runGroups_inv IdxStore.empty St.empty gs hw rfl (by simp [IdxStore.empty, IdxStore.allKeys, keysOf])
    refines_empty
  exact ⟨s, h, hb, hn, hR.git, hR.blob, hR.commit⟩

/-- **reopen, at the level of the queries.**  After any sequence of write
groups, a new `IndexGitShaMap` on the directory — with the index files in ANY
order — gives `lookup_git_sha` / `lookup_blob_id` / `lookup_commit` the same
node values as before, namely those of the flat policy model. -/
theorem index_reopen_answers (gs : List (List Op)) (hw : ∀ g ∈ gs, ∀ o ∈ g, o.wf = true) :
    ∃ s, IdxStore.empty.runGroups gs = some s ∧
      ∀ files', s.files.Perm files' →
        (∀ sha, (IdxStore.reopen files').get (gitKey sha) =
          (firstRow (run .index St.empty gs.flatten) sha).map (fun r => encEntry r.2)) ∧
        (∀ f r, (IdxStore.reopen files').get (blobKey f r) = blobId (run .index St.empty gs.flatten) (f, r)) ∧
        (∀ r, ((IdxStore.reopen files').get (commitKey r)).map commitShaOf =
          commitId (run .index St.empty gs.flatten) r) := by
  obtain ⟨s, h, hb, hn, hg, hbl, hc⟩ := index_store_refines gs hw
  refine ⟨s, h, fun files' hp => ⟨fun sha => ?_, fun f r => ?_, fun r => ?_⟩⟩
  · rw [reopen_id s hb hn files' hp]; exact hg sha
  · rw [reopen_id s hb hn files' hp]; exact hbl f r
  · rw [reopen_id s hb hn files' hp]; exact hc r

example : (∀ g ∈ exGroups, ∀ o ∈ g, o.wf = true) ∧
    ((IdxStore.empty.runGroups exGroups).map (fun s => (s.files.length, s.get (gitKey [1]), s.get (blobKey [12] [21]))))
      = some (2, some (encEntry (.blob [10] [20])), some [1]) := by decide

/-- in every state the index policy reaches, `lookup_git_sha` has at most the one
entry of the first row recorded for the sha (so the `git` node above is the whole answer) -/
theorem index_gitSha_first (ops : List Op) (sha : B) :
    gitSha (run .index St.empty ops) sha = ((firstRow (run .index St.empty ops) sha).toList).map (·.2) := by
  unfold gitSha firstRow
  rw [filter_of_nodup_keys _ sha (run_index_nodup St.empty ops (by simp [St.empty]))]

/-! ### exactness of the agreement condition (converses) -/

/-- the first add that meets a recorded row with the same sha but another entry
makes `lookup_git_sha` of that sha differ between the index policy and the
specification, whatever was added before (as long as the earlier adds satisfied
`okIndex`): the clause of `okIndex` about shas is necessary, not only sufficient -/
theorem index_shared_sha_differs (pre : List Op) (o : Op) (hpre : okSeq okIndex St.empty pre = true)
    (r : Row) (hr : r ∈ (run .dict St.empty pre).git) (hs : r.1 = o.sha) (hne : r ≠ o.row) :
    gitSha (run .index St.empty (pre ++ [o])) o.sha ≠ gitSha (run .dict St.empty (pre ++ [o])) o.sha := by
  have heq : run .index St.empty pre = run .dict St.empty pre := (backends_agree_partial St.empty pre).1 hpre
  have hnd : ((run .dict St.empty pre).git.map (·.1)).Nodup := by
    rw [← heq]; exact run_index_nodup St.empty pre (by simp [St.empty])
  have hrun : ∀ b, run b St.empty (pre ++ [o]) = step b (run b St.empty pre) o := by
    intro b; simp [run, List.foldl_append]
  rw [hrun, hrun, heq]
  -- dict: the new entry is there
  have hd := (dict_model_laws (run .dict St.empty pre) o).1
  -- index: the rows are unchanged, and hold only r for this sha
  have hany : (run .dict St.empty pre).git.any (fun x => x.1 == o.row.1) = true := by
    rw [List.any_eq_true]; exact ⟨r, hr, by simp [hs, Op.row]⟩
  have hgit : (step .index (run .dict St.empty pre) o).git = (run .dict St.empty pre).git := by
    rw [step_index_git]; simp [addIfNoSha, hany]
  intro hcontra
  rw [← hcontra] at hd
  unfold gitSha at hd
  rw [hgit, List.mem_map] at hd
  obtain ⟨x, hx, hxe⟩ := hd
  rw [List.mem_filter] at hx
  -- x has sha o.sha, as r does; shas are unique, so x = r
  have hxr : x = r := by
    have h1 : x.1 = r.1 := by rw [hs]; simpa using hx.2
    exact nodup_key_eq _ hnd x r hx.1 hr h1
  apply hne
  rw [← hxr]
  cases x with
  | mk xs xe =>
    simp only at hxe
    have : xs = o.sha := by simpa using hx.2
    simp [Op.row, this, hxe]
where
  nodup_key_eq : ∀ (l : List Row), (l.map (·.1)).Nodup → ∀ x y, x ∈ l → y ∈ l → x.1 = y.1 → x = y
    | [], _, _, _, hx, _, _ => by simp at hx
    | z :: zs, hn, x, y, hx, hy, hk => by
      simp only [List.map_cons, List.nodup_cons] at hn
      simp only [List.mem_cons] at hx hy
      rcases hx with rfl | hx <;> rcases hy with rfl | hy
      · rfl
      · exact absurd (List.mem_map.2 ⟨y, hy, hk.symm⟩) hn.1
      · exact absurd (List.mem_map.2 ⟨x, hx, hk⟩) hn.1
      · exact nodup_key_eq zs hn.2 x y hx hy hk

/-- likewise the clause about keys: re-binding a blob key or a revision id to
another sha makes `lookup_blob_id` / `lookup_commit` differ (the index keeps the
first binding, the specification the last) -/
theorem index_rebound_key_differs (pre : List Op) (hpre : okSeq okIndex St.empty pre = true) :
    (∀ s s' f r, blobId (run .dict St.empty pre) (f, r) = some s' → s' ≠ s →
      blobId (run .index St.empty (pre ++ [.blob s f r])) (f, r) ≠
        blobId (run .dict St.empty (pre ++ [.blob s f r])) (f, r)) ∧
    (∀ s s' rv t tm, commitId (run .dict St.empty pre) rv = some s' → s' ≠ s →
      commitId (run .index St.empty (pre ++ [.commit rv s t tm])) rv ≠
        commitId (run .dict St.empty (pre ++ [.commit rv s t tm])) rv) := by
  have heq : run .index St.empty pre = run .dict St.empty pre := (backends_agree_partial St.empty pre).1 hpre
  have hrun : ∀ b o, run b St.empty (pre ++ [o]) = step b (run b St.empty pre) o := by
    intro b o; simp [run, List.foldl_append]
  constructor
  · intro s s' f r hget hne
    rw [hrun, hrun, heq]
    simp only [step, blobId] at hget ⊢
    rw [alGet_alSet_same, alGet_alAddNew]
    simp [hget, hne]
  · intro s s' rv t tm hget hne
    rw [hrun, hrun, heq]
    simp only [step, commitId] at hget ⊢
    rw [alGet_alSet_same, alGet_alAddNew]
    simp [hget, hne]

example : okSeq okIndex St.empty exOps = true ∧
    ([1], Entry.blob [10] [20]) ∈ (run .dict St.empty exOps).git ∧
    ([1], Entry.blob [10] [20]) ≠ (Op.blob [1] [12] [20]).row := by decide

/-- for the sqlite policy: after any adds satisfying `okSqlite`, the first tree
add whose sha is already recorded for another tree key makes `lookup_tree_id` of
that older key fail, while the specification still answers it: the tree-sha
clause of `okSqlite` is necessary -/
theorem sqlite_shared_tree_sha_differs (pre : List Op) (hpre : okSeq okSqlite St.empty pre = true)
    (s f r f' r' : B) (hk : (f', r') ≠ (f, r))
    (hold : treeId .dict (run .dict St.empty pre) (f', r') = .found s) :
    treeId .sqlite (run .sqlite St.empty (pre ++ [.tree s f r])) (f', r') = .missing ∧
      treeId .dict (run .dict St.empty (pre ++ [.tree s f r])) (f', r') = .found s := by
  have heq : run .sqlite St.empty pre = run .dict St.empty pre := (backends_agree_partial St.empty pre).2 hpre
  have hrun : ∀ b, run b St.empty (pre ++ [.tree s f r]) = step b (run b St.empty pre) (.tree s f r) := by
    intro b; simp [run, List.foldl_append]
  have hn : ((run .dict St.empty pre).trees.map (·.1)).Nodup := run_dict_trees_nodup St.empty pre (by simp [St.empty])
  have hget : alGet (run .dict St.empty pre).trees (f', r') = some s := by
    simp only [treeId] at hold
    cases h : alGet (run .dict St.empty pre).trees (f', r') with
    | none => simp [h] at hold
    | some x => simp only [h, TreeAns.found.injEq] at hold; rw [hold]
  rw [hrun, hrun, heq]
  generalize run .dict St.empty pre = st at hn hget
  have hfun := alGet_entries_of_nodup st.trees (f', r') s hn hget
  constructor
  · simp only [treeId, step]
    have : alGet (treesReplace s (f, r) st.trees) (f', r') = none := by
      apply alGet_none_of_no_key
      intro e he
      unfold treesReplace at he
      split at he
      · rw [List.mem_filter] at he
        have h2 := he.2
        simp only [decide_eq_true_eq] at h2
        rcases h2 with h | h
        · rw [h]; exact fun e' => hk e'.symm
        · exact fun e' => absurd (hfun e he.1 e') h.2
      · rw [List.mem_append] at he
        rcases he with he | he
        · rw [List.mem_filter] at he
          have h2 := he.2
          simp only [decide_eq_true_eq] at h2
          exact fun e' => absurd (hfun e he.1 e') h2.2
        · simp only [List.mem_singleton] at he
          rw [he]; exact fun e' => hk e'.symm
    rw [this]
  · simp only [treeId, step]
    rw [alGet_alSet_other _ _ _ (fun e => hk e.symm)]
    simp [hget]

example : okSeq okSqlite St.empty [.tree [2] [11] [20]] = true ∧
    treeId .dict (run .dict St.empty [.tree [2] [11] [20]]) ([11], [20]) = .found [2] ∧
    (([11], [20]) : FKey) ≠ ([11], [21]) := by decide

/-! ### the in-memory backend keeps blob and tree ids in ONE dict -/

/-- `DictGitShaMap.lookup_blob_id` / `lookup_tree_id` read the shared
`_by_fileid` (`sharedId`).  For a key no tree add uses, `lookup_blob_id` is the
specification's blob map; for a key no blob add uses, `lookup_tree_id` is the
specification's tree map — for every update sequence.  (Native histories never
use one `(fileid, revision)` for both kinds.) -/
theorem dict_shared_lookup_partial (ops : List Op) (k : FKey) :
    ((∀ o ∈ ops, isTreeOp o = true → o.fkey ≠ some k) → sharedId ops k = blobId (run .dict St.empty ops) k) ∧
    ((∀ o ∈ ops, (∃ s f r, o = .blob s f r) → o.fkey ≠ some k) →
      (match sharedId ops k with | some s => TreeAns.found s | none => TreeAns.missing) =
        treeId .dict (run .dict St.empty ops) k) := by
  constructor
  · intro h
    rw [sharedId_no_tree ops k h, blobId_run_dict]
    cases lastBlob ops k <;> rfl
  · intro h
    rw [sharedId_no_blob ops k h]
    simp only [treeId, treeGet_run_dict]
    cases lastTree ops k <;> rfl

example : (∀ o ∈ exOps, isTreeOp o = true → o.fkey ≠ some ([10], [20])) ∧
    sharedId exOps ([10], [20]) = some [1] := by decide

/-- **witness**: a cross-kind query.  After recording a tree id the in-memory
backend answers `lookup_blob_id` of that key with the tree's sha; the
specification, the sqlite policy and the index policy all say KeyError -/
theorem dict_cross_kind_witness :
    sharedId [.tree [2] [11] [20]] ([11], [20]) = some [2] ∧
    blobId (run .dict St.empty [.tree [2] [11] [20]]) ([11], [20]) = none ∧
    blobId (run .sqlite St.empty [.tree [2] [11] [20]]) ([11], [20]) = none ∧
    blobId (run .index St.empty [.tree [2] [11] [20]]) ([11], [20]) = none := by decide

end BreezyVerif.C38
