#!/venv/bin/python
"""iter_changes(specific_files=...) of InterInventoryTree / InterCHKRevisionTree never terminates.

  REPO=/repo /venv/bin/python repro-never-terminates.py      (exit 1 = defect present, 0 = fixed)

Variant A (`brz diff -r1..2 b/x/f`, `brz status -r1..2 b/x/f`, `brz log -v b/x/f` ... hang and
eat memory: the generator yields the record of `o` for ever):
   rev1:  a/  a/x/  b/  b/x        (o = b/x)
   rev2:  a -> b,  b -> c,  b/x (o) -> b/x/y,  new file b/x/f      (x = a/x is unchanged, now at b/x)
Variant B (hangs silently, nothing is yielded any more):
   rev1:  g/  g/n/  g/n/n/
   rev2:  new directory at g/, old g moved to g/n   (so g/n -> g/n/n, g/n/n -> g/n/n/n, both unchanged), new g/n/n/f
_handle_precise_ids looks up the source entry sitting at the target path of every needed parent
and adds it to the work set *after* removing the ids it has dealt with; that entry's target parent
is the needed parent again, which is unchanged and therefore never remembered.
"""
import itertools, os, shutil, sys, tempfile
repo = os.environ.get("REPO", "/repo")
sys.path.insert(0, repo)
home = tempfile.mkdtemp(prefix="c10-repro-", dir="/var/tmp")
os.environ.update(HOME=home, BRZ_HOME=home, BRZ_EMAIL="t <t@example.com>")
import breezy
breezy.initialize()
import breezy.bzr, breezy.bzr.bzrdir, breezy.bzr.workingtree_4, breezy.bzr.groupcompress_repo  # noqa
from breezy.controldir import ControlDir, format_registry
from breezy.tree import InterTree
from breezy.bzr.inventorytree import InterInventoryTree

CAP = 200
bad = 0


class Budget(BaseException):
    pass


def run(name, inter, path):
    """at most CAP records and 5000 id2path calls"""
    global bad
    calls = [0]
    orig = inter.target.id2path

    def counting(*a, **k):
        calls[0] += 1
        if calls[0] > 5000:
            raise Budget()
        return orig(*a, **k)
    inter.target.id2path = counting
    try:
        got = [c.file_id.decode() for c in itertools.islice(inter.iter_changes(specific_files=[path]), CAP)]
        verdict = "DOES NOT TERMINATE (stopped after %d records)" % CAP if len(got) >= CAP else "ok"
    except Budget:
        got, verdict = [], "DOES NOT TERMINATE (silent; stopped after 5000 id2path calls)"
    finally:
        del inter.target.id2path
    if verdict != "ok":
        bad += 1
    print("  %-28s %s %s" % (name, verdict, got[:8]))


def variant(title, build1, build2, path):
    print(title)
    d = os.path.join(home, title[:9].replace(" ", ""))
    wt = ControlDir.create_standalone_workingtree(d, format=format_registry.make_controldir("2a"))
    build1(wt, d)
    r1 = wt.commit("one")
    build2(wt, d)
    basis = wt.basis_tree()
    with basis.lock_read(), wt.lock_read():
        run("InterDirStateTree", InterTree.get(basis, wt), path)
        run("InterInventoryTree(basis,wt)", InterInventoryTree(basis, wt), path)
    r2 = wt.commit("two")
    t1, t2 = wt.branch.repository.revision_tree(r1), wt.branch.repository.revision_tree(r2)
    with t1.lock_read(), t2.lock_read():
        run(type(InterTree.get(t1, t2)).__name__, InterTree.get(t1, t2), path)
        run("InterInventoryTree(rev,rev)", InterInventoryTree(t1, t2), path)


def a1(wt, d):
    for p in ("a", "a/x", "b", "b/x"):
        os.mkdir(os.path.join(d, p))
    wt.add(["a", "a/x", "b", "b/x"], ids=[b"a-id", b"x-id", b"b-id", b"o-id"])


def a2(wt, d):
    wt.rename_one("b/x", "o")
    wt.rename_one("b", "c")
    wt.rename_one("a", "b")
    wt.rename_one("o", "b/x/y")
    open(os.path.join(d, "b/x/f"), "w").write("new\n")
    wt.add(["b/x/f"], ids=[b"f-id"])


def b1(wt, d):
    for p in ("g", "g/n", "g/n/n"):
        os.mkdir(os.path.join(d, p))
    wt.add(["g", "g/n", "g/n/n"], ids=[b"g-id", b"i-id", b"o-id"])


def b2(wt, d):
    wt.rename_one("g", "tmp")
    os.mkdir(os.path.join(d, "g"))
    wt.add(["g"], ids=[b"h-id"])
    wt.rename_one("tmp", "g/n")
    open(os.path.join(d, "g/n/n/f"), "w").write("new\n")
    wt.add(["g/n/n/f"], ids=[b"f-id"])


try:
    print("breezy from", os.path.dirname(breezy.__file__))
    variant("variant A: iter_changes(specific_files=['b/x/f'])", a1, a2, "b/x/f")
    variant("variant B: iter_changes(specific_files=['g/n/n/f'])", b1, b2, "g/n/n/f")
finally:
    shutil.rmtree(home, ignore_errors=True)
print("DEFECT PRESENT" if bad else "all comparisons terminate")
sys.exit(1 if bad else 0)
