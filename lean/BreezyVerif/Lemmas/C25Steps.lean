import BreezyVerif.Lemmas.C22Top
import BreezyVerif.Model.C25
/-!
C25 — every merge-sorted list is `stepwise`: from one revision to the next
(older) one the merge depth goes up by at most one.  Proved on the depth-first
walk `visit` of the `mergeSort` specification (Model/C22.lean).
-/
namespace BreezyVerif.C25
open BreezyVerif.C22

/-- the most recently completed node is at depth ≤ `k` -/
def Top (l : List Entry) (k : Nat) : Prop := ∀ e, l.head? = some e → e.2.1 ≤ k

/-- most recent first: the node completed just before a node of depth `d` has depth ≤ `d + 1` -/
def Chain : List Entry → Prop
  | [] => True
  | e :: l => Top l (e.2.1 + 1) ∧ Chain l

theorem Top.mono {l : List Entry} {a b : Nat} (h : Top l a) (hab : a ≤ b) : Top l b :=
  fun e he => Nat.le_trans (h e he) hab

/-- what is proved about the state: the chain property and a bound on the top -/
def StepOk (s : Dfs) (k : Nat) : Prop := Chain s.done ∧ Top s.done k

theorem fold_none {α β : Type} (f : α → β → Option α) : ∀ (qs : List β),
    qs.foldl (fun acc p => acc.bind fun s => f s p) none = none
  | [] => rfl
  | _ :: qs => by simp only [List.foldl_cons, Option.bind_none]; exact fold_none f qs

theorem fold_steps (g : Graph) (fuel dd : Nat)
    (IH : ∀ n st st', visit g fuel n dd st = some st' → StepOk st (dd + 1) →
      Chain st'.done ∧ ∃ fc, st'.done.head? = some (n, dd, fc)) :
    ∀ (qs : List Nat) (s0 s' : Dfs),
      qs.foldl (fun acc p => acc.bind fun s => if s.isDone p then some s else visit g fuel p dd s) (some s0) = some s' →
      StepOk s0 dd → StepOk s' dd := by
  intro qs
  induction qs with
  | nil =>
    intro s0 s' h hs
    simp only [List.foldl_nil, Option.some.injEq] at h
    subst h; exact hs
  | cons q qs ih =>
    intro s0 s' h hs
    simp only [List.foldl_cons, Option.bind_some] at h
    by_cases hd : s0.isDone q = true
    · simp only [hd, if_true] at h
      exact ih s0 s' h hs
    · have hd' : s0.isDone q = false := by simpa using hd
      simp only [hd', Bool.false_eq_true, if_false] at h
      cases hv : visit g fuel q dd s0 with
      | none =>
        rw [hv] at h
        have := fold_none (fun (s : Dfs) p => if s.isDone p then some s else visit g fuel p dd s) qs
        rw [this] at h; cases h
      | some s1 =>
        rw [hv] at h
        obtain ⟨hc, fc, hh⟩ := IH q s0 s1 hv ⟨hs.1, hs.2.mono (Nat.le_succ _)⟩
        refine ih s1 s' h ⟨hc, ?_⟩
        intro e he
        rw [hh] at he; cases he
        exact Nat.le_refl _

theorem visit_steps (g : Graph) : ∀ (fuel n d : Nat) (st st' : Dfs),
    visit g fuel n d st = some st' → StepOk st (d + 1) →
      Chain st'.done ∧ ∃ fc, st'.done.head? = some (n, d, fc) := by
  intro fuel
  induction fuel with
  | zero => intro n d st st' h; simp [visit] at h
  | succ fuel ih =>
    intro n d st st' h hs
    have IHd : ∀ dd, ∀ n st st', visit g fuel n dd st = some st' → StepOk st (dd + 1) →
        Chain st'.done ∧ ∃ fc, st'.done.head? = some (n, dd, fc) := fun dd n st st' => ih n dd st st'
    -- the final pop
    have finish : ∀ (s2 : Dfs) (fc : Bool), StepOk s2 (d + 1) →
        Option.map (fun s : Dfs => ({ s with done := (n, d, fc) :: s.done } : Dfs))
          ((mergeParents g (parentsD g n)).foldl
            (fun acc p => acc.bind fun s => if s.isDone p then some s else visit g fuel p (d + 1) s) (some s2))
          = some st' →
        Chain st'.done ∧ ∃ fc, st'.done.head? = some (n, d, fc) := by
      intro s2 fc hs2 hm
      rw [Option.map_eq_some_iff] at hm
      obtain ⟨s, hf, hst⟩ := hm
      have := fold_steps g fuel (d + 1) (IHd (d + 1)) _ s2 s hf hs2
      subst hst
      exact ⟨⟨this.2, this.1⟩, fc, rfl⟩
    unfold visit at h
    cases hg : g[n]? with
    | none => simp [hg] at h
    | some ps =>
      have hpd : parentsD g n = ps := by unfold parentsD; rw [hg]
      rw [hpd] at finish
      simp only [hg] at h
      revert h
      cases hl : leftParent g ps with
      | none =>
        simp only []
        intro h
        exact finish st true hs h
      | some l =>
        simp only []
        intro h
        by_cases hd : ({ done := st.done, seen := l :: st.seen } : Dfs).isDone l = true
        · simp only [hd, if_true] at h
          exact finish { done := st.done, seen := l :: st.seen } _ hs h
        · have hd' : ({ done := st.done, seen := l :: st.seen } : Dfs).isDone l = false := by simpa using hd
          simp only [hd', Bool.false_eq_true, if_false] at h
          cases hv : visit g fuel l d { done := st.done, seen := l :: st.seen } with
          | none =>
            rw [hv] at h
            have := fold_none (fun (s : Dfs) p => if s.isDone p then some s else visit g fuel p (d + 1) s)
              (mergeParents g ps)
            rw [this] at h; cases h
          | some s2 =>
            rw [hv] at h
            obtain ⟨hc, fc2, hh⟩ := ih l d _ s2 hv hs
            refine finish s2 _ ⟨hc, ?_⟩ h
            intro e he
            rw [hh] at he; cases he
            exact Nat.le_succ _

theorem stepwise_of_chain : ∀ (l : List Entry) (vs : List V) (n : Nat),
    vs.map (·.depth) = l.map (·.2.1) → Chain l → Top l n → stepwise n vs = true
  | [], vs, _, hm, _, _ => by
    have : vs = [] := by simpa using hm
    subst this; rfl
  | e :: l, vs, n, hm, hc, ht => by
    cases vs with
    | nil => simp at hm
    | cons v vs =>
      simp only [List.map_cons, List.cons.injEq] at hm
      simp only [stepwise, Bool.and_eq_true, decide_eq_true_eq]
      refine ⟨?_, stepwise_of_chain l vs (v.depth + 1) hm.2 hc.2 ?_⟩
      · rw [hm.1]; exact ht e rfl
      · rw [hm.1]; exact hc.1

/-- **Every merge-sorted list is stepwise**: the tip is at depth 0 and the depth goes up by at most one per step. -/
theorem mergeSort_stepwise_core (g : Graph) (hw : WF g) (tip : Nat) (ht : tip < g.length) (ms : List MS)
    (h : mergeSort g tip = some ms) : stepwise 1 (ms.map ofMS) = true := by
  obtain ⟨st, out, hv, _, _, ⟨fc, rest, hhead⟩, _, hmap, _, hms⟩ := mergeSort_spec g hw tip ht
  rw [h] at hms; cases hms
  obtain ⟨hc, _⟩ := visit_steps g (tip + 1) tip 0 ⟨[], []⟩ st hv ⟨trivial, fun e he => by cases he⟩
  have h2 : out.map (·.2.1) = st.done.reverse.map (·.2.1) := by
    have := congrArg (List.map (·.2)) hmap
    simpa [List.map_map, Function.comp_def] using this
  apply stepwise_of_chain st.done _ 1 _ hc
  · intro e he
    rw [hhead] at he; cases he
    exact Nat.zero_le _
  · rw [List.map_map]
    have : ((fun v : V => v.depth) ∘ ofMS) = fun e : MS => e.depth := by funext e; rfl
    rw [this, eomFlags_depth, List.map_reverse, h2, List.map_reverse, List.reverse_reverse]

end BreezyVerif.C25
