import BreezyVerif.Lemmas.C33Heads
/-!
C33 — the limited recipe's key set, declaratively; ghost keys on the wire.
-/
namespace BreezyVerif.C33

/-- `Reach` from a start *predicate* instead of a start list -/
inductive ReachP (g : PMap) (stop : List Key) (P : Key → Prop) : Key → Prop
  | base {k : Key} : P k → ReachP g stop P k
  | step {j k : Key} {ps : List Key} : ReachP g stop P j → j ∉ stop →
      parentsOf g j = some ps → k ∈ ps → ReachP g stop P k

theorem reach_iff_reachP {g : PMap} {stop start : List Key} {P : Key → Prop}
    (h : ∀ k, k ∈ start ↔ P k) (k : Key) : Reach g stop start k ↔ ReachP g stop P k := by
  constructor
  · intro hr
    induction hr with
    | base hk => exact ReachP.base ((h _).mp hk)
    | step _ hjs hjp hkp ih => exact ReachP.step ih hjs hjp hkp
  · intro hr
    induction hr with
    | base hk => exact Reach.base ((h _).mpr hk)
    | step _ hjs hjp hkp ih => exact Reach.step ih hjs hjp hkp

theorem isEmpty_false_of_ne {pm : PMap} (h : ¬ pm.isEmpty = true) : pm.isEmpty = false := by
  cases pm <;> simp_all

/-- membership in the client's own walk, in terms of `Reach` over the cache -/
theorem limited_keys_mem (pm : PMap) (tips : List Key) (depth : Nat) (L : Limited)
    (hne : pm ≠ []) (hL : limitedSearchResult pm tips depth = some L) (k : Key) :
    k ∈ L.keys ↔ Reach pm tips (findPossibleHeads pm tips depth) k ∧ k ∉ tips ∧
      ∃ ps, parentsOf pm k = some ps := by
  unfold limitedSearchResult at hL
  have hie : pm.isEmpty = false := by cases pm <;> simp_all
  simp only [hie, Bool.false_eq_true, if_false] at hL
  obtain ⟨sc, hsc, hinv⟩ := bfs_inv pm (findPossibleHeads pm tips depth) tips
  simp only [runSearch, hsc] at hL
  cases hL
  exact mem_included hinv k

theorem mem_childrenOf {pm : PMap} {p c : Key} : c ∈ childrenOf pm p ↔ ∃ ps, (c, ps) ∈ pm ∧ p ∈ ps := by
  unfold childrenOf
  simp only [List.mem_map, List.mem_filter, decide_eq_true_eq]
  constructor
  · rintro ⟨⟨c', ps⟩, ⟨hm, hp⟩, rfl⟩; exact ⟨ps, hm, hp⟩
  · rintro ⟨ps, hm, hp⟩; exact ⟨(c, ps), ⟨hm, hp⟩, rfl⟩

theorem exists_atDist {pm : PMap} {tips : List Key} : ∀ (n : Nat) (k : Key), PathN pm tips n k →
    ∃ m, m ≤ n ∧ AtDist pm tips m k := by
  intro n
  induction n using Nat.strongRecOn with
  | _ n ih =>
    intro k hp
    by_cases hmin : ∀ m, m < n → ¬ PathN pm tips m k
    · exact ⟨n, Nat.le_refl _, hp, hmin⟩
    · have : ∃ m, m < n ∧ PathN pm tips m k := by
        by_cases hex : ∃ m, m < n ∧ PathN pm tips m k
        · exact hex
        · exact absurd (fun m hm hpm => hex ⟨m, hm, hpm⟩) hmin
      obtain ⟨m, hm, hpm⟩ := this
      obtain ⟨m', hm', hd⟩ := ih m hm k hpm
      exact ⟨m', by omega, hd⟩

/-- **lower bound**: when the tips are not cached themselves (they are the keys
being asked for), every key within `depth` child steps of a tip is reached from
the chosen heads by parent steps through cached non-tip keys -/
theorem reach_of_within (pm : PMap) (tips : List Key) (depth : Nat) (d : Key → Nat)
    (hac : Acyclic d pm) (hnd : (keysOf pm).Nodup) (htips : ∀ t ∈ tips, t ∉ keysOf pm) :
    ∀ (N : Nat) (k : Key), d k = N → k ∈ keysOf pm → (∃ n, n ≤ depth ∧ PathN pm tips n k) →
      Reach pm tips (findPossibleHeads pm tips depth) k := by
  intro N
  induction N using Nat.strongRecOn with
  | _ N ih =>
    intro k hdk hkey ⟨n, hn, hp⟩
    obtain ⟨m, hm, hd⟩ := exists_atDist n k hp
    by_cases hmd : m = depth
    · subst hmd
      exact Reach.base ((findPossibleHeads_char pm tips m k).mpr (Or.inl hd))
    · by_cases hch : childrenOf pm k = []
      · exact Reach.base ((findPossibleHeads_char pm tips depth k).mpr
          (Or.inr ⟨m, by omega, hd, hch⟩))
      · obtain ⟨c, hc⟩ := List.exists_mem_of_ne_nil _ hch
        obtain ⟨ps, hmem, hkps⟩ := mem_childrenOf.mp hc
        have hpc : parentsOf pm c = some ps := parentsOf_of_mem hnd hmem
        have hlt : d c < d k := hac (c, ps) hmem k hkps
        have hckey : c ∈ keysOf pm := mem_keys_of_parentsOf hpc
        obtain ⟨t, ht, hs⟩ := hd.1
        have hrc := ih (d c) (by omega) c rfl hckey ⟨m + 1, by omega, t, ht, childSteps_snoc hs hc⟩
        exact Reach.step hrc (fun hct => htips c hct hckey) hpc hkps

/-! ### ghost keys added to a recipe (the `b""` of an empty wire field) -/

theorem reach_ghosts {g : PMap} {start stop gs gs' : List Key}
    (hgs : ∀ e ∈ gs, parentsOf g e = none) (hgs' : ∀ e ∈ gs', parentsOf g e = none) (k : Key) :
    (Reach g (gs' ++ stop) (gs ++ start) k ∧ k ∉ gs' ++ stop ∧ ∃ ps, parentsOf g k = some ps) ↔
      (Reach g stop start k ∧ k ∉ stop ∧ ∃ ps, parentsOf g k = some ps) := by
  have h1 : ∀ k, Reach g (gs' ++ stop) (gs ++ start) k → Reach g stop start k ∨ k ∈ gs := by
    intro k hr
    induction hr with
    | base hk =>
      rcases List.mem_append.mp hk with h | h
      · exact Or.inr h
      · exact Or.inl (Reach.base h)
    | step _ hjs hjp hkp ih =>
      rcases ih with ih | ih
      · exact Or.inl (Reach.step ih (fun h => hjs (List.mem_append_right _ h)) hjp hkp)
      · rw [hgs _ ih] at hjp; cases hjp
  have h2 : ∀ k, Reach g stop start k → Reach g (gs' ++ stop) (gs ++ start) k := by
    intro k hr
    induction hr with
    | base hk => exact Reach.base (List.mem_append_right _ hk)
    | step _ hjs hjp hkp ih =>
      refine Reach.step ih ?_ hjp hkp
      intro h
      rcases List.mem_append.mp h with h | h
      · rw [hgs' _ h] at hjp; cases hjp
      · exact hjs h
  constructor
  · rintro ⟨hr, hns, ps, hps⟩
    rcases h1 k hr with h | h
    · exact ⟨h, fun hh => hns (List.mem_append_right _ hh), ps, hps⟩
    · rw [hgs _ h] at hps; cases hps
  · rintro ⟨hr, hns, ps, hps⟩
    refine ⟨h2 k hr, ?_, ps, hps⟩
    intro h
    rcases List.mem_append.mp h with h | h
    · rw [hgs' _ h] at hps; cases hps
    · exact hns h

/-- a recipe the server accepts is still accepted, with the same included keys,
when ghost keys are added to its start and stop lists -/
theorem recreate_add_ghosts (g : PMap) (r : Recipe) (gs gs' : List Key)
    (hgs : ∀ e ∈ gs, parentsOf g e = none) (hgs' : ∀ e ∈ gs', parentsOf g e = none)
    (a b inc : List Key) (h : recreate g r false = some (.ok a b inc)) :
    ∃ a' b' inc', recreate g ⟨gs ++ r.start, gs' ++ r.stop, r.count⟩ false = some (.ok a' b' inc') ∧
      ∀ k, k ∈ inc' ↔ k ∈ inc := by
  obtain ⟨s, hs, hinv⟩ := bfs_inv g r.start r.stop
  obtain ⟨s', hs', hinv'⟩ := bfs_inv g (gs ++ r.start) (gs' ++ r.stop)
  unfold recreate at h
  simp only [hs, Bool.not_false, Bool.true_and] at h
  split at h
  · cases h
  · rename_i hcount
    simp only [bne_iff_ne, ne_eq, Decidable.not_not] at hcount
    cases h
    have hmem : ∀ k, k ∈ s'.included ↔ k ∈ s.included := by
      intro k
      rw [mem_included hinv' k, mem_included hinv k]
      exact reach_ghosts hgs hgs' k
    have hlen := length_eq_of_mem_iff (nodup_included hinv') (nodup_included hinv) hmem
    refine ⟨dedup (gs ++ r.start), dedup s'.stopped, s'.included, ?_, hmem⟩
    unfold recreate
    simp [hs', hlen, hcount]

end BreezyVerif.C33
