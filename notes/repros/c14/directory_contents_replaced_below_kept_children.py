"""C14 family directory-contents-replaced-below-kept-children.

delete_contents(d) + create_directory(d) for a tree directory d whose child stays where it is:
no conflict is reported; _apply_removals moves the old directory (with the child in it) to
pending-deletion, the new empty directory takes its place, the inventory is updated, and then
mover.apply_deletions() fails with ENOTEMPTY: apply() raises after everything was changed and
the child is gone from the tree.
Exit 1 = defect present, 0 = absent."""
import sys
from _boot import *
bad = 0
for fmt in ("2a", "git"):
    wt = make_tree(fmt, [("c", "directory", "", True), ("c/a", "file", "A", True)])
    before = listing(wt)
    tt = wt.transform()
    try:
        c = tt.trans_id_tree_path("c")
        tt.trans_id_tree_path("c/a")
        tt.delete_contents(c)
        tt.create_directory(c)
        print("%s raw conflicts:" % fmt, tt.find_raw_conflicts())
        resolve_conflicts(tt)
        tt.apply()
        after = listing(wt)
        print("%s applied:" % fmt, after)
        if after != before:
            print("%s DEFECT: c/a should still be there" % fmt); bad = 1
    except MalformedTransform as e:
        print("MalformedTransform (acceptable)", e.conflicts)
    except Exception as e:
        after = listing(wt)
        print("%s DEFECT: apply raised %s: %s; tree %s" % (fmt, type(e).__name__, str(e)[:80], "CHANGED %r -> %r" % (before, after) if after != before else "unchanged"))
        bad = 1
    finally:
        try:
            tt.finalize()
        except Exception as e:
            print("   finalize:", type(e).__name__)
sys.exit(bad)
