"""C32 probe 2: pull (tags merged by the VFS branch, which caches them), set_tag over RPC, pull again with a new source tag."""
import os, sys, shutil, tempfile
REPO = os.environ.get("VERIF_REPO", "/repo")
sys.path.insert(0, REPO)
BASE = tempfile.mkdtemp(prefix="c32tags2-", dir="/var/tmp/imp-C32")
os.environ["HOME"] = BASE; os.environ["BRZ_HOME"] = BASE; os.environ["BRZ_EMAIL"] = "T <t@example.com>"
import breezy
breezy.initialize()
import breezy.bzr, breezy.git
from breezy import trace, transport as T
from breezy.branch import Branch
from breezy.bzr.smart import server as S
from breezy.controldir import ControlDir, format_registry
trace.be_quiet(True)

def build(root):
    os.makedirs(root)
    fmt = format_registry.make_controldir("2a")
    a = ControlDir.create_standalone_workingtree(os.path.join(root, "A"), format=fmt)
    a.commit("one", rev_id=b"r1", timestamp=1e9, timezone=0, committer="T <t@example.com>", allow_pointless=True)
    a.branch.tags.set_tag("v1", b"r1")
    ControlDir.create_branch_convenience(os.path.join(root, "t"), force_new_tree=False, format=fmt)
    return root

def seq(root, url):
    out = []
    a = Branch.open(os.path.join(root, "A"))
    b = Branch.open(url)
    b.lock_write()
    try:
        r = b.pull(a)
        out.append(("pull 1", sorted(r.tag_updates.items())))
        b.tags.set_tag("mine", b"r1")
        out.append(("tags after set mine", sorted(b.tags.get_tag_dict().items())))
        a.tags.set_tag("v2", b"r1")
        r = b.pull(a)
        out.append(("pull 2", sorted(r.tag_updates.items())))
    finally:
        b.unlock()
    out.append(("stored tags", sorted(Branch.open(os.path.join(root, "t")).tags.get_tag_dict().items())))
    return out

l = seq(build(os.path.join(BASE, "L")), os.path.join(BASE, "L", "t"))
root = build(os.path.join(BASE, "R"))
srv = S.SmartTCPServer(T.get_transport_from_path(root), client_timeout=60.0)
srv.start_server("127.0.0.1", 0); srv.start_background_thread()
try:
    r = seq(root, srv.get_url() + "t")
finally:
    srv.stop_background_thread()
bad = 0
for x, y in zip(l, r):
    if x != y:
        bad += 1
    print("same  " if x == y else "DIFFER", x[0], "local=%r" % (x[1],), "" if x == y else "smart=%r" % (y[1],))
shutil.rmtree(BASE, ignore_errors=True)
sys.stdout.flush()
os._exit(1 if bad else 0)
