import BreezyVerif.Lemmas.C09
/-!
C09 — git flavour: when does the pruning of directories (`pruneGit`) keep every
directory of the basis after a revert?  A condition on the basis alone.
-/
namespace BreezyVerif.C09
open BreezyVerif.C10

theorem mem_childrenOf {t : Tree} {p c : Id} :
    c ∈ childrenOf t p ↔ ∃ e, (c, e) ∈ t ∧ e.parent = some p := by
  unfold childrenOf
  simp only [List.mem_map, List.mem_filter, beq_iff_eq]
  constructor
  · rintro ⟨x, ⟨hx, hp⟩, rfl⟩
    exact ⟨x.2, hx, hp⟩
  · rintro ⟨e, he, hp⟩
    exact ⟨(c, e), ⟨he, hp⟩, rfl⟩

theorem get_of_mem_nodup {t : Tree} (hn : (ids t).Nodup) {c : Id} {e : Entry} (h : (c, e) ∈ t) :
    get t c = some e := by
  induction t with
  | nil => cases h
  | cons x rest ih =>
    obtain ⟨k, e'⟩ := x
    simp only [ids, List.map_cons, List.nodup_cons] at hn
    rcases List.mem_cons.mp h with h | h
    · cases h; simp [C10.get]
    · have hne : ¬ k = c := by
        intro heq
        subst heq
        exact hn.1 (List.mem_map_of_mem (f := (·.1)) h)
      simp only [C10.get, hne, if_false]
      exact ih hn.2 h

theorem below_mono_tree {t t' : Tree} (h : ∀ p c, c ∈ childrenOf t p → c ∈ childrenOf t' p)
    (n : Nat) (i j : Id) (hj : j ∈ below t n i) : j ∈ below t' n i := by
  induction n generalizing i with
  | zero => simp [below] at hj
  | succ n ih =>
    simp only [below, List.mem_flatMap, List.mem_cons] at hj ⊢
    obtain ⟨c, hc, hj⟩ := hj
    refine ⟨c, h i c hc, ?_⟩
    rcases hj with hj | hj
    · exact Or.inl hj
    · exact Or.inr (ih c hj)

theorem below_mono_fuel {t : Tree} (n m : Nat) (hnm : n ≤ m) (i j : Id) (hj : j ∈ below t n i) :
    j ∈ below t m i := by
  induction n generalizing m i with
  | zero => simp [below] at hj
  | succ n ih =>
    cases m with
    | zero => omega
    | succ m =>
      simp only [below, List.mem_flatMap, List.mem_cons] at hj ⊢
      obtain ⟨c, hc, hj⟩ := hj
      refine ⟨c, hc, ?_⟩
      rcases hj with hj | hj
      · exact Or.inl hj
      · exact Or.inr (ih m (by omega) c hj)

theorem below_mem_ids {t : Tree} (n : Nat) (i j : Id) (hj : j ∈ below t n i) : j ∈ ids t := by
  induction n generalizing i with
  | zero => simp [below] at hj
  | succ n ih =>
    simp only [below, List.mem_flatMap, List.mem_cons] at hj
    obtain ⟨c, hc, hj⟩ := hj
    rcases hj with hj | hj
    · subst hj
      obtain ⟨e, he, _⟩ := mem_childrenOf.mp hc
      exact List.mem_map_of_mem (f := (·.1)) he
    · exact ih c hj

/-- **after a git revert the pruning keeps every entry of a git-representable
basis** (ids of the basis unique; every directory has a file of the basis below it) -/
theorem gitKeeps_of_closed (bk : Bool) (s : State) (hn : (ids s.basis).Nodup) (hc : gitClosed s.basis = true) :
    ∀ i ∈ ids s.basis, i ∈ (pruneGit (revert .git bk s)).ver := by
  intro i hi
  have hD : ∀ c, c ∈ ids s.basis → get (revert .git bk s).disk c = get s.basis c :=
    fun c hc' => revert_disk_get .git bk s c hc'
  -- children in the basis are children on disk after the revert
  have hch : ∀ p c, c ∈ childrenOf s.basis p → c ∈ childrenOf (revert .git bk s).disk p := by
    intro p c hcp
    obtain ⟨e, he, hp⟩ := mem_childrenOf.mp hcp
    have hg := get_of_mem_nodup hn he
    have hcm : c ∈ ids s.basis := mem_ids_of_get hg
    exact mem_childrenOf.mpr ⟨e, get_mem (by rw [hD c hcm, hg]), hp⟩
  -- the disk is at least as large as the basis
  have hlen : s.basis.length ≤ (revert .git bk s).disk.length := by
    have hsub : ids s.basis ⊆ ids (revert .git bk s).disk := by
      intro c hc'
      have h1 := get_isSome_of_mem hc'
      rw [← hD c hc'] at h1
      cases hg : get (revert .git bk s).disk c with
      | none => rw [hg] at h1; cases h1
      | some e => exact mem_ids_of_get hg
    have := List.Nodup.length_le_of_subset hn hsub
    simpa [ids] using this
  unfold pruneGit
  simp only [List.mem_filter]
  refine ⟨mem_revert_ver.mpr (Or.inl hi), ?_⟩
  have hsome := get_isSome_of_mem hi
  cases hb : get s.basis i with
  | none => rw [hb] at hsome; cases hsome
  | some e =>
    have hmem : (i, e) ∈ s.basis := get_mem hb
    have hcl := (List.all_eq_true.mp hc) (i, e) hmem
    simp only [Bool.or_eq_true, bne_iff_ne, ne_eq] at hcl
    have hdi : get (revert .git bk s).disk i = some e := by rw [hD i hi, hb]
    simp only [Bool.or_eq_true, Bool.not_eq_eq_eq_not, Bool.not_true, beq_iff_eq]
    rcases hcl with (hk | hp) | hbel
    · left; left
      simp only [isDir, hdi]
      simpa using hk
    · left; right
      simp only [hdi, Option.bind_some]
      simpa using hp
    · right
      rw [List.any_eq_true] at hbel ⊢
      obtain ⟨j, hj, hnd⟩ := hbel
      have hjb : j ∈ ids s.basis := below_mem_ids _ _ _ hj
      refine ⟨j, below_mono_fuel _ _ hlen _ _ (below_mono_tree hch _ _ _ hj), ?_⟩
      have hjv : (revert .git bk s).ver.contains j = true := by
        simp only [List.contains_eq_mem, decide_eq_true_eq]
        exact mem_revert_ver.mpr (Or.inl hjb)
      have hjd : isDir (revert .git bk s).disk j = isDir s.basis j := by
        simp only [isDir, hD j hjb]
      simp only [hjv, hjd, Bool.true_and]
      exact hnd

end BreezyVerif.C09
