import BreezyVerif.Model.C12
import BreezyVerif.Generated.C12
/-! C12 — T1 tie: the variant of the `basis_path is None` branch of `_alter_files`
found in the current source is one of the two the theorems of Props/C12 cover
(`pinnedFlags` with `revert_keeps_user_content_partial` + witness, `fixedFlags`
with `revert_keeps_user_content`). -/
namespace BreezyVerif.C12

theorem source_flags_covered :
    sourceFlags = { keepWhenNoBasis := false } ∨ sourceFlags = { keepWhenNoBasis := true } := by
  decide

end BreezyVerif.C12
