import BreezyVerif.Model.C39
/-! C39 helper lemmas: slices, the line loop of the applier, chains of opcodes. -/
namespace BreezyVerif.C39

variable {α : Type}

theorem drop_eq_slice_append (l : List α) (i j : Nat) (hij : i ≤ j) :
    l.drop i = slice l i j ++ l.drop j := by
  unfold slice
  have : l.drop j = (l.drop i).drop (j - i) := by
    rw [List.drop_drop]; congr 1; omega
  rw [this, List.take_append_drop]

theorem slice_append (l : List α) (i j k : Nat) (hij : i ≤ j) (hjk : j ≤ k) :
    slice l i j ++ slice l j k = slice l i k := by
  unfold slice
  have h1 : (l.drop i).take (k - i) = (l.drop i).take (j - i) ++ ((l.drop i).drop (j - i)).take (k - j) := by
    have : k - i = (j - i) + (k - j) := by omega
    rw [this, List.take_add]
  rw [h1, List.drop_drop]
  congr 3
  omega

theorem slice_self (l : List α) (i : Nat) : slice l i i = [] := by
  unfold slice; simp

theorem length_slice (l : List α) (i j : Nat) (hj : j ≤ l.length) : (slice l i j).length = j - i := by
  unfold slice; simp; omega

/-! ### the line loop -/

theorem applyLines_ctx (xs : List Line) (ln : Nat) (rest : List Line) (hl : List HLine)
    (e : List Line) (ln' : Nat) (r : List Line)
    (h : applyLines (ln + xs.length) rest hl = .ok (e, ln', r)) :
    applyLines ln (xs ++ rest) (xs.map .ctx ++ hl) = .ok (xs ++ e, ln', r) := by
  induction xs generalizing ln with
  | nil => simpa using h
  | cons x xs ih =>
    have h' : applyLines (ln + 1 + xs.length) rest hl = .ok (e, ln', r) := by
      rw [← h]; congr 1; simp; omega
    simp only [List.cons_append, List.map_cons, applyLines, if_true]
    rw [ih (ln + 1) h']

theorem applyLines_rem (xs : List Line) (ln : Nat) (rest : List Line) (hl : List HLine)
    (res : Except ApplyErr (List Line × Nat × List Line))
    (h : applyLines (ln + xs.length) rest hl = res) :
    applyLines ln (xs ++ rest) (xs.map .rem ++ hl) = res := by
  induction xs generalizing ln with
  | nil => simpa using h
  | cons x xs ih =>
    have h' : applyLines (ln + 1 + xs.length) rest hl = res := by
      rw [← h]; congr 1; simp; omega
    simp only [List.cons_append, List.map_cons, applyLines, if_true]
    exact ih (ln + 1) h'

theorem applyLines_ins (ys : List Line) (ln : Nat) (rest : List Line) (hl : List HLine)
    (e : List Line) (ln' : Nat) (r : List Line)
    (h : applyLines ln rest hl = .ok (e, ln', r)) :
    applyLines ln rest (ys.map .ins ++ hl) = .ok (ys ++ e, ln', r) := by
  induction ys with
  | nil => simpa using h
  | cons y ys ih =>
    simp only [List.cons_append, List.map_cons, applyLines]
    rw [ih]

/-- one valid opcode: consumes `a[i1:i2]`, emits `b[j1:j2]` -/
theorem applyLines_op (a b : List Line) (o : Op) (hv : validOp a b o = true)
    (ln : Nat) (hl : List HLine) (e : List Line) (ln' : Nat) (r : List Line)
    (h : applyLines (ln + (o.i2 - o.i1)) (a.drop o.i2) hl = .ok (e, ln', r)) :
    applyLines ln (a.drop o.i1) (opLines a b o ++ hl) = .ok (slice b o.j1 o.j2 ++ e, ln', r) := by
  simp only [validOp, Bool.and_eq_true, decide_eq_true_eq] at hv
  obtain ⟨⟨⟨⟨hi, hj⟩, hia⟩, hjb⟩, htag⟩ := hv
  have hdrop := drop_eq_slice_append a o.i1 o.i2 hi
  have hlen : (slice a o.i1 o.i2).length = o.i2 - o.i1 := length_slice a _ _ hia
  rw [hdrop]
  unfold opLines
  cases ht : o.tag with
  | equal =>
    simp only [ht, Bool.and_eq_true, decide_eq_true_eq] at htag
    simp only []
    rw [← htag.1]
    exact applyLines_ctx _ ln _ hl e ln' r (by rw [hlen]; exact h)
  | replace =>
    simp only [List.append_assoc]
    apply applyLines_rem _ ln _ _ _
    rw [hlen]
    exact applyLines_ins _ _ _ hl e ln' r h
  | delete =>
    simp only [ht, decide_eq_true_eq] at htag
    simp only []
    rw [htag, slice_self, List.nil_append]
    apply applyLines_rem _ ln _ _ _
    rw [hlen]; exact h
  | insert =>
    simp only [ht, decide_eq_true_eq] at htag
    simp only []
    rw [htag] at h ⊢
    rw [slice_self, List.nil_append]
    apply applyLines_ins
    simpa using h

theorem validChain_le (a b : List Line) (ops : List Op) (i j ei ej : Nat)
    (hv : validChain a b i j ops = some (ei, ej)) : i ≤ ei ∧ j ≤ ej := by
  induction ops generalizing i j with
  | nil =>
    simp only [validChain, Option.some.injEq, Prod.mk.injEq] at hv
    omega
  | cons o os ih =>
    unfold validChain at hv
    split at hv
    · rename_i hc
      obtain ⟨hi1, hj1, hvo⟩ := hc
      simp only [validOp, Bool.and_eq_true, decide_eq_true_eq] at hvo
      have := ih _ _ hv
      omega
    · simp at hv

/-- a valid chain of opcodes from `(i, j)` to `(ei, ej)` consumes `a[i:ei]` and emits `b[j:ej]` -/
theorem applyLines_chain (a b : List Line) (ops : List Op) (i j ei ej : Nat)
    (hv : validChain a b i j ops = some (ei, ej))
    (ln : Nat) (hl : List HLine) (e : List Line) (ln' : Nat) (r : List Line)
    (h : applyLines (ln + (ei - i)) (a.drop ei) hl = .ok (e, ln', r)) :
    applyLines ln (a.drop i) (ops.flatMap (opLines a b) ++ hl) = .ok (slice b j ej ++ e, ln', r) := by
  induction ops generalizing i j ln with
  | nil =>
    simp only [validChain, Option.some.injEq, Prod.mk.injEq] at hv
    obtain ⟨rfl, rfl⟩ := hv
    simpa [slice_self] using h
  | cons o os ih =>
    have hle := validChain_le a b (o :: os) i j ei ej hv
    unfold validChain at hv
    split at hv
    · rename_i hc
      obtain ⟨hi1, hj1, hvo⟩ := hc
      have hvo' := hvo
      simp only [validOp, Bool.and_eq_true, decide_eq_true_eq] at hvo'
      obtain ⟨⟨⟨⟨hi, hj⟩, _⟩, _⟩, _⟩ := hvo'
      have hle2 := validChain_le a b os _ _ ei ej hv
      subst hi1; subst hj1
      have hrec := ih o.i2 o.j2 hv (ln + (o.i2 - o.i1)) (by
        have : ln + (o.i2 - o.i1) + (ei - o.i2) = ln + (ei - o.i1) := by omega
        rw [this]; exact h)
      simp only [List.flatMap_cons, List.append_assoc]
      rw [applyLines_op a b o hvo ln _ _ _ _ hrec, ← List.append_assoc, slice_append b _ _ _ hj hle2.2]
    · simp at hv

theorem groupHunk_cons (a b : List Line) (o : Op) (os : List Op) :
    ∃ h, groupHunk a b (o :: os) = some h ∧ h.origPos = o.i1 + 1 ∧ h.lines = (o :: os).flatMap (opLines a b) := by
  unfold groupHunk
  cases hl : (o :: os).getLast? with
  | none => simp at hl
  | some l => exact ⟨_, rfl, rfl, rfl⟩

/-- valid groups from `(pi, pj)`: the hunks exist and turn `a[pi:]` into `b[pj:]` -/
theorem apply_groups (a b : List Line) (gs : List Group) (pi pj : Nat)
    (hv : validGroupsFrom a b pi pj gs = true) :
    ∃ hs, gs.mapM (groupHunk a b) = some hs ∧ applyFrom (pi + 1) (a.drop pi) hs = .ok (b.drop pj) := by
  induction gs generalizing pi pj with
  | nil =>
    simp only [validGroupsFrom, decide_eq_true_eq] at hv
    exact ⟨[], by simp, by simp [applyFrom, hv]⟩
  | cons g gs ih =>
    unfold validGroupsFrom at hv
    match g, hv with
    | o :: os, hv =>
      simp only [Bool.and_eq_true, decide_eq_true_eq] at hv
      obtain ⟨⟨⟨⟨hpi, hpj⟩, hgap⟩, hgaplen⟩, hrest⟩ := hv
      cases hc : validChain a b o.i1 o.j1 (o :: os) with
      | none => simp [hc] at hrest
      | some p =>
        obtain ⟨ei, ej⟩ := p
        simp only [hc] at hrest
        obtain ⟨hs, hmap, happ⟩ := ih ei ej hrest
        obtain ⟨h, hgh, hpos, hlines⟩ := groupHunk_cons a b o os
        have hle := validChain_le a b (o :: os) _ _ ei ej hc
        -- o.i1 ≤ a.length follows from validity of the first opcode
        have hia : o.i1 ≤ a.length := by
          unfold validChain at hc
          split at hc
          · rename_i hcc
            have := hcc.2.2
            simp only [validOp, Bool.and_eq_true, decide_eq_true_eq] at this
            omega
          · simp at hc
        refine ⟨h :: hs, by simp [List.mapM_cons, hgh, hmap], ?_⟩
        have hchain := applyLines_chain a b (o :: os) o.i1 o.j1 ei ej hc (pi + 1 + (o.i1 - pi)) []
          [] (ei + 1) (a.drop ei) (by
            have : pi + 1 + (o.i1 - pi) + (ei - o.i1) = ei + 1 := by omega
            rw [this]; simp [applyLines])
        rw [List.append_nil, List.append_nil] at hchain
        unfold applyFrom
        have hk : h.origPos - (pi + 1) = o.i1 - pi := by omega
        simp only [hk, hlines]
        rw [if_pos (by simp; omega), List.drop_drop]
        have : pi + (o.i1 - pi) = o.i1 := by omega
        rw [this, hchain]
        simp only [happ]
        congr 1
        have e1 : (a.drop pi).take (o.i1 - pi) = slice a pi o.i1 := rfl
        rw [e1, hgap, List.append_assoc, ← drop_eq_slice_append b o.j1 ej hle.2,
          ← drop_eq_slice_append b pj o.j1 hpj]

theorem applyFrom_congr (ln : Nat) (rest : List Line) (h h' : Hunk) (hs : List Hunk)
    (hk : h.origPos - ln = h'.origPos - ln) (hl : h.lines = h'.lines) :
    applyFrom ln rest (h :: hs) = applyFrom ln rest (h' :: hs) := by
  simp only [applyFrom, hk, hl]

theorem applyFrom_fixFirst (a b : List Line) (hs : List Hunk) :
    applyFrom 1 a (fixFirst a b hs) = applyFrom 1 a hs := by
  cases hs with
  | nil => rfl
  | cons h hs =>
    simp only [fixFirst]
    by_cases ha : a = []
    · simp only [ha, if_true]
      by_cases hc : h.origPos = 1 ∧ h.origRange = 0
      · simp only [hc, and_self, if_true]
        exact applyFrom_congr _ _ _ _ _ (by simp [hc.1]) rfl
      · simp only [hc, if_false]
    · simp only [ha, if_false]
      by_cases hb : b = []
      · simp only [hb, if_true]
        by_cases hc : h.modPos = 1 ∧ h.modRange = 0
        · simp only [hc, and_self, if_true]
          exact applyFrom_congr _ _ _ _ _ rfl rfl
        · simp only [hc, if_false]
      · simp only [hb, if_false]

end BreezyVerif.C39
