"""C43 — incremental uploads keep the remote directory equal to the uploaded tree.

Mechanism: breezy/plugins/upload/cmds.py:BzrUploader.upload_tree (tree delta
applied in a fixed order: removals with deferred directory deletions, renames
staged through root-level `.tmp.*` names by rename_remote, finish_renames,
finish_deletions, kind changes, additions, modifications), upload_full_tree
(`*_robustly` helpers, _force_clear), is_ignored (.bzrignore-upload), the
marker file.

T2: commit sequences over a namespace of 8 names - five letters and three names that need urlutils.escape (a
space, a percent escape, a non-ASCII letter; the model sees order-preserving tokens) - (adds, deletes, content and
mode changes, renames, moves between directories, swaps, rename chains and 3-cycles, a
directory renamed together with something inside it, file<->dir<->symlink kind
changes, `.bzrignore` added / edited / removed / renamed, an ignore list of plain names or basename globs
- the real Globster sees the pattern, model and oracle its fnmatch expansion over the namespace) are
committed in a real 2a tree AND in a real git-format tree (every pinned sequence in both formats, a quarter of the
random sequences from git; git trees have no file ids: renames and COPIES are found by content - a text that
reappears at further new paths while its old path goes away gives `copied` entries, pinned sequences
move-and-duplicate*, remove-and-duplicate and the generator op `dup` - and directories exist only through their
files); after every commit
(and for jumps back to earlier revisions = "after overwrite") the revision is
uploaded with the real BzrUploader to a local directory transport -
incrementally or with upload_full_tree onto the existing remote.  For every
upload the harness records the remote listing before, the real TreeDelta the
uploader works from, the new tree and the ignore list, sends them to the Lean
model (`uploadInc` / `uploadFull`) and compares the exception kind and the
complete remote listing afterwards (temporary names renumbered in creation
order through a recording transport proxy) - failing uploads included, so the
model is tied to the code on the defective paths too.  The HYPOTHESES of the upload theorems are
evaluated by the model on the real data: every revision tree must be `treeWF` and every real delta in
which nothing is renamed (outside ignored paths) and the special files are neither removed nor changed in kind
must be `deltaOK` - so `incremental_upload_reaches_tree_partial` applies to exactly those uploads, and its
conclusion (no error, remote = tree, ignored paths untouched) is what the oracle then observes.

Oracle (independent of the model): after an upload that did not raise, the
remote listing (kinds, contents, executable bits, link targets) minus the
marker, the two special files (`.bzrignore`, `.bzrignore-upload`: full uploads skip them, incremental uploads
copy them) and ignored paths must equal the revision tree
minus the same; an upload that raises is a violation.  Ignored remote paths
must be what they were before - for incremental AND full uploads (a full upload may only clear what stands
where the tree has a file or symlink).  Violations are classified from the concrete
delta into the known-finding families listed in FAMILIES; anything else has
family None - in particular DESIGN §7-F13 (nested renames), the three symlink
defects fixed by commit d95ca85 and the kind change below a renamed directory fixed by 95c7725 are plain
violations if they return ("fix reverted" mutant checked).  Variants the model has and the check probes:
rename discipline, robust symlinks, kind-change deletion path, URL-escaping of symlink paths (`badLinks`),
tolerant deletion of a missing special file.

Mutants this was built against (scratch worktree with the proposed fixes
applied, so that the open families do not mask them); every one is caught with
a concrete replay, most by the oracle, the ordering ones by the scripted
sequences that run first:
 * finish_deletions not reversed (needs a 3-level deletion: script deep-delete);
 * finish_renames sorted descending / rename_remote staging inside the old
   directory (script nested-rename);
 * `if change.changed_content` dropped (renamed+modified file keeps old text);
 * upload_file: mode constants swapped;
 * is_ignored does not check parents;
 * renamed: `and` -> `or` in the both-ignored test;
 * kind_changed: deletion of an old symlink dropped;
 * delete_remote_dir_maybe defers only on NoSuchFile (DirectoryNotEmpty escapes);
 * make_remote_dir_robustly does not delete a file in the way (full upload);
 * removed symlinks not deleted;
 * the first modified entry skipped;
 * modified entries uploaded to their OLD path (`upload_file(change.path[0], change.path[1])`): differs from
   the new path only when an ancestor directory is renamed in the same delta - caught on every seed by the
   pinned sequences dir-rename-edit-below, dir-rename-chmod-below-depth2, dir-swap-edit-below,
   dir-swap-chmod-below, dir-replace-edit-below and by the generator ops dir+edit / dirswap+edit /
   dirreplace+edit (NoSuchFile variant and the silent variant with a spurious old-path file);
 * harmless: finish_deletions rewritten with a pop() loop - stays clean.
Seeded change C43b (the added loop iterates `changes.added` instead of `changes.added + changes.copied`; only git
trees report copies): plain VIOLATION on seeds 0-3 ("d/e: remote absent, tree f", script move-and-duplicate from
a git branch) plus T2 mismatches; the model's delta has its own `copied` list (theorems copied_paths_reach_remote,
copied_dropped_witness).  Fixed by 40339a4 after being found here and therefore plain violations if they return
(checked by reverting): unescaped symlink paths, removal of a special file after a full upload.
Improvement round (worktree with /var/tmp/imp-C43C44/c43/C43-upload-fixes.patch applied): urlutils.escape dropped from
_up_put_bytes / _up_rename / _up_delete (each caught by the odd-names script and by generated sequences: a
percent name lands elsewhere, a non-ASCII name raises InvalidURL), Globster fed only the wildcard-free patterns
(glob-ignore script: "ignored remote paths were modified", first seen on the FULL upload - the ignored-unchanged
oracle now covers full uploads), harmless: the file/symlink branches of the removal loop merged - stays clean.
"""
import fnmatch
import io
import os
import random as _random
import shutil
import stat

from vlib import env

THEOREMS = [
    "moves_sequential_eq_simultaneous", "rename_exec_independent", "upload_renames_reach_tree_partial",
    "nested_rename_witness", "nested_rename_second_witness", "children_first_fixes_witnesses",
    "reach_core", "rename_into_new_dir_witness", "symlink_families_witness", "renamed_as_file_witness",
    "kind_change_below_renamed_dir_witness", "deferred_deletion_witnesses", "deferred_deletion_empty_occupant_witness", "full_upload_keeps_stale_witness", "ignored_rename_boundary_witness", "ignored_never_addressed",
    "full_upload_onto_empty_reaches_tree", "incremental_upload_reaches_tree_partial", "incremental_upload_frame",
    "upload_sequence_reaches_tree_partial", "full_upload_idempotent", "full_upload_twice",
    "special_file_removed_witness", "unescaped_symlink_witness", "copied_paths_reach_remote", "copied_dropped_witness",
]
RULE = ("case = one upload from a bzr-format or git-format branch: (remote listing before, tree delta the uploader computes, new tree, ignore list, mode "
        "incremental | full | overwrite-jump); 32 pinned sequences (each from a 2a and a git branch), then sequences of 4-7 commits of 1-3 random edits "
        "over 8 names (3 of them need URL escaping); non-trivial = the delta has >= 2 entries or a rename; distinct by "
        "the canonical model input line; plus one treeWF and - for rename-free deltas - one deltaOK evaluation per upload")
ASSUMPTIONS = [
    "the remote is a local directory transport (dromedary LocalTransport); its error kinds are mirrored by the model and compared on every case",
    "symlink targets are plain names; ignore patterns are plain names or basename globs (`*`, `?`, `[..]` without `/`), "
    "which the harness expands over the namespace with fnmatch for the model and the oracle",
    "`.bzrignore-upload` and `.bzrignore` are excluded from the comparison (full uploads skip them, incremental uploads copy them)",
    "names are prefix-free, so ordering whole paths as strings (finish_renames) and component-wise (model) agree",
]
TRUSTED = ["the rose-tree model of the transport operations (Model/C43.lean), validated against the real transport on every case",
           "Tree.changes_from (the delta is taken from the real code, not recomputed by the model)"]
FAMILIES = {
    "rename-into-directory-not-yet-created": "a rename whose new parent is added in the same delta or is finished later: NoSuchFile",
    "renamed-entry-treated-as-file": "a renamed entry whose kind changed, or a renamed symlink whose target changed, is re-uploaded as a (empty) regular file",
    "renamed-file-mode-change-lost": "a file renamed and chmod-ed in one revision (same text) keeps its old executable bit on the remote",
    "rename-across-ignore-boundary-nosuchfile": "a rename with exactly one side ignored addresses a remote path that was never uploaded: NoSuchFile",
    "rename-across-ignore-boundary-moves-ignored-content": "a directory renamed from an ignored to a non-ignored path takes the ignored remote content below it along: the remote gains paths the tree does not have",
    "deferred-deletion-below-renamed-directory-nosuchfile": "a directory is removed below a directory that is renamed in the same delta; its deferred rmdir runs at the OLD path after the renames are finished: NoSuchFile",
    "rename-onto-deleted-directory-directorynotempty": "a directory takes the path of a directory removed in the same delta; the deferred rmdir of the removed one then hits the new occupant: DirectoryNotEmpty",
    "rename-onto-deleted-directory-readerror": "an entry takes the path of a directory removed in the same delta; the deferred rmdir runs after finish_renames: ReadError",
    "rename-onto-deleted-directory-empty-occupant-removed": "an EMPTY directory takes the path of a directory removed in the same delta; the deferred rmdir of the removed one then silently removes the new occupant (NoSuchFile when the revision also adds something below it)",
    "delete-directory-with-ignored-content-directorynotempty": "a removed directory still holds ignored remote content: the deferred rmdir raises DirectoryNotEmpty",
    "full-upload-keeps-stale-paths": "upload --full onto an existing remote never deletes paths that left the tree",
    "git-delta-omits-new-directory": "git-format branch: a directory that comes into being only through renamed (or ignored) files is in no list of the tree delta; upload_tree never creates it: NoSuchFile when a rename is finished into it, or the directory is silently missing",
    "git-delta-omits-removed-directory": "git-format branch: a directory that ceases to exist only through renamed (or ignored) files is in no list of the tree delta; upload_tree never removes it: a stale directory stays on the remote, or a file renamed onto its path fails (ReadError)",
    "special-file-renamed-after-full-upload-nosuchfile": "`.bzrignore` / `.bzrignore-upload` is renamed in a revision uploaded incrementally after a full upload, which never copied it: NoSuchFile",
}

NAMES = ["a", "b", "d", "e", "f"]
# names that urlutils.escape must keep intact: a space, a percent escape (a dropped escape() turns it into a
# slash on the transport), a non-ASCII letter.  No name is a prefix of another, so ordering paths as strings
# (finish_renames) and ordering them component-wise (the model) agree.  The model sees order-preserving tokens.
ODD = ["g h", "i%2Fj", "\u00fc"]
TOK = {"g h": "gSh", "i%2Fj": "iPj", "\u00fc": "zu"}
ALLNAMES = NAMES + ODD
# ignore patterns: plain names, or a basename glob (expanded over the namespace by fnmatch in the harness; the
# model and the oracle see the expansion, the real Globster sees the pattern)
GLOBS = ["[bd]", "g*", "i%*", "?"]
TARGETS = ["t1", "t2"]
SPECIAL = (".bzrignore", ".bzrignore-upload")


def pick_name(rng):
    return rng.choice(NAMES) if rng.random() < 0.8 else rng.choice(ODD)


def tokp(p):
    return "/".join(TOK.get(c, c) for c in p.split("/"))
MARKER = ".bzr-upload.revid"
IGNFILE = ".bzrignore-upload"


# --------------------------------------------------------------------------
# snapshots and encodings

def walk(root):
    out = {}
    for dp, dns, fns in os.walk(root):
        for n in dns + fns:
            full = os.path.join(dp, n)
            rel = os.path.relpath(full, root)
            st = os.lstat(full)
            if stat.S_ISLNK(st.st_mode):
                out[rel] = ("l", os.readlink(full))
            elif stat.S_ISDIR(st.st_mode):
                out[rel] = ("d",)
            else:
                with open(full, "rb") as f:
                    out[rel] = ("f", f.read(), bool(st.st_mode & 0o100))
    return out


def tree_entries(t):
    """[(path, node)] in iter_entries_by_dir order, without the root"""
    out = []
    with t.lock_read():
        for p, ie in t.iter_entries_by_dir():
            if not p:
                continue
            if ie.kind == "file":
                out.append((p, ("f", t.get_file_text(p), bool(t.is_executable(p)))))
            elif ie.kind == "directory":
                out.append((p, ("d",)))
            elif ie.kind == "symlink":
                out.append((p, ("l", t.get_symlink_target(p))))
    return out


def enc_node(p, v):
    p = tokp(p)
    if v[0] == "f":
        return "%s|f|%s|%s" % (p, v[1].hex() or "-", "T" if v[2] else "F")
    if v[0] == "l":
        return "%s|l|%s" % (p, v[1])
    return "%s|d" % p


def enc_listing(items):
    return ";".join(enc_node(p, v) for p, v in items) or "-"


def enc_fs(snap):
    return enc_listing(sorted(snap.items(), key=lambda kv: kv[0].split("/")))


def canon_fs(snap):
    return ";".join(sorted(enc_node(p, v) for p, v in snap.items())) or "-"


K = {"file": "f", "directory": "d", "symlink": "l"}


def enc_delta(d):
    rm = ",".join("%s:%s" % (tokp(c.path[0]), K[c.kind[0]]) for c in d.removed) or "-"
    rn = ",".join("%s:%s:%s" % (tokp(c.path[0]), tokp(c.path[1]), "T" if c.changed_content else "F") for c in d.renamed) or "-"
    kc = ",".join("%s:%s:%s:%s" % (tokp(c.path[0]), tokp(c.path[1]), K[c.kind[0]], K[c.kind[1]]) for c in d.kind_changed) or "-"
    ad = ",".join(tokp(c.path[1]) for c in d.added) or "-"
    cp = ",".join(tokp(c.path[1]) for c in d.copied) or "-"
    md = ",".join(tokp(c.path[1]) for c in d.modified) or "-"
    return "&".join([rm, rn, kc, ad, cp, md])


# --------------------------------------------------------------------------
# recording transport proxy (only to renumber the temporary names)

class Recorder:
    def __init__(self, t):
        self._t = t
        self.stamps = []

    def rename(self, a, b):
        if b.startswith(".tmp.") and b not in self.stamps:
            self.stamps.append(b)
        return self._t.rename(a, b)

    def __getattr__(self, name):
        return getattr(self._t, name)


def renumber(snap, stamps):
    out = {}
    for p, v in snap.items():
        head, _, rest = p.partition("/")
        if head in stamps:
            head = ".tmp.%d" % stamps.index(head)
        out[head + ("/" + rest if rest else "")] = v
    return out


# --------------------------------------------------------------------------
# edits

def _isdir(root, p):
    full = os.path.join(root, p)
    return os.path.isdir(full) and not os.path.islink(full)


def _isfile(root, p):
    full = os.path.join(root, p)
    return os.path.isfile(full) and not os.path.islink(full)


def mutate(rng, wt):
    root = wt.basedir
    with wt.lock_read():
        paths = sorted(p for p in wt.all_versioned_paths() if p and p not in SPECIAL)
        has_bzrignore = wt.is_versioned(".bzrignore")
    dirs = [""] + [p for p in paths if _isdir(root, p)]
    op = rng.choice(["add", "add", "rm", "mv", "mv", "swap", "mod", "kind", "chmod", "nested", "nested2",
                     "into-new", "retarget", "chain", "dir+edit", "dir+edit", "dirswap+edit", "dirreplace+edit",
                     "bzrignore", "dup", "dup"])

    def newpath():
        d = rng.choice(dirs)
        return (d + "/" if d else "") + pick_name(rng)

    def free(p):
        return not os.path.lexists(os.path.join(root, p))
    try:
        if op == "add":
            p = newpath()
            full = os.path.join(root, p)
            if not free(p):
                return None
            r = rng.random()
            if r < 0.3:
                os.mkdir(full)
            elif r < 0.45:
                os.symlink(rng.choice(TARGETS), full)
            else:
                with open(full, "w") as f:
                    f.write("c%d\n" % rng.randint(0, 99))
                if rng.random() < 0.3:
                    os.chmod(full, 0o755)
            wt.smart_add([full])
            return ("add", p)
        if op == "rm" and paths:
            p = rng.choice(paths)
            wt.remove([p], keep_files=False, force=True)
            return ("rm", p)
        if op == "mv" and paths:
            s = rng.choice(paths)
            d = newpath()
            if d == s or d.startswith(s + "/") or not free(d):
                return None
            wt.rename_one(s, d)
            return ("mv", s, d)
        if op == "swap" and len(paths) >= 2:
            x, y = rng.sample(paths, 2)
            if x.startswith(y + "/") or y.startswith(x + "/"):
                return None
            wt.rename_one(x, "swaptmp")
            wt.rename_one(y, x)
            wt.rename_one("swaptmp", y)
            return ("swap", x, y)
        if op == "dup":
            # the text of a file appears at one or two NEW paths, the file itself is moved away, removed or kept:
            # a git tree reports `copied` entries for the extra instances (a bzr tree plain additions)
            fs = [p for p in paths if _isfile(root, p)]
            if fs:
                src = rng.choice(fs)
                with open(os.path.join(root, src), "rb") as f:
                    text = f.read()
                if len(text) < 40:
                    text = text + b"".join(b"line %d of %d\n" % (i, rng.randint(0, 9)) for i in range(12))
                    with open(os.path.join(root, src), "wb") as f:
                        f.write(text)
                    return ("dup-grow", src)
                how = rng.choice(["move", "move", "remove", "keep"])
                targets = []
                for _ in range(rng.choice([1, 2, 2])):
                    d = newpath()
                    if d != src and free(d) and d not in targets and not any(d.startswith(t + "/") or t.startswith(d + "/") for t in targets):
                        targets.append(d)
                if not targets:
                    return None
                if how == "move":
                    wt.rename_one(src, targets[0])
                    rest = targets[1:]
                else:
                    rest = targets
                    if how == "remove":
                        wt.remove([src], keep_files=False, force=True)
                for d in rest:
                    with open(os.path.join(root, d), "wb") as f:
                        f.write(text)
                if rest:
                    wt.smart_add([os.path.join(root, d) for d in rest])
                return ("dup", how, src, ",".join(targets))
        if op == "bzrignore":
            # `.bzrignore` is one of the two files a full upload skips and an incremental upload copies
            full = os.path.join(root, ".bzrignore")
            if not has_bzrignore:
                if os.path.lexists(full):
                    return None
                with open(full, "w") as f:
                    f.write("*.o\n")
                wt.smart_add([full])
                return ("bzrignore", "add")
            r = rng.random()
            if r < 0.4:
                with open(full, "a") as f:
                    f.write("*.x%d\n" % rng.randint(0, 99))
                return ("bzrignore", "edit")
            if r < 0.7:
                wt.remove([".bzrignore"], keep_files=False, force=True)
                return ("bzrignore", "rm")
            d = newpath()
            if not free(d):
                return None
            wt.rename_one(".bzrignore", d)
            return ("bzrignore", "mv", d)
        if op == "chain":
            tops = [p for p in paths if "/" not in p]
            if len(tops) < 3:
                # make the three top-level entries a chain needs
                made = []
                for n in NAMES:
                    if len(tops) + len(made) >= 3:
                        break
                    if free(n):
                        with open(os.path.join(root, n), "w") as f:
                            f.write("c%d\n" % rng.randint(0, 99))
                        made.append(n)
                if made:
                    wt.smart_add([os.path.join(root, n) for n in made])
                    return ("add-tops", ",".join(made))
            if len(tops) >= 3:
                x, y, z = rng.sample(tops, 3)       # x -> y -> z -> x
                wt.rename_one(z, "chaintmp")
                wt.rename_one(y, z)
                wt.rename_one(x, y)
                wt.rename_one("chaintmp", x)
                return ("chain", x, y, z)
        if op == "mod":
            fs = [p for p in paths if _isfile(root, p)]
            if fs:
                p = rng.choice(fs)
                with open(os.path.join(root, p), "a") as f:
                    f.write("m%d\n" % rng.randint(0, 99))
                return ("mod", p)
        if op == "chmod":
            fs = [p for p in paths if _isfile(root, p)]
            if fs:
                p = rng.choice(fs)
                full = os.path.join(root, p)
                os.chmod(full, os.stat(full).st_mode ^ 0o111)
                return ("chmod", p)
        if op == "retarget":
            ls = [p for p in paths if os.path.islink(os.path.join(root, p))]
            if ls:
                p = rng.choice(ls)
                full = os.path.join(root, p)
                old = os.readlink(full)
                os.unlink(full)
                os.symlink([t for t in TARGETS if t != old][0], full)
                return ("retarget", p)
        if op == "kind" and paths:
            p = rng.choice(paths)
            full = os.path.join(root, p)
            if _isdir(root, p):
                kids = [q for q in paths if q.startswith(p + "/")]
                if kids:
                    wt.remove(kids, keep_files=False, force=True)
                os.rmdir(full)
                r = rng.choice([1, 2])
            elif os.path.islink(full):
                os.unlink(full)
                r = rng.choice([0, 2])
            else:
                os.unlink(full)
                r = rng.choice([0, 1])
            if r == 0:
                os.mkdir(full)
            elif r == 1:
                os.symlink(rng.choice(TARGETS), full)
            else:
                with open(full, "w") as f:
                    f.write("k%d\n" % rng.randint(0, 99))
            return ("kind", p)
        if op in ("nested", "nested2"):
            ds = [p for p in paths if _isdir(root, p) and any(q.startswith(p + "/") for q in paths)]
            if ds:
                d = rng.choice(ds)
                kid = rng.choice([q for q in paths if q.startswith(d + "/") and "/" not in q[len(d) + 1:]])
                nd = newpath()
                if nd == d or nd.startswith(d + "/") or not free(nd):
                    return None
                if op == "nested":          # d -> nd and d/kid -> nd/other
                    nk = d + "/" + pick_name(rng)
                    if not free(nk):
                        return None
                    wt.rename_one(kid, nk)
                    wt.rename_one(d, nd)
                else:                       # d/kid -> nd (must be a dir), d -> nd/d
                    if not _isdir(root, kid) or "/" in nd:
                        return None
                    wt.rename_one(kid, nd)
                    wt.rename_one(d, nd + "/" + os.path.basename(d))
                return (op, d, nd, kid)
        if op in ("dir+edit", "dirswap+edit", "dirreplace+edit"):
            # a directory is renamed / swapped / replaced AND a file below it (depth 1 or 2) is edited or
            # chmod-ed in the same commit: the file is "modified" at a path that differs from its old one
            below = lambda d: [q for q in paths if q.startswith(d + "/") and _isfile(root, q)]
            ds = [p for p in paths if _isdir(root, p) and below(p)]
            if not ds:
                # make one: d/<name> and d/<sub>/<name>
                d = newpath()
                if not free(d):
                    return None
                os.mkdir(os.path.join(root, d))
                sub = d + "/" + pick_name(rng)
                os.mkdir(os.path.join(root, sub))
                for q in (d + "/" + rng.choice([n for n in ALLNAMES if d + "/" + n != sub]), sub + "/" + pick_name(rng)):
                    with open(os.path.join(root, q), "w") as f:
                        f.write("c%d\n" % rng.randint(0, 99))
                wt.smart_add([os.path.join(root, d)])
                return ("add-deep", d)
            d = rng.choice(ds)
            victim = rng.choice(below(d))
            rel = victim[len(d) + 1:]
            if op == "dir+edit":
                nd = newpath()
                if nd == d or nd.startswith(d + "/") or not free(nd):
                    return None
                wt.rename_one(d, nd)
            else:
                others = [p for p in paths if p != d and _isdir(root, p) and not p.startswith(d + "/") and not d.startswith(p + "/")]
                if not others:
                    return None
                o = rng.choice(others)
                if op == "dirswap+edit":
                    wt.rename_one(d, "swaptmp")
                    wt.rename_one(o, d)
                    wt.rename_one("swaptmp", o)
                    nd = o
                else:                           # d -> fresh name, o -> d
                    nd = newpath()
                    if nd in (d, o) or nd.startswith(d + "/") or nd.startswith(o + "/") or not free(nd):
                        return None
                    wt.rename_one(d, nd)
                    wt.rename_one(o, d)
            full = os.path.join(root, nd, rel)
            if rng.random() < 0.5:
                with open(full, "a") as f:
                    f.write("e%d\n" % rng.randint(0, 99))
                how = "edit"
            else:
                os.chmod(full, os.stat(full).st_mode ^ 0o111)
                how = "chmod"
            ctx_depth = rel.count("/") + 1
            return (op, d, nd, how, "depth%d" % ctx_depth)
        if op == "into-new" and paths:
            s = rng.choice(paths)
            nd = newpath()
            if not free(nd) or nd == s or nd.startswith(s + "/"):
                return None
            os.mkdir(os.path.join(root, nd))
            wt.smart_add([os.path.join(root, nd)])
            wt.rename_one(s, nd + "/" + os.path.basename(s))
            return ("into-new", s, nd)
    except (KeyboardInterrupt, SystemExit):
        raise
    except BaseException as e:   # noqa: BLE001 - an edit the tree refuses (pyo3 panics are BaseExceptions)
        return ("skip", op, type(e).__name__)
    return None


# --------------------------------------------------------------------------

def ignore_names(tree):
    from breezy.transport import NoSuchFile
    try:
        with tree.lock_read():
            text = tree.get_file_text(IGNFILE)
    except NoSuchFile:
        return []
    out = []
    for l in text.decode().splitlines():
        l = l.strip()
        if not l or l.startswith("#"):
            continue
        if any(ch in l for ch in "*?["):
            out.extend(n for n in ALLNAMES if fnmatch.fnmatchcase(n, l) and n not in out)
        elif l not in out:
            out.append(l)
    return out


def is_ign(names, p):
    return any(c in names for c in p.split("/"))


_VARIANT = [None]
_ESCAPES = [True]


def bad_links(ents):
    """the symlink entries `upload_symlink` mishandles because it does not escape its paths (probed), with what
    the transport does instead: [(link path, None = InvalidURL | path the link is created at)].  The
    transport rejects non-ASCII characters and percent-decodes both paths; Transport.symlink then insists on
    the (decoded) target lying below the (decoded) link's directory."""
    if _ESCAPES[0]:
        return []
    from breezy import urlutils
    out = []
    for p, v in ents:
        if v[0] != "l":
            continue
        tp = os.path.normpath(os.path.join(os.path.dirname(p), v[1]))
        if any(ord(ch) > 127 for ch in p + tp):
            out.append((p, None))
        elif "%" in p + tp:
            p2, t2 = urlutils.unescape(p), urlutils.unescape(tp)
            d2 = os.path.dirname(p2)
            if d2 and not (t2 == d2 or t2.startswith(d2 + "/")):
                out.append((p, None))
            elif p2 != p:
                out.append((p, p2))
    return out


def enc_bad(ents):
    return ",".join("%s=%s" % (tokp(p), "!" if q is None else tokp(q)) for p, q in bad_links(ents)) or "-"


def probe_variant(ctx):
    """Which rename discipline does the code under test implement?  Runs the
    F13 witness (d -> e, d/f -> e/g) once; selects the model variant only - the
    oracle reports the failure itself whenever a generated case hits it."""
    from breezy import transport as T
    from breezy.plugins.upload.cmds import BzrUploader
    wt = env.make_tree("2a")
    r = wt.basedir
    os.mkdir(r + "/d")
    with open(r + "/d/f", "w") as f:
        f.write("x\n")
    wt.smart_add([r])
    r1 = wt.commit("1")
    wt.rename_one("d/f", "d/g")
    wt.rename_one("d", "e")
    r2 = wt.commit("2")
    remote = env.fresh_dir("c43p")
    t = T.get_transport(remote)
    repo = wt.branch.repository
    BzrUploader(wt.branch, t, io.StringIO(), repo.revision_tree(r1), r1, quiet=True).upload_full_tree()
    try:
        BzrUploader(wt.branch, t, io.StringIO(), repo.revision_tree(r2), r2, quiet=True).upload_tree()
        _VARIANT[0] = "C"
    except Exception:   # noqa: BLE001
        _VARIANT[0] = "A"
    # second probe: a symlink added below the top level by an incremental upload
    os.symlink("t1", r + "/e/l")
    wt.smart_add([r])
    r3 = wt.commit("3")
    remote2 = env.fresh_dir("c43p")
    t2 = T.get_transport(remote2)
    BzrUploader(wt.branch, t2, io.StringIO(), repo.revision_tree(r2), r2, quiet=True).upload_full_tree()
    try:
        BzrUploader(wt.branch, t2, io.StringIO(), repo.revision_tree(r3), r3, quiet=True).upload_tree()
        _VARIANT[0] += "S"
    except Exception:   # noqa: BLE001
        pass
    # third probe: a kind change below a renamed directory
    os.unlink(r + "/e/g")
    os.symlink("t2", r + "/e/g")
    wt.rename_one("e", "b")
    r4 = wt.commit("4")
    try:
        BzrUploader(wt.branch, t2, io.StringIO(), repo.revision_tree(r3), r3, quiet=True).upload_full_tree()
        BzrUploader(wt.branch, t2, io.StringIO(), repo.revision_tree(r4), r4, quiet=True).upload_tree()
        _VARIANT[0] += "K"
    except Exception:   # noqa: BLE001
        pass
    # fourth probe: a symlink whose name needs URL escaping
    wt2 = env.make_tree("2a")
    os.symlink("t1", os.path.join(wt2.basedir, "\u00fc"))
    wt2.smart_add([wt2.basedir])
    r5 = wt2.commit("1")
    remote3 = env.fresh_dir("c43p")
    try:
        BzrUploader(wt2.branch, T.get_transport(remote3), io.StringIO(), wt2.branch.repository.revision_tree(r5), r5,
                    quiet=True).upload_full_tree()
        _ESCAPES[0] = os.path.islink(os.path.join(remote3, "\u00fc"))
    except Exception:   # noqa: BLE001
        _ESCAPES[0] = False
    shutil.rmtree(wt2.basedir, ignore_errors=True)
    shutil.rmtree(remote3, ignore_errors=True)
    ctx.extra["symlink_paths_url_escaped"] = bool(_ESCAPES[0])
    # fifth probe: `.bzrignore` removed after a full upload (which never copied it)
    wt3 = env.make_tree("2a")
    for n in (".bzrignore", "a"):
        with open(os.path.join(wt3.basedir, n), "w") as f:
            f.write("x\n")
    wt3.smart_add([wt3.basedir])
    r6 = wt3.commit("1")
    wt3.remove([".bzrignore"], keep_files=False, force=True)
    r7 = wt3.commit("2")
    remote4 = env.fresh_dir("c43p")
    t4 = T.get_transport(remote4)
    try:
        BzrUploader(wt3.branch, t4, io.StringIO(), wt3.branch.repository.revision_tree(r6), r6, quiet=True).upload_full_tree()
        BzrUploader(wt3.branch, t4, io.StringIO(), wt3.branch.repository.revision_tree(r7), r7, quiet=True).upload_tree()
        _VARIANT[0] += "T"
    except Exception:   # noqa: BLE001
        pass
    ctx.extra["missing_special_file_delete"] = "tolerated" if _VARIANT[0].endswith("T") else "NoSuchFile (as found)"
    shutil.rmtree(wt3.basedir, ignore_errors=True)
    shutil.rmtree(remote4, ignore_errors=True)
    ctx.extra["kind_change_deletes_at"] = "new path" if "K" in _VARIANT[0] else "old path (as found)"
    shutil.rmtree(remote2, ignore_errors=True)
    ctx.extra["symlink_upload"] = "robust" if "S" in _VARIANT[0] else "as-found"
    shutil.rmtree(r, ignore_errors=True)
    shutil.rmtree(remote, ignore_errors=True)
    ctx.extra["rename_discipline"] = "children-first" if _VARIANT[0].startswith("C") else "as-found (parents staged first)"


def _under(p, roots):
    return any(p == r or p.startswith(r + "/") for r in roots)


def classify(mode, err, delta, ents, before, names, got, exp, from_kinds, fmt="2a"):
    """family slug computed from the concrete input, or None.  Every family is
    narrow: for uploads that did not raise it must account for ALL the paths on
    which remote and tree differ; and run() keeps a family only if the real
    outcome (error kind + complete remote listing) is exactly what the model of
    the uploader predicts for this input - a known finding is "the code as
    modelled", anything else is a new violation."""
    tree = dict(ents)
    diff = set(got) ^ set(exp) | {p for p in set(got) & set(exp) if got[p] != exp[p]}

    ren = [(c.path[0], c.path[1]) for c in delta.renamed
           if not (is_ign(names, c.path[0]) and is_ign(names, c.path[1]))] if delta is not None else []
    if mode != "full" and fmt == "git":
        # a git tree has no directory entries of its own: `changes_from` reports a directory as added / removed only
        # together with added / removed files; a directory that comes into being (or ceases to be) through RENAMED
        # or ignored files alone is in no list of the delta - upload_tree is never told to create (remove) it
        old_dirs = {p for p, k in from_kinds.items() if k == "d"}
        new_dirs = {p for p, v in tree.items() if v[0] == "d"}
        told_new = {c.path[1] for c in list(delta.added) + list(delta.copied) + list(delta.kind_changed)}
        told_gone = {c.path[0] for c in list(delta.removed) + list(delta.kind_changed)}
        implied_new = {p for p in new_dirs - old_dirs if p not in told_new and not is_ign(names, p)}
        implied_gone = {p for p in old_dirs - new_dirs if p not in told_gone and not is_ign(names, p)}
        if implied_new and (err == "NoSuchFile" or (err is None and diff and all(_under(p, implied_new | implied_gone) for p in diff))):
            return "git-delta-omits-new-directory"
        if implied_gone and (err in ("ReadError", "FileExists", "DirectoryNotEmpty", "NoSuchFile")
                             or (err is None and diff and all(_under(p, implied_gone) for p in diff))):
            return "git-delta-omits-removed-directory"
    if mode != "full":
        if err == "NoSuchFile":
            added = {c.path[1] for c in list(delta.added) + list(delta.copied)}
            kc_dirs = {c.path[1] for c in delta.kind_changed if c.kind[1] == "directory"}
            for _, n in ren:
                parent = os.path.dirname(n)
                while parent:
                    if parent in added or parent in kc_dirs:
                        return "rename-into-directory-not-yet-created"
                    parent = os.path.dirname(parent)
        if err == "NoSuchFile" and any(c.path[0] in SPECIAL and c.path[0] not in before and not is_ign(names, c.path[0])
                                        for c in delta.renamed):
            return "special-file-renamed-after-full-upload-nosuchfile"
        removed_dirs = {c.path[0] for c in delta.removed if c.kind[0] == "directory" and not is_ign(names, c.path[0])}
        if err == "ReadError" and any(n in removed_dirs for _, n in ren):
            return "rename-onto-deleted-directory-readerror"
        if err == "DirectoryNotEmpty" and any(n in removed_dirs and tree.get(n, ("?",))[0] == "d" for _, n in ren):
            return "rename-onto-deleted-directory-directorynotempty"
        if err == "NoSuchFile" and any(d.startswith(o + "/") for d in removed_dirs for o, _ in ren):
            return "deferred-deletion-below-renamed-directory-nosuchfile"
        gone_dirs = removed_dirs | {c.path[1] for c in delta.kind_changed if c.kind[0] == "directory" and not is_ign(names, c.path[1])}
        if err == "DirectoryNotEmpty" and any(is_ign(names, p) and any(p.startswith(d + "/") for d in gone_dirs)
                                              for p in before):
            return "delete-directory-with-ignored-content-directorynotempty"
        if err == "NoSuchFile" and any(is_ign(names, o) != is_ign(names, n) for o, n in ren):
            return "rename-across-ignore-boundary-nosuchfile"
        if err == "NoSuchFile":
            # ... or, when the revision also adds something below that directory, the addition finds no parent
            lost = [n for _o, n in ren if n in removed_dirs and tree.get(n, ("?",))[0] == "d" and n not in got]
            below = {c.path[1] for c in list(delta.added) + list(delta.copied)}
            if lost and any(p.startswith(n + "/") for p in below for n in lost):
                return "rename-onto-deleted-directory-empty-occupant-removed"
        if err is None:
            lost = [n for _o, n in ren if n in removed_dirs and tree.get(n, ("?",))[0] == "d" and n not in got]
            if lost and all(p in lost for p in diff):
                return "rename-onto-deleted-directory-empty-occupant-removed"
            crossing = [n for o, n in ren if is_ign(names, o) and not is_ign(names, n)]
            # the ignored remote content travels with the directory: paths the tree does not have, or - where
            # the tree has the path too - the stale remote text (it was never updated while it was ignored)
            if crossing and diff and all(any(p.startswith(n + "/") for n in crossing) and p in got for p in diff):
                return "rename-across-ignore-boundary-moves-ignored-content"
        as_file = [c.path[1] for c in delta.renamed if (c.path[0], c.path[1]) in ren
                   and (from_kinds.get(c.path[0]) != tree.get(c.path[1], ("?",))[0]
                        or (c.changed_content and tree.get(c.path[1], ("?",))[0] != "f"))]
        if as_file and (err is not None or all(_under(p, as_file) for p in diff)):
            return "renamed-entry-treated-as-file"
        mode_lost = [c.path[1] for c in delta.renamed if (c.path[0], c.path[1]) in ren
                     and not c.changed_content and c.executable[0] != c.executable[1]
                     and got.get(c.path[1], ("?",))[:2] == exp.get(c.path[1], ("!",))[:2]]
        if err is None and mode_lost and all(p in mode_lost for p in diff):
            return "renamed-file-mode-change-lost"
    else:
        if err is None and all(got.get(p) == v for p, v in exp.items()) and set(got) - set(exp):
            return "full-upload-keeps-stale-paths"
    return None


_FAMILY_SEEN = {}


_PENDING = []      # (line index, case, what, family): emitted by run() once the model has answered
_HYP = []          # (case, driver line, expected reply): hypotheses of the theorems checked on the real data


def rename_free(delta, names):
    """the delta is in the domain of incremental_upload_reaches_tree_partial"""
    if any(not (is_ign(names, c.path[0]) and is_ign(names, c.path[1])) for c in delta.renamed):
        return False
    return not any(c.path[0] in SPECIAL and not is_ign(names, c.path[0])
                   for c in list(delta.removed) + list(delta.kind_changed))


def _violation(ctx, case, what, family=None):
    if family is not None:
        _FAMILY_SEEN[family] = _FAMILY_SEEN.get(family, 0) + 1
        ctx.count("finding:" + family)
        if _FAMILY_SEEN[family] > 3:
            return
    ctx.violation(case, what, family=family)


def one_upload(ctx, wt, remote, rid, mode, case):
    """upload revision `rid`; returns (line, impl_out, ok)"""
    from breezy import revision as _rev
    from breezy import transport as T
    from breezy.plugins.upload.cmds import BzrUploader
    repo = wt.branch.repository
    tree = repo.revision_tree(rid)
    before = walk(remote)
    marker = before.pop(MARKER, None)
    ents = tree_entries(tree)
    names = ignore_names(tree)
    delta = None
    from_kinds = {}
    eff_mode = mode
    if mode != "full":
        if marker is None:
            eff_mode = "full"
        else:
            from_tree = repo.revision_tree(marker[1])
            delta = tree.changes_from(from_tree)
            from_ents = tree_entries(from_tree)
            from_kinds = {p: v[0] for p, v in from_ents}
    case = dict(case, ignore=names, delta=enc_delta(delta) if delta is not None else None, before=canon_fs(before))
    rec = Recorder(T.get_transport(remote))
    up = BzrUploader(wt.branch, rec, io.StringIO(), tree, rid, quiet=True)
    err = None
    try:
        (up.upload_full_tree if mode == "full" else up.upload_tree)()
    except Exception as e:   # noqa: BLE001 - compared with the model by kind
        err = type(e).__name__
    after_raw = walk(remote)
    new_marker = after_raw.pop(MARKER, None)
    after = renumber(after_raw, rec.stamps)
    ctx.count("mode:" + mode + ("(no marker)" if eff_mode != mode else ""))
    ctx.count("error:" + (err or "none"))
    if delta is not None:
        for k in ("removed", "renamed", "kind_changed", "added", "copied", "modified"):
            if getattr(delta, k):
                ctx.count("delta:" + k + (":git" if case.get("fmt") == "git" else ""))
    # ---- oracle --------------------------------------------------------
    exp = {p: v for p, v in ents if p not in SPECIAL and not is_ign(names, p)}
    got = {p: v for p, v in after.items() if p not in SPECIAL and not is_ign(names, p)}
    fam = None
    ok = True
    pend = None
    if err is not None or got != exp:
        ok = False
        fam = classify(eff_mode, err, delta, ents, before, names, got, exp, from_kinds, case.get("fmt", "2a"))
        diff = sorted(set(got) ^ set(exp)) + sorted(p for p in set(got) & set(exp) if got[p] != exp[p])
        what = ("upload raised %s; " % err if err else "") + "remote differs from the uploaded tree at %s" % (
            ["%s: remote %s, tree %s" % (p, (got.get(p) or ("absent",))[0], (exp.get(p) or ("absent",))[0]) for p in diff[:3]],)
        pend = [case, what, fam]
    elif new_marker is None or new_marker[1] != rid:
        ok = False
        _violation(ctx, case, "the marker does not name the uploaded revision")
    ign_before = {p: v for p, v in before.items() if is_ign(names, p)}
    ign_after = {p: v for p, v in after.items() if is_ign(names, p)}
    if err is None and ign_before != ign_after:
        # a rename or removal of a non-ignored directory takes ignored children along (incremental); a full
        # upload clears a remote directory that stands where the tree has a file or symlink: only report
        # ignored paths whose non-ignored ancestors were all left alone
        if eff_mode != "full" and delta is not None:
            touched = {c.path[0] for c in list(delta.removed) + list(delta.renamed) + list(delta.kind_changed)}
            touched |= {c.path[1] for c in delta.renamed}
        else:
            touched = {p for p, v in exp.items() if before.get(p, ("?",))[0] == "d" and v[0] != "d"}
        bad = [p for p in set(ign_before) ^ set(ign_after) | {p for p in set(ign_before) & set(ign_after) if ign_before[p] != ign_after[p]}
               if not any(p == q or p.startswith(q + "/") for q in touched)]
        if bad:
            _violation(ctx, case, "ignored remote paths were modified: %s" % sorted(bad)[:3])
        ctx.count("oracle:ignored-paths-compared:" + ("full" if eff_mode == "full" else "inc"))
    # ---- model line ------------------------------------------------------
    line = "up %s %s %s %s %s %s" % (
        "full" if eff_mode == "full" else "inc", _VARIANT[0], ",".join(tokp(n) for n in names) or "-", enc_fs(before),
        enc_listing(ents), enc_delta(delta) if delta is not None else "-&-&-&-&-&-")
    line += " " + enc_bad(ents)
    # the hypotheses of the upload theorems, evaluated by the model on the real data: every revision tree is
    # `treeWF`; every real delta in which nothing is renamed (outside ignored paths) and the two special files
    # are neither removed nor changed in kind is `deltaOK`
    _HYP.append((dict(case, hypothesis="treeWF"), "wf %s" % enc_listing(ents), "T"))
    if delta is not None and case.get("fmt") == "git":
        ctx.count("hypothesis:deltaOK-not-evaluated(git delta: renames and copies are detected by content)")
    elif delta is not None and rename_free(delta, names) and not bad_links(ents):
        ctx.count("hypothesis:deltaOK-on-real-delta")
        _HYP.append((dict(case, hypothesis="deltaOK"), "dok %s %s %s %s" % (
            ",".join(tokp(n) for n in names) or "-", enc_listing(from_ents), enc_listing(ents), enc_delta(delta)), "T"))
    impl = "%s %s" % (err or "~", canon_fs(after))
    nontrivial = delta is not None and (len(delta.renamed) >= 1 or sum(len(getattr(delta, k)) for k in
                                        ("removed", "renamed", "kind_changed", "added", "copied", "modified")) >= 2)
    ctx.case(line, nontrivial=nontrivial or eff_mode == "full" and len(ents) >= 2)
    if pend is not None:
        _PENDING.append([line, impl] + pend)
    return line, impl, ok


def resync(wt, remote, rid):
    """after a failed upload: start again from a clean full upload"""
    from breezy import transport as T
    from breezy.plugins.upload.cmds import BzrUploader
    for n in os.listdir(remote):
        full = os.path.join(remote, n)
        if os.path.isdir(full) and not os.path.islink(full):
            shutil.rmtree(full)
        else:
            os.unlink(full)
    tree = wt.branch.repository.revision_tree(rid)
    try:
        BzrUploader(wt.branch, T.get_transport(remote), io.StringIO(), tree, rid, quiet=True).upload_full_tree()
    except Exception:   # noqa: BLE001 - e.g. nothing
        pass


TEXT = "".join("line %d of the shared text\n" % i for i in range(12))

# hand-written sequences that run first on every run: one list of edits per commit
SCRIPTS = {
    "deep-delete": [[("mkdir", "a"), ("mkdir", "a/b"), ("file", "a/b/d", "1"), ("file", "a/e", "2"), ("file", "f", "3")],
                    [("rm", "a")]],
    "swap-and-cycle": [[("file", "a", "1"), ("file", "b", "2"), ("mkdir", "d"), ("file", "d/x", "3"), ("ln", "e", "t1"), ("file", "f", "4")],
                       [("swap", "a", "b"), ("cycle", "d", "e", "f")],
                       [("swap", "d", "a")]],
    "nested-rename": [[("mkdir", "d"), ("file", "d/f", "1")], [("mv", "d/f", "d/a"), ("mv", "d", "e")]],
    "nested-rename-2": [[("mkdir", "d"), ("mkdir", "d/e"), ("file", "d/e/f", "1")], [("mv", "d/e", "b"), ("mv", "d", "b/d")]],
    "move-out-and-delete": [[("mkdir", "d"), ("file", "d/a", "1"), ("file", "d/b", "2")], [("mv", "d/a", "a"), ("rm", "d")]],
    "kind-changes": [[("file", "a", "1"), ("mkdir", "b"), ("ln", "d", "t1")],
                     [("rm!", "a"), ("mkdir", "a"), ("rm!", "b"), ("ln", "b", "t2"), ("rm!", "d"), ("file", "d", "9")]],
    "mode-and-text": [[("file", "a", "1"), ("file", "b", "2")], [("chmod", "a"), ("file", "b", "22")], [("chmod", "a")]],
    "child-replaces-parent": [[("mkdir", "d"), ("file", "d/e", "1")], [("mv", "d/e", "swaptmp"), ("rm", "d"), ("mv", "swaptmp", "d")]],
    # a file is modified while an ANCESTOR directory is renamed in the same revision: the modified entry's
    # old and new paths differ; it must be uploaded to the NEW path, after the renames are finished
    "dir-rename-edit-below": [[("mkdir", "d"), ("file", "d/a", "1")], [("mv", "d", "e"), ("file", "e/a", "11")]],
    "dir-rename-chmod-below-depth2": [[("mkdir", "d"), ("mkdir", "d/b"), ("file", "d/b/a", "1")],
                                      [("mv", "d", "e"), ("chmod", "e/b/a")]],
    "dir-swap-edit-below": [[("mkdir", "d"), ("file", "d/a", "1"), ("mkdir", "e"), ("file", "e/b", "2")],
                            [("swap", "d", "e"), ("file", "e/a", "11")]],
    "dir-swap-chmod-below": [[("mkdir", "d"), ("file", "d/a", "1"), ("mkdir", "e"), ("file", "e/a", "2")],
                             [("swap", "d", "e"), ("chmod", "e/a")]],
    "dir-replace-edit-below": [[("mkdir", "d"), ("file", "d/a", "1"), ("mkdir", "b"), ("file", "b/f", "2")],
                               [("mv", "d", "e"), ("mv", "b", "d"), ("file", "e/a", "11")]],
    "dir-rename-kind-change-below": [[("mkdir", "d"), ("file", "d/a", "1")],
                                     [("mv", "d", "e"), ("rm!", "e/a"), ("ln", "e/a", "t1")]],
    "delete-below-renamed-dir": [[("mkdir", "a"), ("mkdir", "a/d"), ("file", "a/d/b", "1"), ("file", "a/f", "2")],
                                 [("rm", "a/d"), ("mv", "a", "e")]],
    "dir-onto-deleted-dir": [[("mkdir", "f"), ("mkdir", "f/a"), ("file", "f/a/a", "1"), ("mkdir", "f/d"), ("file", "f/d/b", "2")],
                             [("mv", "f/a/a", "f/e"), ("rm", "f/a"), ("mv", "f/d", "f/a")]],
    "empty-dir-onto-deleted-dir": [[("mkdir", "a"), ("file", "a/b", "1"), ("mkdir", "d")], [("rm", "a"), ("mv", "d", "a")]],
    "empty-dir-onto-deleted-dir-then-add": [[("mkdir", "a"), ("file", "a/b", "1"), ("mkdir", "d")],
                                            [("rm", "a"), ("mv", "d", "a"), ("file", "a/f", "2")]],
    "rename-modified": [[("file", "a", "1"), ("mkdir", "d")], [("file", "a", "11"), ("mv", "a", "d/b")]],
    # the text of a file that is moved away (or removed) reappears at further new paths: a git tree reports the
    # extra instances as COPIED (a bzr tree as added); they must reach the remote like additions
    "move-and-duplicate": [[("file", "a", TEXT), ("file", "k", "1"), ("mkdir", "d"), ("file", "d/f", "2")],
                           [("mv", "a", "b"), ("file", "d/e", TEXT)], [("file", "k", "11")]],
    "move-and-duplicate-into-new-dir": [[("file", "a", TEXT), ("file", "k", "1")],
                                        [("mv", "a", "b"), ("mkdir", "e"), ("file", "e/a", TEXT), ("file", "f", TEXT)]],
    "remove-and-duplicate": [[("file", "a", TEXT), ("file", "k", "1")], [("rm", "a"), ("file", "b", TEXT), ("file", "d", TEXT)]],
    "duplicate-only": [[("file", "a", TEXT), ("file", "k", "1")], [("file", "b", TEXT)]],
    # a rename chain that is no cycle: a -> b -> d -> e
    "chain-3": [[("file", "a", "1"), ("file", "b", "2"), ("mkdir", "d"), ("file", "d/x", "3")],
                [("mv", "d", "e"), ("mv", "b", "d"), ("mv", "a", "b")]],
    # names that need urlutils.escape: a space, a percent escape, a non-ASCII letter
    "odd-names": [[("mkdir", "g h"), ("file", "g h/i%2Fj", "1"), ("file", "\u00fc", "2"), ("ln", "g h/a", "t1")],
                  [("mv", "g h/i%2Fj", "i%2Fj"), ("file", "\u00fc", "22"), ("chmod", "\u00fc"), ("mkdir", "g h/\u00fc")],
                  [("mv", "g h", "b"), ("rm", "\u00fc"), ("file", "i%2Fj", "11"), ("file", "b/\u00fc/g h", "3")]],
    # ... and symlinks at such names (`upload_symlink` is the one operation that does not escape)
    "odd-symlink-added": [[("file", "a", "1")], [("ln", "\u00fc", "t1"), ("file", "a", "11")]],
    "odd-symlink-full": [[("mkdir", "d"), ("ln", "d/i%2Fj", "t1"), ("file", "f", "1")]],
    "odd-symlink-percent-decoded": [[("mkdir", "d"), ("file", "f", "1")], [("ln", "d/x%41", "t1")]],
    # ignore patterns with wildcards (the real Globster sees the patterns, model and oracle their expansion)
    "glob-ignore": [[("file", IGNFILE, "g*\n[bd]"), ("file", "g h", "1"), ("file", "a", "2"), ("file", "b", "3"),
                     ("mkdir", "e"), ("file", "e/d", "4"), ("file", "e/f", "5")],
                    [("file", "g h", "11"), ("file", "a", "22"), ("file", "e/d", "44"), ("file", "f", "6")],
                    [("rm", "e/f"), ("rm", "b"), ("file", "e/g h", "7")]],
    # the two files a full upload skips: edited (fine), then removed / renamed after the full upload
    "ignore-file-edited-then-removed": [[("file", IGNFILE, "zz"), ("file", "a", "1")], [("file", IGNFILE, "zz\nyy")],
                                        [("rm", IGNFILE)]],
    "ignore-file-removed": [[("file", IGNFILE, "zz"), ("file", "a", "1")], [("rm", IGNFILE), ("file", "a", "11")]],
    "bzrignore-renamed": [[("file", ".bzrignore", "*.o"), ("file", "a", "1")], [("mv", ".bzrignore", "b")]],
}


def apply_script_op(wt, op):
    root = wt.basedir
    kind = op[0]
    full = os.path.join(root, op[1])
    if kind == "mkdir":
        os.mkdir(full)
        wt.smart_add([full])
    elif kind == "file":
        with open(full, "w") as f:
            f.write(op[2] + "\n")
        wt.smart_add([full])
    elif kind == "ln":
        os.symlink(op[2], full)
        wt.smart_add([full])
    elif kind == "chmod":
        os.chmod(full, os.stat(full).st_mode ^ 0o111)
    elif kind == "mv":
        wt.rename_one(op[1], op[2])
    elif kind == "rm":
        wt.remove([op[1]], keep_files=False, force=True)
    elif kind == "rm!":     # replace the object on disk, keeping the file id (a kind change)
        if os.path.isdir(full) and not os.path.islink(full):
            shutil.rmtree(full)
        else:
            os.unlink(full)
    elif kind == "swap":
        wt.rename_one(op[1], "swaptmp")
        wt.rename_one(op[2], op[1])
        wt.rename_one("swaptmp", op[2])
    elif kind == "cycle":
        x, y, z = op[1:]
        wt.rename_one(z, "chaintmp")
        wt.rename_one(y, z)
        wt.rename_one(x, y)
        wt.rename_one("chaintmp", x)


def run_script(ctx, name, fmt="2a"):
    wt = env.make_tree(fmt)
    remote = env.fresh_dir("c43r")
    out = []
    try:
        for c, ops in enumerate(SCRIPTS[name]):
            for op in ops:
                apply_script_op(wt, op)
            rid = wt.commit("c%d" % c)
            case = dict(script=name, fmt=fmt, commit=c, upload=c, mode="inc", edits=[list(o) for o in ops])
            line, impl, ok = one_upload(ctx, wt, remote, rid, "inc", case)
            ctx.count("script:" + name + (":git" if fmt == "git" else ""))
            out.append((case, line, impl))
            if not ok:
                resync(wt, remote, rid)
    finally:
        shutil.rmtree(wt.basedir, ignore_errors=True)
        shutil.rmtree(remote, ignore_errors=True)
    return out


def run_sequence(ctx, seed, ncommits, fmt="2a"):
    rng = _random.Random(repr(seed))
    wt = env.make_tree(fmt)
    remote = env.fresh_dir("c43r")
    revs = []
    out = []
    try:
        for c in range(ncommits):
            ops = []
            if c == 0 and rng.random() < 0.4:
                # the ignore list is fixed for the whole sequence (the property speaks of "upload-ignored
                # paths" of one list; a list that changes between uploads leaves formerly ignored paths behind)
                names = sorted(rng.sample(NAMES, rng.randint(1, 2)))
                with open(os.path.join(wt.basedir, IGNFILE), "w") as f:
                    f.write("".join(n + "\n" for n in names))
                wt.smart_add([os.path.join(wt.basedir, IGNFILE)])
                ops.append(("ignore", names))
                ctx.count("edit:ignore")
            for _ in range(rng.randint(1, 3)):
                o = mutate(rng, wt)
                if o:
                    ops.append(o)
                    ctx.count("edit:" + o[0] + (":git" if fmt == "git" else ""))
            if any(o[0] == "skip" and o[2] == "PanicException" for o in ops):
                ctx.count("sequence-abandoned:panic-in-working-tree")
                break       # the working tree may be inconsistent after a panic in the inventory code
            try:
                rid = wt.commit("c%d" % c)
            except (KeyboardInterrupt, SystemExit):
                raise
            except BaseException:   # noqa: BLE001 - nothing to commit
                continue
            revs.append(rid)
            r = rng.random()
            mode = "inc" if r < 0.7 else "full"
            case = dict(seq=list(seed), fmt=fmt, commit=c, upload=len(out), mode=mode, edits=[list(map(str, o)) for o in ops])
            line, impl, ok = one_upload(ctx, wt, remote, rid, mode, case)
            out.append((case, line, impl))
            if not ok:
                resync(wt, remote, rid)
            if len(revs) >= 3 and rng.random() < 0.25:
                # "after overwrite": jump back to an earlier revision, then forward again
                back = rng.choice(revs[:-1])
                for target in (back, rid):
                    case = dict(seq=list(seed), fmt=fmt, commit=c, upload=len(out), mode="overwrite-jump", to=revs.index(target))
                    line, impl, ok = one_upload(ctx, wt, remote, target, "jump", case)
                    out.append((case, line, impl))
                    if not ok:
                        resync(wt, remote, target)
    finally:
        shutil.rmtree(wt.basedir, ignore_errors=True)
        shutil.rmtree(remote, ignore_errors=True)
    return out


def flush_pending(ctx):
    """emit the remote-differs-from-tree violations.  A known-finding family is
    kept only when the real outcome is exactly the model's prediction for the
    same input (the model reproduces the known defects, and nothing else)."""
    pend = list(_PENDING)
    del _PENDING[:]
    if not pend:
        return
    outs = ctx.model([p[0] for p in pend])
    final = []
    for (line, impl, case, what, fam), m in zip(pend, outs):
        if fam is not None and m != impl:
            ctx.count("family-rejected-outcome-differs-from-model:" + fam)
            fam = None
        final.append((case, what, fam))
    # violations outside every family first: run.py reports the first one that is no committed known finding
    for case, what, fam in sorted(final, key=lambda v: v[2] is not None):
        _violation(ctx, case, what, family=fam)


def run(ctx, nseq=None):
    os.umask(0o022)
    _FAMILY_SEEN.clear()
    del _PENDING[:]
    del _HYP[:]
    probe_variant(ctx)
    nseq = nseq or ctx.pick(28, 500)
    ngit = max(1, nseq // 3)
    cases, lines, impls = [], [], []
    # every pinned sequence from a bzr-format and from a git-format branch (git trees have no file ids: renames
    # and copies are detected by content, empty directories are not versioned)
    for fmt in ("2a", "git"):
        for name in SCRIPTS:
            for case, line, impl in run_script(ctx, name, fmt):
                cases.append(case)
                lines.append(line)
                impls.append(impl)
    for i in range(nseq + ngit):
        fmt = "2a" if i < nseq else "git"
        for case, line, impl in run_sequence(ctx, (ctx.seed, i), ctx.rng.randint(4, 7), fmt):
            cases.append(case)
            lines.append(line)
            impls.append(impl)
    if lines:
        ctx.diff(cases, lines, impls)
    if _HYP:
        ctx.diff([h[0] for h in _HYP], [h[1] for h in _HYP], [h[2] for h in _HYP])
        del _HYP[:]
    flush_pending(ctx)


def widen(ctx):
    run(ctx, nseq=150)


def replay(ctx, case):
    os.umask(0o022)
    del _PENDING[:]
    probe_variant(ctx)
    if "script" in case:
        for c, line, impl in run_script(ctx, case["script"], case.get("fmt", "2a")):
            if c["upload"] == case["upload"]:
                m = ctx.model([line])[0]
                flush_pending(ctx)
                return dict(case=c, line=line, impl=impl, model=m, agree=(m == impl),
                            oracle_failures=[v["what"] for v in ctx.violations if v["case"].get("upload") == case["upload"]])
        return dict(case=case, error="upload index not reached")
    seed = tuple(case["seq"])
    rng = _random.Random(ctx.seed)
    # the sequence is regenerated with the same per-sequence seed; the number of commits is
    # not recorded, so run the longest and pick the recorded upload
    out = run_sequence(ctx, seed, 7, case.get("fmt", "2a"))
    for c, line, impl in out:
        if c["upload"] == case["upload"]:
            m = ctx.model([line])[0]
            flush_pending(ctx)
            return dict(case=c, line=line, impl=impl, model=m, agree=(m == impl),
                        oracle_failures=[v["what"] for v in ctx.violations if v["case"].get("upload") == case["upload"]])
    return dict(case=case, error="upload index not reached")
