import BreezyVerif.Model.C12
import BreezyVerif.Lemmas.C12
/-!
C12 — tree-changing commands never silently discard uncommitted work:
per-file decision theorems (every combination of the attributes the code reads).
-/
namespace BreezyVerif.C12

/-! ### revert -/

def fixedFlags : Flags := { keepWhenNoBasis := true }
def pinnedFlags : Flags := { keepWhenNoBasis := false }

/-- **revert keeps user content** (variant that keeps content absent from the basis):
a working file that differs from the basis — or that the basis does not have —
and that was not written by a merge is never deleted by a revert with backups:
its bytes stay in place or move to a numbered backup.  All inputs. -/
theorem revert_keeps_user_content (i : RevertIn) (hu : userEdited i = true) (hb : i.backups = true) :
    revertFate fixedFlags i ≠ .gone := by
  obtain ⟨cc, wk, bk, tk, tv, mm, bp, bi⟩ := i
  simp only [userEdited, revertFate, revertAction, keepContent, fixedFlags] at *
  subst hb
  cases cc <;> cases mm <;> cases bp <;> cases bi <;> cases tk <;> simp_all

example : userEdited { changedContent := true, wtKind := some .file, backups := true, targetKind := some .file,
                       targetVersioned := true, mergeModifiedIsWt := false, basisPresent := false, basisIsWt := false } = true := by decide

/-- **partial, pinned source**: the same holds for the code as pinned when the basis
has the file, or the target has nothing at all for it. -/
theorem revert_keeps_user_content_partial (i : RevertIn) (hu : userEdited i = true) (hb : i.backups = true)
    (hx : i.basisPresent = true ∨ (i.targetKind = none ∧ i.targetVersioned = false)) :
    revertFate pinnedFlags i ≠ .gone := by
  obtain ⟨cc, wk, bk, tk, tv, mm, bp, bi⟩ := i
  simp only [userEdited, revertFate, revertAction, keepContent, pinnedFlags] at *
  subst hb
  cases cc <;> cases mm <;> cases bp <;> cases bi <;> cases tk <;> cases tv <;> simp_all

/-- **witness (pinned source)**: `revert -r OLD f` with backups, where the working
file `f` is user-edited, its file id is absent from the basis and OLD has it as a
file: the content is deleted, no backup is made. -/
theorem revert_no_basis_witness :
    let i : RevertIn := { changedContent := true, wtKind := some .file, backups := true, targetKind := some .file,
                          targetVersioned := true, mergeModifiedIsWt := false, basisPresent := false, basisIsWt := false }
    userEdited i = true ∧ revertFate pinnedFlags i = .gone ∧ revertFate fixedFlags i = .backup := by
  decide

/-- without backups, content that the target does not have at all is still kept in
place (it only becomes unversioned): `--no-backup` discards modifications, not added files -/
theorem revert_no_backup_keeps_added (fl : Flags) (i : RevertIn) (hu : userEdited i = true)
    (ht : i.targetKind = none) (hv : i.targetVersioned = false) :
    revertFate fl i = .kept := by
  obtain ⟨cc, wk, bk, tk, tv, mm, bp, bi⟩ := i
  obtain ⟨k⟩ := fl
  simp only [userEdited, revertFate, revertAction, keepContent] at *
  subst ht hv
  cases cc <;> cases mm <;> cases bp <;> cases bi <;> cases bk <;> cases k <;> simp_all

/-- content written by a merge and not edited since, or equal to the basis, is not "user content" -/
theorem revert_deletes_only_unedited_or_on_request (i : RevertIn) (h : revertFate fixedFlags i = .gone) :
    userEdited i = false ∨ i.backups = false := by
  obtain ⟨cc, wk, bk, tk, tv, mm, bp, bi⟩ := i
  simp only [userEdited, revertFate, revertAction, keepContent, fixedFlags] at *
  cases cc <;> cases mm <;> cases bp <;> cases bi <;> cases tk <;> cases bk <;> cases wk <;> simp_all <;>
    (rename_i k; cases k <;> simp_all)

/-! ### backup names -/

/-- the loop only returns a name that does not exist -/
theorem firstFree_sound {α : Type} [DecidableEq α] (cand : Nat → α) (taken : List α) (fuel k r : Nat)
    (h : firstFree cand taken fuel k = some r) : cand r ∉ taken ∧ k ≤ r ∧ ∀ j, k ≤ j → j < r → cand j ∈ taken := by
  induction fuel generalizing k with
  | zero => simp [firstFree] at h
  | succ n ih =>
    unfold firstFree at h
    split at h
    · rename_i hc
      obtain ⟨h1, h2, h3⟩ := ih (k + 1) h
      refine ⟨h1, by omega, ?_⟩
      intro j hj1 hj2
      by_cases hjk : j = k
      · subst hjk; simpa using hc
      · exact h3 j (by omega) hj2
    · rename_i hc
      cases h
      exact ⟨by simpa using hc, Nat.le_refl _, fun j h1 h2 => by omega⟩

/-- membership of later candidates is what the loop looks at -/
theorem firstFree_congr {α : Type} [DecidableEq α] (cand : Nat → α) (t1 t2 : List α) (fuel k : Nat)
    (h : ∀ j, k ≤ j → (cand j ∈ t1 ↔ cand j ∈ t2)) : firstFree cand t1 fuel k = firstFree cand t2 fuel k := by
  induction fuel generalizing k with
  | zero => rfl
  | succ n ih =>
    unfold firstFree
    have hk := h k (Nat.le_refl _)
    by_cases hc : cand k ∈ t1
    · have hc2 := hk.mp hc
      simp only [List.contains_eq_mem, hc, hc2, decide_true, if_true]
      exact ih (k + 1) (fun j hj => h j (by omega))
    · have hc2 : cand k ∉ t2 := fun x => hc (hk.mpr x)
      simp [hc, hc2]

/-- **the loop always finds a name**: with distinct candidates, `taken.length + 1`
steps suffice whatever exists already (pigeonhole) -/
theorem firstFree_total {α : Type} [DecidableEq α] (cand : Nat → α) (hinj : ∀ a b, cand a = cand b → a = b)
    (taken : List α) (fuel k : Nat) (hf : taken.length < fuel) : (firstFree cand taken fuel k).isSome = true := by
  induction fuel generalizing taken k with
  | zero => omega
  | succ n ih =>
    unfold firstFree
    by_cases hc : cand k ∈ taken
    · simp only [List.contains_eq_mem, hc, decide_true, if_true]
      -- drop `cand k`: later candidates are different, so the loop cannot tell
      have hcongr := firstFree_congr cand taken (taken.erase (cand k)) n (k + 1) (by
        intro j hj
        have hne : cand j ≠ cand k := fun e => by have := hinj _ _ e; omega
        exact (List.mem_erase_of_ne hne).symm)
      rw [hcongr]
      apply ih
      have h1 := List.length_erase_of_mem hc
      have h2 := List.length_pos_of_mem hc
      omega
    · simp [hc]

/-- **backup names are fresh**: `available_backup_name` returns `base.~k~` for the
least `k ≥ 1` that is not taken; it never returns an existing name and never fails. -/
theorem backup_name_fresh (base : String) (taken : List String) :
    ∃ n, availableBackupName base taken = some n ∧ n ∉ taken := by
  unfold availableBackupName
  have ht := firstFree_total (backupCand base) (backupCand_injective base) taken (taken.length + 1) 1 (by omega)
  cases hr : firstFree (backupCand base) taken (taken.length + 1) 1 with
  | none => simp [hr] at ht
  | some r =>
    exact ⟨backupCand base r, by simp, (firstFree_sound _ _ _ _ _ hr).1⟩

example : availableBackupName "f" ["f.~1~", "f.~2~", "f"] = some "f.~3~" := by decide +kernel

/-! ### remove -/

/-- **remove is safe**: without `force`, a file that is unknown / newly added (not in
the basis), or whose content differs from the basis, is never deleted — it is kept
or renamed to a numbered backup; with `keep_files` nothing is touched. -/
theorem remove_safe (i : RemoveIn) (hf : i.force = false) (hu : i.inBasis = false ∨ i.changedContent = true) :
    removeFate i ≠ .gone := by
  obtain ⟨k, f, r, ib, ch⟩ := i
  simp only [removeFate, toBackup] at *
  subst hf
  cases k <;> cases r <;> cases ib <;> cases ch <;> simp_all

theorem remove_keep (i : RemoveIn) (hk : i.keep = true) : removeFate i = .kept := by
  simp [removeFate, hk]

example : removeFate { keep := false, force := false, role := .selected, inBasis := false, changedContent := false } = .backup := by decide

/-- what `remove` deletes without `force` is in the basis and unchanged -/
theorem remove_deletes_only_clean (i : RemoveIn) (hf : i.force = false) (h : removeFate i = .gone) :
    i.inBasis = true ∧ i.changedContent = false ∧ i.role = .selected := by
  obtain ⟨k, f, r, ib, ch⟩ := i
  simp only [removeFate, toBackup] at *
  subst hf
  cases k <;> cases r <;> cases ib <;> cases ch <;> simp_all

/-! ### merge -/

/-- **merge keeps local changes**: a THIS text that differs from BASE is never lost — it
stays, is written to `name.THIS`, or the file holds the clean three-way merge -/
theorem merge_keeps_local (i : MergeIn) (h : i.thisChanged = true) :
    mergeFate i = .kept ∨ mergeFate i = .helper ∨ mergeFate i = .merged := by
  obtain ⟨a, b, c, d, e⟩ := i
  simp only [mergeFate] at *
  subst h
  cases b <;> cases c <;> cases d <;> cases e <;> simp

/-- helper files are written exactly when both sides changed the text differently and the
changes overlap -/
theorem merge_helper_iff (i : MergeIn) :
    mergeFate i = .helper ↔ (i.thisChanged = true ∧ i.otherDeleted = false ∧ i.otherChanged = true ∧
                             i.sameChange = false ∧ i.textConflict = true) := by
  obtain ⟨a, b, c, d, e⟩ := i
  simp only [mergeFate]
  cases a <;> cases b <;> cases c <;> cases d <;> cases e <;> simp

/-! ### merge-like command, then revert -/

/-- a path is recorded as "written by merge" only if the merge wrote its contents; a file the
incoming revision merely renames or moves is not recorded -/
theorem merge_records_only_written (r : RecordIn) (h : r.otherChangedContent = false) (ha : r.otherAdded = false) :
    mergeRecords r = false := by
  simp [mergeRecords, h, ha]

/-- **two-step sequence**: a locally edited file that a merge-like command (pull, update, merge,
switch) only renames or moves keeps being user content — a later revert with backups does not
delete it (it is moved to a numbered backup or kept), whatever the other inputs are -/
theorem move_only_merge_then_revert_keeps (r : RecordIn) (e : Bool) (i : RevertIn)
    (hr : r.otherChangedContent = false) (ha : r.otherAdded = false)
    (hf : i.wtKind = some .file) (hd : i.basisPresent = false ∨ i.basisIsWt = false) (hb : i.backups = true) :
    revertFate fixedFlags (afterMerge r e i) ≠ .gone := by
  apply revert_keeps_user_content
  · obtain ⟨cc, wk, bk, tk, tv, mm, bp, bi⟩ := i
    simp only [afterMerge, userEdited, mergeRecords] at *
    subst hf
    rcases hd with h | h <;> simp [hr, ha, h]
  · simpa [afterMerge] using hb

example : revertFate fixedFlags (afterMerge { otherChangedContent := false, otherAdded := false, onlyMoved := true } false
    { changedContent := true, wtKind := some .file, backups := true, targetKind := some .file, targetVersioned := true,
      mergeModifiedIsWt := true, basisPresent := true, basisIsWt := false }) = .backup := by decide

/-- content the merge did write and that was not edited since is not backed up by revert (it is
not user content any more): the exemption of the property -/
theorem merge_written_then_revert_may_discard :
    revertFate fixedFlags (afterMerge { otherChangedContent := true, otherAdded := false, onlyMoved := false } false
      { changedContent := true, wtKind := some .file, backups := true, targetKind := some .file, targetVersioned := true,
        mergeModifiedIsWt := false, basisPresent := true, basisIsWt := false }) = .gone := by decide

/-! ### uncommit -/

/-- **uncommit is pure** with respect to working tree files -/
theorem uncommit_pure (s : WState) (r : Nat) : (uncommit s r).files = s.files := rfl

end BreezyVerif.C12
