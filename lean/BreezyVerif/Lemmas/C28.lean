import BreezyVerif.Model.C28
/-!
C28 — specification vocabulary (balanced physical logs, invariants, log-free
"core" of a state) and the step lemmas behind the theorems of `Props/C28.lean`.
-/
namespace BreezyVerif.C28

/-- `alternates held log`: walk a log of physical calls starting from `held`;
`none` as soon as a lock is acquired while held or released while not held,
otherwise whether the lock is held at the end. -/
def alternates : Bool → List Ev → Option Bool
  | b, [] => some b
  | b, e :: l =>
    if e = .rel then (if b then alternates false l else none)
    else (if b then none else alternates true l)

/-- the log is a prefix of `(acquire release)*` and ends with the lock `held` -/
def Balanced (log : List Ev) (held : Bool) : Prop := alternates false log = some held

theorem alternates_append (l₁ l₂ : List Ev) : ∀ b,
    alternates b (l₁ ++ l₂) = (alternates b l₁).bind (fun b' => alternates b' l₂) := by
  induction l₁ with
  | nil => intro b; simp [alternates]
  | cons e l ih =>
    intro b
    simp only [List.cons_append, alternates]
    split <;> split <;> simp [ih]

theorem Balanced.acquire {log : List Ev} (h : Balanced log false) (e : Ev) (he : e ≠ .rel) :
    Balanced (log ++ [e]) true := by
  unfold Balanced at *
  rw [alternates_append, h]
  simp [alternates, he]

theorem Balanced.release {log : List Ev} (h : Balanced log true) :
    Balanced (log ++ [.rel]) false := by
  unfold Balanced at *
  rw [alternates_append, h]
  simp [alternates]

theorem Balanced.nil : Balanced [] false := rfl

/-- a lock taken and given back within one call keeps a free lock balanced -/
theorem Balanced.acquire_release {log : List Ev} (h : Balanced log false) (e : Ev) (he : e ≠ .rel) :
    Balanced (log ++ [e] ++ [.rel]) false := (h.acquire e he).release

/-! ### invariants -/

/-- CountedLock: mode, count and the physical lock agree, the log is balanced -/
structure CL.Inv (s : CL) : Prop where
  mode_held : s.mode = s.phys.held
  mode_count : s.mode.isSome = true ↔ 0 < s.count
  bal : Balanced s.phys.log s.phys.held.isSome

/-- LockableFiles: additionally a transaction of the lock's mode is open -/
structure LF.Inv (s : LF) : Prop where
  mode_held : s.mode = s.phys.held
  txn_mode : s.txn = s.mode
  mode_count : s.mode.isSome = true ↔ 0 < s.count
  bal : Balanced s.phys.log s.phys.held.isSome

/-- nesting depth of a PackRepository -/
def Repo.depth (s : Repo) : Nat := s.wcount + s.cf.count

/-- PackRepository: write count and control-files read count exclude each
other, the fallbacks are locked once exactly while the repository is locked -/
structure Repo.Inv (s : Repo) : Prop where
  cf : s.cf.Inv
  excl : s.wcount = 0 ∨ s.cf.count = 0
  fb_pos : 0 < s.depth → s.fb = 1
  fb_zero : s.depth = 0 → s.fb = 0
  fb_bal : Balanced s.fbLog (decide (0 < s.depth))

structure Branch.Inv (s : Branch) : Prop where
  cf : s.cf.Inv
  repo : s.repo.Inv

/-- the branch holds its repository while it is locked (violated only when a
caller unlocks the repository behind the branch's back) -/
def Branch.Consistent (s : Branch) : Prop := 0 < s.cf.count → 0 < s.repo.depth

/-! ### log-free cores -/

def Phys.core (p : Phys) : Phys := { p with log := [] }
def LF.core (s : LF) : LF := { s with phys := s.phys.core }
def Repo.core (s : Repo) : Repo := { s with cf := s.cf.core, fbLog := [] }
def Branch.core (s : Branch) : Branch := { cf := s.cf.core, repo := s.repo.core }

/-! ### CountedLock -/

theorem CL.inv_init (ext : Bool) : (CL.init ext).Inv :=
  ⟨rfl, by simp [CL.init], Balanced.nil⟩

theorem Phys.lockWrite_ok {p p' : Phys} {tok t : Option Nat} (h : p.lockWrite tok = .ok (p', t)) :
    p'.held = some .w ∧ ∃ e, e ≠ Ev.rel ∧ p'.log = p.log ++ [e] := by
  unfold Phys.lockWrite at h
  split at h
  · split at h
    · injection h with h; injection h with h1 h2; subst h1
      exact ⟨rfl, .acqT, by decide, rfl⟩
    · cases h
  · split at h
    · cases h
    · injection h with h; injection h with h1 h2; subst h1
      exact ⟨rfl, .acqW, by decide, rfl⟩

theorem CL.inv_step {s : CL} (h : s.Inv) (o : Op) : (s.step o).1.Inv := by
  obtain ⟨h1, h2, h3⟩ := h
  cases o with
  | lockRead =>
    simp only [CL.step, CL.lockRead]
    split
    · next hm => exact ⟨h1, by simp_all, h3⟩
    · next hm =>
      have hh : s.phys.held = none := by rw [← h1]; simpa using hm
      refine ⟨rfl, by simp, ?_⟩
      simp only [Phys.lockRead, Option.isSome_some]
      rw [hh] at h3
      exact h3.acquire _ (by decide)
  | lockWrite tok =>
    simp only [CL.step, CL.lockWrite]
    split
    · next hc =>
      split
      · exact ⟨h1, h2, h3⟩
      · next p t hp =>
        obtain ⟨hw, e, he, hl⟩ := Phys.lockWrite_ok hp
        have hm : s.mode = none := by
          cases hm : s.mode with
          | none => rfl
          | some m => have := h2.mp (by simp [hm]); omega
        refine ⟨by simp [hw], by simp, ?_⟩
        simp only [hw, hl, Option.isSome_some]
        rw [← h1, hm] at h3
        exact h3.acquire e he
    · split
      · exact ⟨h1, h2, h3⟩
      · split
        · exact ⟨h1, h2, h3⟩
        · exact ⟨h1, by simp_all, h3⟩
  | unlock =>
    simp only [CL.step, CL.unlock]
    split
    · exact ⟨h1, h2, h3⟩
    · next hc =>
      split
      · next hc1 =>
        have hm : s.mode.isSome = true := h2.mpr (by omega)
        refine ⟨rfl, by simp, ?_⟩
        simp only [Phys.unlock, Option.isSome_none]
        rw [← h1, hm] at h3
        exact h3.release
      · next hc1 =>
        refine ⟨h1, ⟨fun _ => ?_, fun _ => h2.mpr (by omega)⟩, h3⟩
        show 0 < s.count - 1
        omega

theorem CL.inv_run {s : CL} (h : s.Inv) (ops : List Op) : (s.run ops).Inv := by
  induction ops generalizing s with
  | nil => exact h
  | cons o ops ih => exact ih (CL.inv_step h o)

/-! ### LockableFiles -/

theorem LF.inv_init (ext : Bool) : (LF.init ext).Inv :=
  ⟨rfl, rfl, by simp [LF.init], Balanced.nil⟩

theorem LF.inv_step {s : LF} (h : s.Inv) (o : Op) : (s.step o).1.Inv := by
  obtain ⟨h1, ht, h2, h3⟩ := h
  cases o with
  | lockRead =>
    simp only [LF.step, LF.lockRead]
    split
    · next hm => exact ⟨h1, ht, by simp_all, h3⟩
    · next hm =>
      have hmn : s.mode = none := by simpa using hm
      have hh : s.phys.held = none := by rw [← h1]; exact hmn
      have htn : s.txn = none := by rw [ht]; exact hmn
      simp only [htn, Option.isSome_none, Bool.false_eq_true, if_false]
      refine ⟨rfl, rfl, by simp, ?_⟩
      simp only [Phys.lockRead, Option.isSome_some]
      rw [hh] at h3
      exact h3.acquire _ (by decide)
  | lockWrite tok =>
    simp only [LF.step, LF.lockWrite]
    split
    · next hm =>
      split
      · exact ⟨h1, ht, h2, h3⟩
      · split
        · exact ⟨h1, ht, h2, h3⟩
        · exact ⟨h1, ht, by simp_all, h3⟩
    · next hm =>
      have hmn : s.mode = none := by simpa using hm
      have htn : s.txn = none := by rw [ht]; exact hmn
      split
      · exact ⟨h1, ht, h2, h3⟩
      · next p t hp =>
        obtain ⟨hw, e, he, hl⟩ := Phys.lockWrite_ok hp
        simp only [htn, Option.isSome_none, Bool.false_eq_true, if_false]
        refine ⟨by simp [hw], rfl, by simp, ?_⟩
        simp only [hw, hl, Option.isSome_some]
        rw [← h1, hmn] at h3
        exact h3.acquire e he
  | unlock =>
    simp only [LF.step, LF.unlock]
    split
    · exact ⟨h1, ht, h2, h3⟩
    · next hm =>
      split
      · next hc =>
        refine ⟨h1, ht, ⟨fun _ => ?_, fun _ => h2.mpr (by omega)⟩, h3⟩
        show 0 < s.count - 1
        omega
      · next hc =>
        split
        · exact ⟨h1, ht, h2, h3⟩
        · have hs : s.mode.isSome = true := by
            cases hmm : s.mode with
            | none => simp [hmm] at hm
            | some _ => rfl
          refine ⟨rfl, rfl, by simp, ?_⟩
          simp only [Phys.unlock, Option.isSome_none]
          rw [← h1, hs] at h3
          exact h3.release

theorem LF.inv_run {s : LF} (h : s.Inv) (ops : List Op) : (s.run ops).Inv := by
  induction ops generalizing s with
  | nil => exact h
  | cons o ops ih => exact ih (LF.inv_step h o)

end BreezyVerif.C28
