import BreezyVerif.Common
import BreezyVerif.Model.C14
/-
C14 driver.  One request:

  run <flags> <base> <ops>

flags = 6 letters T/F: git, dataByTreePath, execByTreePath, childrenGet, cancelGuarded, loopGuarded
base  = entries joined by `;`: `parent|name|kind|data|exec|fid`
        (parent `~` or a number; name `-` = empty; kind f/d/l/~; data token or `-`; exec T/F; fid token or `~`)
ops   = joined by `;` (`-` = none):
        nf|name|parent|data|fid|exec  nd|name|parent|fid  ns|name|parent|target|fid  dc|t  ap|name|parent|t
        vf|t|fid  uf|t  sx|b|t  cf|data|t  cd|t

reply = `<oplog> <conflicts> <resolution> <preview> <applied> <shadowed> <final>`
  oplog      ok | E:<err>
  conflicts  find_raw_conflicts() before resolution, `,`-joined, `-` = none
  resolution clean | malformed:<conflicts> | crashed:<err> | -
  preview / applied / final   entries `path|kind|data|exec|versioned` joined by `;` (`-` = none), data `!` = exception
  shadowed   paths joined by `;`
-/
namespace BreezyVerif.C14

def tok (s : String) : String := if s.isEmpty then "-" else s
def untok (s : String) : String := if s == "-" then "" else s

def parseKind (s : String) : Option (Option Kind) :=
  if s == "f" then some (some .file) else if s == "d" then some (some .dir)
  else if s == "l" then some (some .symlink) else if s == "~" then some none else none

def showKind : Option Kind → String
  | some .file => "f" | some .dir => "d" | some .symlink => "l" | none => "~"

def optTok (s : String) : Option String := if s == "~" then none else some (untok s)

def parseBase (s : String) : Option Base :=
  match s.splitOn "|" with
  | [p, n, k, d, e, f] => do
    let p ← optNat p
    let k ← parseKind k
    let e ← parseBool e
    pure { parent := p, name := untok n, kind := k, data := untok d, exec := e, fid := optTok f }
  | _ => none

def parseOptBool (s : String) : Option (Option Bool) :=
  if s == "~" then some none else (parseBool s).map some

def parseOp (s : String) : Option Op :=
  match s.splitOn "|" with
  | ["nf", n, p, d, f, e] => do pure (.newFile n (← p.toNat?) (untok d) (optTok f) (← parseOptBool e))
  | ["nd", n, p, f] => do pure (.newDir n (← p.toNat?) (optTok f))
  | ["ns", n, p, d, f] => do pure (.newSymlink n (← p.toNat?) (untok d) (optTok f))
  | ["dc", t] => do pure (.deleteContents (← t.toNat?))
  | ["ap", n, p, t] => do pure (.adjustPath n (← p.toNat?) (← t.toNat?))
  | ["vf", t, f] => do pure (.versionFile (← t.toNat?) (untok f))
  | ["uf", t] => do pure (.unversionFile (← t.toNat?))
  | ["sx", b, t] => do pure (.setExec (← parseBool b) (← t.toNat?))
  | ["cf", d, t] => do pure (.createFile (untok d) (← t.toNat?))
  | ["cd", t] => do pure (.createDir (← t.toNat?))
  | _ => none

def parseFlags (s : String) : Option Flags :=
  match s.toList.map (fun c => parseBool (String.singleton c)) with
  | [some a, some b, some c, some d, some e, some f] =>
    some { git := a, dataByTreePath := b, execByTreePath := c, childrenGet := d, cancelGuarded := e, loopGuarded := f }
  | _ => none

def Err.show : Err → String
  | .duplicateKey => "DuplicateKey" | .cantMoveRoot => "CantMoveRoot" | .keyError => "KeyError"
  | .noFinalPath => "NoFinalPath" | .malformed => "MalformedTransform" | .valueError => "ValueError"
  | .isADirectory => "IsADirectoryError" | .fileExists => "FileExistsError"

def Conflict.show : Conflict → String
  | .unversionedParent p => s!"up:{p}"
  | .parentLoop t => s!"pl:{t}"
  | .duplicate a b n => s!"du:{a}:{b}:{n}"
  | .missingParent p => s!"mp:{p}"
  | .nonDirParent p => s!"np:{p}"
  | .versioningNoContents t => s!"vn:{t}"
  | .unversionedExec t => s!"ue:{t}"
  | .nonFileExec t => s!"ne:{t}"
  | .overwrite t n => s!"ow:{t}:{n}"
  | .duplicateId a b => s!"di:{a}:{b}"

def showConflicts (cs : List Conflict) : String := joinList (cs.map Conflict.show)

def semi (l : List String) : String := if l.isEmpty then "-" else ";".intercalate l

def showPath (p : List String) : String := if p.isEmpty then "." else "/".intercalate p

def showEntry (p : List String) (k : Option Kind) (d : Option String) (x v : Bool) (unsure : Bool := false) : String :=
  let ds := match d with | some d => tok d | none => "!"
  let vs := if unsure then "?" else showBool v
  s!"{showPath p}|{showKind k}|{ds}|{showBool x}|{vs}"

def handle : List String → String
  | ["run", fl, base, ops] =>
    match parseFlags fl, (base.splitOn ";").mapM parseBase,
          (if ops == "-" then some [] else (ops.splitOn ";").mapM parseOp) with
    | some fl, some base, some ops =>
      let tt0 : TT := { base := base, next := base.length }
      match tt0.steps fl ops with
      | (_, some e) => s!"E:{e.show} - - - - - -"
      | (tt, none) =>
        if tt.addTreeChildrenRaises fl then "ok E:NoSuchFile - - - - -" else
        let c0 := showConflicts (tt.findRawConflicts fl)
        match tt.resolveConflicts fl with
        | .malformed cs => s!"ok {c0} malformed:{showConflicts cs} - - - -"
        | .crashed e => s!"ok {c0} crashed:{e.show} - - - -"
        | .clean tt =>
          let lp := tt.livePaths
          let pv := lp.map fun e => let r := tt.previewEntry fl e.1 e.2; showEntry e.2 r.kind r.data r.exec r.versioned
          -- git: where the index written by `_generate_index_changes` differs from the versioning the
          -- `final_*` functions describe the reply says `?` (reported by the oracle, not compared by T2)
          let ap := lp.map fun e => let r := tt.appliedEntry fl e.1 e.2
            showEntry e.2 r.kind (some r.data) r.exec r.versioned (fl.git && r.versioned != tt.finalVersioned e.1)
          let fe := lp.map fun e => let r := tt.finalEntry e.1; showEntry e.2 r.kind (some r.data) r.exec r.versioned
          s!"ok {c0} clean {semi pv} {semi ap} {semi (tt.shadowed.map showPath)} {semi fe}"
    | _, _, _ => "bad-op"
  | _ => "bad-op"

end BreezyVerif.C14

def main : IO Unit := BreezyVerif.runDriver BreezyVerif.C14.handle
