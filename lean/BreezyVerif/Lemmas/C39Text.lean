import BreezyVerif.Model.C39
/-! C39 helper lemmas: the text of a diff parses back (newline markers, hunk bodies, headers). -/
namespace BreezyVerif.C39

/-! ### `\ No newline at end of file` -/

/-- a logical line that the marker mechanism can carry: it is not the marker
itself, with or without its newline -/
def carriable (l : Bytes) : Bool := l ≠ noNl ∧ l ++ [nlB] ≠ noNl

theorem endsNl_append_nl (l : Bytes) : endsNl (l ++ [nlB]) = true := by
  simp [endsNl]

theorem handleNlAux_written (ls : List Bytes) (hc : ∀ l ∈ ls, carriable l = true) (p : Bytes) :
    handleNlAux (some p) (ls.flatMap writeLine) = .ok (p :: ls) := by
  induction ls generalizing p with
  | nil => simp [handleNlAux]
  | cons l ls ih =>
    have hl := hc l (by simp)
    simp only [carriable, Bool.decide_and, Bool.and_eq_true, decide_eq_true_eq] at hl
    have ih' := fun q => ih (fun x hx => hc x (List.mem_cons_of_mem _ hx)) q
    simp only [List.flatMap_cons, writeLine]
    by_cases he : endsNl l = true
    · simp only [he, if_true, List.cons_append, List.nil_append, handleNlAux, hl.1, if_false, ih']
      rfl
    · simp only [he, Bool.false_eq_true, if_false, List.cons_append, List.nil_append, handleNlAux, hl.2,
        endsNl_append_nl, if_true, List.dropLast_concat, ih']
      rfl

theorem handleNl_written (ls : List Bytes) (hc : ∀ l ∈ ls, carriable l = true) :
    handleNl (ls.flatMap writeLine) = .ok ls := by
  cases ls with
  | nil => simp [handleNl, handleNlAux]
  | cons l ls =>
    have hl := hc l (by simp)
    simp only [carriable, Bool.decide_and, Bool.and_eq_true, decide_eq_true_eq] at hl
    have ih := fun q => handleNlAux_written ls (fun x hx => hc x (List.mem_cons_of_mem _ hx)) q
    simp only [handleNl, List.flatMap_cons, writeLine]
    by_cases he : endsNl l = true
    · simp only [he, if_true, List.cons_append, List.nil_append, handleNlAux, hl.1, if_false, ih]
    · simp only [he, Bool.false_eq_true, if_false, List.cons_append, List.nil_append, handleNlAux, hl.2,
        endsNl_append_nl, if_true, List.dropLast_concat, ih]

/-! ### hunk bodies -/

theorem parseLine_hlineBytes (l : HLine) : parseLine (hlineBytes l) = .ok l := by
  cases l <;> simp [hlineBytes, parseLine, spB, plusB, minusB]

def origCount (hl : List HLine) : Nat := (hl.map cOrig).sum
def modCount (hl : List HLine) : Nat := (hl.map cMod).sum

theorem cOrig_or_cMod (l : HLine) : 1 ≤ cOrig l + cMod l := by
  cases l <;> simp [cOrig, cMod]

/-- reading back exactly the printed lines of a hunk whose ranges are its line counts -/
theorem readLines_printed (hl : List HLine) (oS mS : Nat) (rest : List Bytes) :
    readLines (oS + origCount hl) (mS + modCount hl) oS mS (hl.map hlineBytes ++ rest) = .ok (hl, rest) := by
  induction hl generalizing oS mS with
  | nil =>
    simp only [origCount, modCount, List.map_nil, List.sum_nil, Nat.add_zero, List.nil_append]
    cases rest <;> simp [readLines]
  | cons l hl ih =>
    have h1 := cOrig_or_cMod l
    simp only [List.map_cons, List.cons_append, readLines, origCount, modCount, List.sum_cons]
    rw [if_pos (by omega), parseLine_hlineBytes]
    simp only []
    have := ih (oS + cOrig l) (mS + cMod l)
    simp only [origCount, modCount] at this
    rw [show oS + (cOrig l + (hl.map cOrig).sum) = oS + cOrig l + (hl.map cOrig).sum by omega,
      show mS + (cMod l + (hl.map cMod).sum) = mS + cMod l + (hl.map cMod).sum by omega, this]

end BreezyVerif.C39
