import BreezyVerif.Lemmas.C39Group2
/-! C39 helper lemmas: the hunks of the grouped opcodes of valid matching blocks
contain exactly the lines outside the blocks. -/
namespace BreezyVerif.C39

/-- inserted / removed lines an opcode stands for -/
def opIns (o : Op) : Nat :=
  match o.tag with
  | .replace => o.j2 - o.j1
  | .insert => o.j2 - o.j1
  | _ => 0

def opRem (o : Op) : Nat :=
  match o.tag with
  | .replace => o.i2 - o.i1
  | .delete => o.i2 - o.i1
  | _ => 0

def insOf (ops : List Op) : Nat := (ops.map opIns).sum
def remOf (ops : List Op) : Nat := (ops.map opRem).sum
def gIns (gs : List Group) : Nat := (gs.map insOf).sum
def gRem (gs : List Group) : Nat := (gs.map remOf).sum

theorem opIns_equal (t : Tag) (i1 i2 j1 j2 : Nat) (h : t = .equal) :
    opIns ⟨t, i1, i2, j1, j2⟩ = 0 ∧ opRem ⟨t, i1, i2, j1, j2⟩ = 0 := by
  subst h; simp [opIns, opRem]

theorem of_reverse (l : List Op) : insOf l.reverse = insOf l ∧ remOf l.reverse = remOf l := by
  simp [insOf, remOf, List.map_reverse, List.sum_reverse]

theorem of_cons (o : Op) (l : List Op) :
    insOf (o :: l) = opIns o + insOf l ∧ remOf (o :: l) = opRem o + remOf l := by
  simp [insOf, remOf]

theorem groupLoop_counts (n : Nat) (os : List Op) : ∀ cur : List Op,
    gIns (groupLoop n cur os) = insOf cur + insOf os ∧ gRem (groupLoop n cur os) = remOf cur + remOf os := by
  induction os with
  | nil =>
    intro cur
    unfold groupLoop
    split
    · rename_i hcond
      rcases hcond with rfl | ⟨hlen, htag⟩
      · simp [gIns, gRem, insOf, remOf]
      · match cur, hlen with
        | [o], _ =>
          simp only [List.head?_cons, Option.map_some, Option.some.injEq] at htag
          simp [gIns, gRem, insOf, remOf, opIns, opRem, htag]
    · simp [gIns, gRem, (of_reverse cur).1, (of_reverse cur).2, insOf, remOf]
  | cons o os ih =>
    intro cur
    unfold groupLoop
    split
    · rename_i hcond
      have e := opIns_equal o.tag o.i1 o.i2 o.j1 o.j2 hcond.1
      have e1 := opIns_equal o.tag o.i1 (min o.i2 (o.i1 + n)) o.j1 (min o.j2 (o.j1 + n)) hcond.1
      have e2 := opIns_equal o.tag (max o.i1 (o.i2 - n)) o.i2 (max o.j1 (o.j2 - n)) o.j2 hcond.1
      have r := ih [⟨o.tag, max o.i1 (o.i2 - n), o.i2, max o.j1 (o.j2 - n), o.j2⟩]
      have c1 := of_cons ⟨o.tag, o.i1, min o.i2 (o.i1 + n), o.j1, min o.j2 (o.j1 + n)⟩ cur
      have c2 := of_cons o os
      have c3 := of_cons ⟨o.tag, max o.i1 (o.i2 - n), o.i2, max o.j1 (o.j2 - n), o.j2⟩ []
      have rv := of_reverse (⟨o.tag, o.i1, min o.i2 (o.i1 + n), o.j1, min o.j2 (o.j1 + n)⟩ :: cur)
      have z : insOf [] = 0 ∧ remOf [] = 0 := by simp [insOf, remOf]
      have eo : opIns o = 0 ∧ opRem o = 0 := e
      simp only [gIns, gRem, List.map_cons, List.sum_cons] at r ⊢
      omega
    · have r := ih (o :: cur)
      have c1 := of_cons o cur
      have c2 := of_cons o os
      omega

theorem trimHead_counts (n : Nat) (ops : List Op) :
    insOf (trimHead n ops) = insOf ops ∧ remOf (trimHead n ops) = remOf ops := by
  cases ops with
  | nil => simp [trimHead]
  | cons o os =>
    simp only [trimHead]
    split
    · rename_i h
      have e := opIns_equal o.tag o.i1 o.i2 o.j1 o.j2 h
      have e2 := opIns_equal o.tag (max o.i1 (o.i2 - n)) o.i2 (max o.j1 (o.j2 - n)) o.j2 h
      have eo : opIns o = 0 ∧ opRem o = 0 := e
      have c1 := of_cons ⟨o.tag, max o.i1 (o.i2 - n), o.i2, max o.j1 (o.j2 - n), o.j2⟩ os
      have c2 := of_cons o os
      omega
    · exact ⟨rfl, rfl⟩

theorem trimLast_counts (n : Nat) (ops : List Op) :
    insOf (trimLast n ops) = insOf ops ∧ remOf (trimLast n ops) = remOf ops := by
  induction ops with
  | nil => simp [trimLast]
  | cons o os ih =>
    cases os with
    | nil =>
      simp only [trimLast]
      split
      · rename_i h
        have e := opIns_equal o.tag o.i1 o.i2 o.j1 o.j2 h
        have e2 := opIns_equal o.tag o.i1 (min o.i2 (o.i1 + n)) o.j1 (min o.j2 (o.j1 + n)) h
        have eo : opIns o = 0 ∧ opRem o = 0 := e
        have c1 := of_cons ⟨o.tag, o.i1, min o.i2 (o.i1 + n), o.j1, min o.j2 (o.j1 + n)⟩ []
        have c2 := of_cons o []
        omega
      · exact ⟨rfl, rfl⟩
    | cons o2 os' =>
      rw [trimLast_cons_cons]
      have c1 := of_cons o (trimLast n (o2 :: os'))
      have c2 := of_cons o (o2 :: os')
      omega

theorem grouped_counts_ops (n : Nat) (codes : List Op) :
    gIns (grouped n codes) = insOf codes ∧ gRem (grouped n codes) = remOf codes := by
  by_cases h : codes = []
  · subst h; rw [grouped_nil]; simp [gIns, gRem, insOf, remOf]
  · unfold grouped
    simp only [h, if_false]
    have r := groupLoop_counts n (trimLast n (trimHead n codes)) []
    have t1 := trimLast_counts n (trimHead n codes)
    have t2 := trimHead_counts n codes
    have z : insOf [] = 0 ∧ remOf [] = 0 := by simp [insOf, remOf]
    omega

theorem opcodesFrom_counts (a b : List Line) (ks : List Block) (i j : Nat)
    (hv : validBlocksFrom a b i j ks = true) :
    insOf (opcodesFrom a.length b.length i j ks) + (ks.map (·.n)).sum + j = b.length ∧
    remOf (opcodesFrom a.length b.length i j ks) + (ks.map (·.n)).sum + i = a.length := by
  induction ks generalizing i j with
  | nil =>
    simp only [validBlocksFrom, Bool.and_eq_true, decide_eq_true_eq] at hv
    unfold opcodesFrom
    split
    · simp [insOf, remOf, opIns, opRem]; omega
    · split
      · simp [insOf, remOf, opIns, opRem]; omega
      · split
        · simp [insOf, remOf, opIns, opRem]; omega
        · simp [insOf, remOf]; omega
  | cons k ks ih =>
    simp only [validBlocksFrom, Bool.and_eq_true, decide_eq_true_eq] at hv
    obtain ⟨⟨⟨⟨⟨⟨hi, hj⟩, hn⟩, heq⟩, hia⟩, hjb⟩, hrest⟩ := hv
    have hrec := ih _ _ hrest
    unfold opcodesFrom
    simp only [gt_iff_lt, hn, if_true, List.append_assoc, List.cons_append, List.nil_append, List.map_cons,
      List.sum_cons]
    have ce := of_cons ⟨.equal, k.i, k.i + k.n, k.j, k.j + k.n⟩
      (opcodesFrom a.length b.length (k.i + k.n) (k.j + k.n) ks)
    have ee : opIns ⟨.equal, k.i, k.i + k.n, k.j, k.j + k.n⟩ = 0 ∧ opRem ⟨.equal, k.i, k.i + k.n, k.j, k.j + k.n⟩ = 0 :=
      opIns_equal _ _ _ _ _ rfl
    split
    · simp only [List.cons_append, List.nil_append]
      have c := of_cons ⟨.replace, i, k.i, j, k.j⟩ (⟨.equal, k.i, k.i + k.n, k.j, k.j + k.n⟩ ::
        opcodesFrom a.length b.length (k.i + k.n) (k.j + k.n) ks)
      have e1 : opIns ⟨.replace, i, k.i, j, k.j⟩ = k.j - j ∧ opRem ⟨.replace, i, k.i, j, k.j⟩ = k.i - i := ⟨rfl, rfl⟩
      omega
    · split
      · simp only [List.cons_append, List.nil_append]
        have c := of_cons ⟨.delete, i, k.i, j, k.j⟩ (⟨.equal, k.i, k.i + k.n, k.j, k.j + k.n⟩ ::
          opcodesFrom a.length b.length (k.i + k.n) (k.j + k.n) ks)
        have e1 : opIns ⟨.delete, i, k.i, j, k.j⟩ = 0 ∧ opRem ⟨.delete, i, k.i, j, k.j⟩ = k.i - i := ⟨rfl, rfl⟩
        omega
      · split
        · simp only [List.cons_append, List.nil_append]
          have c := of_cons ⟨.insert, i, k.i, j, k.j⟩ (⟨.equal, k.i, k.i + k.n, k.j, k.j + k.n⟩ ::
            opcodesFrom a.length b.length (k.i + k.n) (k.j + k.n) ks)
          have e1 : opIns ⟨.insert, i, k.i, j, k.j⟩ = k.j - j ∧ opRem ⟨.insert, i, k.i, j, k.j⟩ = 0 := ⟨rfl, rfl⟩
          omega
        · simp only [List.nil_append]
          omega

/-! ### from opcodes to hunk lines -/

theorem counts_opLines (a b : List Line) (o : Op) (hv : validOp a b o = true) :
    insCount (opLines a b o) = opIns o ∧ remCount (opLines a b o) = opRem o := by
  obtain ⟨b1, b2, b3, b4⟩ := validOp_bounds a b o hv
  have la := length_slice a o.i1 o.i2 b3
  have lb := length_slice b o.j1 o.j2 b4
  unfold opLines opIns opRem
  cases ht : o.tag with
  | equal =>
    obtain ⟨c1, c2, c3, c4, c5⟩ := counts_ctx (slice a o.i1 o.i2)
    exact ⟨c3, c4⟩
  | replace =>
    obtain ⟨c1, c2, c3, c4, c5⟩ := counts_rem (slice a o.i1 o.i2)
    obtain ⟨d1, d2, d3, d4, d5⟩ := counts_ins (slice b o.j1 o.j2)
    obtain ⟨e1, e2, e3, e4, e5⟩ := counts_append ((slice a o.i1 o.i2).map .rem) ((slice b o.j1 o.j2).map .ins)
    simp only []
    omega
  | delete =>
    obtain ⟨c1, c2, c3, c4, c5⟩ := counts_rem (slice a o.i1 o.i2)
    simp only []
    omega
  | insert =>
    obtain ⟨c1, c2, c3, c4, c5⟩ := counts_ins (slice b o.j1 o.j2)
    simp only []
    omega

theorem counts_flatMap (a b : List Line) (g : List Op) (hv : ∀ o ∈ g, validOp a b o = true) :
    insCount (g.flatMap (opLines a b)) = insOf g ∧ remCount (g.flatMap (opLines a b)) = remOf g := by
  induction g with
  | nil => simp [insCount, remCount, insOf, remOf]
  | cons o g ih =>
    obtain ⟨c1, c2⟩ := counts_opLines a b o (hv o (by simp))
    obtain ⟨r1, r2⟩ := ih (fun x hx => hv x (List.mem_cons_of_mem _ hx))
    obtain ⟨e1, e2, e3, e4, e5⟩ := counts_append (opLines a b o) (g.flatMap (opLines a b))
    obtain ⟨k1, k2⟩ := of_cons o g
    simp only [List.flatMap_cons]
    omega

theorem validGroupsFrom_all (a b : List Line) (gs : List Group) (pi pj : Nat)
    (hv : validGroupsFrom a b pi pj gs = true) : ∀ g ∈ gs, ∀ o ∈ g, validOp a b o = true := by
  induction gs generalizing pi pj with
  | nil => simp
  | cons g gs ih =>
    unfold validGroupsFrom at hv
    match g, hv with
    | o :: os, hv =>
      simp only [Bool.and_eq_true, decide_eq_true_eq] at hv
      obtain ⟨_, hrest⟩ := hv
      cases hc : validChain a b o.i1 o.j1 (o :: os) with
      | none => simp [hc] at hrest
      | some p =>
        simp only [hc] at hrest
        intro g' hg'
        rcases List.mem_cons.mp hg' with rfl | hg'
        · exact validChain_all a b _ _ _ _ hc
        · exact ih _ _ hrest g' hg'

theorem mapM_groupHunk_counts (a b : List Line) (gs : List Group) (hs : List Hunk)
    (hv : ∀ g ∈ gs, ∀ o ∈ g, validOp a b o = true) (hm : gs.mapM (groupHunk a b) = some hs) :
    totalIns hs = gIns gs ∧ totalRem hs = gRem gs ∧ hs.length = gs.length := by
  induction gs generalizing hs with
  | nil => simp at hm; subst hm; simp [totalIns, totalRem, gIns, gRem]
  | cons g gs ih =>
    simp only [List.mapM_cons, Option.pure_def, Option.bind_eq_bind] at hm
    cases hg : groupHunk a b g with
    | none => simp [hg] at hm
    | some h0 =>
      cases hr : gs.mapM (groupHunk a b) with
      | none => simp [hg, hr] at hm
      | some hs0 =>
        simp only [hg, hr, Option.bind_some, Option.some.injEq] at hm
        subst hm
        obtain ⟨r1, r2, r3⟩ := ih hs0 (fun x hx => hv x (List.mem_cons_of_mem _ hx)) hr
        have hl : h0.lines = g.flatMap (opLines a b) := by
          unfold groupHunk at hg
          split at hg
          · simp only [Option.some.injEq] at hg; rw [← hg]
          · simp at hg
        obtain ⟨c1, c2⟩ := counts_flatMap a b g (hv g (by simp))
        simp only [totalIns, totalRem, gIns, gRem, List.map_cons, List.sum_cons, List.length_cons, hl] at r1 r2 ⊢
        omega

theorem totals_of_lines (hs hs' : List Hunk) (h : hs.map (·.lines) = hs'.map (·.lines)) :
    totalIns hs = totalIns hs' ∧ totalRem hs = totalRem hs' ∧ hs.length = hs'.length := by
  have e1 : totalIns hs = ((hs.map (·.lines)).map insCount).sum := by simp [totalIns, List.map_map, Function.comp_def]
  have e2 : totalIns hs' = ((hs'.map (·.lines)).map insCount).sum := by simp [totalIns, List.map_map, Function.comp_def]
  have e3 : totalRem hs = ((hs.map (·.lines)).map remCount).sum := by simp [totalRem, List.map_map, Function.comp_def]
  have e4 : totalRem hs' = ((hs'.map (·.lines)).map remCount).sum := by simp [totalRem, List.map_map, Function.comp_def]
  have e5 := congrArg List.length h
  simp only [List.length_map] at e5
  rw [e1, e2, e3, e4, h]
  exact ⟨rfl, rfl, e5⟩

/-- the hunks built from the grouped opcodes of valid matching blocks contain exactly the
lines outside the blocks, one hunk per group -/
theorem grouped_counts (a b : List Line) (ks : List Block) (n : Nat) (hv : validBlocks a b ks = true)
    (hs : List Hunk) (hm : mkHunks a b (grouped n (opcodes a.length b.length ks)) = some hs) :
    totalIns hs + (ks.map (·.n)).sum = b.length ∧ totalRem hs + (ks.map (·.n)).sum = a.length ∧
    hs.length = (grouped n (opcodes a.length b.length ks)).length := by
  have hvg := grouped_valid a b ks n hv
  simp only [mkHunks, Option.map_eq_some_iff] at hm
  obtain ⟨hs0, hm0, rfl⟩ := hm
  obtain ⟨t1, t2, t3⟩ := totals_of_lines _ _ (fixFirst_lines a b hs0)
  obtain ⟨m1, m2, m3⟩ := mapM_groupHunk_counts a b _ hs0 (validGroupsFrom_all a b _ 0 0 hvg) hm0
  obtain ⟨g1, g2⟩ := grouped_counts_ops n (opcodes a.length b.length ks)
  obtain ⟨o1, o2⟩ := opcodesFrom_counts a b ks 0 0 hv
  unfold opcodes at g1 g2 m1 m2 m3 ⊢
  omega

end BreezyVerif.C39
