"""bzr (2a dirstate) working tree: unversion() of a COMMITTED directory that has a versioned sub-directory with
content leaves a dirstate on which iter_changes(basis) raises AssertionError ("Could not find target parent in wt").

  mkdir f f/f; echo y > f/f/a; add; commit; wt.unversion(['f']); wt.iter_changes(wt.basis_tree())

remove(['f'], keep_files=True) - the same change through apply_inventory_delta - works.
Run: /venv/bin/python repro_bzr_unversion_nested_directory.py   (exit 1 = defect present)
"""
import os, sys, tempfile, traceback
REPO = os.environ.get("VERIF_REPO", "/repo")
sys.path.insert(0, REPO)
base = tempfile.mkdtemp(prefix="c09-repro-", dir="/var/tmp/imp-C09")
os.environ["HOME"] = base
os.environ["BRZ_HOME"] = base
os.environ["BRZ_EMAIL"] = "T <t@example.com>"
import breezy
breezy.initialize()
import breezy.bzr  # noqa
from breezy.controldir import ControlDir, format_registry
from breezy.workingtree import WorkingTree


def run(how, reopen):
    d = tempfile.mkdtemp(prefix="wt-", dir=base)
    wt = ControlDir.create_standalone_workingtree(d, format=format_registry.make_controldir("2a"))
    os.makedirs(os.path.join(d, "f", "f"))
    open(os.path.join(d, "f", "f", "a"), "w").write("y")
    wt.add(["f", "f/f", "f/f/a"])
    wt.commit("one")
    if how == "unversion":
        wt.unversion(["f"])
    else:
        wt.remove(["f"], keep_files=True)
    if reopen:
        wt = WorkingTree.open(d)
    try:
        with wt.lock_read():
            paths = sorted(wt.all_versioned_paths())
            ch = sorted((c.path, c.versioned) for c in wt.iter_changes(wt.basis_tree()))
        print(how, "reopen=%s" % reopen, "versioned:", paths, "status:", ch)
        return paths == [""] and len(ch) == 3
    except BaseException as e:
        print(how, "reopen=%s" % reopen, "RAISED", type(e).__name__, e)
        traceback.print_exc(limit=-4)
        return False


ok = [run("remove-keep", False), run("unversion", False), run("unversion", True)]
sys.exit(0 if all(ok) else 1)
