/-
C42 — exports contain exactly the exported tree.

Literal model of `breezy/export.py:_export_iter_entries` over the entry stream
of `tree.iter_entries_by_dir()` (paths are Python `str`s = `List Char`; the
code works with `startswith`, slicing and `rstrip`), of the member naming of
the archive generators (`osutils.pathjoin(root, final_path)`, the trailing `/`
of directories, the `.lnk` text members that stand for symlinks in zip files,
the fixed 0644 mode of zip members), of the directory exporter, and of
`export.get_root_name`.

`exportSpec` is the component-level specification ("the entries strictly
below the selected directory, re-rooted; or the selected non-directory
itself"): Props/C42.lean proves that the string-level code computes it.
-/
namespace BreezyVerif.C42

abbrev Str := List Char
abbrev Bytes := List UInt8

inductive Kind where
  | file | dir | symlink
  /-- anything else (`tree-reference` without recursion is exported as a
  directory by the code; kinds the exporters do not know raise) -/
  | other
  deriving DecidableEq, Repr

/-- one `(path, entry)` pair as yielded by `iter_entries_by_dir`, with the
attributes the exporters ask the tree for -/
structure Ent where
  path : Str
  name : Str
  kind : Kind
  content : Bytes := []
  exec : Bool := false
  target : Str := []
  deriving DecidableEq, Repr

/-- `s.rstrip("/")` -/
def rstripSlash (s : Str) : Str := (s.reverse.dropWhile (· == '/')).reverse

/-- the first lines of `_export_iter_entries`: `""` means no selection, any
other value loses its trailing slashes -/
def normSubdir : Option Str → Option Str
  | none => none
  | some s => if s = [] then none else some (rstripSlash s)

/-- what `_export_iter_entries` yields: `(final_path, tree_path, entry)` -/
structure Item where
  final : Str
  ent : Ent
  deriving DecidableEq, Repr

/-- the body of the loop of `_export_iter_entries` for one entry; `sub` is the
normalised selection.  (`tree.has_filename(path)` is true for every entry of a
revision tree and is not modelled.) -/
def step (special : Str → Bool) (sub : Option Str) (e : Ent) : Option Item :=
  if e.path = [] then none
  else if special e.path then none
  else if some e.path = sub then
    (if e.kind = .dir then none else some ⟨e.name, e⟩)
  else match sub with
    | some s =>
      if (s ++ ['/']).isPrefixOf e.path then some ⟨e.path.drop (s.length + 1), e⟩ else none
    | none => some ⟨e.path, e⟩

def exportIter (special : Str → Bool) (subdir : Option Str) (ents : List Ent) : List Item :=
  ents.filterMap (step special (normSubdir subdir))

/-- `InventoryTree.is_special_path` / `GitTree.is_special_path`: the path
starts with the given text; `Tree.is_special_path` (no prefix): never -/
def specialOf : Option Str → Str → Bool
  | none, _ => false
  | some pfx, p => pfx.isPrefixOf p

/-- `osutils.pathjoin(root, p)` (`PathBuf::push`): an absolute `p` replaces,
an empty root disappears, exactly one separator otherwise -/
def pathjoin (root p : Str) : Str :=
  if p.head? = some '/' then p
  else if root = [] then p
  else if root.getLast? = some '/' then root ++ p
  else root ++ '/' :: p

/-- an archive member / exported node as it is observed after extraction -/
structure Member where
  name : Str
  kind : Kind
  content : Bytes
  exec : Bool
  target : Str
  deriving DecidableEq, Repr

/-- a per-file content filter (`ContentFilterTree`): applied to the text of
regular files only -/
abbrev Filter := Str → Bytes → Bytes

/-- `str.encode("utf-8")` -/
def utf8 (s : Str) : Bytes := (String.ofList s).toUTF8.toList

/-- `prepare_tarball_item`: name `pathjoin(root, final_path)` (directories get
a trailing `/` that the tar reader strips again), mode 0755/0644 from the
executable bit, link name from the tree -/
def tarMember (filt : Filter) (root : Str) (it : Item) : Except Str Member :=
  let name := pathjoin root it.final
  match it.ent.kind with
  | .file => .ok ⟨name, .file, filt it.ent.path it.ent.content, it.ent.exec, []⟩
  | .dir => .ok ⟨name, .dir, [], false, []⟩
  | .symlink => .ok ⟨name, .symlink, [], false, it.ent.target⟩
  | .other => .error it.final

/-- `zip_archive_generator`: directories end in `/`, a symlink becomes a text
member `<name>.lnk` holding the target, unknown kinds are silently skipped.
`keepExec = false` is the exporter as found (every file has mode 0644: the
executable bit is lost, see the finding `zip-exec-bit-dropped`); `true` is the
exporter that records mode 0755 for executable files.  The check selects the
variant by probing the code under test. -/
def zipMember (keepExec : Bool) (filt : Filter) (root : Str) (it : Item) : Option Member :=
  let name := pathjoin root it.final
  match it.ent.kind with
  | .file => some ⟨name, .file, filt it.ent.path it.ent.content, keepExec && it.ent.exec, []⟩
  | .dir => some ⟨name ++ ['/'], .dir, [], false, []⟩
  | .symlink => some ⟨name ++ ".lnk".toList, .file, utf8 it.ent.target, false, []⟩
  | .other => none

/-- `dir_exporter_generator`: the root option is not used; paths are relative
to the destination directory -/
def dirMember (filt : Filter) (it : Item) : Except Str Member :=
  match it.ent.kind with
  | .file => .ok ⟨it.final, .file, filt it.ent.path it.ent.content, it.ent.exec, []⟩
  | .dir => .ok ⟨it.final, .dir, [], false, []⟩
  | .symlink => .ok ⟨it.final, .symlink, [], false, it.ent.target⟩
  | .other => .error it.final

def tarMembers (filt : Filter) (root : Str) (its : List Item) : Except Str (List Member) :=
  its.mapM (tarMember filt root)

def dirMembers (filt : Filter) (its : List Item) : Except Str (List Member) :=
  its.mapM (dirMember filt)

def zipMembers (keepExec : Bool) (filt : Filter) (root : Str) (its : List Item) : List Member :=
  its.filterMap (zipMember keepExec filt root)

/-- extensions in registration order (`archive.format_registry`) -/
def extensions : List Str :=
  [".tar", ".tar.gz", ".tgz", ".tar.bz2", ".tbz2", ".tar.lzma", ".tar.xz", ".zip"].map String.toList

def endsWith (s suf : Str) : Bool := suf.reverse.isPrefixOf s.reverse

/-- `os.path.basename` -/
def basename (s : Str) : Str := (s.reverse.takeWhile (· != '/')).reverse

/-- `export.get_root_name` -/
def rootName (dest : Str) : Str :=
  if dest = ['-'] then [] else
  let b := basename dest
  match extensions.find? (endsWith b) with
  | some ext => b.take (b.length - ext.length)
  | none => b

/-! ### component-level specification -/

abbrev Name := Str

/-- `"/".join(components)` -/
def pathStr : List Name → Str
  | [] => []
  | [a] => a
  | a :: b :: r => a ++ '/' :: pathStr (b :: r)

/-- an entry of the tree addressed by its component path (`[]` = the root) -/
structure CEnt where
  cpath : List Name
  kind : Kind
  content : Bytes := []
  exec : Bool := false
  target : Str := []
  deriving DecidableEq, Repr

/-- the name of the entry: its last component (`""` for the root) -/
def lastName : List Name → Name
  | [] => []
  | [a] => a
  | _ :: b :: r => lastName (b :: r)

/-- the `(path, entry)` pair the implementation sees for a tree entry -/
def render (c : CEnt) : Ent :=
  { path := pathStr c.cpath, name := lastName c.cpath, kind := c.kind,
    content := c.content, exec := c.exec, target := c.target }

def goodName (n : Name) : Bool := !n.isEmpty && !n.contains '/'

/-- `s` is a proper component prefix of `p` -/
def below (s p : List Name) : Bool := s.isPrefixOf p && s.length < p.length

structure SItem where
  final : List Name
  ent : CEnt
  deriving DecidableEq, Repr

/-- the specification of one step: nothing for the root and for special
paths; without a selection the entry itself; with a selection `s` the entries
properly below `s`, re-rooted, or `s` itself (under its own name) when it is
not a directory -/
def specStep (special : Str → Bool) (sub : Option (List Name)) (c : CEnt) : Option SItem :=
  if c.cpath = [] then none
  else if special (pathStr c.cpath) then none
  else match sub with
    | none => some ⟨c.cpath, c⟩
    | some s =>
      if c.cpath = s then (if c.kind = .dir then none else some ⟨[lastName c.cpath], c⟩)
      else if below s c.cpath then some ⟨c.cpath.drop s.length, c⟩
      else none

def exportSpec (special : Str → Bool) (sub : Option (List Name)) (t : List CEnt) : List SItem :=
  t.filterMap (specStep special sub)

def renderItem (i : SItem) : Item := ⟨pathStr i.final, render i.ent⟩

/-- the sub-tree below `s`, re-rooted -/
def subtree (s : List Name) (t : List CEnt) : List CEnt :=
  t.filterMap fun c => if below s c.cpath then some { c with cpath := c.cpath.drop s.length } else none

/-- every entry but the root has a parent directory that was yielded before it -/
def parentsFirst : List CEnt → List CEnt → Bool
  | _, [] => true
  | seen, c :: rest =>
    (c.cpath.length ≤ 1 || seen.any (fun d => d.cpath == c.cpath.dropLast && d.kind == .dir))
      && parentsFirst (c :: seen) rest

/-- well-formed entry stream: component names are non-empty and free of `/`,
no path occurs twice, parents are directories and come first -/
def WF (t : List CEnt) : Bool :=
  t.all (fun c => c.cpath.all goodName) && decide (t.map (·.cpath)).Nodup && parentsFirst [] t

/-- every emitted item that lies deeper than the export root has its directory
emitted before it (what `os.mkdir` in the directory exporter and streaming
extractors rely on) -/
def itemsParentsFirst : List SItem → List SItem → Bool
  | _, [] => true
  | seen, i :: rest =>
    (i.final.length ≤ 1 || seen.any (fun j => j.final == i.final.dropLast && j.ent.kind == .dir))
      && itemsParentsFirst (i :: seen) rest

/-- a "special path" test that is closed under going down the tree (true of
every `startswith` test) -/
def Mono (special : Str → Bool) : Prop := ∀ p q : Str, special p = true → p <+: q → special q = true

/-- the prefix of member names that the root option induces -/
def rootDir (root : Str) : Str :=
  if root = [] then [] else if root.getLast? = some '/' then root else root ++ ['/']

/-! ### archive members at specification level -/

/-- the tar / directory member a specification item stands for: its name is
the root directory prefix followed by `"/".join(final)`; content, executable
bit and link target are the tree entry's (the per-file filter sees the tree
path) -/
def specTar (filt : Filter) (root : Str) (i : SItem) : Except Str Member :=
  let name := rootDir root ++ pathStr i.final
  match i.ent.kind with
  | .file => .ok ⟨name, .file, filt (pathStr i.ent.cpath) i.ent.content, i.ent.exec, []⟩
  | .dir => .ok ⟨name, .dir, [], false, []⟩
  | .symlink => .ok ⟨name, .symlink, [], false, i.ent.target⟩
  | .other => .error (pathStr i.final)

/-- the zip member a specification item stands for -/
def specZip (keepExec : Bool) (filt : Filter) (root : Str) (i : SItem) : Option Member :=
  let name := rootDir root ++ pathStr i.final
  match i.ent.kind with
  | .file => some ⟨name, .file, filt (pathStr i.ent.cpath) i.ent.content, keepExec && i.ent.exec, []⟩
  | .dir => some ⟨name ++ ['/'], .dir, [], false, []⟩
  | .symlink => some ⟨name ++ ".lnk".toList, .file, utf8 i.ent.target, false, []⟩
  | .other => none

/-- the `subdir` argument (a Python `str` or `None`) denotes a component-level
selection: `None` and `""` denote "no selection"; a `/`-join of good names
followed by any number of slashes denotes that path -/
inductive Denotes : Option Str → Option (List Name) → Prop
  | none : Denotes none none
  | empty : Denotes (some []) none
  | path (s : List Name) (k : Nat) : s.all goodName = true → s ≠ [] →
      Denotes (some (pathStr s ++ List.replicate k '/')) (some s)

/-- `s.split("/")` -/
def splitSlash : Str → List Str
  | [] => [[]]
  | c :: r =>
    if c = '/' then [] :: splitSlash r
    else match splitSlash r with
      | [] => [[c]]
      | h :: t => (c :: h) :: t

end BreezyVerif.C42
