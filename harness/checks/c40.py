"""C40 — bundles and merge directives reproduce what they carry.

Mechanism: breezy/bzr/bundle/serializer/v4.py (BundleWriteOperation, BundleWriter/BundleReader,
RevisionInstaller), v08.py / v09.py + bundle_data.py (BundleSerializerV08/09, BundleReader, BundleInfo,
BundleTree), apply_bundle.py (install_bundle), breezy/merge_directive.py (MergeDirective2.to_lines /
_from_lines / from_objects / _verify_patch, MergeDirective.from_lines).

Model (lean/BreezyVerif/Model/C40.lean): (1) record-level bundle write/install over the abstract repository
of C03: bundled revisions = source ancestry of the target minus everything reachable from the base
(C33.bfs); v4 carries one revision + one inventory record per revision (target last) and the text records
chosen by fileids_altered_by_revision_ids (CHK: entries that differ from every boundary-parent inventory;
XML inventories: entries whose text revision is bundled); install adds every record, existing keys keep
their value; 0.8/0.9 carries one record per revision with the base its delta is against (explicit base for
the target, last parent otherwise), install skips present revisions, needs every base, adds revision,
inventory and the inventory's missing texts.  (2) merge directive format 2 at byte level: header search and
format lookup, stanza block (codec = parameter), `# Begin patch` / `# Begin bundle` sections built with
bytes.splitlines(True); the fields themselves (Model/C40F.lean): the stanza `_to_lines` builds (sorted keyword tags,
then source_branch / message / base_revision_id), `_from_lines`' lookups, required keywords and NoMergeSource check,
and the timestamp codec format_patch_date / parse_patch_date of crates/patch (calendar of C47) - only the line
encoding of the stanza (bzrformats rio_patch) stays a parameter.  (3) _verify_patch's normalisation (CR/CRLF -> LF,
trailing spaces dropped).

T2: histories generated as abstract tree states per revision (adds, content edits incl. binary/NUL/CRLF/no
final newline, renames, moves of directories, name swaps, deletions, exec toggles, symlinks and target
changes, occasional kind changes, merges that take content / names / new files from the other parent,
unicode and spaced names, odd messages and committers) are committed through a real working tree; for
sampled (base, target) pairs (base an ancestor, a sibling or a descendant of the target, or null:) the real
serializers 4 and 0.9 (0.8 for non-rich-root formats) write the bundle, a fresh repository holding only the
base (sometimes also an unrelated extra revision) installs it, and the bundled revision / inventory / text
keys, the returned target, the per-revision bases (0.9) and all key sets of the repository afterwards are
compared with the model.  Directives with random fields are serialised by the real code and compared line
by line with the model (stanza block taken from the real codec), parsed back from the list and from a file
object with the model predicting the stanza block the codec consumes and the patch/bundle split; a ~10 %
stream damages the text outside the stanza (junk before the header, other / unknown formats, bad payload
markers) and is compared on error kind and payload split.  The stanza handed to / returned by the real rio_patch
codec is captured and compared with the model's field <-> stanza functions (md.fields / md.unfields, incl.
directives without testament sha1, epoch times, offsets that are refused); format_patch_date / parse_patch_date
are compared directly on times up to year 9999, offsets incl. negative with minutes, +-2359, invalid ones, and on
canonical-shape strings with out-of-range fields (Feb 30, hour 24, offset 2460) by error kind.  The normalisation
is compared exhaustively on all strings over {a, space, CR, LF} up to length 6 (7 thorough; the only exhaustive
part, counted separately), and on real diffs with one-byte mutations.  Every run contains one directed scenario
(forced_history): two branches edit the same line and retarget the same symlink, each merges the other
(criss-cross), so that a conflicting bundle-merge, symlink retargets in 0.9 bundles and criss-cross merges in both
directions are reached on every seed; and a side branch of 13 revisions (edits, binary add, move, exec bit, symlink
retarget, rename) is merged back into its OLD first parent, so that bundles (always into 2a) carry more
inventories between a merge's first parent and the merge than the v4 installer's LRUCache(10) holds.

Oracle (independent of the model): after every install every revision of the target's ancestry is present
with an equal Revision, an equal StrictTestament3 text, and byte-identical file texts whose sha1 is the one
the inventory records; nothing the repository held changed; the returned revision is the target; merging
the target into a checkout from the bundle (Merger.from_mergeable) and from the branch gives identical
working trees, conflicts and pending merges; a bundle with one byte changed either raises or installs
exactly the original revisions (read in a forked child with a time limit); a truncated v4 bundle raises;
from_lines(to_lines(d)) == d field by field (list and file object) outside the documented exclusions (a patch line
starting with `# Begin bundle`; time 0 keeps no timezone - "the epoch is always given in utc"; integral time);
to_lines may refuse only dates outside the timestamp's domain; parse_patch_date(format_patch_date(t, tz)) == (t, tz)
on the domain of patch_date_roundtrip; MergeDirective2.from_objects directives install their target with the testament sha1 they
name and their patch verifies; a patch mutation outside {space, CR, LF} is never reported as verified.

Mutants this was built against (scratch worktree /var/tmp/wt-C40; all caught with a concrete input unless
noted): v4 writer ignores the base (find_unique_ancestors(target, [])); v4 write_files emits one text per
file id only; 0.9 writer diffs merge revisions against the first instead of the last parent; 0.9 reader
parses the executable flag as "true"; to_lines emits the bundle section before the patch section;
_verify_patch no longer folds a lone CR (caught by the benign-mutation oracle and T2); v4 encode_name
without `/` escaping (file ids containing `/`); 0.9 writer drops the symlink target property;
_verify_patch regenerates the diff against the wrong base.  Equivalent / harmless (stay clean): dropping the
final text flush of RevisionInstaller (file records never end a bundle), list-concatenation rewrite of
to_lines, filter() rewrite of the ghost stripping.  install_bundle without its has_revision skip makes the
real code loop for ever: the per-scenario alarm turns that into an infrastructure failure (exit 2).
Fix-reverted runs (each a plain VIOLATION): b80d98c (parse_patch_date sign), 8f646b8 (incomplete bz2 stream).

Findings of the improvement round (family-tagged violations until the coordinator decides; repro scripts and
diffs in /var/tmp/imp-C39C40/findings):
  directive-file-roundtrip-patch-without-final-newline-before-bundle: a patch whose last line has no newline,
    followed by a bundle, written to a file: `# Begin bundle` is glued to the last patch line, the bundle is read
    as part of the patch (Lean: directive_file_nonl_witness; formerly classified "outside domain").
  directive-without-testament-sha1-does-not-parse: _to_lines omits a None testament_sha1, _from_lines then calls
    the constructor without the required keyword (TypeError) (Lean: directive_no_testament_witness; the model has
    the strict and the tolerant variant, selected by a probe of the tree).
Seeded change C40b (v4 RevisionInstaller takes ANY cached parent inventory as delta basis but applies the delta
on parent_ids[0]; needs a merge whose first parent was evicted from the cache): plain VIOLATION on seeds 0-3
through the long side branch of the directed scenario ("testament of installed revision r08 differs").
A violation is tagged with the no-final-newline family only when the observed damage is exactly the predicted one
(patch + marker + bundle glued, no bundle / NoMergeSource), with the testament family only on a strict tree.
Mutants of the improvement round: BundleTree.get_symlink_target prefers the base tree's target (symlink retarget
lost in 0.9 bundles) -> plain VIOLATION on every seed through the directed scenario (TestamentMismatch at install);
_from_lines tolerant of a missing testament (the proposed fix) -> clean for that family, model variant switches.
Rust (crates/patch/src/timestamp.rs, rebuilt into a scratch target dir): parse_patch_date adds the offset minutes
without `* 60` -> plain VIOLATION (a directive at +0530 comes back with another time and timezone; also 130 T2
mismatches of pdate.parse); format_patch_date without the "epoch in utc" rule -> the property still holds (the
timezone even survives), reported as a broken tie by md.fields / pdate.fmt (8 mismatches).
"""
import hashlib
import os
import random
import shutil

from vlib import env

THEOREMS = [
    "bundle_revs_spec", "bundle_partition", "bundle_contents", "bundle_install_monotone", "bundle_install_faithful",
    "install_returns_target", "bundle09_install_faithful", "split_join", "directive_roundtrip",
    "directive_roundtrip_file", "blockCodec_law", "directive_marker_witness", "verify_refl", "norm_skeleton",
    "tamper_detected", "verify_whitespace_witness",
    "bundle_install_complete", "bundle_install_texts_faithful", "bundle_orphan_inventory_witness",
    "bundle09_install_complete", "directive_file_nonl_witness", "patch_date_roundtrip", "directive_fields_roundtrip",
    "directive_fields_roundtrip_file", "directive_epoch_timezone_witness", "directive_no_testament_witness",
    "tamper_detected_general", "tamper_insert_detected", "tamper_delete_detected", "tamper_ws_swap_detected",
    "prop_line_roundtrip", "prop_line_roundtrip_valid", "prop_lines_roundtrip",
]
RUST = ("patch-py",)      # format_patch_date / parse_patch_date of the directive's timestamp
RULE = ("scenario = (seed, index, repository format): a generated history of 5-8 revisions committed through a working "
        "tree; case = one (base, target, serializer version[, extra revision in the installing repository]) "
        "write+install, one single-byte mutation of a bundle, one bundle-vs-branch merge, one directive (random "
        "fields) round trip, one damaged directive text, one from_objects directive with patch mutations, or one "
        "string of the exhaustive normalisation enumeration; non-trivial = the bundle carries >= 2 revisions or "
        "is relative to a non-null base / the directive has a patch or a bundle; distinct by canonical case")
ASSUMPTIONS = [
    "sha-1 is injective on the texts met (a changed text has a changed sha1); bz2's CRC detects damaged compressed "
    "blocks: both are what makes a mutated bundle fail, neither is modelled",
    "the stanza LINE codec of bzrformats (rio.Stanza, rio_patch.to_patch_lines / read_patch_stanza) round-trips: "
    "dec(enc(stanza) ++ ['# \\n'] ++ rest) = (stanza, rest) — the hypothesis CodecLaw of directive_roundtrip / "
    "directive_fields_roundtrip, checked on every generated directive through the real code (the stanza built from "
    "the fields and the fields read from the stanza are modelled and proved)",
    "merge directive times are whole seconds (format_patch_date has second resolution); revision ids and sha1s are "
    "valid UTF-8 (bytes.decode / str.encode around the stanza are inverse there)",
    "parse_patch_date is modelled on strings of the canonical shape `dddd-dd-dd dd:dd:dd [+-]dddd` with seconds < 60 "
    "(chrono's leniency about widths, spaces and leap seconds is outside the model); years 0..9999",
]
TRUSTED = [
    "mpdiff, container, bz2, base64 and patch-text encodings (bzrformats / stdlib) and the 0.9 text format's "
    "parser are exercised by the correspondence run and judged by the oracle, not modelled",
    "the order in which 0.9 records are installed is vcsgraph's iter_topo_order (external): the model checks that "
    "every base is in the repository or in the bundle instead",
    "vcsgraph's breadth-first searcher is specified by Model/C33.bfs (its own correspondence is checked by C33)",
]

NULL = b"null:"
ROOT_ID = b"TREE_ROOT"

# ------------------------------------------------------------------ contents
LINES = [b"alpha\n", b"beta\n", b"gamma delta\n", b"the quick brown fox\n", b"\n", b"trailing space \n",
         b"crlf line\r\n", b"tab\there\n", b"=== modified file 'x'\n", b"# Begin bundle\n", b"--- a\n", b"+++ b\n",
         b"@@ -1 +1 @@\n", b"\\ No newline at end of file\n", b"... dots\n", b"# comment: x\n", b"\xc3\xa9t\xc3\xa9\n"]
TAILS = [b"", b"", b"", b"no newline at end", b"\r", b" "]
BINARY = [b"\x00", b"\x00\x01\x02bin\x00\n", b"\xff\xfe\x00\x00", b"PNG\r\n\x1a\n\x00\x00", b"\x00" * 5 + b"\n", b"a\x00b\n"]


_uniq = [0]


def _binary(rng, nul):
    """a binary chunk.  nul = 'raw': as is; 'guarded': a never-repeated token in front, so that no
    group-compress copy instruction can end directly before a NUL (the external bzrformats defect
    gc-rabin-delta-nul-after-source-end: NULs that follow a block copied from the end of the delta
    source are stored as other bytes)."""
    b = rng.choice(BINARY)
    if nul == "guarded":
        _uniq[0] += 1
        return b"<%05d>" % _uniq[0] + b
    return b


def gen_content(rng, nul="guarded"):
    r = rng.random()
    if r < 0.07:
        return b""
    n = rng.randint(1, 6)
    parts = [rng.choice(LINES) for _ in range(n)]
    if r < 0.3 and nul:
        parts.insert(rng.randint(0, n), _binary(rng, nul))
    return b"".join(parts) + rng.choice(TAILS)


def mutate_content(rng, c, nul="guarded"):
    """a related content: keep most lines (so that deltas / diffs have context)"""
    lines = c.splitlines(True)
    if not lines or rng.random() < 0.2:
        return gen_content(rng, nul)
    for _ in range(rng.randint(1, 2)):
        if not lines:
            lines.append(rng.choice(LINES))
            continue
        i = rng.randrange(len(lines) + 1)
        r = rng.random()
        if r < 0.4:
            new = rng.choice(LINES) if (not nul or rng.random() < 0.85) else _binary(rng, nul)
            if i < len(lines) or lines[-1].endswith(b"\n"):
                lines.insert(i, new)
            else:
                lines.insert(i - 1, new)
        elif r < 0.7 and lines:
            del lines[min(i, len(lines) - 1)]
        else:
            j = min(i, len(lines) - 1)
            lines[j] = rng.choice(LINES) if j < len(lines) - 1 else rng.choice(LINES) + rng.choice(TAILS)
    out = b"".join(lines)
    return out if out != c else c + b"more\n"


NAMES = ["a", "b", "c", "dir", "sub", "file.txt", "with space", "été", "x-y", "Makefile", "z"]
MESSAGES = ["msg", "two\nlines", "unicode é€", "", "trailing space ", " leading", "colon: here", "a\n\nb",
            "# hash", "ends with newline\n", "=== x", "tab\tmsg"]
COMMITTERS = ["Joe <joe@example.com>", "Jürgen M <j@example.com>", "noemail", "A: B <c@d>"]


# ------------------------------------------------------------------ abstract history
# tree: fid -> (parent_fid, name, kind, data, exec); data = bytes (file) | str (symlink target) | None

def tree_paths(tree):
    """fid -> path"""
    out = {}

    def path(fid):
        if fid in out:
            return out[fid]
        p, name = tree[fid][0], tree[fid][1]
        out[fid] = name if p is None else (path(p) + "/" + name if path(p) else name)
        return out[fid]
    for fid in tree:
        path(fid)
    return out


def _children(tree, fid):
    return [f for f, e in tree.items() if e[0] == fid]


def _descendants(tree, fid):
    out, todo = set(), [fid]
    while todo:
        x = todo.pop()
        for c in _children(tree, x):
            out.add(c)
            todo.append(c)
    return out


def _free_name(rng, tree, parent, i):
    used = {e[1] for e in tree.values() if e[0] == parent}
    cands = [n for n in NAMES if n not in used]
    if cands and rng.random() < 0.85:
        return rng.choice(cands)
    k = i
    while "n%d" % k in used:
        k += 1
    return "n%d" % k


def gen_history(rng, nrevs, opts=None):
    """format-independent history: list of dict(rid, parents, tree, msg, ts, tz, committer, props, tags)"""
    opts = opts or {}
    allow_nul = opts.get("nul", "guarded")
    revs, by_id = [], {}
    fidc = [0]

    def new_fid(kind):
        fidc[0] += 1
        # some ids contain the characters the v4 record names escape (`/`) and the 0.9 action lines use (`:`)
        return ("%s%s%d" % (kind[0], rng.choice(["-", "-", "-", "/", "//", ":"]), fidc[0])).encode()

    tips = []
    for i in range(nrevs):
        rid = ("r%02d" % (i + 1)).encode()
        ops = []
        if i == 0:
            parents = []
            tree = {ROOT_ID: (None, "", "directory", None, False)}
            for k in range(rng.randint(2, 5)):
                kind = rng.choice(["file", "file", "file", "directory", "symlink"])
                _add(rng, tree, new_fid(kind), kind, i * 10 + k, allow_nul)
            ops.append("init")
        else:
            left = tips[-1] if rng.random() < 0.7 else rng.choice(revs)["rid"]
            parents = [left]
            tree = dict(by_id[left]["tree"])
            if rng.random() < opts.get("merge", 0.35) and len(revs) >= 2:
                cands = [r["rid"] for r in revs if r["rid"] != left and r["rid"] not in _anc(by_id, left)]
                if cands:
                    other = rng.choice(cands)
                    parents.append(other)
                    _take_other(rng, tree, by_id[other]["tree"], ops)
                    if rng.random() < 0.15:
                        third = [c for c in cands if c != other]
                        if third:
                            parents.append(rng.choice(third))
            if opts.get("ghost", 0.0) and rng.random() < opts["ghost"]:
                parents.append(b"ghost-%d" % i)
            for _ in range(rng.choice([0, 1, 1, 2, 3])):
                _mutate_tree(rng, tree, new_fid, i, ops, allow_nul)
        rv = dict(rid=rid, parents=parents, tree=tree, ops=ops,
                  msg=rng.choice(MESSAGES) + (" %d" % i if rng.random() < 0.5 else ""),
                  ts=float(1500000000 + i * 1000 + rng.choice([0, 0, 0.25, 0.123])),
                  tz=rng.choice([0, 3600, -18000, 19800, -12600]),
                  committer=rng.choice(COMMITTERS),
                  props=rng.choice([{}, {}, {"branch-nick": "nick %d" % i}, {"empty": ""},
                                    {"author": "Someone <s@x>", "x-prop": "v:1"},
                                    # values that contain the `key: value` separator of the 0.9 bundle footer
                                    {"review-note": "see: ticket %d: handle the edge case" % i},
                                    {"bugs": "https://example.org/bug/%d fixed" % i, "note": "ends with colon:", "k": "a: b: c"}]))
        revs.append(rv)
        by_id[rid] = rv
        tips.append(rid)
    return revs


def _anc(by_id, rid):
    out, todo = set(), [rid]
    while todo:
        x = todo.pop()
        if x in out or x not in by_id:
            continue
        out.add(x)
        todo.extend(by_id[x]["parents"])
    return out


def _add(rng, tree, fid, kind, i, allow_nul="guarded", parent=None):
    dirs = [f for f, e in tree.items() if e[2] == "directory"]
    parent = parent or rng.choice(dirs)
    name = _free_name(rng, tree, parent, i)
    if kind == "file":
        tree[fid] = (parent, name, "file", gen_content(rng, allow_nul), rng.random() < 0.2)
    elif kind == "directory":
        tree[fid] = (parent, name, "directory", None, False)
    else:
        tree[fid] = (parent, name, "symlink", rng.choice(["target", "a/b", "é", "../up", "with space"]), False)


def _mutate_tree(rng, tree, new_fid, i, ops, allow_nul):
    files = sorted(f for f, e in tree.items() if e[2] == "file")
    links = sorted(f for f, e in tree.items() if e[2] == "symlink")
    dirs = sorted(f for f, e in tree.items() if e[2] == "directory")
    nonroot = sorted(f for f in tree if f != ROOT_ID)
    op = rng.choice(["modify", "modify", "add", "add", "rename", "move", "delete", "exec", "target", "swap", "kind",
                     "rename+modify", "adddir", "rename-onto-deleted"])
    if op == "modify" and files:
        f = rng.choice(files)
        e = tree[f]
        tree[f] = (e[0], e[1], "file", mutate_content(rng, e[3], allow_nul), e[4])
    elif op in ("add", "adddir"):
        kind = "directory" if op == "adddir" else rng.choice(["file", "file", "symlink"])
        _add(rng, tree, new_fid(kind), kind, i, allow_nul)
    elif op in ("rename", "rename+modify") and nonroot:
        f = rng.choice(nonroot)
        e = tree[f]
        data, ex = e[3], e[4]
        if op == "rename+modify" and e[2] == "file":
            if rng.random() < 0.4:
                ex = not ex                      # renamed and only the executable bit changes
            else:
                data = mutate_content(rng, data, allow_nul)
        tree[f] = (e[0], _free_name(rng, tree, e[0], i), e[2], data, ex)
    elif op == "move" and nonroot:
        f = rng.choice(nonroot)
        bad = _descendants(tree, f) | {f}
        targets = [d for d in dirs if d not in bad and d != tree[f][0]]
        if targets:
            d = rng.choice(targets)
            e = tree[f]
            name = e[1] if e[1] not in {x[1] for x in tree.values() if x[0] == d} else _free_name(rng, tree, d, i)
            tree[f] = (d, name, e[2], e[3], e[4])
    elif op == "delete" and len(nonroot) > 2:
        f = rng.choice(nonroot)
        for x in _descendants(tree, f) | {f}:
            del tree[x]
    elif op == "exec" and files:
        f = rng.choice(files)
        e = tree[f]
        tree[f] = (e[0], e[1], e[2], e[3], not e[4])
    elif op == "target" and links:
        f = rng.choice(links)
        e = tree[f]
        tree[f] = (e[0], e[1], e[2], e[3] + "2", e[4])
    elif op == "swap":
        sibs = {}
        for f in nonroot:
            sibs.setdefault(tree[f][0], []).append(f)
        pairs = [v for v in sibs.values() if len(v) >= 2]
        if pairs:
            a, b = rng.sample(rng.choice(pairs), 2)
            ea, eb = tree[a], tree[b]
            tree[a] = (ea[0], eb[1], ea[2], ea[3], ea[4])
            tree[b] = (eb[0], ea[1], eb[2], eb[3], eb[4])
    elif op == "rename-onto-deleted":
        # `rm a; mv b a`: a leaf is deleted and another entry takes over its name
        leaves = files + links
        if len(leaves) >= 2 and len(nonroot) > 2:
            a, b = rng.sample(leaves, 2)
            ea, eb = tree[a], tree[b]
            del tree[a]
            tree[b] = (ea[0], ea[1], eb[2], eb[3], eb[4])
    elif op == "kind" and (files or links):
        f = rng.choice(files + links)
        e = tree[f]
        if e[2] == "file":
            tree[f] = (e[0], e[1], "symlink", "was-file", False)
        else:
            tree[f] = (e[0], e[1], "file", gen_content(rng, allow_nul), False)
    ops.append(op)


def _take_other(rng, tree, other, ops):
    """merge: bring in files only the other side has, take the other side's version of some common files"""
    for f, e in sorted(other.items()):
        if f not in tree:
            if e[0] in tree and tree[e[0]][2] == "directory" and rng.random() < 0.7 \
                    and e[1] not in {x[1] for x in tree.values() if x[0] == e[0]}:
                tree[f] = e
                ops.append("merge-add")
        elif tree[f] != e and f != ROOT_ID and rng.random() < 0.5:
            mine = tree[f]
            if rng.random() < 0.6 and mine[2] == e[2]:
                tree[f] = (mine[0], mine[1], e[2], e[3], e[4])       # other's content, my name
                ops.append("merge-content")
            elif e[0] in tree and tree[e[0]][2] == "directory" and f not in _descendants(tree, f) \
                    and e[0] not in (_descendants(tree, f) | {f}) \
                    and e[1] not in {x[1] for k, x in tree.items() if x[0] == e[0] and k != f}:
                tree[f] = e                                           # other's everything
                ops.append("merge-all")


def forced_history(rng):
    """a directed history every run contains (contents still drawn from the seed): two branches edit the
    same line of one file and retarget the same symlink (a merge of one into the other conflicts), each
    side then merges the other (criss-cross: r04 = r02+r03, r05 = r03+r02) and goes on

        r01 - r02 - r04 - r06 ------------------- r08
           `   X           `                     /
            r03 - r05 - r07  s01 - s02 - ... - s13

    and a long side branch off r06 (13 revisions: edits, a binary add, a rename, an exec bit, a symlink
    retarget) merged back into the OLD first parent r06: between the first parent's inventory and the
    merge's there are more inventories than the v4 installer's cache of 10 holds.
    """
    F, L, D, G, H = b"f-1", b"s-2", b"d-3", b"f:4", b"f/5"
    body = [rng.choice(LINES) for _ in range(2)] + [b"the contested line\n"] + [rng.choice(LINES) for _ in range(2)]
    root = (None, "", "directory", None, False)

    def f(lines, ex=False):
        return (ROOT_ID, "f", "file", b"".join(lines), ex)
    left = body[:2] + [b"contested: left %d\n" % rng.randrange(100)] + body[3:]
    right = body[:2] + [b"contested: right %d\n" % rng.randrange(100)] + body[3:]
    g1, g3 = gen_content(rng), None
    g3 = mutate_content(rng, g1)
    t1 = {ROOT_ID: root, F: f(body), L: (ROOT_ID, "link", "symlink", "target-a", False),
          D: (ROOT_ID, "dir", "directory", None, False), G: (D, "g", "file", g1, False)}
    t2 = dict(t1); t2[F] = f(left); t2[L] = (ROOT_ID, "link", "symlink", "target-b", False)
    t3 = dict(t1); t3[F] = f(right); t3[L] = (ROOT_ID, "link", "symlink", "target-c", False)
    t3[G] = (D, "g", "file", g3, False)
    t3[H] = (D, "only-right", "file", gen_content(rng), True)
    t4 = dict(t2); t4[G] = t3[G]; t4[H] = t3[H]                         # left wins the contested parts
    t5 = dict(t3); t5[L] = (ROOT_ID, "link", "symlink", "target-b", False)   # right wins the file, takes left's link
    t6 = dict(t4); t6[F] = f([b"top %d\n" % rng.randrange(100)] + left)
    t7 = dict(t5); t7[F] = f(right + [b"bottom %d\n" % rng.randrange(100)], True)
    t7[L] = (ROOT_ID, "link", "symlink", "target-d", False)
    trees = [t1, t2, t3, t4, t5, t6, t7]
    rids = [b"r%02d" % (i + 1) for i in range(7)]
    parents = [[], [b"r01"], [b"r01"], [b"r02", b"r03"], [b"r03", b"r02"], [b"r04"], [b"r05"]]
    ops = [["init"], ["modify", "target"], ["modify", "target", "add"], ["merge-content", "merge-add"],
           ["merge-content"], ["modify"], ["modify", "exec", "target"]]
    # the long side branch off r06 and its merge into r06
    B = b"f-6"
    cur, lines, prev = dict(t6), [b"top\n"] + left, b"r06"
    for k in range(1, LONG_SIDE + 1):
        lines = lines + [b"side line %d %d\n" % (k, rng.randrange(100))]
        cur = dict(cur)
        cur[F] = f(lines, cur[F][4])
        o = ["modify"]
        if k == 2:
            cur[B] = (D, "extra.bin", "file", b"\x00\x01binary\xff\n" + rng.choice(LINES), False); o.append("add")
        elif k == 3:
            cur[G] = (ROOT_ID, "g-moved", "file", cur[G][3], cur[G][4]); o.append("move")
        elif k == 4:
            cur[G] = cur[G][:4] + (True,); o.append("exec")
        elif k == 6:
            cur[L] = (ROOT_ID, "link", "symlink", "target-side", False); o.append("target")
        elif k == 9:
            cur[H] = (D, "renamed-on-side", "file", cur[H][3], cur[H][4]); o.append("rename")
        trees.append(cur); rids.append(b"s%02d" % k); parents.append([prev]); ops.append(o)
        prev = rids[-1]
    merged = dict(cur)
    merged[F] = f(lines + [b"merged %d\n" % rng.randrange(100)], cur[F][4])
    trees.append(merged); rids.append(b"r08"); parents.append([b"r06", prev]); ops.append(["merge-content", "merge-all"])
    revs = []
    for i in range(len(trees)):
        revs.append(dict(rid=rids[i], parents=parents[i], tree=trees[i], ops=ops[i],
                         msg=rng.choice(MESSAGES), ts=float(1500000000 + i * 1000), tz=rng.choice([0, 3600, -12600]),
                         committer=rng.choice(COMMITTERS), props=rng.choice([{}, {"branch-nick": "forced"}])))
    return revs


# inventories between the first parent (r06) and the merge (r08): more than the v4 installer caches (LRUCache(10))
LONG_SIDE = 13


# (bundle base, target, tree the target is merged into): a conflicting merge, the criss-cross in both
# directions, and a merge whose base is one of the two criss-cross merges
FORCED_MERGES = [(b"r01", b"r03", b"r02"), (b"r03", b"r07", b"r06"), (b"r02", b"r06", b"r07"), (b"r04", b"r06", b"r04"),
                 (b"r04", b"r08", b"r07")]
# (base, target) bundles that carry the long side branch and its merge into the old first parent
FORCED_BUNDLES = [(b"r06", b"r08"), (b"r01", b"r08")]


# ------------------------------------------------------------------ realisation
def make_tree(path, fmt):
    from breezy.controldir import ControlDir, format_registry
    os.makedirs(path, exist_ok=True)
    return ControlDir.create_standalone_workingtree(path, format=format_registry.make_controldir(fmt))


def _apply_state(wt, old, new):
    """transform the working tree from abstract state `old` to `new` (file ids kept)"""
    from breezy.transform import ROOT_PARENT
    tt = wt.transform()
    try:
        tid = {}
        for fid in old:
            tid[fid] = tt.trans_id_file_id(fid)
        npaths = tree_paths(new)
        for fid in sorted((f for f in new if f not in old), key=lambda f: npaths[f].count("/") if npaths[f] else -1):
            p, name, kind, data, ex = new[fid]
            ptid = ROOT_PARENT if p is None else tid[p]
            if p is None:
                tid[fid] = tt.root
                tt.version_file(tt.root, file_id=fid)
            elif kind == "directory":
                tid[fid] = tt.new_directory(name, ptid, fid)
            elif kind == "file":
                tid[fid] = tt.new_file(name, ptid, [data], fid, executable=ex)
            else:
                tid[fid] = tt.new_symlink(name, ptid, data, fid)
        for fid in old:
            if fid not in new:
                tt.unversion_file(tid[fid])
                tt.delete_contents(tid[fid])
                continue
            o, n = old[fid], new[fid]
            if (o[0], o[1]) != (n[0], n[1]):
                tt.adjust_path(n[1], tid[n[0]], tid[fid])
            if (o[2], o[3]) != (n[2], n[3]):
                tt.delete_contents(tid[fid])
                if n[2] == "file":
                    tt.create_file([n[3]], tid[fid])
                elif n[2] == "symlink":
                    tt.create_symlink(n[3], tid[fid])
                else:
                    tt.create_directory(tid[fid])
            if n[2] == "file" and (o[4] != n[4] or o[2] != "file"):
                tt.set_executability(n[4], tid[fid])
        tt.apply(no_conflicts=True)
    finally:
        tt.finalize()


class Builder:
    """realises an abstract history in one standalone working tree: the tree's content is moved from
    state to state with a TreeTransform, the parents are set explicitly, then the tree is committed"""

    def __init__(self, path, fmt="2a"):
        self.wt = make_tree(path, fmt)
        self.wt.branch.nick = "trunk"      # the directory name must not leak into the revision properties
        self.cur = None          # abstract state of the working tree; None = freshly initialised
        self.by_id = {}

    def commit(self, rv):
        wt = self.wt
        parents = rv["parents"]
        with wt.lock_write():
            if self.cur is None:
                root_id = wt.path2id("")
                self.cur = {root_id: (None, "", "directory", None, False)}
                if root_id != ROOT_ID:
                    wt.set_root_id(ROOT_ID)
                    self.cur = {ROOT_ID: (None, "", "directory", None, False)}
            if parents:
                wt.branch.generate_revision_history(parents[0])
            else:
                wt.branch.set_last_revision_info(0, NULL)
            wt.set_parent_ids(list(parents), allow_leftmost_as_ghost=False)
            rv["parents"] = list(wt.get_parent_ids())       # parents that are ancestors of others are dropped
            # through the root-only state: no renames inside one transform (the commit still sees them by file id)
            rootonly = {ROOT_ID: (None, "", "directory", None, False)}
            if self.cur != rootonly:
                _apply_state(wt, self.cur, rootonly)
            _apply_state(wt, rootonly, rv["tree"])
            self.cur = dict(rv["tree"])
            wt.commit(rv["msg"], rev_id=rv["rid"], timestamp=rv["ts"], timezone=rv["tz"],
                      committer=rv["committer"], revprops=dict(rv["props"]), allow_pointless=True)
        self.by_id[rv["rid"]] = rv
        return rv["rid"]


def build_history(path, revs, fmt="2a"):
    b = Builder(path, fmt)
    for rv in revs:
        b.commit(rv)
    return b.wt.branch


def real_tree_state(tree):
    """fid -> (path, kind, data, exec) of a real revision tree (root included)"""
    out = {}
    with tree.lock_read():
        for p, ie in tree.iter_entries_by_dir():
            if ie.kind == "file":
                out[ie.file_id] = (p, "file", tree.get_file_text(p), bool(ie.executable))
            elif ie.kind == "symlink":
                out[ie.file_id] = (p, "symlink", ie.symlink_target, False)
            else:
                out[ie.file_id] = (p, ie.kind, None, False)
    return out


def abstract_tree_state(tree):
    paths = tree_paths(tree)
    return {f: (paths[f], e[2], e[3], bool(e[4]) if e[2] == "file" else False) for f, e in tree.items()}


# ------------------------------------------------------------------ abstract state of a real repository
def _tok(b, n=6):
    return int(hashlib.sha1(b).hexdigest()[:n], 16)


def read_state(repo):
    """revs: rid -> (parents, meta tuple); invs: rid -> {fid: (path, kind, exec, link, textrev, sha1)};
    texts: (fid, rev) -> stored fulltext.  Formats without rich roots keep no text for the root directory:
    its entry is left out there."""
    st = dict(revs={}, invs={}, texts={})
    with repo.lock_read():
        rich = repo.supports_rich_root()
        rids = sorted(k[-1] for k in repo.revisions.keys())
        for rid, rev in repo.iter_revisions(rids):
            st["revs"][rid] = (tuple(rev.parent_ids),
                               (rev.committer, rev.timestamp, rev.timezone, rev.message,
                                tuple(sorted(rev.properties.items()))))
        iids = sorted(k[-1] for k in repo.inventories.keys())
        for inv in repo.iter_inventories(iids):
            ents = {}
            for p, ie in inv.iter_entries():
                if p == "" and not rich:
                    continue
                # what the stored entry says (parent id and name, not the path: an entry below a renamed
                # directory is unchanged)
                ents[ie.file_id] = ((ie.parent_id, ie.name), ie.kind, bool(getattr(ie, "executable", False)),
                                    getattr(ie, "symlink_target", None), ie.revision,
                                    getattr(ie, "text_sha1", None))
            st["invs"][inv.revision_id] = ents
        keys = sorted(repo.texts.keys())
        for rec in repo.texts.get_record_stream(keys, "unordered", True):
            try:
                st["texts"][rec.key] = rec.get_bytes_as("fulltext")
            except Exception as e:   # unreadable text
                st["texts"][rec.key] = ("unreadable: %s" % type(e).__name__).encode()
    return st


class Numbering:
    def __init__(self, states, extra=()):
        rids, fids = set(extra), set()
        for st in states:
            for rid, (ps, _m) in st["revs"].items():
                rids.add(rid)
                rids.update(ps)
            for rid, ents in st["invs"].items():
                rids.add(rid)
                for fid, e in ents.items():
                    fids.add(fid)
                    rids.add(e[4])
            for (fid, rev) in st["texts"]:
                fids.add(fid)
                rids.add(rev)
        rids.discard(NULL)
        self.rev = {rid: i + 1 for i, rid in enumerate(sorted(rids))}
        self.rev[NULL] = 0
        self.fid = {fid: i + 1 for i, fid in enumerate(sorted(fids))}

    def r(self, rid):
        return self.rev[rid]

    def f(self, fid):
        return self.fid[fid]


def enc_state(st, nb):
    revs = ";".join("%d:%d:%s" % (nb.r(rid), _tok(repr(m).encode()),
                                  ".".join(str(nb.r(p)) for p in ps if p != NULL) or "-")
                    for rid, (ps, m) in sorted(st["revs"].items())) or "-"
    invs = ";".join("%d:%s" % (nb.r(rid), ",".join(
        "%d.%d.%d.%d" % (nb.f(fid), _tok(repr(e[:4]).encode()), nb.r(e[4]),
                         _tok(e[5] or b"")) for fid, e in sorted(ents.items())) or "-")
        for rid, ents in sorted(st["invs"].items())) or "-"
    texts = ";".join("%d.%d.%d" % (nb.f(fid), nb.r(rev), _tok(hashlib.sha1(t).hexdigest().encode()))
                     for (fid, rev), t in sorted(st["texts"].items())) or "-"
    return "%s %s %s" % (revs, invs, texts)


def canon_after(st, nb):
    revs = ",".join(str(x) for x in sorted(nb.r(r) for r in st["revs"])) or "-"
    invs = ",".join(str(x) for x in sorted(nb.r(r) for r in st["invs"])) or "-"
    texts = ",".join("%d.%d.%d" % t for t in sorted(
        (nb.f(fid), nb.r(rev), _tok(hashlib.sha1(t).hexdigest().encode()))
        for (fid, rev), t in st["texts"].items())) or "-"
    return "%s %s %s" % (revs, invs, texts)


def ids_field(nb, rids):
    return ",".join(str(x) for x in sorted({nb.r(r) for r in rids})) or "-"


# ------------------------------------------------------------------ one bundle case
CHK_FORMATS = ("2a",)


def src_ancestry(st, rev):
    seen, todo = set(), [rev]
    while todo:
        r = todo.pop()
        if r in seen or r not in st["revs"]:
            continue
        seen.add(r)
        todo.extend(st["revs"][r][0])
    return seen


def new_repo(fmt):
    from breezy.controldir import ControlDir, format_registry
    return ControlDir.create(env.fresh_dir("T"), format=format_registry.make_controldir(fmt)).create_repository()


def base09(by_id, ids, base, target, k):
    """the tree revision k's actions are relative to in a 0.8/0.9 bundle"""
    if k == target:
        return base
    ps = by_id[k]["parents"]
    return ps[-1] if ps else NULL


def classify_write_failure(ver, fmt, exc, by_id, ids, base, target):
    """family of an exception raised while writing a bundle, computed from the history"""
    if ver != "4" and fmt in CHK_FORMATS and type(exc).__name__ == "NoSuchFile":
        for k in ids:
            b = base09(by_id, ids, base, target, k)
            if b == NULL or b not in by_id:
                continue
            new, old = by_id[k]["tree"], by_id[b]["tree"]
            np_, op_ = tree_paths(new), tree_paths(old)
            for fid in new:
                if fid in old and new[fid] == old[fid] and np_[fid] != op_[fid]:
                    # an entry that is itself unchanged (same parent id, name, content) below a directory that moved
                    return "chk-unchanged-source-path-under-renamed-directory"
    return None


def classify_install_failure(ver, exc, by_id, ids, base, target):
    if ver != "4" and type(exc).__name__ == "TestamentMismatch":
        for k in ids:
            b = base09(by_id, ids, base, target, k)
            if b == NULL or b not in by_id:
                continue
            new, old = by_id[k]["tree"], by_id[b]["tree"]
            if any(fid in old and old[fid][2] != new[fid][2] for fid in new):
                return "v09-kind-change-of-a-file-id"
    return None


def classify_corruption(fmt, want, got):
    if fmt in CHK_FORMATS and isinstance(got, bytes) and isinstance(want, bytes) and len(want) == len(got):
        diff = [i for i in range(len(want)) if want[i] != got[i]]
        if diff and all(want[i] == 0 for i in diff):
            return "gc-rabin-delta-nul-after-source-end"
    return None


def testament_text(repo, rid):
    from breezy.bzr.testament import StrictTestament3
    return StrictTestament3.from_revision(repo, rid).as_text()


def read_v4_records(data):
    from io import BytesIO
    from breezy.bzr.bundle.serializer.v4 import BundleReader
    f = BytesIO(data)
    out = dict(revision=[], inventory=[], file=[], signature=[], info=0)
    for _b, _md, kind, rid, fid in BundleReader(f, stream_input=False).iter_records():
        if kind == "info":
            out["info"] += 1
        elif kind == "file":
            out["file"].append((fid, rid))
        else:
            out[kind].append(rid)
    return out


def do_bundle(sc, base, target, ver, extra, out):
    """write the bundle for (base, target) with serializer `ver`, install it into a fresh repository holding
    the ancestry of `base` (plus that of `extra`), run the oracle, queue the model line.
    Appends dicts to out['viol'], out['t2'], out['count']; returns the bundle bytes (or None)"""
    from io import BytesIO
    from breezy.bzr.bundle.serializer import write_bundle, read_bundle
    repo, src, by_id, fmt = sc["repo"], sc["state"], sc["by_id"], sc["fmt"]
    case = dict(scenario=sc["key"], base=base.decode(), target=target.decode(), ver=ver,
                extra=extra.decode() if extra else None)
    cnt = out["count"]
    want = src_ancestry(src, target) - (src_ancestry(src, base) if base != NULL else set())
    buf = BytesIO()
    try:
        with repo.lock_read():
            ids = write_bundle(repo, target, base, buf, ver)
    except Exception as e:
        fam = classify_write_failure(ver, fmt, e, by_id, want, base, target)
        out["viol"].append((case, "writing a v%s bundle for base=%s target=%s raises %s: %s" % (
            ver, base.decode(), target.decode(), type(e).__name__, str(e)[:120]), fam))
        cnt["write-failed:v%s:%s" % (ver, fam)] += 1
        out["cases"].append((case, True))
        return None
    data = buf.getvalue()
    nontrivial = len(ids) >= 2 or (len(ids) == 1 and base != NULL)
    out["cases"].append((dict(case, n=len(ids)), nontrivial))
    cnt["bundle-revs:%d" % min(len(ids), 6)] += 1
    if set(ids) != want:
        out["viol"].append((case, "bundle v%s carries revisions %s, expected ancestors(target) - ancestors(base) = %s" % (
            ver, sorted(ids), sorted(want)), None))
    T = new_repo(fmt)
    if base != NULL:
        T.fetch(repo, revision_id=base)
    if extra:
        T.fetch(repo, revision_id=extra)
    T = T.controldir.open_repository()
    pre = read_state(T)
    try:
        info = read_bundle(BytesIO(data))
        res = info.install_revisions(T)
    except Exception as e:
        fam = classify_install_failure(ver, e, by_id, ids, base, target)
        out["viol"].append((case, "installing the v%s bundle for base=%s target=%s into a repository holding the base "
                                  "raises %s: %s" % (ver, base.decode(), target.decode(), type(e).__name__,
                                                     " ".join(str(e).split())[:160]), fam))
        cnt["install-failed:v%s:%s" % (ver, fam)] += 1
        shutil.rmtree(T.controldir.root_transport.local_abspath("."), ignore_errors=True)
        return data
    T = T.controldir.open_repository()
    post = read_state(T)
    # ---- oracle -------------------------------------------------------------
    exp_res = target if ids else None
    if res != exp_res:
        out["viol"].append((case, "install returned %r, expected %r" % (res, exp_res), None))
    with T.lock_read(), repo.lock_read():
        for rid in sorted(src_ancestry(src, target)):
            if rid not in post["revs"]:
                out["viol"].append((case, "revision %s of the target's ancestry is missing after the install" % rid.decode(), None))
                continue
            if post["revs"][rid] != src["revs"][rid]:
                out["viol"].append((case, "revision %s differs from the original: %r / %r" % (
                    rid.decode(), post["revs"][rid], src["revs"][rid]), None))
            try:
                a = testament_text(T, rid)
            except Exception as e:
                out["viol"].append((case, "testament of installed revision %s cannot be computed: %s" % (rid.decode(), e), None))
                continue
            b = testament_text(repo, rid)
            if a != b:
                out["viol"].append((case, "testament of installed revision %s differs from the original" % rid.decode(), None))
            ti = post["invs"].get(rid)
            if ti is None:
                continue
            for fid, e in ti.items():
                if e[1] != "file":
                    continue
                got = post["texts"].get((fid, e[4]))
                wanted = src["texts"].get((fid, e[4]))
                if got != wanted:
                    fam = classify_corruption(fmt, wanted, got)
                    out["viol"].append((case, "installed text (%s, %s) of revision %s differs from the source text: %r / %r" % (
                        fid.decode(), e[4].decode(), rid.decode(), got if got is None else got[:60],
                        wanted if wanted is None else wanted[:60]), fam))
                elif got is not None and hashlib.sha1(got).hexdigest().encode() != e[5]:
                    out["viol"].append((case, "installed text (%s, %s) does not have the sha1 its inventory records" % (
                        fid.decode(), e[4].decode()), classify_corruption(fmt, b"", b"")))
    for key in ("revs", "invs", "texts"):
        for k, v in pre[key].items():
            if post[key].get(k) != v:
                out["viol"].append((case, "%s record %r the repository held before the install changed" % (key, k), None))
    # ---- model line ----------------------------------------------------------
    nb = Numbering([src, pre, post], extra=[base, target])
    if ver == "4":
        recs = read_v4_records(data)
        sel = "chk-found" if fmt in CHK_FORMATS else "xml"
        line = "v4 %s %d %d %s %s" % (sel, nb.r(base), nb.r(target), enc_state(src, nb), enc_state(pre, nb))
        keys = ",".join("%d.%d" % t for t in sorted({(nb.f(f), nb.r(r)) for f, r in recs["file"]})) or "-"
        last = recs["revision"][-1] if recs["revision"] else None
        impl = "ok %s %s %s %s | %s" % (ids_field(nb, recs["revision"]), "~" if last is None else nb.r(last),
                                        ids_field(nb, recs["inventory"]), keys, canon_after(post, nb))
        if recs["info"] != 1:
            out["viol"].append((case, "v4 bundle has %d info records" % recs["info"], None))
    else:
        line = "v09 %d %d %s %s" % (nb.r(base), nb.r(target), enc_state(src, nb), enc_state(pre, nb))
        revs09 = [r.revision_id for r in info.real_revisions]
        bases = ",".join("%d.%d" % t for t in sorted(
            (nb.r(r.revision_id), nb.r(info.get_base(r))) for r in info.real_revisions)) or "-"
        impl = "ok %s %s %s | %s" % (ids_field(nb, revs09), "~" if not revs09 else nb.r(revs09[0]), bases,
                                     canon_after(post, nb))
    out["t2"].append((case, line, impl))
    shutil.rmtree(T.controldir.root_transport.local_abspath("."), ignore_errors=True)
    return data


# ------------------------------------------------------------------ tampering with bundle bytes
def tamper_bundle(sc, base, target, ver, data, rng, out, n):
    """single-byte mutations of a bundle: reading/installing must raise, or install exactly the original
    revisions (the mutation hit a byte that carries no information); never something else"""
    for _ in range(n):
        pos = rng.randrange(len(data))
        old = data[pos]
        r = rng.random()
        if r < 0.5:
            new = old ^ (1 << rng.randrange(8))
        elif r < 0.8:
            new = rng.choice(b"aZ09 +/=\n#:-")
        else:
            new = rng.randrange(256)
        if new == old:
            new = old ^ 1
        tamper_exact(sc, base, target, ver, data, pos, new, out)
    # a truncated file (mail cut, partial download): right after the compressed stream's header, and somewhere
    if ver == "4":
        hdr = data.index(b"\n#\n") + 3
        for cut in (hdr + 14, rng.randrange(hdr + 15, len(data))):
            tamper_exact(sc, base, target, ver, data, cut, None, out)


TAMPER_TIMEOUT = 40


def _tamper_child(sc, base, target, ver, mutated):
    """read + install the mutated bundle; -> (kind, detail): raised / identical / silent"""
    from io import BytesIO
    from breezy.bzr.bundle.serializer import read_bundle
    repo, src, fmt = sc["repo"], sc["state"], sc["fmt"]
    T = new_repo(fmt)
    if base != NULL:
        T.fetch(repo, revision_id=base)
    T = T.controldir.open_repository()
    tdir = T.controldir.root_transport.local_abspath(".")
    try:
        try:
            info = read_bundle(BytesIO(mutated))
            info.install_revisions(T)
        except BaseException as e:
            if isinstance(e, (KeyboardInterrupt, SystemExit)):
                raise
            return ("raised", type(e).__name__)
        T = T.controldir.open_repository()
        post = read_state(T)
        with T.lock_read(), repo.lock_read():
            for rid in sorted(post["revs"]):
                if rid not in src["revs"]:
                    return ("silent", "revision %r, which the source does not have, was installed" % rid)
                # (the yardstick is the testament: what it does not attest - sub-second timestamps, the
                # recorded inventory sha1 - can change unnoticed by design, see C41)
                try:
                    if testament_text(T, rid) != testament_text(repo, rid):
                        return ("silent", "revision %s was installed with a different testament" % rid.decode())
                except Exception as e:
                    return ("silent", "revision %s was installed but its testament cannot be computed (%s)" % (
                        rid.decode(), type(e).__name__))
                for fid, e in post["invs"].get(rid, {}).items():
                    if e[1] == "file" and post["texts"].get((fid, e[4])) != src["texts"].get((fid, e[4])):
                        return ("silent", "text (%s, %s) was installed with different content" % (fid.decode(), e[4].decode()))
        return ("identical", "")
    finally:
        shutil.rmtree(tdir, ignore_errors=True)


def tamper_exact(sc, base, target, ver, data, pos, new, out):
    """one mutated bundle, read in a forked child so that a reader that never returns (the loop is in
    compiled code and ignores Python-level alarms) can be killed and reported"""
    import json
    import select
    import signal
    cnt = out["count"]
    if new is None:                       # truncation at `pos`
        old, mutated = None, data[:pos]
        descr = "truncated to %d of %d bytes" % (pos, len(data))
    else:
        old = data[pos]
        mutated = data[:pos] + bytes([new]) + data[pos + 1:]
        descr = "with byte %d changed from %#x to %#x" % (pos, old, new)
    case = dict(scenario=sc["key"], base=base.decode(), target=target.decode(), ver=ver, tamper=[pos, new])
    out["cases"].append((case, True))
    r, w = os.pipe()
    pid = os.fork()
    if pid == 0:
        code = 0
        try:
            os.close(r)
            res = _tamper_child(sc, base, target, ver, mutated)
            os.write(w, json.dumps(res).encode())
        except BaseException as e:
            try:
                os.write(w, json.dumps(("crash", repr(e)[:200])).encode())
            except Exception:
                pass
            code = 1
        finally:
            os._exit(code)
    os.close(w)
    ready, _, _ = select.select([r], [], [], TAMPER_TIMEOUT)
    if not ready:
        os.kill(pid, signal.SIGKILL)
        os.waitpid(pid, 0)
        os.close(r)
        keep = os.path.join("/var/tmp", "c40-nonterminating-bundle-%s-%d-%s.bin" % ("-".join(map(str, sc["key"])), pos, new))
        try:
            with open(keep, "wb") as f:
                f.write(mutated)
        except OSError:
            keep = "(not saved)"
        # (fixed in /repo by 8f646b8: an incomplete bz2 stream raises BadBundle; reported plainly if it returns)
        fam = None
        out["viol"].append((case, "reading / installing a v%s bundle %s does not terminate within %d s (mutated "
                                  "bundle saved as %s)" % (ver, descr, TAMPER_TIMEOUT, keep), fam))
        cnt["tamper:v%s:DOES-NOT-TERMINATE" % ver] += 1
        return
    buf = b""
    while True:
        chunk = os.read(r, 65536)
        if not chunk:
            break
        buf += chunk
    os.close(r)
    os.waitpid(pid, 0)
    try:
        kind, detail = json.loads(buf.decode())
    except Exception:
        kind, detail = "crash", "child gave no result"
    if kind == "raised":
        cnt["tamper:v%s:raised:%s" % (ver, detail)] += 1
    elif kind == "identical" and new is None:
        out["viol"].append((case, "a v%s bundle %s is read and installed without any error" % (ver, descr), None))
        cnt["tamper:v%s:TRUNCATED-ACCEPTED" % ver] += 1
    elif kind == "identical":
        cnt["tamper:v%s:accepted-identical" % ver] += 1
    elif kind == "silent":
        out["viol"].append((case, "a v%s bundle %s is accepted: %s" % (ver, descr, detail), None))
        cnt["tamper:v%s:SILENT" % ver] += 1
    else:
        raise RuntimeError("tamper child failed: %s" % detail)


# ------------------------------------------------------------------ merge from a bundle vs merge from the branch
def wt_snapshot(wt):
    out = {}
    with wt.lock_read():
        for p, ie in wt.iter_entries_by_dir():
            full = wt.abspath(p)
            if ie.kind == "file":
                try:
                    with open(full, "rb") as f:
                        c = f.read()
                except OSError as e:
                    c = "unreadable:%s" % type(e).__name__
                out[p] = (ie.file_id, "file", c, wt.is_executable(p))
            elif ie.kind == "symlink":
                out[p] = (ie.file_id, "symlink", wt.get_symlink_target(p), False)
            else:
                out[p] = (ie.file_id, ie.kind, None, False)
        confl = sorted(str(c) for c in wt.conflicts())
        pend = list(wt.get_parent_ids())
    return out, confl, pend


def do_merge(sc, base, target, this, ver, data, out):
    """merge `target` into a checkout of `this`: once from the source branch, once from the bundle installed
    by Merger.from_mergeable; both working trees must end up identical"""
    from io import BytesIO
    from breezy.bzr.bundle.serializer import read_bundle
    from breezy.merge import Merger, Merge3Merger
    from breezy.controldir import ControlDir, format_registry
    branch, fmt = sc["branch"], sc["fmt"]
    case = dict(scenario=sc["key"], base=base.decode(), target=target.decode(), ver=ver, merge_into=this.decode())
    out["cases"].append((case, True))
    res = []
    for how in ("branch", "bundle"):
        d = env.fresh_dir("m")
        # a branch that holds only the ancestry of `this` and of `base`
        nb = ControlDir.create_branch_convenience(d, format=format_registry.make_controldir(fmt))
        nb.repository.fetch(branch.repository, revision_id=this)
        if base != NULL:
            nb.repository.fetch(branch.repository, revision_id=base)
        nb.generate_revision_history(this)
        wt = nb.controldir.open_workingtree()
        wt.update()
        try:
            with wt.lock_write():
                if how == "branch":
                    merger = Merger.from_revision_ids(wt, target, other_branch=branch)
                else:
                    merger, _v = Merger.from_mergeable(wt, read_bundle(BytesIO(data)))
                merger.merge_type = Merge3Merger
                merger.do_merge()
                merger.set_pending()
            res.append(wt_snapshot(wt))
        except Exception as e:
            res.append("raised %s: %s" % (type(e).__name__, " ".join(str(e).split())[:100]))
        shutil.rmtree(d, ignore_errors=True)
    out["count"]["merge:%s" % ("conflicts" if not isinstance(res[0], str) and res[0][1] else
                                 "raised" if isinstance(res[0], str) else "clean")] += 1
    if res[0] != res[1]:
        what = "merging %s into a tree at %s gives different results from the branch and from the v%s bundle" % (
            target.decode(), this.decode(), ver)
        if isinstance(res[0], str) or isinstance(res[1], str):
            what += ": %r / %r" % (res[0] if isinstance(res[0], str) else "ok", res[1] if isinstance(res[1], str) else "ok")
        else:
            diff = sorted(k for k in set(res[0][0]) | set(res[1][0]) if res[0][0].get(k) != res[1][0].get(k))
            what += ": paths %r, conflicts %r / %r, pending %r / %r" % (diff[:4], res[0][1][:3], res[1][1][:3], res[0][2], res[1][2])
        fam = None
        if isinstance(res[1], str) and res[1].startswith("raised TestamentMismatch") and not isinstance(res[0], str):
            # the bundle could not be installed: same input family as a plain install of it
            src = sc["state"]
            ids = src_ancestry(src, target) - (src_ancestry(src, base) if base != NULL else set())

            class _E(Exception):
                pass
            _E.__name__ = "TestamentMismatch"
            fam = classify_install_failure(ver, _E(), sc["by_id"], ids, base, target)
        out["viol"].append((case, what, fam))


# ------------------------------------------------------------------ scenario (runs in a worker process)
def build_scenario(key):
    """key = (seed, index, fmt) -> scenario dict, or None when the source repository itself does not hold
    the generated history"""
    import collections
    rng = random.Random(repr(tuple(key)))
    seed, idx, fmt = key
    opts = dict(nul=("raw" if rng.random() < 0.35 else "guarded"), merge=0.4)
    kind_changes = rng.random() < 0.15
    n = rng.randint(5, 8)
    if idx == "F":
        revs = forced_history(rng)
    else:
        revs = gen_history(rng, n, opts)
        if not kind_changes:
            revs = _without_kind_changes(revs)
    d = env.fresh_dir("h")
    branch = build_history(d, revs, fmt)
    repo = branch.repository
    by_id = {r["rid"]: r for r in revs}
    bad = None
    with repo.lock_read():
        for r in revs:
            real = real_tree_state(repo.revision_tree(r["rid"]))
            ab = abstract_tree_state(r["tree"])
            if real != ab:
                fams = {classify_corruption(fmt, ab[f][2], real[f][2]) for f in ab
                        if f in real and real[f] != ab[f] and ab[f][1] == "file"}
                bad = (r["rid"], fams)
                break
    sc = dict(key=list(key), fmt=fmt, revs=revs, by_id=by_id, branch=branch, repo=repo, dir=d, rng=rng,
              opts=opts, kind_changes=kind_changes, source_bad=bad)
    if bad is None:
        sc["state"] = read_state(repo)
    return sc


def _without_kind_changes(revs):
    """replace kind changes of a file id by a content-preserving state (the kind of the left parent)"""
    by = {}
    for r in revs:
        if r["parents"]:
            kinds = {}
            for p in r["parents"]:
                if p in by:
                    for f, e in by[p]["tree"].items():
                        kinds.setdefault(f, e)
            tree = dict(r["tree"])
            for f, e in list(tree.items()):
                if f in kinds and kinds[f][2] != e[2]:
                    o = kinds[f]
                    tree[f] = (e[0], e[1], o[2], o[3], o[4])
            r["tree"] = tree
        by[r["rid"]] = r
    return revs


def run_scenario(args):
    """never raises (exceptions of library code may not survive pickling): a crash travels as text"""
    import signal
    import traceback

    def _alarm(*_a):
        raise TimeoutError("scenario %r exceeded its time limit" % (args,))
    try:
        signal.signal(signal.SIGALRM, _alarm)
        signal.alarm(300 if args[1] == "quick" else 1200)
    except ValueError:        # not in the main thread of the worker
        pass
    cwd = os.getcwd()
    try:
        # the 0.8/0.9 reader drops a `,,bogus-inv` file into the current directory on an inventory mismatch
        os.chdir(env.scratch())
        return _run_scenario(args)
    except BaseException as e:
        if isinstance(e, (KeyboardInterrupt, SystemExit)):
            raise
        return dict(viol=[], t2=[], count={}, cases=[], crash="scenario %r: %s" % (args, traceback.format_exc()[-1500:]))
    finally:
        os.chdir(cwd)
        try:
            signal.alarm(0)
        except ValueError:
            pass


def _run_scenario(args):
    import collections
    key, tier = args
    out = dict(viol=[], t2=[], count=collections.Counter(), cases=[])
    sc = build_scenario(tuple(key))
    cnt = out["count"]
    cnt["format:%s" % sc["fmt"]] += 1
    cnt["contents:nul-%s" % sc["opts"]["nul"]] += 1
    if sc["source_bad"] is not None:
        # the commit itself stored something else than it was given: not a bundle matter
        cnt["source-repository-does-not-hold-the-history:%s" % sorted(map(str, sc["source_bad"][1]))] += 1
        shutil.rmtree(sc["dir"], ignore_errors=True)
        return _plain(out)
    for r in sc["revs"]:
        for o in r["ops"]:
            cnt["op:" + o] += 1
        if len(r["parents"]) > 1:
            cnt["merge-revisions"] += 1
    rng = sc["rng"]
    rids = [r["rid"] for r in sc["revs"]]
    src = sc["state"]
    pairs = []
    for t in rids:
        anc = src_ancestry(src, t)
        for b in [NULL] + rids:
            if b == t:
                continue
            kind = "ancestor" if (b == NULL or b in anc) else ("descendant" if t in src_ancestry(src, b) else "sibling")
            pairs.append((b, t, kind))
    rng.shuffle(pairs)
    quota = dict(ancestor=3, sibling=1, descendant=1) if tier == "quick" else dict(ancestor=8, sibling=3, descendant=1)
    chosen = []
    for b, t, kind in pairs:
        if quota[kind] > 0:
            quota[kind] -= 1
            chosen.append((b, t, kind))
    vers = ["4", "0.9"] + (["0.8"] if not sc["repo"].supports_rich_root() else [])
    if key[1] == "F":
        # the directed scenario: its merges are fixed, every serializer
        cnt["forced-scenario"] += 1
        for b, t, this in FORCED_MERGES:
            cnt["pair:forced"] += 1
            for ver in vers:
                data = do_bundle(sc, b, t, ver, None, out)
                if data is not None:
                    do_merge(sc, b, t, this, ver, data, out)
        for b, t in FORCED_BUNDLES:
            cnt["pair:forced-long-side-branch"] += 1
            for ver in vers:
                do_bundle(sc, b, t, ver, None, out)
        from_objects_case(sc, b"r03", b"r07", rng, out)
        shutil.rmtree(sc["dir"], ignore_errors=True)
        return _plain(out)
    first = True
    for b, t, kind in chosen:
        cnt["pair:" + kind] += 1
        for ver in vers:
            extra = rng.choice(rids) if rng.random() < 0.3 else None
            data = do_bundle(sc, b, t, ver, extra, out)
            if data is None:
                continue
            if kind != "descendant" and rng.random() < (0.5 if tier == "quick" else 0.8):
                tamper_bundle(sc, b, t, ver, data, rng, out, 1 if tier == "quick" else 2)
            if kind == "ancestor" and b != NULL and (first or tier != "quick"):
                cands = [x for x in rids if x != t and b in src_ancestry(src, x)]
                if cands:
                    first = False
                    do_merge(sc, b, t, rng.choice(cands), ver, data, out)
    anc_pairs = [(b, t) for b, t, kind in chosen if kind == "ancestor" and b != NULL]
    for b, t in anc_pairs[:1 if tier == "quick" else 3]:
        from_objects_case(sc, b, t, rng, out)
    shutil.rmtree(sc["dir"], ignore_errors=True)
    return _plain(out)


def _plain(out):
    return dict(viol=out["viol"], t2=out["t2"], count=dict(out["count"]), cases=out["cases"])


# ------------------------------------------------------------------ merge directives
def hexl(lines):
    return ",".join(l.hex() for l in lines) or "-"


def hexo(b):
    return "~" if b is None else (b.hex() or "-")


class _Shim:
    """stands in for bzrformats.rio_patch inside breezy.merge_directive: delegates, records which lines
    read_patch_stanza took from the iterator, and (T2 runs on damaged input only) substitutes a valid
    stanza so that the payload parsing that follows can be observed"""

    def __init__(self, real):
        self.real = real
        self.consumed = None
        self.canned = None
        self.written = None      # (tag, value) pairs of the last stanza handed to to_patch_lines
        self.read = None         # ... of the last stanza read_patch_stanza returned

    def to_patch_lines(self, stanza, *a, **kw):
        self.written = list(stanza.iter_pairs())
        return self.real.to_patch_lines(stanza, *a, **kw)

    def read_patch_stanza(self, line_iter):
        consumed = []

        def it():
            for l in line_iter:
                consumed.append(l)
                yield l
        self.read = None
        try:
            st = self.real.read_patch_stanza(it())
        finally:
            self.consumed = list(consumed)
        if self.canned is not None:
            return self.canned
        self.read = list(st.iter_pairs())
        return st


_shim = [None]


def shim():
    if _shim[0] is None:
        from breezy import merge_directive as md
        from bzrformats import rio_patch
        _shim[0] = _Shim(rio_patch)
        md.rio_patch = _shim[0]
    return _shim[0]


RIDS = [b"joe@example.com-20200101120000-abcdef0123456789", b"r1", b"rev-\xc3\xa9t\xc3\xa9-1",
        b"a-very-long-revision-identifier-" + b"x" * 70 + b"-end", b"null:", b"with\\backslash", b"dash-" * 20 + b"1",
        b"slash/" * 15 + b"1"]
URLS = ["http://example.com/branch", "/local/path with space", "lp:project", "bzr+ssh://host/~user/" + "deep/" * 20,
        "http://x/" + "y" * 100, "file:///C:/dir/\u00e9", "ends-with-space ", "a" * 66 + " b", "http://x/\\back"]
MSGS = [None, None, "simple message", "two\nlines", "", "trailing space \nsecond", "unicode \u00e9\u20ac", " leading space",
        "x" * 150, "word " * 40, "back\\slash and \\r literal", "blank\n\nline", "tab\tin", "ends with newline\n",
        "cr\rinside", "# Begin bundle", "colon: value", "-" * 80]
PATCH_LINES = [b"=== modified file 'a'\n", b"--- a\t2020-01-01 00:00:00 +0000\n", b"+++ a\t2020-01-01 00:00:01 +0000\n",
               b"@@ -1,2 +1,2 @@\n", b" context\n", b"-old line \n", b"+new line\n", b"+trailing spaces   \n", b"+\r\n",
               b"+cr\rinside\n", b"\\ No newline at end of file\n", b"+# Begin patch\n", b"+\xc3\xa9\n", b"+\x00bin\n", b" \n", b"\n",
               b"+# Begin bundle\n"]


def gen_directive_kwargs(rng, bundles):
    import base64
    kw = dict(revision_id=rng.choice(RIDS), testament_sha1=hashlib.sha1(b"%d" % rng.randrange(10 ** 6)).hexdigest().encode(),
              time=rng.choice([86400, 1500000000, 1700000000 + rng.randrange(10 ** 6), 2 ** 31 + 5]),
              timezone=rng.choice([0, 3600, -3600, 19800, -12600, 43200, -39600]),
              target_branch=rng.choice(URLS), source_branch=rng.choice([None] + URLS),
              message=rng.choice(MSGS), base_revision_id=rng.choice(RIDS))
    r = rng.random()
    patch = None
    if r < 0.75:
        n = rng.choice([0, 1, 3, 6])
        patch = b"".join(rng.choice(PATCH_LINES) for _ in range(n))
        if n and rng.random() < 0.15:
            patch = patch.rstrip(b"\n") + rng.choice([b"", b"x", b"\r"])
    bundle = None
    if rng.random() < 0.6 or (patch is None and kw["source_branch"] is None):
        raw = rng.choice(bundles) if bundles and rng.random() < 0.5 else bytes(rng.randrange(256) for _ in range(rng.choice([0, 5, 60, 200])))
        bundle = base64.b64encode(raw) if rng.random() < 0.5 else base64.encodebytes(raw)
        if rng.random() < 0.1:
            bundle = bundle.rstrip(b"\n")
    if bundle is None and kw["source_branch"] is None:
        kw["source_branch"] = URLS[0]
    kw.update(patch=patch, bundle=bundle)
    r = rng.random()
    if r < 0.03:
        kw["testament_sha1"] = None                      # _to_lines leaves the tag out
    elif r < 0.05:
        kw["time"] = 0                                   # "we always give the epoch in utc"
    elif r < 0.06:
        kw["timezone"] = rng.choice([90, -30, 3601])     # not a whole minute: to_lines refuses
    elif r < 0.07:
        kw["time"], kw["timezone"] = rng.choice([(100, -3600), (5, -60), (3599, -3600)])   # before the epoch locally
    elif r < 0.09:
        kw["time"], kw["timezone"] = rng.choice([(3600, -3600), (1, 0), (951782400, 0), (1709251199, 0),
                                                 (253402300799 - 43200, 43200), (86399, -86340)])
    return kw


FIELDS = ("revision_id", "testament_sha1", "time", "timezone", "target_branch", "source_branch", "message",
          "base_revision_id", "patch", "bundle")


def hext(v):
    """text field for the model: hex of its UTF-8, `-` = empty, `~` = None"""
    if v is None:
        return "~"
    b = v if isinstance(v, bytes) else v.encode("utf-8")
    return b.hex() or "-"


def pairs_str(pairs):
    return ",".join("%s=%s" % (k, v.encode("utf-8").hex() or "-") for k, v in pairs) or "-"


def date_in_domain(t, tz):
    """domain of patch_date_roundtrip (dateOK)"""
    return tz % 60 == 0 and abs(tz) < 86400 and t + tz >= 0 and t + tz <= 253402300799 and (t != 0 or tz == 0)


def classify_directive(kw, via_file):
    """-> (by-design exclusion or None, candidate finding family or None), both computed from the input.
    Exclusions are documented behaviour; a candidate family only becomes the family of a violation when
    the observed damage is exactly the one that family predicts (nonl_outcome / a TypeError)."""
    p, b = kw["patch"], kw["bundle"]
    dom = fam = None
    if p is not None and any(l.startswith(b"# Begin bundle") for l in p.splitlines(True)):
        dom = "outside-domain:patch-line-starts-with-bundle-marker"
    elif kw["time"] == 0 and kw["timezone"] != 0:
        dom = "by-design:epoch-is-written-in-utc"
    if via_file and p and b is not None and not p.endswith(b"\n"):
        # takes precedence: whatever else is unusual about the directive, this is what damages it
        fam = "directive-file-roundtrip-patch-without-final-newline-before-bundle"
    elif kw["testament_sha1"] is None and testament_variant() == "strict":
        fam = "directive-without-testament-sha1-does-not-parse"
    return dom, fam


NONL = "directive-file-roundtrip-patch-without-final-newline-before-bundle"


def nonl_outcome(kw):
    """what the no-final-newline family predicts (and the Lean model computes): the bundle marker is glued
    to the last patch line, marker and bundle become part of the patch, there is no bundle"""
    return kw["patch"] + b"# Begin bundle\n" + kw["bundle"], None


def _exc_kind(e):
    from breezy import errors
    from breezy import merge_directive as md
    if isinstance(e, errors.NoMergeSource):
        return "E:NoMergeSource"
    if isinstance(e, md.IllegalMergeDirectivePayload):
        return "E:IllegalPayload"
    if isinstance(e, TypeError):
        return "E:TypeError"
    if isinstance(e, KeyError):
        return "E:KeyError"
    if isinstance(e, ValueError):
        m = str(e)
        if "NegativeTime" in m:
            return "E:NegativeTime"
        if "InvalidTimezoneOffset" in m:
            return "E:InvalidOffset"
        if "Invalid timezone offset" in m:
            return "E:BadOffset"
        if "Invalid date" in m:
            return "E:BadDate"
        return "E:ValueError"
    return "E:%s" % type(e).__name__


_variant = {}


def testament_variant():
    """which `_from_lines` the tree has: 'strict' (as found: a directive without testament sha1 cannot be
    parsed, TypeError) or 'tolerant' (the proposed repair); selects the model variant of md.unfields"""
    if "testament" not in _variant:
        from breezy import merge_directive as md
        d = md.MergeDirective2(revision_id=b"r", testament_sha1=None, time=86400, timezone=0, target_branch="t",
                               source_branch="s", base_revision_id=b"b")
        try:
            ok = md.MergeDirective.from_lines(d.to_lines()).testament_sha1 is None
            _variant["testament"] = "tolerant" if ok else "strict"
        except TypeError:
            _variant["testament"] = "strict"
    return _variant["testament"]


def directive_case(kw, out, via_file):
    """serialise, parse back (from the line list or from a file object), compare every field; queue T2 lines"""
    from io import BytesIO
    from breezy import merge_directive as md
    sh = shim()
    variant = testament_variant()         # (probes once; before anything of this case goes through the shim)
    case = dict(directive={k: (v.decode("latin-1") if isinstance(v, bytes) else v) for k, v in kw.items()}, via_file=via_file)
    d = md.MergeDirective2(**kw)
    dom, fam = classify_directive(kw, via_file)
    out["cases"].append((case, kw["patch"] is not None or kw["bundle"] is not None))
    out["count"]["directive:%s" % (fam or dom or "in-domain")] += 1
    fields_line = "md.fields %s %s %d %d %s %s %s %s" % (
        hext(kw["revision_id"]), hext(kw["testament_sha1"]), int(kw["time"]), kw["timezone"], hext(kw["target_branch"]),
        hext(kw["source_branch"]), hext(kw["message"]), hext(kw["base_revision_id"]))
    sh.written = None
    try:
        lines = d.to_lines()
    except Exception as e:
        kind = _exc_kind(e)
        out["count"]["to_lines-refused:%s" % kind] += 1
        if kind == "E:IllegalPayload" and kw["patch"] and kw["bundle"] is not None and not kw["patch"].endswith(b"\n"):
            return None          # a tree that refuses what cannot survive a file (proposed repair of the finding)
        out["t2"].append((case, fields_line, kind))
        if date_in_domain(int(kw["time"]), kw["timezone"]) or kind not in ("E:NegativeTime", "E:InvalidOffset"):
            out["viol"].append((case, "to_lines() raises %s: %s" % (type(e).__name__, str(e)[:100]), None))
        return None
    out["t2"].append((case, fields_line, pairs_str(sh.written or [])))
    block = d._to_lines(base_revision=True)[1:-1]
    out["t2"].append((case, "md.to %s %s %s" % (hexl(block), hexo(kw["patch"]), hexo(kw["bundle"])), hexl(lines)))
    sh.canned = None
    parsed_from = BytesIO(b"".join(lines)).readlines() if via_file else list(lines)
    t = next(i for i, l in enumerate(parsed_from) if l in (b"# \n", b"#\n"))
    has_bundle = any(l.startswith(b"# Begin bundle") for l in parsed_from[t + 1:])
    try:
        d2 = md.MergeDirective.from_lines(BytesIO(b"".join(lines)) if via_file else list(lines))
    except Exception as e:
        kind = _exc_kind(e)
        out["count"]["from_lines-raised:%s" % kind] += 1
        if sh.read is not None and kind in ("E:TypeError", "E:KeyError", "E:NoMergeSource", "E:BadOffset", "E:BadDate"):
            out["t2"].append((case, "md.unfields %s %s %s" % (variant, pairs_str(sh.read), "T" if has_bundle else "F"), kind))
        if dom is None:
            # the family is only assigned when the failure is the one it predicts
            if fam == NONL:
                f2 = fam if (kind == "E:NoMergeSource" and kw["source_branch"] is None) else None
            elif fam is not None:
                f2 = fam if kind == "E:TypeError" else None
            else:
                f2 = None
            out["viol"].append((case, "from_lines(to_lines(d)) raises %s: %s" % (type(e).__name__, str(e)[:100]), f2))
        return lines
    compare = [k for k in FIELDS if not (dom == "by-design:epoch-is-written-in-utc" and k == "timezone")]
    bad = [k for k in compare if getattr(d2, k) != kw[k]]
    if bad and (dom is None or dom.startswith("by-design")):
        f2 = None
        if fam == NONL and set(bad) <= {"patch", "bundle"} and (d2.patch, d2.bundle) == nonl_outcome(kw):
            f2 = fam
        out["viol"].append((case, "from_lines(to_lines(d)) differs from d in %s: %r / %r" % (
            bad, [getattr(d2, k) for k in bad][:2], [kw[k] for k in bad][:2]), f2))
    if dom is not None:
        out["count"]["%s:roundtrip-%s" % (dom, "differs" if bad else "equal")] += 1
    got_block = list(sh.consumed or [])
    if got_block and got_block[-1] in (b"# \n", b"#\n"):
        got_block = got_block[:-1]
    impl = "ok %s %s %s" % (hexl(got_block), hexo(d2.patch), hexo(d2.bundle))
    if via_file:
        out["t2"].append((case, "md.rt %s %s %s" % (hexl(block), hexo(kw["patch"]), hexo(kw["bundle"])), impl))
    else:
        out["t2"].append((case, "md.from %s" % hexl(lines), impl))
    if sh.read is not None:
        out["t2"].append((case, "md.unfields %s %s %s" % (variant, pairs_str(sh.read), "T" if d2.bundle is not None else "F"),
                          "ok %s %s %d %d %s %s %s %s" % (
                              hext(d2.revision_id), hext(d2.testament_sha1), d2.time, d2.timezone, hext(d2.target_branch),
                              hext(d2.source_branch), hext(d2.message), hext(d2.base_revision_id))))
    return lines


def prop_cases(rng, out, n):
    """revision property lines of the 0.8/0.9 bundle footer: `RevisionInfo.from_revision` writes
    ': '.join((key, value)), `RevisionInfo.as_revision` splits at the first ': ' (Model/C40 section 4).
    T2 on raw lines; oracle = round trip of (key, value) for keys without blank/newline and ANY value"""
    from breezy.bzr.bundle.bundle_data import RevisionInfo
    atoms = ["a", "b", ":", ": ", " ", "::", "\u00e9", "k-1", "x:y", ":", " :", "\n"]

    def parse(lines):
        info = RevisionInfo(b"rid")
        info.committer, info.timestamp, info.timezone = "c", 1.0, 0
        info.inventory_sha1, info.message, info.parent_ids = b"x", ["m"], []
        info.properties = lines
        return dict(info.as_revision().properties)

    for i in range(n):
        if i % 2 == 0:
            # a (key, value) pair through the writer's join: the oracle
            key = "".join(rng.choice(["a", "b", "k-1", "\u00e9", ":", "x:y", "_"]) for _ in range(rng.randrange(1, 4)))
            val = "".join(rng.choice(atoms[:-1]) for _ in range(rng.randrange(0, 6)))
            line = ": ".join((key, val))
            case = dict(prop=[key, val])
            try:
                back = parse([line])
            except Exception as e:
                back = _exc_kind(e)
            if back != {key: val}:
                out["viol"].append((case, "revision property %r = %r written as %r to a 0.9 bundle footer is read back as %r"
                                    % (key, val, line, back), None))
            out["count"]["prop-pair:%s" % ("sep-in-value" if ": " in val else "plain")] += 1
        else:
            line = "".join(rng.choice(atoms) for _ in range(rng.randrange(0, 6)))
            case = dict(prop_line=line)
        try:
            d = parse([line])
            (k, v), = d.items()
            impl = "ok k%s v%s" % (hexo(k.encode("utf-8")), hexo(v.encode("utf-8")))
        except ValueError:
            impl = "E:ValueError"
        out["cases"].append((case, ": " in line))
        out["count"]["prop-line:%s" % impl.split(" ")[0]] += 1
        out["t2"].append((case, "prop x%s" % line.encode("utf-8").hex(), impl))


def pdate_cases(rng, out, n):
    """format_patch_date / parse_patch_date (crates/patch): T2 on both directions, oracle = round trip on the
    domain of patch_date_roundtrip; canonical-shape strings with out-of-range fields on error kind"""
    from breezy._patch_rs import format_patch_date, parse_patch_date
    secs_pool = [0, 1, 59, 3600, 86399, 86400, 951782400, 951868799, 1709164800, 1709251199, 1500000000, 2 ** 31 - 1,
                 2 ** 31, 4102444800, 253402300799, 253402214400]
    off_pool = [0, 0, 60, -60, 3600, -3600, 19800, -12600, -1800, 1800, 43200, -43200, 86340, -86340, 86400, -86400,
                90, -30, 3601, 45 * 60, -(9 * 3600 + 30 * 60)]
    for _ in range(n):
        secs = rng.choice(secs_pool) if rng.random() < 0.5 else rng.randrange(0, 253402300800)
        off = rng.choice(off_pool) if rng.random() < 0.7 else 60 * rng.randrange(-1439, 1440)
        if secs + off > 253402300799:
            secs -= 86400
        case = dict(pdate=[secs, off])
        out["cases"].append((case, off != 0))
        try:
            s = format_patch_date(secs, off)
            impl = s.replace(" ", "_")
        except Exception as e:
            s, impl = None, _exc_kind(e)
        out["count"]["pdate-fmt:%s" % (impl if s is None else "ok")] += 1
        out["t2"].append((case, "pdate.fmt %d %d" % (secs, off), impl))
        if s is None:
            if date_in_domain(secs, off):
                out["viol"].append((case, "format_patch_date(%d, %d) raises %s" % (secs, off, impl), None))
            continue
        try:
            back = parse_patch_date(s)
            impl2 = "%d %d" % back
        except Exception as e:
            back, impl2 = None, _exc_kind(e)
        out["t2"].append((case, "pdate.parse %s" % s.replace(" ", "_"), impl2))
        if date_in_domain(secs, off) and back != (secs, off):
            out["viol"].append((case, "parse_patch_date(format_patch_date(%d, %d)) = %s (string %r)" % (secs, off, impl2, s), None))
    for _ in range(n):
        y = rng.choice([0, 1, 1969, 1970, 2000, 2023, 2024, 2100, 9999])
        mo = rng.choice([0, 1, 2, 2, 4, 12, 13])
        dd = rng.choice([0, 1, 28, 29, 30, 31, 32])
        hh, mi, ss = rng.choice([0, 12, 23, 24]), rng.choice([0, 30, 59, 60]), rng.choice([0, 30, 59])
        oh, om = rng.choice([0, 0, 3, 12, 23, 24, 25]), rng.choice([0, 0, 30, 59, 60, 61])
        s = "%04d-%02d-%02d %02d:%02d:%02d %s%02d%02d" % (y, mo, dd, hh, mi, ss, rng.choice("+-"), oh, om)
        case = dict(pdate_str=s)
        out["cases"].append((case, True))
        try:
            impl = "%d %d" % parse_patch_date(s)
        except Exception as e:
            impl = _exc_kind(e)
        out["count"]["pdate-parse:%s" % (impl if impl.startswith("E:") else "ok")] += 1
        out["t2"].append((case, "pdate.parse %s" % s.replace(" ", "_"), impl))


def damaged_case(rng, lines, good_stanza, out):
    """~10% stream: damage outside the stanza block; compared on accept/reject + error kind + payload split"""
    from breezy import merge_directive as md
    from breezy import errors
    sh = shim()
    lines = list(lines)
    r = rng.choice(["junk-before", "no-header", "format-0.19", "format-1", "format-3", "header-space", "payload-garbage",
                    "marker-suffix", "bundle-first", "drop-patch-marker", "blank-short"])
    k = next(i for i, l in enumerate(lines) if l.startswith(b"# Bazaar merge directive format "))
    t = next(i for i, l in enumerate(lines) if l == b"# \n")
    if r == "junk-before":
        lines[0:0] = [b"From: x\n", b"\n", b"> quoted\n"]
    elif r == "no-header":
        del lines[k]
    elif r == "format-0.19":
        lines[k] = b"# Bazaar merge directive format 2 (Bazaar 0.19)\n"
    elif r == "format-1":
        lines[k] = b"# Bazaar merge directive format 1\n"
    elif r == "format-3":
        lines[k] = b"# Bazaar merge directive format 3\n"
    elif r == "header-space":
        lines[k] = lines[k].rstrip(b"\n") + rng.choice([b" \r\n", b"\t\n", b"  \n"])
    elif r == "payload-garbage":
        lines.insert(t + 1, rng.choice([b"garbage\n", b"#Begin patch\n", b"# begin patch\n", b" # Begin patch\n"]))
    elif r == "marker-suffix":
        for i in range(t + 1, len(lines)):
            if lines[i] in (b"# Begin patch\n", b"# Begin bundle\n"):
                lines[i] = lines[i].rstrip(b"\n") + rng.choice([b"es\n", b" \n", b"\r\n", b""]) + b""
                if not lines[i].endswith(b"\n"):
                    lines[i] += b"\n"
                break
    elif r == "bundle-first":
        lines[t + 1:] = [b"# Begin bundle\n", b"QUJD\n", b"# Begin patch\n", b"+x\n"]
    elif r == "drop-patch-marker":
        if t + 1 < len(lines):
            del lines[t + 1]
    elif r == "blank-short":
        lines[t] = b"#\n"
    case = dict(damaged=r, lines=[l.decode("latin-1") for l in lines])
    out["cases"].append((case, True))
    out["count"]["damaged:" + r] += 1
    sh.canned = good_stanza
    try:
        d2 = md.MergeDirective.from_lines(lines)
        if isinstance(d2, md.MergeDirective2):
            got = list(sh.consumed or [])
            if got and got[-1] in (b"# \n", b"#\n"):
                got = got[:-1]
            impl = "ok %s %s %s" % (hexl(got), hexo(d2.patch), hexo(d2.bundle))
        else:
            impl = "E:Format1"
    except errors.NotAMergeDirective:
        impl = "E:NotADirective"
    except md.IllegalMergeDirectivePayload:
        impl = "E:IllegalPayload"
    except KeyError:
        impl = "E:UnknownFormat"
    except ValueError:
        impl = "E:BadStanza"
    except Exception as e:
        impl = "E:%s" % type(e).__name__
    finally:
        sh.canned = None
    if impl == "E:Format1" or (r == "format-1"):
        # format 1 parsing is outside the model: both sides only say which class handles it
        impl = "E:Format1" if r == "format-1" else impl
    out["t2"].append((case, "md.from %s" % hexl(lines), impl))


def norm_py(b):
    import re
    b = re.sub(b"\r\n?", b"\n", b)
    return re.sub(b" *\n", b"\n", b)


def from_objects_case(sc, base, target, rng, out):
    """MergeDirective2.from_objects on a real repository: the directive round-trips, its bundle installs the
    target with the testament sha1 it names, its patch verifies, and a patch with one byte changed does not"""
    from io import BytesIO
    from breezy import merge_directive as md
    from breezy.bzr.testament import StrictTestament3
    from breezy.controldir import ControlDir, format_registry
    shim().canned = None
    repo, fmt = sc["repo"], sc["fmt"]
    case = dict(scenario=sc["key"], base=base.decode(), target=target.decode(), from_objects=True)
    out["cases"].append((case, True))
    d0 = env.fresh_dir("submit")
    submit = ControlDir.create_branch_convenience(d0, format=format_registry.make_controldir(fmt), force_new_tree=False)
    submit.repository.fetch(repo, revision_id=base)
    submit.generate_revision_history(base)
    try:
        d = md.MergeDirective2.from_objects(repository=repo, revision_id=target, time=1600000000, timezone=3600,
                                            target_branch=submit.base, local_target_branch=submit,
                                            include_patch=True, include_bundle=True)
    except Exception as e:
        fam = classify_write_failure("4", fmt, e, sc["by_id"], [], base, target)
        out["viol"].append((case, "MergeDirective2.from_objects raises %s: %s" % (type(e).__name__, str(e)[:100]), fam))
        shutil.rmtree(d0, ignore_errors=True)
        return
    lines = d.to_lines()
    d2 = md.MergeDirective.from_lines(BytesIO(b"".join(lines)))
    bad = [k for k in FIELDS if getattr(d2, k) != getattr(d, k)]
    if bad:
        out["viol"].append((case, "directive made by from_objects does not round-trip: fields %s differ" % bad, None))
    T = submit.repository
    try:
        d2.install_revisions(T)
        with T.lock_read(), repo.lock_read():
            sha = StrictTestament3.from_revision(T, target).as_sha1()
            if sha != d2.testament_sha1 or sha != StrictTestament3.from_revision(repo, target).as_sha1():
                out["viol"].append((case, "the installed target's testament sha1 is not the one the directive names", None))
            calc = d2._generate_diff(T, d2.revision_id, d2.base_revision_id)
            verdict = d2._maybe_verify(T)
            if verdict != "verified":
                out["viol"].append((case, "the directive's own patch does not verify against the installed revisions (%s)" % verdict, None))
            out["t2"].append((case, "verify %s %s" % (hexo(calc), hexo(d2.patch)), "T" if verdict == "verified" else "F"))
            stored = d2.patch
            # mutations the verifier is documented to tolerate: line endings and trailing spaces
            nls = [i for i in range(len(stored)) if stored[i] == 10]
            for _ in range(2):
                if not nls:
                    break
                pos = rng.choice(nls)
                mut = stored[:pos] + rng.choice([b"\r", b"\r\n", b" \n", b"   \r\n"]) + stored[pos + 1:]
                d2.patch = mut
                v = d2._maybe_verify(T)
                d2.patch = stored
                tc = dict(case, patch_benign=[pos, mut[pos:pos + 5].hex()])
                out["cases"].append((tc, True))
                out["t2"].append((tc, "verify %s %s" % (hexo(calc), hexo(mut)), "T" if v == "verified" else "F"))
                out["count"]["patch-benign:%s" % v] += 1
                if v != "verified" and norm_py(mut) == norm_py(stored):
                    out["viol"].append((tc, "a patch that differs from the regenerated diff only in line endings / trailing "
                                            "spaces (documented as tolerated) is reported as %s" % v, None))
            for _ in range(4):
                pos = rng.randrange(len(stored)) if stored else 0
                if not stored:
                    break
                newb = rng.choice([stored[pos] ^ 1, 32, 10, 13, ord("x"), stored[pos] ^ 0x20])
                if newb == stored[pos]:
                    continue
                mut = stored[:pos] + bytes([newb]) + stored[pos + 1:]
                if rng.random() < 0.3:
                    mut = stored[:pos] + rng.choice([b" ", b"\r", b"\n", b"x"]) + stored[pos:]     # insertion
                d2.patch = mut
                v = d2._maybe_verify(T)
                d2.patch = stored
                tc = dict(case, patch_mutation=[pos, newb, len(mut) - len(stored)])
                out["cases"].append((tc, True))
                out["t2"].append((tc, "verify %s %s" % (hexo(calc), hexo(mut)), "T" if v == "verified" else "F"))
                if v == "verified" and norm_py(mut) != norm_py(stored):
                    out["viol"].append((tc, "a patch that differs from the regenerated diff beyond line endings and trailing "
                                            "spaces is reported as verified", None))
                ws = {32, 13, 10}
                if v == "verified" and len(mut) == len(stored) and stored[pos] not in ws and newb not in ws:
                    out["viol"].append((tc, "changing byte %d of the patch from %#x to %#x is not detected" % (pos, stored[pos], newb), None))
                out["count"]["patch-tamper:%s" % v] += 1
    except Exception as e:
        out["viol"].append((case, "installing / verifying the directive made by from_objects raises %s: %s" % (
            type(e).__name__, " ".join(str(e).split())[:120]), None))
    shutil.rmtree(d0, ignore_errors=True)


# ------------------------------------------------------------------ run
def _merge_out(ctx, o, t2):
    if o.get("crash"):
        raise env.InfraError(o["crash"])
    for case, nontrivial in o["cases"]:
        ctx.case(case, nontrivial=nontrivial)
    for k, v in o["count"].items():
        ctx.count(k, v)
    for case, what, fam in o["viol"]:
        ctx.violation(case, what, family=fam)
    t2.extend(o["t2"])


def scenario_keys(ctx, n):
    fmts = ["2a", "2a", "2a", "1.9", "2a", "1.9-rich-root"] if ctx.tier == "quick" else \
        ["2a", "2a", "1.9", "1.9-rich-root", "2a", "pack-0.92", "knit"]
    keys = [((ctx.seed, i, fmts[i % len(fmts)]), ctx.tier) for i in range(n)]
    # one directed scenario per run (conflicting merge, symlink retargets, criss-cross), format by seed
    # (2a on every seed: several installer paths - delta basis, CHK text selection - exist only there)
    keys.insert(0, ((ctx.seed, "F", "2a"), ctx.tier))
    if ctx.tier != "quick":
        keys.insert(1, ((ctx.seed, "F", "1.9"), ctx.tier))
        keys.insert(2, ((ctx.seed, "F", "pack-0.92"), ctx.tier))
    return keys


def scenario_with_directive(args):
    """worker: one scenario + one from_objects directive on it"""
    import collections
    o = run_scenario(args)
    return o


def run(ctx, nscen=None, ndir=None):
    import collections
    t2 = []
    # ---- 1. normalisation, exhaustive --------------------------------------------------------
    alphabet = [b"a", b" ", b"\r", b"\n"]
    strings = [b""]
    layer = [b""]
    for _ in range(ctx.pick(6, 7)):
        layer = [x + c for x in layer for c in alphabet]
        strings += layer
    for b in strings:
        case = dict(norm=b.decode())
        # the enumeration is counted on its own (norm-strings / norm-strings-touched), not among the
        # non-trivial cases of the run
        ctx.case(case, nontrivial=False)
        if b" \n" in b or b"\r" in b:
            ctx.count("norm-strings-touched")
        t2.append((case, "norm %s" % hexo(b), hexo(norm_py(b))))
    ctx.count("norm-strings", len(strings))
    # only the normaliser enumeration is exhaustive; histories, bundles and directives are sampled
    ctx.exhaustive = False
    ctx.extra["exhaustive_parts"] = ["_verify_patch normalisation over {a, space, CR, LF}^<=%d" % ctx.pick(6, 7)]
    # ---- 2. directives with random fields -----------------------------------------------------
    out = dict(viol=[], t2=[], count=collections.Counter(), cases=[])
    rng = ctx.rng
    bundles = [b"# Bazaar revision bundle v4\n#\nBZh91AY&SY" + bytes(rng.randrange(256) for _ in range(80))]
    from bzrformats import rio
    good = rio.Stanza(revision_id="r", timestamp="2020-01-01 00:00:00 +0000", target_branch="t", source_branch="s",
                      testament_sha1="0" * 40, base_revision_id="b")
    for i in range(ndir or ctx.pick(150, 1500)):
        kw = gen_directive_kwargs(rng, bundles)
        lines = directive_case(kw, out, via_file=(i % 2 == 0))
        if lines is not None and rng.random() < 0.12:
            damaged_case(rng, lines, good, out)
    pdate_cases(rng, out, ctx.pick(300, 3000))
    prop_cases(rng, out, ctx.pick(400, 4000))
    ctx.extra["model_variants"] = {"_from_lines without testament_sha1": testament_variant()}
    _merge_out(ctx, dict(out, count=dict(out["count"])), t2)
    # ---- 3. histories, bundles, merges, from_objects ------------------------------------------
    keys = scenario_keys(ctx, nscen or ctx.pick(6, 20))
    for o in ctx.pmap(scenario_with_directive, keys, chunksize=1):
        _merge_out(ctx, o, t2)
    if t2 and ctx.model_available:
        ctx.diff([c for c, _l, _i in t2], [l for _c, l, _i in t2], [i for _c, _l, i in t2])
    # violations without a family (anything that is not a classified finding) are reported first
    ctx.violations.sort(key=lambda v: v.get("family") is not None)


def widen(ctx):
    run(ctx, nscen=24, ndir=1500)


def replay(ctx, case):
    import collections
    os.chdir(env.scratch())
    out = dict(viol=[], t2=[], count=collections.Counter(), cases=[])
    if "norm" in case:
        b = case["norm"].encode()
        m = ctx.model(["norm %s" % hexo(b)])[0]
        return dict(case=case, impl=hexo(norm_py(b)), model=m, agree=m == hexo(norm_py(b)))
    if "prop" in case or "prop_line" in case:
        from breezy.bzr.bundle.bundle_data import RevisionInfo
        line = ": ".join(case["prop"]) if "prop" in case else case["prop_line"]
        info = RevisionInfo(b"rid")
        info.committer, info.timestamp, info.timezone = "c", 1.0, 0
        info.inventory_sha1, info.message, info.parent_ids = b"x", ["m"], []
        info.properties = [line]
        try:
            d = dict(info.as_revision().properties)
            (k, v), = d.items()
            impl = "ok k%s v%s" % (hexo(k.encode("utf-8")), hexo(v.encode("utf-8")))
        except ValueError:
            d, impl = "E:ValueError", "E:ValueError"
        if "prop" in case and d != {case["prop"][0]: case["prop"][1]}:
            ctx.violation(case, "revision property %r = %r written as %r to a 0.9 bundle footer is read back as %r"
                          % (case["prop"][0], case["prop"][1], line, d))
        m = ctx.model(["prop x%s" % line.encode("utf-8").hex()])[0] if ctx.model_available else None
        return dict(case=case, impl=impl, model=m, agree=m == impl)
    if "pdate" in case or "pdate_str" in case:
        from breezy._patch_rs import format_patch_date, parse_patch_date
        try:
            if "pdate" in case:
                st = format_patch_date(*case["pdate"])
                impl = [st, "%d %d" % parse_patch_date(st)]
                lines = ["pdate.fmt %d %d" % tuple(case["pdate"]), "pdate.parse %s" % st.replace(" ", "_")]
            else:
                impl = ["%d %d" % parse_patch_date(case["pdate_str"])]
                lines = ["pdate.parse %s" % case["pdate_str"].replace(" ", "_")]
        except Exception as e:
            return dict(case=case, impl=_exc_kind(e))
        return dict(case=case, impl=impl, model=ctx.model(lines))
    if "directive" in case:
        kw = {k: (v.encode("latin-1") if k in ("revision_id", "testament_sha1", "base_revision_id", "patch", "bundle")
                  and v is not None else v) for k, v in case["directive"].items()}
        directive_case(kw, out, case.get("via_file", False))
    elif "damaged" in case:
        from breezy import merge_directive as md
        lines = [l.encode("latin-1") for l in case["lines"]]
        sh = shim()
        from bzrformats import rio
        sh.canned = rio.Stanza(revision_id="r", timestamp="2020-01-01 00:00:00 +0000", target_branch="t",
                               source_branch="s", testament_sha1="0" * 40, base_revision_id="b")
        try:
            d2 = md.MergeDirective.from_lines(lines)
            impl = "ok %s %s" % (hexo(getattr(d2, "patch", None)), hexo(getattr(d2, "bundle", None)))
        except Exception as e:
            impl = "E:%s" % type(e).__name__
        sh.canned = None
        return dict(case=case, impl=impl, model=ctx.model(["md.from %s" % hexl(lines)])[0])
    else:
        sc = build_scenario(tuple(case["scenario"]))
        if sc["source_bad"] is not None:
            return dict(case=case, note="the source repository does not hold the generated history", detail=repr(sc["source_bad"]))
        base, target = case["base"].encode(), case["target"].encode()
        rng = random.Random(0)
        if case.get("from_objects"):
            from_objects_case(sc, base, target, rng, out)
        else:
            extra = case["extra"].encode() if case.get("extra") else None
            data = do_bundle(sc, base, target, case["ver"], extra, out)
            if data is not None and case.get("tamper"):
                pos, new = case["tamper"]
                tamper_exact(sc, base, target, case["ver"], data, pos, new, out)
            if data is not None and case.get("merge_into"):
                do_merge(sc, base, target, case["merge_into"].encode(), case["ver"], data, out)
    for c, what, fam in out["viol"]:
        ctx.violation(c, what, family=fam)
    res = dict(case=case, oracle_failures=[v[1] for v in out["viol"]])
    if out["t2"] and ctx.model_available:
        ms = ctx.model([l for _c, l, _i in out["t2"]])
        res["impl"] = [i[:400] for _c, _l, i in out["t2"]]
        res["model"] = [m[:400] for m in ms]
        res["agree"] = [i == m for (_c, _l, i), m in zip(out["t2"], ms)]
    return res
