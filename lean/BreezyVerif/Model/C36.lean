/-
C36 — git identifier mappings.  Executable model of

* `breezy/git/mapping.py`: `escape_file_id`, `unescape_file_id`,
  `decode_git_path`/`encode_git_path` (UTF-8 with `surrogateescape`),
  `BzrGitMapping.generate_file_id`/`parse_file_id`,
  `revision_id_foreign_to_bzr`/`revision_id_bzr_to_foreign`,
  `GitMappingRegistry.revision_id_bzr_to_foreign`;
* `breezy/git/refs.py`: `branch_name_to_ref`, `ref_to_branch_name`,
  `tag_name_to_ref`, `ref_to_tag_name`;
* `breezy/git/urls.py: git_url_to_bzr_url` and
  `crates/git/src/lib.rs: bzr_url_to_git_url` (with the segment-parameter
  helpers of `dromedary.urlutils` they call);
* `breezy/git/branch.py: GitBranch.set_parent` / `_get_parent_location` over the
  git config entries they read and write.

Representation: a Python `bytes` value is a `List Nat` with all entries `< 256`
(`isBytes`), a Python `str` is the `List Nat` of its code points (so that lone
surrogates, which `surrogateescape` produces, are representable).  `none` /
`Except.error` model the exception the real code raises.

`bzrUrlToGitUrl` and `getParentLocation` are the CORRECT (inverse) behaviour the
round-trip theorems are about; `bzrUrlToGitUrlLegacy` and
`getParentLocationLegacy` are literal models of the code as found at commit
0e9787b (candidate findings F1 and F14) and are used only for the witness
theorems and to classify differences seen by the correspondence run.
-/
import BreezyVerif.Common
namespace BreezyVerif.C36

abbrev NBytes := List Nat
abbrev Str := List Nat

def isBytes (l : List Nat) : Bool := l.all (· < 256)

/-! ## 1. file-id escaping -/

/-- `bytes.replace(bytes([c]), rep)` for a one-byte pattern -/
def replaceByte (c : Nat) (rep : List Nat) (l : List Nat) : List Nat :=
  l.flatMap fun x => if x = c then rep else [x]

/-- `escape_file_id`: three successive `replace` calls, in source order -/
def escapeFileId (f : NBytes) : NBytes :=
  replaceByte 0x0c [0x5f, 0x63] (replaceByte 0x20 [0x5f, 0x73] (replaceByte 0x5f [0x5f, 0x5f] f))

/-- `unescape_file_id`; `none` = `ValueError("unknown escape character")`
(also raised for a trailing lone `_`) -/
def unescapeFileId : NBytes → Option NBytes
  | [] => some []
  | c :: rest =>
    if c ≠ 0x5f then (unescapeFileId rest).map (c :: ·)
    else match rest with
      | [] => none
      | d :: rest' =>
        if d = 0x5f then (unescapeFileId rest').map (0x5f :: ·)
        else if d = 0x73 then (unescapeFileId rest').map (0x20 :: ·)
        else if d = 0x63 then (unescapeFileId rest').map (0x0c :: ·)
        else none

/-! ## 2. UTF-8 (strict and `surrogateescape`) -/

/-- UTF-8 encoding of one code point.  `se = true` is the `surrogateescape`
error handler: U+DC80..U+DCFF become the single byte `c - 0xDC00`; every other
surrogate (and, with `se = false`, every surrogate) is `UnicodeEncodeError`. -/
def encCp (se : Bool) (c : Nat) : Option NBytes :=
  if c < 0x80 then some [c]
  else if c < 0x800 then some [0xC0 + c / 64, 0x80 + c % 64]
  else if c < 0x10000 then
    if 0xD800 ≤ c ∧ c < 0xE000 then
      (if se = true ∧ 0xDC80 ≤ c ∧ c ≤ 0xDCFF then some [c - 0xDC00] else none)
    else some [0xE0 + c / 4096, 0x80 + c / 64 % 64, 0x80 + c % 64]
  else if c < 0x110000 then
    some [0xF0 + c / 262144, 0x80 + c / 4096 % 64, 0x80 + c / 64 % 64, 0x80 + c % 64]
  else none

def encodeUtf8 (se : Bool) : Str → Option NBytes
  | [] => some []
  | c :: cs =>
    match encCp se c, encodeUtf8 se cs with
    | some p, some q => some (p ++ q)
    | _, _ => none

/-- decode one well-formed UTF-8 sequence at the head (Unicode Table 3-7),
returning the code point and the remaining bytes -/
def decodeStep : NBytes → Option (Nat × NBytes)
  | [] => none
  | b0 :: rest =>
    if b0 < 0x80 then some (b0, rest)
    else if 0xC2 ≤ b0 ∧ b0 ≤ 0xDF then
      match rest with
      | b1 :: r =>
        if 0x80 ≤ b1 ∧ b1 ≤ 0xBF then some ((b0 - 0xC0) * 64 + (b1 - 0x80), r) else none
      | _ => none
    else if 0xE0 ≤ b0 ∧ b0 ≤ 0xEF then
      match rest with
      | b1 :: b2 :: r =>
        if (if b0 = 0xE0 then 0xA0 else 0x80) ≤ b1 ∧ b1 ≤ (if b0 = 0xED then 0x9F else 0xBF)
            ∧ 0x80 ≤ b2 ∧ b2 ≤ 0xBF then
          some ((b0 - 0xE0) * 4096 + (b1 - 0x80) * 64 + (b2 - 0x80), r)
        else none
      | _ => none
    else if 0xF0 ≤ b0 ∧ b0 ≤ 0xF4 then
      match rest with
      | b1 :: b2 :: b3 :: r =>
        if (if b0 = 0xF0 then 0x90 else 0x80) ≤ b1 ∧ b1 ≤ (if b0 = 0xF4 then 0x8F else 0xBF)
            ∧ 0x80 ≤ b2 ∧ b2 ≤ 0xBF ∧ 0x80 ≤ b3 ∧ b3 ≤ 0xBF then
          some ((b0 - 0xF0) * 262144 + (b1 - 0x80) * 4096 + (b2 - 0x80) * 64 + (b3 - 0x80), r)
        else none
      | _ => none
    else none

theorem decodeStep_length {l : NBytes} {c : Nat} {r : NBytes}
    (h : decodeStep l = some (c, r)) : r.length < l.length := by
  unfold decodeStep at h
  split at h
  · simp at h
  · rename_i b0 rest
    split at h
    · simp only [Option.some.injEq, Prod.mk.injEq] at h; simp [← h.2]
    · repeat' split at h
      all_goals first
        | (simp at h; done)
        | (simp only [Option.some.injEq, Prod.mk.injEq] at h
           simp only [← h.2, List.length_cons]; omega)

/-- `bytes.decode("utf-8", "surrogateescape")`: a byte that does not start a
well-formed sequence becomes the lone surrogate `0xDC00 + byte` -/
def decodeSE : NBytes → Str
  | [] => []
  | b0 :: rest =>
    match h : decodeStep (b0 :: rest) with
    | some (c, r) => c :: decodeSE r
    | none => (0xDC00 + b0) :: decodeSE rest
termination_by l => l.length
decreasing_by
  · have := decodeStep_length h; simpa using this
  · simp

/-- `bytes.decode("utf-8")`; `none` = `UnicodeDecodeError` -/
def decodeStrict : NBytes → Option Str
  | [] => some []
  | b0 :: rest =>
    match h : decodeStep (b0 :: rest) with
    | some (c, r) => (decodeStrict r).map (c :: ·)
    | none => none
termination_by l => l.length
decreasing_by
  have := decodeStep_length h; simpa using this

/-! ## 3. file ids -/

/-- `b"TREE_ROOT"` -/
def rootId : NBytes := [84, 82, 69, 69, 95, 82, 79, 79, 84]
/-- `b"git:"` -/
def fileIdPrefix : NBytes := [103, 105, 116, 58]

/-- `generate_file_id(path: bytes)` -/
def generateFileId (path : NBytes) : NBytes :=
  if path = [] then rootId else fileIdPrefix ++ escapeFileId path

/-- `generate_file_id(path: str)`; `none` = `UnicodeEncodeError` -/
def generateFileIdStr (path : Str) : Option NBytes :=
  (encodeUtf8 true path).map generateFileId

/-- `parse_file_id`; `none` = `ValueError` -/
def parseFileId (fid : NBytes) : Option Str :=
  if fid = rootId then some []
  else if ¬ fileIdPrefix.isPrefixOf fid then none
  else (unescapeFileId (fid.drop fileIdPrefix.length)).map decodeSE

/-! ## 4. revision ids -/

/-- `b"null:"` -/
def nullRevision : NBytes := [110, 117, 108, 108, 58]
/-- 40 × `b"0"` -/
def zeroSha : NBytes := List.replicate 40 48
/-- `b"git-"` -/
def gitDash : NBytes := [103, 105, 116, 45]
/-- `b"git-v1"` -/
def pfxV1 : NBytes := [103, 105, 116, 45, 118, 49]
/-- `b"git-experimental"` -/
def pfxExp : NBytes := [103, 105, 116, 45, 101, 120, 112, 101, 114, 105, 109, 101, 110, 116, 97, 108]
/-- the mappings registered in `mapping_registry` -/
def knownMappings : List NBytes := [pfxV1, pfxExp]

inductive Err where
  | value | unicodeEncode | unicodeDecode | invalidRevisionId | key
  deriving DecidableEq, Repr

def Err.toString : Err → String
  | .value => "E:Value" | .unicodeEncode => "E:UnicodeEncode" | .unicodeDecode => "E:UnicodeDecode"
  | .invalidRevisionId => "E:InvalidRevisionId" | .key => "E:Key"

/-- `cls.revision_id_foreign_to_bzr(sha)` for the mapping with `revid_prefix = pfx` -/
def foreignToBzr (pfx sha : NBytes) : NBytes :=
  if sha = zeroSha then nullRevision else pfx ++ 58 :: sha

/-- `cls.revision_id_bzr_to_foreign(revid)` (sha part of the returned pair) -/
def mappingBzrToForeign (pfx revid : NBytes) : Except Err NBytes :=
  if (pfx ++ [58]).isPrefixOf revid then .ok (revid.drop (pfx.length + 1))
  else .error .invalidRevisionId

/-- `l.split(c, 1)`: `none` when `c` does not occur -/
def splitOnFirst (c : Nat) : List Nat → Option (List Nat × List Nat)
  | [] => none
  | x :: xs =>
    if x = c then some ([], xs)
    else match splitOnFirst c xs with
      | some (a, b) => some (x :: a, b)
      | none => none

/-- `mapping_registry.revision_id_bzr_to_foreign(revid)`: the sha and the
`revid_prefix` of the mapping (`none` for the null revision) -/
def registryBzrToForeign (revid : NBytes) : Except Err (NBytes × Option NBytes) :=
  if revid = nullRevision then .ok (zeroSha, none)
  else if ¬ gitDash.isPrefixOf revid then .error .invalidRevisionId
  else match splitOnFirst 58 revid with
    | none => .error .value          -- tuple unpacking of a 1-element split
    | some (version, _) =>
      if version ∈ knownMappings then
        match mappingBzrToForeign version revid with
        | .ok sha => .ok (sha, some version)
        | .error e => .error e
      else .error .key

/-! ## 5. ref names -/

/-- `b"HEAD"` -/
def headRef : NBytes := [72, 69, 65, 68]
/-- `"refs/"` -/
def refsSlash : List Nat := [114, 101, 102, 115, 47]
/-- `b"refs/heads/"` (`LOCAL_BRANCH_PREFIX`) -/
def headsPrefix : NBytes := [114, 101, 102, 115, 47, 104, 101, 97, 100, 115, 47]
/-- `b"refs/tags/"` (`LOCAL_TAG_PREFIX`) -/
def tagsPrefix : NBytes := [114, 101, 102, 115, 47, 116, 97, 103, 115, 47]

/-- `branch_name_to_ref`; `none` = `UnicodeEncodeError` -/
def branchNameToRef (name : Str) : Option NBytes :=
  if name = [] then some headRef
  else if ¬ refsSlash.isPrefixOf name then (encodeUtf8 false name).map (headsPrefix ++ ·)
  else encodeUtf8 false name

/-- `tag_name_to_ref` -/
def tagNameToRef (name : Str) : Option NBytes :=
  (encodeUtf8 false name).map (tagsPrefix ++ ·)

/-- `ref_to_branch_name(ref)` (`ref = none` is Python `None`, returned as is) -/
def refToBranchName (ref : Option NBytes) : Except Err (Option Str) :=
  match ref with
  | none => .ok none
  | some ref =>
    if ref = headRef then .ok (some [])
    else if headsPrefix.isPrefixOf ref then
      match decodeStrict (ref.drop headsPrefix.length) with
      | some s => .ok (some s)
      | none => .error .unicodeDecode
    else .error .value

/-- `ref_to_tag_name` -/
def refToTagName (ref : NBytes) : Except Err Str :=
  if tagsPrefix.isPrefixOf ref then
    match decodeStrict (ref.drop tagsPrefix.length) with
    | some s => .ok s
    | none => .error .unicodeDecode
  else .error .value

/-! ## 6. URLs -/

def isAlnum (b : Nat) : Bool :=
  (48 ≤ b && b ≤ 57) || (65 ≤ b && b ≤ 90) || (97 ≤ b && b ≤ 122)

/-- never escaped by `urlutils.escape` / `urllib.parse.quote`: alphanumerics and `-._~` -/
def isSafe (b : Nat) : Bool := isAlnum b || b = 45 || b = 46 || b = 95 || b = 126

/-- upper-case hex digit -/
def hexU (n : Nat) : Nat := if n < 10 then 48 + n else 55 + n

def hexValN (c : Nat) : Option Nat :=
  if 48 ≤ c ∧ c ≤ 57 then some (c - 48)
  else if 65 ≤ c ∧ c ≤ 70 then some (c - 55)
  else if 97 ≤ c ∧ c ≤ 102 then some (c - 87)
  else none

/-- percent-encode bytes, leaving `isSafe` bytes and those in `extra` alone -/
def pctEncode (extra : List Nat) (bs : NBytes) : Str :=
  bs.flatMap fun b => if isSafe b || extra.contains b then [b] else [37, hexU (b / 16), hexU (b % 16)]

/-- percent-decode (`percent_decode_str` / `unquote_to_bytes` on ASCII input):
`%XX` with two hex digits becomes a byte, anything else is copied -/
def pctDecode : Str → NBytes
  | [] => []
  | [a] => [a]
  | [a, b] => [a, b]
  | a :: b :: c :: rest =>
    if a = 37 then
      match hexValN b, hexValN c with
      | some x, some y => (x * 16 + y) :: pctDecode rest
      | _, _ => a :: pctDecode (b :: c :: rest)
    else a :: pctDecode (b :: c :: rest)

/-- `urlutils.escape(name, safe="")`; `none` = `UnicodeEncodeError` -/
def escapeStr (s : Str) : Option Str := (encodeUtf8 false s).map (pctEncode [])

/-- `urlutils.unescape(s)`: error on non-ASCII input; percent-decode and decode
as UTF-8; if that is not valid UTF-8 the input is returned unchanged -/
def unescapeStr (s : Str) : Except Err Str :=
  if s.all (· < 128) then
    match decodeStrict (pctDecode s) with
    | some t => .ok t
    | none => .ok s
  else .error .value

/-- `(directory part up to and including the last '/', last segment)` -/
def splitLastSlash : List Nat → List Nat × List Nat
  | [] => ([], [])
  | c :: r =>
    if r.contains 47 then ((c :: (splitLastSlash r).1), (splitLastSlash r).2)
    else if c = 47 then ([47], r) else ([], c :: r)

def splitOnAll (c : Nat) : List Nat → List (List Nat)
  | [] => [[]]
  | x :: xs =>
    if x = c then [] :: splitOnAll c xs
    else match splitOnAll c xs with
      | [] => [[x]]
      | h :: t => (x :: h) :: t

def isWs (c : Nat) : Bool := c = 32 || (9 ≤ c && c ≤ 13)

def trimWs (s : Str) : Str := ((s.dropWhile isWs).reverse.dropWhile isWs).reverse

/-- `strip_trailing_slash` (posix): the scheme is the text before the first ':'
when it has at least two characters and no '/'; the root slash of a URL is kept -/
def stripTrailingSlash (u : Str) : Str :=
  if u.getLast? ≠ some 47 then u
  else
    match splitOnFirst 58 u with
    | some (scheme, rest) =>
      if 2 ≤ scheme.length ∧ ¬ scheme.contains 47 then
        let path := if [47, 47].isPrefixOf rest then rest.drop 2 else rest
        -- index of the first '/' in `path` is its last index ⇔ no '/' in `path.dropLast`
        if path.dropLast.contains 47 then u.dropLast else u
      else u.dropLast
    | none => u.dropLast

/-- `split_segment_parameters_raw` -/
def splitSegParamsRaw (u : Str) : Str × List Str :=
  let lurl := stripTrailingSlash u
  let p := splitLastSlash lurl
  if ¬ p.2.contains 44 then (u, [])
  else
    match splitOnAll 44 p.2 with
    | first :: rest => (p.1 ++ first, rest.map trimWs)
    | [] => (u, [])

def parseSubsegs : List Str → Option (List (Str × Str))
  | [] => some []
  | s :: ss =>
    match splitOnFirst 61 s, parseSubsegs ss with
    | some (k, v), some r => some ((trimWs k, trimWs v) :: r)
    | _, _ => none

/-- `split_segment_parameters`; `none` = a sub-segment without `=` (error) -/
def splitSegParams (u : Str) : Option (Str × List (Str × Str)) :=
  match parseSubsegs (splitSegParamsRaw u).2 with
  | some ps => some ((splitSegParamsRaw u).1, ps)
  | none => none

/-- the parameters are collected into a map: the last occurrence of a key wins -/
def paramGet (ps : List (Str × Str)) (k : Str) : Option Str :=
  match ps with
  | [] => none
  | (k', v) :: rest =>
    match paramGet rest k with
    | some w => some w
    | none => if k' = k then some v else none

def strLt : List Nat → List Nat → Bool
  | [], [] => false
  | [], _ :: _ => true
  | _ :: _, [] => false
  | a :: as, b :: bs => a < b || (a = b && strLt as bs)

/-- insert into a key-sorted association list, replacing an equal key -/
def insertKV (k v : Str) : List (Str × Str) → List (Str × Str)
  | [] => [(k, v)]
  | (k', v') :: rest =>
    if k = k' then (k, v) :: rest
    else if strLt k k' then (k, v) :: (k', v') :: rest
    else (k', v') :: insertKV k v rest

def renderParams : List (Str × Str) → Str
  | [] => []
  | (k, v) :: rest => 44 :: (k ++ 61 :: v) ++ renderParams rest

/-- `join_segment_parameters(url, {k: v})` -/
def joinSegParam (u k v : Str) : Option Str :=
  match splitSegParams u with
  | none => none
  | some (base, ex) =>
    some (base ++ renderParams (insertKV k v (ex.foldl (fun acc kv => insertKV kv.1 kv.2 acc) [])))

/-- `"branch"` -/
def kBranch : Str := [98, 114, 97, 110, 99, 104]
/-- `"ref"` -/
def kRef : Str := [114, 101, 102]
/-- `"revno"` -/
def kRevno : Str := [114, 101, 118, 110, 111]

/-- scheme as parsed by `URL.from_string`: the text before the first ':' when
that is followed by `//`, else empty -/
def schemeOf (u : Str) : Str :=
  match splitOnFirst 58 u with
  | some (s, rest) => if [47, 47].isPrefixOf rest then s else []
  | none => []

/-- `"chroot-"` -/
def chrootDash : Str := [99, 104, 114, 111, 111, 116, 45]
/-- `"ssh"` -/
def sSsh : Str := [115, 115, 104]
/-- `"git+ssh"` -/
def sGitSsh : Str := [103, 105, 116, 43, 115, 115, 104]
/-- `KNOWN_GIT_SCHEMES` -/
def knownSchemes : List Str :=
  [sGitSsh, [103, 105, 116], [104, 116, 116, 112], [104, 116, 116, 112, 115], [102, 116, 112], sSsh]

/-- `l.rsplit(c, 1)` -/
def rsplitOnLast (c : Nat) (l : List Nat) : Option (List Nat × List Nat) :=
  match splitOnFirst c l.reverse with
  | some (a, b) => some (b.reverse, a.reverse)
  | none => none

/-- `dulwich.client.parse_rsync_url` -/
def parseRsync (u : Str) : Option (Option Str × Str × Str) :=
  match splitOnFirst 58 u with
  | none => none
  | some (uh, path) =>
    if ¬ u.contains 64 then some (none, uh, path)
    else match rsplitOnLast 64 uh with
      | some (user, host) => some (some user, host, path)
      | none => some (none, uh, path)

/-- `urllib.parse.quote(s, safe="/")` (equivalently `safe="/~"`); `none` = encode error -/
def quoteStr (s : Str) : Option Str := (encodeUtf8 false s).map (pctEncode [47])

inductive Loc where
  | unchanged            -- not a git URL: `git_url_to_bzr_url` returns its argument
  | url (u : Str)        -- normalised location
  | encodeError
  deriving DecidableEq, Repr

/-- the location part of `git_url_to_bzr_url`.  For `ssh://` the URL is
re-serialised by `str(URL)`; on the grammar used (no empty port, no
percent-escapes that `str(URL)` would normalise) that is the identity. -/
def normLoc (u : Str) : Loc :=
  let scheme := schemeOf u
  if knownSchemes.contains scheme || chrootDash.isPrefixOf scheme then
    if scheme = sSsh then .url (sGitSsh ++ u.drop 3) else .url u
  else
    match parseRsync u with
    | none => .unchanged
    | some (user, host, path) =>
      match quoteStr path, quoteStr host, (match user with | some x => quoteStr x | none => some []) with
      | some qp, some qh, some qu =>
        let qp := if [47].isPrefixOf qp then qp else 47 :: qp
        let up := if user = none ∨ user = some [] then [] else qu ++ [64]
        .url (sGitSsh ++ [58, 47, 47] ++ up ++ qh ++ qp)
      | _, _, _ => .encodeError

/-- what `git_url_to_bzr_url` makes of its `branch` / `ref` arguments before
writing them: `if ref == b"HEAD": ref = branch = None`; a non-empty ref that
`ref_to_branch_name` accepts becomes a branch name (`ValueError`, which includes
`UnicodeDecodeError`, keeps the ref); an empty ref is ignored -/
def normBR (branch : Option Str) (ref : Option NBytes) : Option Str × Option NBytes :=
  match ref with
  | some r =>
    if r = headRef ∨ r = [] then (none, none)
    else match refToBranchName (some r) with
      | .ok b => (b, none)
      | .error _ => (none, some r)
  | none => (branch, none)

/-- an empty branch name means "no branch" (used to state the round trip) -/
def cleanBR (p : Option Str × Option NBytes) : Option Str × Option NBytes :=
  (if p.1 = some [] then none else p.1, p.2)

/-- explicit side condition of the ref-level round trip: a ref that
`ref_to_branch_name` accepts is `HEAD`, or names a non-empty branch whose name
does not itself start with `refs/` (excludes `refs/heads/` and `refs/heads/refs/…`) -/
def refOk (ref : Option NBytes) : Bool :=
  match refToBranchName ref with
  | .ok (some n) => ref == some headRef || (n != [] && !refsSlash.isPrefixOf n)
  | _ => true

/-- the `branch` / `ref` segment parameter `git_url_to_bzr_url` appends to the
(normalised) location -/
def addRefParams (location : Str) (branch : Option Str) (ref : Option NBytes) : Except Err Str :=
  match normBR branch ref with
  | (_, some r) =>
    (match joinSegParam location kRef (pctEncode [] r) with | some x => .ok x | none => .error .value)
  | (none, none) => .ok location
  | (some b, none) =>
    if b = [] then .ok location else
      match escapeStr b with
      | some e => (match joinSegParam location kBranch e with | some x => .ok x | none => .error .value)
      | none => .error .unicodeEncode

/-- `git_url_to_bzr_url(location, branch=…, ref=…)`.  A location that is neither
a URL with a git scheme nor rsync-style (a local path) is kept as it is and
still receives the parameters.  `legacy = true` is the code as found: such a
location is returned early, *without* the parameters (finding F15). -/
def gitUrlToBzrUrlG (legacy : Bool) (loc : Str) (branch : Option Str) (ref : Option NBytes) :
    Except Err Str :=
  if branch ≠ none ∧ ref ≠ none then .error .value
  else
    match normLoc loc with
    | .unchanged => if legacy then .ok loc else addRefParams loc branch ref
    | .encodeError => .error .unicodeEncode
    | .url location => addRefParams location branch ref

def gitUrlToBzrUrl := gitUrlToBzrUrlG false
def gitUrlToBzrUrlLegacy := gitUrlToBzrUrlG true

/-- `bzr_url_to_git_url` — the inverse of `git_url_to_bzr_url`: the `branch`
parameter unescaped, the `ref` parameter percent-decoded to bytes. -/
def bzrUrlToGitUrl (u : Str) : Except Err (Str × Option Str × Option NBytes) :=
  match splitSegParams u with
  | none => .error .value
  | some (base, ps) =>
    match (match paramGet ps kBranch with
           | some b => (unescapeStr b).map some
           | none => .ok none) with
    | .error e => .error e
    | .ok branch =>
      match paramGet ps kRef with
      | none => .ok (base, branch, none)
      | some r =>
        -- the parameter is a `&str`: its UTF-8 bytes are percent-decoded
        match encodeUtf8 false r with
        | some bs => .ok (base, branch, some (pctDecode bs))
        | none => .error .unicodeEncode

/-- `bzr_url_to_git_url` as found (F1): reads the parameter `revno` instead of
`ref` and returns both values as they stand in the URL (still escaped). -/
def bzrUrlToGitUrlLegacy (u : Str) : Except Err (Str × Option Str × Option Str) :=
  match splitSegParams u with
  | none => .error .value
  | some (base, ps) => .ok (base, paramGet ps kBranch, paramGet ps kRevno)

/-- the git ref a `(branch, ref)` pair designates (what `set_parent` stores) -/
def effRef (branch : Option Str) (ref : Option NBytes) : Option NBytes :=
  match branch, ref with
  | some b, r =>
    if b = [] then (match r with | some r => if r = [] then some headRef else some r | none => some headRef)
    else branchNameToRef b
  | none, some r => if r = [] then some headRef else some r
  | none, none => some headRef

/-! ## 7. parent location -/

/-- the git config entries `set_parent`/`get_parent` touch:
`(section, subsection, name) ↦ value` -/
abbrev CfgKey := NBytes × NBytes × NBytes
abbrev Cfg := List (CfgKey × NBytes)

def cfgGet (c : Cfg) (k : CfgKey) : Option NBytes :=
  match c with
  | [] => none
  | (k', v) :: rest => if k' = k then some v else cfgGet rest k

def cfgSet (c : Cfg) (k : CfgKey) (v : NBytes) : Cfg :=
  match c with
  | [] => [(k, v)]
  | (k', v') :: rest => if k' = k then (k, v) :: rest else (k', v') :: cfgSet rest k v

/-- `b"remote"`, `b"branch"`, `b"url"`, `b"fetch"`, `b"merge"`, `b"origin"` -/
def bRemote : NBytes := [114, 101, 109, 111, 116, 101]
def bBranch : NBytes := [98, 114, 97, 110, 99, 104]
def bUrl : NBytes := [117, 114, 108]
def bFetch : NBytes := [102, 101, 116, 99, 104]
def bMerge : NBytes := [109, 101, 114, 103, 101]
def bOrigin : NBytes := [111, 114, 105, 103, 105, 110]
/-- `b"+refs/heads/*:refs/remotes/"` and `b"/*"` -/
def fetchA : NBytes := [43, 114, 101, 102, 115, 47, 104, 101, 97, 100, 115, 47, 42, 58, 114, 101, 102, 115, 47, 114,
  101, 109, 111, 116, 101, 115, 47]
def fetchB : NBytes := [47, 42]

/-- `_get_origin`: `branch.<name>.remote`, default `origin` (`name` already encoded) -/
def getOrigin (c : Cfg) (name : NBytes) : NBytes :=
  match cfgGet c (bBranch, name, bRemote) with
  | some r => r
  | none => bOrigin

/-- `GitBranch.set_parent(location)` for a branch called `name`, for target
URLs that are not relative to the branch's own URL (`relative_url` is then the
identity). -/
def setParent (c : Cfg) (name : Str) (loc : Str) : Except Err Cfg :=
  match encodeUtf8 false name with
  | none => .error .unicodeEncode
  | some nm =>
    let remote := getOrigin c nm
    match bzrUrlToGitUrl loc with
    | .error e => .error e
    | .ok (target, branch, ref) =>
      match encodeUtf8 false target with
      | none => .error .unicodeEncode
      | some t =>
        let c1 := cfgSet c (bRemote, remote, bUrl) t
        let c2 := cfgSet c1 (bRemote, remote, bFetch) (fetchA ++ remote ++ fetchB)
        if name = [] then .ok c2
        else
          match effRef branch ref with
          | some m => .ok (cfgSet c2 (bBranch, nm, bMerge) m)
          | none => .error .unicodeEncode

/-- `_get_related_merge_branch` reading `branch.<section>.merge` -/
def getParentWith (legacyUrl : Bool) (c : Cfg) (name : NBytes) (mergeSection : NBytes) :
    Except Err (Option Str) :=
  let remote := getOrigin c name
  match cfgGet c (bRemote, remote, bUrl) with
  | none => .ok none
  | some l =>
    match decodeStrict l with
    | none => .error .unicodeDecode
    | some location =>
      let ref := match cfgGet c (bBranch, mergeSection, bMerge) with
        | some r => r
        | none => headRef
      (gitUrlToBzrUrlG legacyUrl location none (some ref)).map some

/-- `GitBranch._get_parent_location()`: the merge ref is read from the section
`set_parent` writes, `[branch "<name>"]`. -/
def getParentLocation (c : Cfg) (name : Str) : Except Err (Option Str) :=
  match encodeUtf8 false name with
  | none => .error .unicodeEncode
  | some nm => getParentWith false c nm nm

/-- as found (F14): the merge ref is read from `[branch "<remote>"]`. -/
def getParentLocationLegacy (c : Cfg) (name : Str) : Except Err (Option Str) :=
  match encodeUtf8 false name with
  | none => .error .unicodeEncode
  | some nm => getParentWith true c nm (getOrigin c nm)

/-! ## 8. how dulwich's `ConfigFile` writes a value and reads it back

`set_parent` ends with `ConfigFile.write_to_file`, `get_parent` starts with
`ConfigFile.from_file`: every value goes through `_format_string` and comes
back through `_parse_string`. -/

/-- `_escape_value`: five successive `replace` calls, in source order -/
def cfgEscape (v : NBytes) : NBytes :=
  replaceByte 34 [92, 34] (replaceByte 9 [92, 116] (replaceByte 10 [92, 110]
    (replaceByte 13 [92, 114] (replaceByte 92 [92, 92] v))))

/-- the condition under which `_format_string` puts the value in double quotes:
it starts or ends with a space or tab, or contains `#` (note: *not* `;`) -/
def cfgNeedsQuote (v : NBytes) : Bool :=
  v.head? == some 32 || v.head? == some 9 || v.getLast? == some 32 || v.getLast? == some 9 || v.contains 35

/-- `_format_string` -/
def cfgFormat (v : NBytes) : NBytes :=
  if cfgNeedsQuote v then 34 :: cfgEscape v ++ [34] else cfgEscape v

/-- `_ESCAPE_TABLE` (`\\`, `\"`, `\n`, `\t`, `\b`) -/
def cfgUnescChar (c : Nat) : Option Nat :=
  if c = 92 then some 92 else if c = 34 then some 34 else if c = 110 then some 10
  else if c = 116 then some 9 else if c = 98 then some 8 else none

/-- the loop of `_parse_string` (after `strip()`), returning the bytes appended
to `ret` from here on.  `inq` = inside double quotes, `esc` = the previous
character was a backslash that has not been consumed yet, `ws` = the pending
run of unquoted spaces/tabs (kept only if something follows).  `none` =
`ValueError("missing end quote")`. -/
def cfgParseGo (inq esc : Bool) (ws : NBytes) : NBytes → Option NBytes
  | [] => if inq then none else some (if esc then ws ++ [92] else [])
  | c :: rest =>
    match (if esc then cfgUnescChar c else none) with
    | some v => (cfgParseGo inq false [] rest).map (ws ++ v :: ·)
    | none =>
      -- after an unknown escape the backslash is a literal and `c` is processed normally
      let pre := if esc then ws ++ [92] else []
      let ws := if esc then [] else ws
      if c = 92 then (cfgParseGo inq true ws rest).map (pre ++ ·)
      else if c = 34 then (cfgParseGo (!inq) false ws rest).map (pre ++ ·)
      else if (c = 35 || c = 59) && !inq then some pre        -- comment: the rest of the line is dropped
      else if c = 9 || c = 32 then
        if inq then (cfgParseGo inq false ws rest).map (pre ++ c :: ·)
        else (cfgParseGo inq false (ws ++ [c]) rest).map (pre ++ ·)
      else (cfgParseGo inq false [] rest).map (pre ++ ws ++ c :: ·)

/-- `_parse_string`: `bytes.strip()` removes the ASCII whitespace `isWs` -/
def cfgParse (s : NBytes) : Option NBytes := cfgParseGo false false [] (trimWs s)

/-- what `from_file` reads for a value `write_to_file` wrote as
`\t<name> = <formatted>\n`: the text after the first `=` up to and including
the newline goes to `_parse_string` -/
def cfgReread (v : NBytes) : Option NBytes := cfgParse (32 :: cfgFormat v ++ [10])

/-- the values dulwich writes and reads back unchanged: no carriage return
(written as `\r`, which `_parse_string` does not know); and, unless the value
is quoted anyway, no `;` (taken for a comment) and no vertical tab / form feed
at either end (removed by `strip()`) -/
def cfgValueSafe (v : NBytes) : Bool :=
  !v.contains 13 &&
    (cfgNeedsQuote v ||
      (!v.contains 59 && v.head? != some 11 && v.head? != some 12 && v.getLast? != some 11 && v.getLast? != some 12))

/-- the whole configuration after `write_to_file` + `from_file` (section and
variable names are taken as written: branch and remote names without `"`, `\`
or control characters) -/
def cfgRereadAll : Cfg → Option Cfg
  | [] => some []
  | (k, v) :: rest =>
    match cfgReread v, cfgRereadAll rest with
    | some v', some rest' => some ((k, v') :: rest')
    | _, _ => none

/-- `_escape_subsection` / `_unescape_subsection` (section headers `[branch "<name>"]`) -/
def subsecEscape (n : NBytes) : NBytes := replaceByte 34 [92, 34] (replaceByte 92 [92, 92] n)

def subsecUnescape : NBytes → NBytes
  | [] => []
  | [c] => [c]
  | c :: d :: rest => if c = 92 then d :: subsecUnescape rest else c :: subsecUnescape (d :: rest)

/-- "no comma in the last path segment", before and after `strip_trailing_slash`:
all that `split_segment_parameters` looks at -/
def lastSegCommaFree (u : Str) : Bool :=
  !(splitLastSlash (stripTrailingSlash u)).2.contains 44 && !(splitLastSlash u).2.contains 44

end BreezyVerif.C36
