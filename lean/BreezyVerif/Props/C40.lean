import BreezyVerif.Lemmas.C40
import BreezyVerif.Lemmas.C40B
import BreezyVerif.Lemmas.C40F
/-!
C40 — theorems.  Repositories (any parent map, ghosts included), base and target
revisions, directives, patches and byte strings are universally quantified;
nothing is bounded.
-/
namespace BreezyVerif.C40

open BreezyVerif.C03 (Rev FileId TextKey Entry RevRec Inv Repo get hasRev graph reach anc invOrEmpty
  Exclusion streamEntries testament agree agreeOn complete noOrphanInv)
open BreezyVerif.C33 (Reach)

/-! ## bundles -/

/-- what a bundle carries: the source-present ancestry of the target that is not
reachable from the base -/
theorem bundle_revs_spec (src : Repo) (base target k : Rev) :
    k ∈ bundleRevs src base target ↔ k ∈ anc src target ∧ ¬ Reach (graph src) [] [base] k :=
  mem_bundleRevs src base target k

/-- … so every ancestor of the target is either carried or an ancestor of the base -/
theorem bundle_partition (src : Repo) (base target k : Rev) (hk : k ∈ anc src target) :
    k ∈ bundleRevs src base target ∨ k ∈ anc src base :=
  anc_cases src base target k hk

/-- a written v4 bundle holds exactly the source's records of the bundled revisions -/
theorem bundle_contents (sel : TextSel) (src : Repo) (base target : Rev) (b : Bundle)
    (hw : writeV4 sel src base target = .ok b) (k : Rev) :
    (get b.revs k = if k ∈ bundleRevs src base target then get src.revs k else none) ∧
    (get b.invs k = if k ∈ bundleRevs src base target then get src.invs k else none) ∧
    (k ∈ bundleRevs src base target → (get src.invs k).isSome = true) := by
  refine ⟨bundle_revs_get hw k, bundle_invs_get hw k, fun hk => ?_⟩
  have := (writeV4_ok hw).1
  unfold writable at this
  simp only [Bool.and_eq_true, List.all_eq_true] at this
  exact this.1 k hk

/-- installing never changes a record the repository already holds -/
theorem bundle_install_monotone (b : Bundle) (tgt : Repo) :
    (∀ k v, get tgt.revs k = some v → get (installV4 b tgt).1.revs k = some v) ∧
    (∀ k v, get tgt.invs k = some v → get (installV4 b tgt).1.invs k = some v) ∧
    (∀ k v, get tgt.texts k = some v → get (installV4 b tgt).1.texts k = some v) :=
  ⟨fun _ _ h => C03.get_append_some h, fun _ _ h => C03.get_append_some h, fun _ _ h => C03.get_append_some h⟩

/-- **Faithful install (format 4).**  Write the bundle for `(base, target)` from
`src`, install it into any repository `tgt` that holds the base's ancestry, agrees
with the source on the ids both hold and is complete: afterwards every
source-present ancestor of the target is in the repository, with the source's
revision record and inventory, hence with the same testament. -/
theorem bundle_install_faithful (sel : TextSel) (src tgt : Repo) (base target : Rev) (b : Bundle)
    (hb : holdsBase src tgt base = true) (ha : agree src tgt = true) (hc : complete tgt = true)
    (hw : writeV4 sel src base target = .ok b) (k : Rev) (hk : k ∈ anc src target)
    (hsi : (get src.invs k).isSome = true) :
    hasRev (installV4 b tgt).1 k = true ∧
    get (installV4 b tgt).1.revs k = get src.revs k ∧
    get (installV4 b tgt).1.invs k = get src.invs k ∧
    testament (installV4 b tgt).1 k = testament src k := by
  obtain ⟨rec, hrec⟩ := (C03.hasRev_iff ..).mp ((C03.mem_anc ..).mp hk).2
  obtain ⟨inv, hinv⟩ : ∃ i, get src.invs k = some i := by
    cases h : get src.invs k with
    | none => simp [h] at hsi
    | some i => exact ⟨i, rfl⟩
  have hrevs : get (installV4 b tgt).1.revs k = some rec := by
    show get (tgt.revs ++ b.revs) k = some rec
    rw [install_get]
    cases hg : get tgt.revs k with
    | some w => simp only; rw [C03.agreeOn_eq (C03.agree_revs ha) hg hrec]
    | none =>
      simp only
      rcases anc_cases src base target k hk with hm | hbase
      · rw [bundle_revs_get hw, if_pos hm, hrec]
      · have := List.all_eq_true.mp hb k hbase
        rw [C03.hasRev_iff] at this
        obtain ⟨w, hw'⟩ := this
        rw [hg] at hw'; cases hw'
  have hinvs : get (installV4 b tgt).1.invs k = some inv := by
    show get (tgt.invs ++ b.invs) k = some inv
    rw [install_get]
    cases hg : get tgt.invs k with
    | some w => simp only; rw [C03.agreeOn_eq (C03.agree_invs ha) hg hinv]
    | none =>
      simp only
      rcases anc_cases src base target k hk with hm | hbase
      · rw [bundle_invs_get hw, if_pos hm, hinv]
      · have := List.all_eq_true.mp hb k hbase
        rw [C03.hasRev_iff] at this
        obtain ⟨w, hw'⟩ := this
        obtain ⟨i', hi', _⟩ := C03.complete_inv hc hw'
        rw [hg] at hi'; cases hi'
  refine ⟨(C03.hasRev_iff ..).mpr ⟨rec, hrevs⟩, by rw [hrevs, hrec], by rw [hinvs, hinv], ?_⟩
  unfold testament
  rw [hrevs, hinvs, hrec, hinv]

/-- the install returns the target whenever the bundle carries it -/
theorem install_returns_target (sel : TextSel) (src tgt : Repo) (base target : Rev) (b : Bundle)
    (hw : writeV4 sel src base target = .ok b) (ht : target ∈ bundleRevs src base target) :
    (installV4 b tgt).2 = some target := by
  obtain ⟨rec, hrec⟩ := (C03.hasRev_iff ..).mp
    ((C03.mem_anc ..).mp ((mem_bundleRevs ..).mp ht).1).2
  show (b.revs.getLast?).map (·.1) = some target
  rw [(writeV4_ok hw).2.1]
  unfold targetLast
  rw [if_pos ht, List.filterMap_append]
  simp [hrec]

/-- **Complete install (format 4).**  Under the hypotheses of `bundle_install_faithful`
and the source condition of the text selection (`selOK`: CHK — boundary parents are
chosen by revision presence or the source stores no inventory of an absent revision;
XML — the revision that last changed an entry is a source-present ancestor whose own
inventory has that text key), the repository after the install is complete again:
every revision has its inventory and every text its inventory names.  This is the
statement about `fileids_altered_by_revision_ids`: what it leaves out is already held. -/
theorem bundle_install_complete (sel : TextSel) (src tgt : Repo) (base target : Rev) (b : Bundle)
    (hb : holdsBase src tgt base = true) (ha : agree src tgt = true) (hc : complete tgt = true)
    (hs : selOK sel src = true) (hw : writeV4 sel src base target = .ok b) :
    complete (installV4 b tgt).1 = true :=
  complete_installV4 sel src tgt base target b hb ha hc hs hw

/-- … and every file text of every source-present ancestor of the target is there with
the source's content (the part of the testament's meaning that lives in the texts) -/
theorem bundle_install_texts_faithful (sel : TextSel) (src tgt : Repo) (base target : Rev) (b : Bundle)
    (hb : holdsBase src tgt base = true) (ha : agree src tgt = true) (hc : complete tgt = true)
    (hs : selOK sel src = true) (hw : writeV4 sel src base target = .ok b)
    (k : Rev) (hk : k ∈ anc src target) (i : Inv) (hi : get src.invs k = some i) (e : Entry) (he : e ∈ i) :
    ∃ c, get (installV4 b tgt).1.texts e.key = some c ∧ ∀ c', get src.texts e.key = some c' → c' = c := by
  rcases anc_cases src base target k hk with hm | hbase
  · exact installed_text hb ha hc hs hw hm hi he
  · obtain ⟨c, hc0⟩ := C03.text_of_held ha hc (List.all_eq_true.mp hb k hbase) hi he
    exact ⟨c, C03.get_append_some hc0, fun c' hc' => C03.agreeOn_eq (C03.agree_texts ha) hc0 hc'⟩

/-- why `selOK` is needed for CHK bundles as the code selects texts (`asFound`): the
source stores the inventory of a ghost parent (1) that shares an entry with the bundled
revision (2); the entry counts as uninteresting, its text is not bundled, and a
repository that holds the (empty) base ends up without it -/
theorem bundle_orphan_inventory_witness :
    let src : Repo := { revs := [(2, ⟨[1], 20⟩)], invs := [(1, [⟨1, 1, 1, 100⟩]), (2, [⟨1, 1, 1, 100⟩])],
                        texts := [((1, 1), 100)] }
    let tgt : Repo := { revs := [], invs := [], texts := [] }
    holdsBase src tgt 0 = true ∧ agree src tgt = true ∧ complete tgt = true ∧
    selOK (.chk .asFound) src = false ∧ selOK (.chk .revisionPresent) src = true ∧
    (match writeV4 (.chk .asFound) src 0 2, writeV4 (.chk .revisionPresent) src 0 2 with
      | .ok b, .ok b' => (b.texts, complete (installV4 b tgt).1, complete (installV4 b' tgt).1) == ([], false, true)
      | _, _ => false) = true := by
  decide +kernel

/-- **Faithful install (formats 0.8 / 0.9).**  Same statement for the patch-based
bundle: if writing and installing succeed, every source-present ancestor of the
target is in the repository with the source's revision record, inventory and
testament. -/
theorem bundle09_install_faithful (src tgt t' : Repo) (base target : Rev)
    (hb : holdsBase src tgt base = true) (ha : agree src tgt = true) (hc : complete tgt = true)
    (hw : roundtrip09 src tgt base target = .ok t') (k : Rev) (hk : k ∈ anc src target)
    (hsi : (get src.invs k).isSome = true) :
    hasRev t' k = true ∧ get t'.revs k = get src.revs k ∧ get t'.invs k = get src.invs k ∧
    testament t' k = testament src k := by
  obtain ⟨rec, hrec⟩ := (C03.hasRev_iff ..).mp ((C03.mem_anc ..).mp hk).2
  obtain ⟨inv, hinv⟩ : ∃ i, get src.invs k = some i := by
    cases h : get src.invs k with
    | none => simp [h] at hsi
    | some i => exact ⟨i, rfl⟩
  unfold roundtrip09 at hw
  cases hwr : write09 src base target with
  | error e => simp [hwr] at hw
  | ok rs =>
    simp only [hwr] at hw
    obtain ⟨_, ht'⟩ := install09_ok hw
    unfold write09 at hwr
    obtain ⟨hfw, hbw⟩ := mapM_ok _ _ _ hwr
    -- every record of the bundle carries the source's data for its revision
    have hrs : ∀ r ∈ rs, get src.revs r.rev = some r.info ∧ get src.invs r.rev = some r.inv := by
      intro r hr
      obtain ⟨a, _, hfa⟩ := hbw r hr
      obtain ⟨h1, h2, h3, _⟩ := rec09_ok hfa
      rw [h1]; exact ⟨h2, h3⟩
    have hcase : hasRev tgt k = true ∨ ∃ r ∈ rs.filter (fun r => !hasRev tgt r.rev), r.rev = k := by
      by_cases htk : hasRev tgt k = true
      · exact Or.inl htk
      · rcases anc_cases src base target k hk with hm | hbase
        · obtain ⟨r, hr, hfr⟩ := hfw k (by simp [mem_targetLast, hm])
          refine Or.inr ⟨r, ?_, (rec09_ok hfr).1⟩
          rw [List.mem_filter]
          refine ⟨hr, ?_⟩
          rw [(rec09_ok hfr).1]
          simpa using htk
        · exact absurd (List.all_eq_true.mp hb k hbase) htk
    have hrevs : get t'.revs k = some rec := by
      rw [ht']
      show get (tgt.revs ++ _) k = some rec
      rw [install_get]
      cases hg : get tgt.revs k with
      | some w => simp only; rw [C03.agreeOn_eq (C03.agree_revs ha) hg hrec]
      | none =>
        simp only
        rcases hcase with htk | hex
        · rw [C03.hasRev_iff] at htk; obtain ⟨w, hw'⟩ := htk; rw [hg] at hw'; cases hw'
        · refine get_map_unique (fun r : Rec09 => r.rev) (fun r => r.info) _ k rec hex ?_
          intro r hr hrk
          have := (hrs r (List.mem_filter.mp hr).1).1
          rw [hrk, hrec] at this
          injection this with this
          exact this.symm
    have hinvs : get t'.invs k = some inv := by
      rw [ht']
      show get (tgt.invs ++ _) k = some inv
      rw [install_get]
      cases hg : get tgt.invs k with
      | some w => simp only; rw [C03.agreeOn_eq (C03.agree_invs ha) hg hinv]
      | none =>
        simp only
        rcases hcase with htk | hex
        · rw [C03.hasRev_iff] at htk
          obtain ⟨w, hw'⟩ := htk
          obtain ⟨i', hi', _⟩ := C03.complete_inv hc hw'
          rw [hg] at hi'; cases hi'
        · refine get_map_unique (fun r : Rec09 => r.rev) (fun r => r.inv) _ k inv hex ?_
          intro r hr hrk
          have := (hrs r (List.mem_filter.mp hr).1).2
          rw [hrk, hinv] at this
          injection this with this
          exact this.symm
    refine ⟨(C03.hasRev_iff ..).mpr ⟨rec, hrevs⟩, by rw [hrevs, hrec], by rw [hinvs, hinv], ?_⟩
    unfold testament
    rw [hrevs, hinvs, hrec, hinv]

/-- **Complete install (formats 0.8 / 0.9).**  The patch-based formats carry every text
of every bundled tree: no condition on the source beyond what writing needs -/
theorem bundle09_install_complete (src tgt t' : Repo) (base target : Rev)
    (ha : agree src tgt = true) (hc : complete tgt = true)
    (hw : roundtrip09 src tgt base target = .ok t') : complete t' = true :=
  complete_install09 src tgt t' base target ha hc hw

/-! ## merge directives -/

/-- splitting into lines loses nothing (both splitters) -/
theorem split_join (b : Bytes) : joinLines (splitLines b) = b ∧ joinLines (splitNL b) = b :=
  ⟨joinLines_splitLines b, joinLines_splitNL b⟩

/-- the round-trip law of the stanza codec (bzrformats; assumed, checked at run time) -/
def CodecLaw {α : Type} (c : Codec α) : Prop :=
  ∀ (f : α) (rest : List Line), c.dec (c.enc f ++ blank :: rest) = some (f, rest)

/-- the documented domain: no line of the patch starts with `# Begin bundle` -/
def patchOk (split : Bytes → List Line) (p : Option Bytes) : Bool :=
  match p with
  | none => true
  | some x => noMarker (split x)

theorem toLines_eq {α : Type} (c : Codec α) (d : Directive α) :
    toLines c d = header2 :: (c.enc d.fields ++ blank :: payload splitLines d.patch d.bundle) := by
  unfold toLines payload
  cases d.patch <;> cases d.bundle <;> simp

theorem fromLines_header {α : Type} (c : Codec α) (rest rest' : List Line) (f : α) (p b : Option Bytes)
    (hd : c.dec rest = some (f, rest')) (hs : sections rest' = .ok (p, b)) :
    fromLines c (header2 :: rest) = .ok ⟨f, p, b⟩ := by
  have h1 : isPrefix headerPrefix header2 = true := by decide
  have h2 : lookupFormat header2 = some .two := by decide
  unfold fromLines
  simp [List.dropWhile, h1, h2, hd, hs]

/-- **Round trip (line list).**  `from_lines(to_lines(d)) = d` for every directive
whose patch has no line starting with the bundle marker. -/
theorem directive_roundtrip {α : Type} (c : Codec α) (hc : CodecLaw c) (d : Directive α)
    (hd : patchOk splitLines d.patch = true) :
    fromLines c (toLines c d) = .ok d := by
  rw [toLines_eq]
  exact fromLines_header c _ _ d.fields d.patch d.bundle (hc _ _)
    (sections_payload splitLines joinLines_splitLines d.patch d.bundle (by
      intro x hx; rw [hx] at hd; exact hd))

/-- **Round trip (through a file).**  Writing `b"".join(to_lines(d))` and parsing
the file object line by line gives `d` back, provided the stanza lines are
physical lines, no `\n`-line of the patch starts with the bundle marker, and a
patch that is followed by a bundle is empty or ends with a newline
(`directive_file_nonl_witness` shows what happens otherwise). -/
theorem directive_roundtrip_file {α : Type} (c : Codec α) (hc : CodecLaw c) (d : Directive α)
    (hl : ∀ l ∈ c.enc d.fields, isLine l = true)
    (hd : patchOk splitNL d.patch = true)
    (hp : ∀ x y, d.patch = some x → d.bundle = some y → endsNL x = true) :
    fromLines c (splitNL (joinLines (toLines c d))) = .ok d := by
  have hH : isLine header2 = true := by decide
  have hB : isLine blank = true := by decide
  have hBP : isLine beginPatch = true := by decide
  have hBB : isLine beginBundle = true := by decide
  -- the serialised text splits back into header, stanza lines, blank and the re-split payload
  have key : splitNL (joinLines (toLines c d)) =
      header2 :: (c.enc d.fields ++ blank :: payload splitNL d.patch d.bundle) := by
    rw [toLines_eq]
    have e1 : joinLines (header2 :: (c.enc d.fields ++ blank :: payload splitLines d.patch d.bundle)) =
        joinLines (header2 :: (c.enc d.fields ++ [blank])) ++ joinLines (payload splitLines d.patch d.bundle) := by
      simp [joinLines]
    rw [e1, splitNL_append _ _ (joinLines_endsNL _ (by
      intro l hl'
      simp only [List.mem_cons, List.mem_append, List.mem_singleton, List.not_mem_nil, or_false] at hl'
      rcases hl' with h | h | h
      · rw [h]; exact isLine_endsNL hH
      · exact isLine_endsNL (hl l h)
      · rw [h]; exact isLine_endsNL hB))]
    rw [splitNL_joinLines _ (by
      intro l hl'
      simp only [List.mem_cons, List.mem_append, List.mem_singleton, List.not_mem_nil, or_false] at hl'
      rcases hl' with h | h | h
      · rw [h]; exact hH
      · exact hl l h
      · rw [h]; exact hB)]
    have e2 : splitNL (joinLines (payload splitLines d.patch d.bundle)) = payload splitNL d.patch d.bundle := by
      cases hpp : d.patch with
      | none =>
        cases d.bundle with
        | none => rfl
        | some b =>
          simp only [payload, List.nil_append, joinLines, List.flatten_cons]
          rw [splitNL_append _ _ (isLine_endsNL hBB), splitNL_isLine _ hBB]
          have := joinLines_splitLines b
          simp only [joinLines] at this
          rw [this]; rfl
      | some p =>
        cases hbb : d.bundle with
        | none =>
          simp only [payload, List.append_nil, joinLines, List.flatten_cons]
          rw [splitNL_append _ _ (isLine_endsNL hBP), splitNL_isLine _ hBP]
          have := joinLines_splitLines p
          simp only [joinLines] at this
          rw [this]; rfl
        | some b =>
          have hpe := hp p b hpp hbb
          simp only [payload, List.cons_append, joinLines, List.flatten_cons, List.flatten_append]
          have h1 := joinLines_splitLines p
          have h2 := joinLines_splitLines b
          simp only [joinLines] at h1 h2
          rw [h1, h2, splitNL_append _ _ (isLine_endsNL hBP), splitNL_isLine _ hBP,
            splitNL_append _ _ hpe, splitNL_append _ _ (isLine_endsNL hBB), splitNL_isLine _ hBB]
          rfl
    rw [e2]
    simp
  rw [key]
  exact fromLines_header c _ _ d.fields d.patch d.bundle (hc _ _)
    (sections_payload splitNL joinLines_splitNL d.patch d.bundle (by
      intro x hx; rw [hx] at hd; exact hd))

/-- the driver's block codec satisfies the law on blocks that contain no blank line -/
theorem blockCodec_law (f : List Line) (hf : ∀ l ∈ f, isBlank l = false) (rest : List Line) :
    blockCodec.dec (blockCodec.enc f ++ blank :: rest) = some (f, rest) := by
  have hb : (fun l => !isBlank l) blank = false := by decide
  obtain ⟨h1, h2⟩ := span_all (fun l => !isBlank l) f blank rest (fun a ha => by simp [hf a ha]) hb
  show (match (f ++ blank :: rest).dropWhile (fun l => !isBlank l) with
    | [] => none
    | _ :: r => some ((f ++ blank :: rest).takeWhile (fun l => !isBlank l), r)) = some (f, rest)
  rw [h1, h2]

/-- why the domain condition is needed: a patch line that starts with the bundle
marker is taken for the start of the bundle (`+`-prefixed diff lines never do) -/
theorem directive_marker_witness :
    (match fromLines blockCodec (toLines blockCodec ⟨[], some beginBundle, none⟩) with
      | .ok d => d.patch == some [] && d.bundle == some []
      | .error _ => false) = true := by
  decide +kernel

/-- **Finding** (family `directive-file-roundtrip-patch-without-final-newline-before-bundle`):
a patch whose last line has no newline, followed by a bundle.  As a line list the
directive round-trips; written to a file and read back the bundle marker no longer
starts a line: the marker and the whole bundle are appended to the patch and the
bundle is lost. -/
theorem directive_file_nonl_witness :
    let d : Directive (List Line) := ⟨[], some [43, 97], some [81, 10]⟩
    (match fromLines blockCodec (toLines blockCodec d),
        fromLines blockCodec (splitNL (joinLines (toLines blockCodec d))) with
      | .ok d1, .ok d2 => d1 == d && d2 == ⟨[], some ([43, 97] ++ beginBundle ++ [81, 10]), none⟩
      | _, _ => false) = true := by
  decide +kernel

/-! ## the directive's fields (stanza built by `_to_lines`, read by `_from_lines`; timestamp codec) -/

/-- `parse_patch_date(format_patch_date(t, tz)) = (t, tz)` for every whole-second time and
every offset that is a multiple of a minute, below a day in magnitude, with `t + tz ≥ 0`
in years 0..9999 and (`t = 0 → tz = 0`: the epoch is always written in UTC) -/
theorem patch_date_roundtrip (secs off : Int) (h : dateOK secs off = true) :
    ∃ s, formatPatchDate secs off = .ok s ∧ parsePatchDate s = .ok (secs, off) :=
  patchDate_roundtrip secs off h

/-- **Round trip of all fields (line list).**  For every stanza line codec satisfying the
round-trip law (bzrformats' rio_patch; assumed, checked per case) and every directive with a
testament sha1 (not needed for the tolerant variant of `_from_lines`), a merge source (public
branch or bundle) and a date in the timestamp's domain, whose patch has no line starting with
the bundle marker: `to_lines` succeeds and `from_lines` gives back revision id, testament
sha1, time, timezone, target and source branch, message, base revision id, patch and bundle. -/
theorem directive_fields_roundtrip (tolerant : Bool) (rio : Codec Stanza) (hc : CodecLaw rio) (d : Directive Fields)
    (hf : fieldsOKV tolerant d = true) (hd : patchOk splitLines d.patch = true) :
    ∃ lines, toLinesF rio d = .ok lines ∧ fromLinesFV tolerant rio lines = .ok d := by
  simp only [fieldsOKV, Bool.decide_and, Bool.decide_or, Bool.and_eq_true, Bool.or_eq_true, decide_eq_true_eq] at hf
  obtain ⟨ht, hsrc, hdate⟩ := hf
  obtain ⟨st, hst, hback⟩ := fields_roundtrip tolerant d.fields d.bundle.isSome ht hsrc hdate
  refine ⟨toLines rio ⟨st, d.patch, d.bundle⟩, by simp only [toLinesF, hst], ?_⟩
  unfold fromLinesFV
  rw [directive_roundtrip rio hc ⟨st, d.patch, d.bundle⟩ hd]
  simp only [hback]

/-- **… and through a file**, under the additional conditions of `directive_roundtrip_file` -/
theorem directive_fields_roundtrip_file (tolerant : Bool) (rio : Codec Stanza) (hc : CodecLaw rio)
    (d : Directive Fields)
    (hf : fieldsOKV tolerant d = true) (hl : ∀ st, ∀ l ∈ rio.enc st, isLine l = true)
    (hd : patchOk splitNL d.patch = true)
    (hp : ∀ x y, d.patch = some x → d.bundle = some y → endsNL x = true) :
    ∃ lines, toLinesF rio d = .ok lines ∧ fromLinesFV tolerant rio (splitNL (joinLines lines)) = .ok d := by
  simp only [fieldsOKV, Bool.decide_and, Bool.decide_or, Bool.and_eq_true, Bool.or_eq_true, decide_eq_true_eq] at hf
  obtain ⟨ht, hsrc, hdate⟩ := hf
  obtain ⟨st, hst, hback⟩ := fields_roundtrip tolerant d.fields d.bundle.isSome ht hsrc hdate
  refine ⟨toLines rio ⟨st, d.patch, d.bundle⟩, by simp only [toLinesF, hst], ?_⟩
  unfold fromLinesFV
  rw [directive_roundtrip_file rio hc ⟨st, d.patch, d.bundle⟩ (hl st) hd hp]
  simp only [hback]

/-- by design ("we always give the epoch in utc"): at time 0 the timezone is not kept -/
theorem directive_epoch_timezone_witness :
    (match formatPatchDate 0 3600 with
      | .ok s => parsePatchDate s == .ok (0, 0)
      | .error _ => false) = true := by
  decide +kernel

/-- **Finding** (family `directive-without-testament-sha1-does-not-parse`): `_to_lines` leaves
out a `testament_sha1` that is None, but `_from_lines` calls the constructor without the
keyword it requires: the directive serialises and then cannot be parsed (TypeError) -/
theorem directive_no_testament_witness :
    (match toPairs ⟨['r'], none, 86400, 0, ['t'], some ['s'], none, ['b']⟩ with
      | .ok st => fromPairs st false == .error .typeError
      | .error _ => false) = true := by
  decide +kernel

/-- the offset's sign belongs to hours and minutes (fix b80d98c) -/
example : parsePatchDate "2019-01-01 00:00:00 -0330".toList = .ok (1546313400, -12600) := by decide +kernel
example : dateOK 1500000000 (-12600) = true ∧ dateOK 0 0 = true ∧ dateOK 0 3600 = false := by decide +kernel
example : fieldsOKV false ⟨⟨['r'], some ['s'], 86400, 3600, ['t'], none, none, ['b']⟩, none, some [81, 10]⟩ = true ∧
    fieldsOKV true ⟨⟨['r'], none, 86400, 0, ['t'], some ['u'], none, ['b']⟩, none, none⟩ = true := by decide +kernel

/-! ## patch verification -/

/-- the verifier accepts the patch the directive was made with -/
theorem verify_refl (p : Bytes) : verifyPatch p p = true := by simp [verifyPatch]

/-- the normalisation only ever touches spaces, CR and LF -/
theorem norm_skeleton (b : Bytes) : nonws (norm b) = nonws b := nonws_norm b

/-- **Tampering is detected.**  The verifier compares the regenerated diff with
the stored patch modulo line endings and trailing spaces only: replacing any
byte of a verified patch by a different byte (neither of them space, CR or LF)
makes the verification fail.  (That a changed *tree* changes the regenerated
diff, and that a changed bundle changes a sha-1, is assumed, not proved.) -/
theorem tamper_detected (calcd pre post : Bytes) (x y : UInt8) (hxy : x ≠ y)
    (hx : isWs x = false) (hy : isWs y = false)
    (hv : verifyPatch calcd (pre ++ x :: post) = true) :
    verifyPatch calcd (pre ++ y :: post) = false := by
  unfold verifyPatch at hv ⊢
  simp only [beq_iff_eq] at hv
  cases h : norm calcd == norm (pre ++ y :: post) with
  | false => rfl
  | true =>
    simp only [beq_iff_eq] at h
    have e : nonws (pre ++ x :: post) = nonws (pre ++ y :: post) := by
      rw [← nonws_norm (pre ++ x :: post), ← nonws_norm (pre ++ y :: post), ← hv, ← h]
    simp only [nonws, List.filter_append, List.filter_cons, hx, hy, Bool.not_false, if_true] at e
    have := List.append_cancel_left e
    simp only [List.cons.injEq] at this
    exact absurd this.1 hxy

/-- **Tampering is detected, general form.**  Whatever is done to a verified patch — any
number of replacements, insertions, deletions, anywhere — if the sequence of bytes other
than space, CR and LF changes, the verification fails. -/
theorem tamper_detected_general (calcd s s' : Bytes) (hv : verifyPatch calcd s = true)
    (hne : nonws s' ≠ nonws s) : verifyPatch calcd s' = false := by
  cases h : verifyPatch calcd s' with
  | false => rfl
  | true => exact absurd ((verify_nonws h).trans (verify_nonws hv).symm) hne

/-- inserting a byte other than space, CR, LF anywhere is detected -/
theorem tamper_insert_detected (calcd pre post : Bytes) (y : UInt8) (hy : isWs y = false)
    (hv : verifyPatch calcd (pre ++ post) = true) : verifyPatch calcd (pre ++ y :: post) = false := by
  apply tamper_detected_general calcd _ _ hv
  intro h
  have := congrArg List.length h
  rw [nonws_insert_length pre post y hy] at this
  omega

/-- deleting a byte other than space, CR, LF anywhere is detected -/
theorem tamper_delete_detected (calcd pre post : Bytes) (x : UInt8) (hx : isWs x = false)
    (hv : verifyPatch calcd (pre ++ x :: post) = true) : verifyPatch calcd (pre ++ post) = false := by
  apply tamper_detected_general calcd _ _ hv
  intro h
  have := congrArg List.length h
  rw [nonws_insert_length pre post x hx] at this
  omega

/-- replacing a space, CR or LF by any other byte (or the other way round) is detected -/
theorem tamper_ws_swap_detected (calcd pre post : Bytes) (x y : UInt8) (hx : isWs x = true) (hy : isWs y = false) :
    (verifyPatch calcd (pre ++ x :: post) = true → verifyPatch calcd (pre ++ y :: post) = false) ∧
    (verifyPatch calcd (pre ++ y :: post) = true → verifyPatch calcd (pre ++ x :: post) = false) := by
  have hx' : nonws (pre ++ x :: post) = nonws (pre ++ post) := by
    simp [nonws, List.filter_append, List.filter_cons, hx]
  have hlen := nonws_insert_length pre post y hy
  constructor
  · intro hv
    apply tamper_detected_general calcd _ _ hv
    intro h; have := congrArg List.length h; rw [hx', hlen] at this; omega
  · intro hv
    apply tamper_detected_general calcd _ _ hv
    intro h; have := congrArg List.length h; rw [hx', hlen] at this; omega

/-- by design, differences in line endings and trailing spaces are *not* detected -/
theorem verify_whitespace_witness :
    verifyPatch [43, 97, 10] [43, 97, 32, 32, 13, 10] = true ∧ verifyPatch [43, 97, 10] [43, 97, 13] = true := by
  decide

/-! ## non-vacuity -/

/-- a merge history: 1 ← 2 ← 4, 1 ← 3 ← 4; file 1 changed in 2, file 2 added in 3 -/
def eSrc : Repo :=
  { revs := [(1, ⟨[], 10⟩), (2, ⟨[1], 20⟩), (3, ⟨[1], 30⟩), (4, ⟨[2, 3], 40⟩)]
    invs := [(1, [⟨1, 1, 1, 100⟩]), (2, [⟨1, 1, 2, 200⟩]), (3, [⟨1, 1, 1, 100⟩, ⟨2, 2, 3, 300⟩]),
             (4, [⟨1, 1, 2, 200⟩, ⟨2, 2, 3, 300⟩])]
    texts := [((1, 1), 100), ((1, 2), 200), ((2, 3), 300)] }

/-- a repository that holds the ancestry of 2 -/
def eTgt : Repo :=
  { revs := [(1, ⟨[], 10⟩), (2, ⟨[1], 20⟩)]
    invs := [(1, [⟨1, 1, 1, 100⟩]), (2, [⟨1, 1, 2, 200⟩])]
    texts := [((1, 1), 100), ((1, 2), 200)] }

example : bundleRevs eSrc 2 4 = [4, 3] ∧ holdsBase eSrc eTgt 2 = true ∧ agree eSrc eTgt = true ∧
    complete eTgt = true ∧
    (match writeV4 (.chk .asFound) eSrc 2 4 with
      | .ok b => (b.revs.map (·.1), b.invs.map (·.1), b.texts.map (·.1), (installV4 b eTgt).2,
          complete (installV4 b eTgt).1) == ([3, 4], [4, 3], [(2, 3), (2, 3)], some 4, true)
      | .error _ => false) = true := by
  decide +kernel

example : (match writeV4 .xml eSrc 2 4, roundtrip09 eSrc eTgt 2 4 with
      | .ok b, .ok t => testament (installV4 b eTgt).1 4 == testament eSrc 4 && testament t 4 == testament eSrc 4
          && complete t
      | _, _ => false) = true := by
  decide +kernel

example : selOK (.chk .asFound) eSrc = true ∧ selOK .xml eSrc = true ∧ selOK (.chk .revisionPresent) eSrc = true := by
  decide +kernel

example : nonws [43, 97, 32, 10] ≠ nonws [43, 98, 10] := by decide

example : patchOk splitLines (some [43, 35, 32, 66, 10]) = true ∧ isLine blank = true ∧
    endsNL [43, 97, 10] = true ∧ isWs 97 = false := by decide

/-! ## revision property lines of the 0.8 / 0.9 bundle footer -/

theorem splitSep_propLine (k v : PStr) (h : hasSep k = false) : splitSep (propLine k v) = some (k, v) := by
  induction k with
  | nil => simp [propLine, splitSep]
  | cons c r ih =>
    cases r with
    | nil =>
      simp only [propLine, List.cons_append, List.nil_append, splitSep]
      simp
    | cons d r' =>
      simp only [hasSep, Bool.or_eq_false_iff] at h
      have ih' := ih h.2
      simp only [propLine, List.cons_append] at ih' ⊢
      simp only [splitSep, h.1, ih']
      simp

/-- **Every revision property survives the footer**: a property whose key has
no `": "`, blank or newline (the keys `Revision` accepts) is read back with
exactly its value — whatever the value contains, further `": "` included. -/
theorem prop_line_roundtrip (k v : PStr) (hk : keyOk k = true) (hs : hasSep k = false) :
    parsePropLine (propLine k v) = some (k, v) := by
  unfold parsePropLine
  simp only [splitSep_propLine k v hs, hk, if_true]

/-- a key without a blank has no `": "` -/
theorem keyOk_noSep (k : PStr) (hk : keyOk k = true) : hasSep k = false := by
  have hb : ' ' ∉ k := by
    intro h
    simp [keyOk, h] at hk
  clear hk
  induction k with
  | nil => rfl
  | cons c r ih =>
    cases r with
    | nil => rfl
    | cons d r' =>
      have hd : d ≠ ' ' := by
        intro e
        exact hb (by simp [e])
      have hr : ' ' ∉ d :: r' := fun h => hb (List.mem_cons_of_mem _ h)
      simp [hasSep, ih hr, hd]

/-- hence for every key `Revision` accepts, every value -/
theorem prop_line_roundtrip_valid (k v : PStr) (hk : keyOk k = true) :
    parsePropLine (propLine k v) = some (k, v) :=
  prop_line_roundtrip k v hk (keyOk_noSep k hk)

/-- whole property lists: `from_revision` then `as_revision` gives back the pairs -/
theorem prop_lines_roundtrip (ps : List (PStr × PStr)) (hk : ∀ p ∈ ps, keyOk p.1 = true) :
    (ps.map fun p => propLine p.1 p.2).mapM parsePropLine = some ps := by
  induction ps with
  | nil => rfl
  | cons p t ih =>
    have h1 := prop_line_roundtrip_valid p.1 p.2 (hk p (by simp))
    have h2 := ih (fun q hq => hk q (by simp [hq]))
    simp only [List.map_cons, List.mapM_cons, h1, h2]
    rfl

-- non-vacuity: a value with two further separators and one ending in a colon
example : parsePropLine (propLine "review-note".toList "see: ticket 12: handle".toList)
      = some ("review-note".toList, "see: ticket 12: handle".toList)
    ∧ parsePropLine (propLine "k".toList "ends:".toList) = some ("k".toList, "ends:".toList)
    ∧ parsePropLine "empty:".toList = some ("empty".toList, [])
    ∧ parsePropLine "no separator".toList = none := by decide

end BreezyVerif.C40
