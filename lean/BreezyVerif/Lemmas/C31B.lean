import BreezyVerif.Lemmas.C31
/-
Helper lemmas for C31, part 2: the chroot/userdir/local stack keeps every
"tame" relpath inside the served directory.  Two instances of tameness:
`Canon` (what escape produces) and `NoPct` (no '%' at all).
-/
namespace BreezyVerif.C31

/-- a class of relpaths on which the percent handling of the transport stack is harmless -/
structure Tame (P : Bytes → Prop) : Prop where
  norm : ∀ p, P p → normPct p = p
  seg : ∀ p, P p → ∀ s ∈ splitSl p, P s
  join : ∀ segs : List Seg, (∀ s ∈ segs, P s) → P (joinSl segs)
  split_decode : ∀ p, P p → splitSl (pctDecode p) = (splitSl p).map pctDecode
  decode_dotdot : ∀ s, P s → pctDecode s = dotdot → s = dotdot

theorem tame_canon : Tame Canon where
  norm := fun _ h => canon_normPct h
  seg := fun _ h => canon_splitSl h
  join := canon_joinSl
  split_decode := fun _ h => canon_split_decode h
  decode_dotdot := fun _ h hd => canon_decode_dotdot h hd

/-! ### strings without '%' -/

def NoPct (p : Bytes) : Prop := PCT ∉ p

theorem pctDecode_noPct : ∀ (p : Bytes), NoPct p → pctDecode p = p := by
  intro p
  induction p with
  | nil => intro _; simp [pctDecode]
  | cons c r ih =>
    intro h
    have hc : c ≠ PCT := fun e => h (by simp [e])
    have hr : NoPct r := fun e => h (by simp [e])
    rw [pctDecode_cons_ne hc, ih hr]

theorem normPct_noPct : ∀ (p : Bytes), NoPct p → normPct p = p := by
  intro p
  induction p with
  | nil => intro _; simp [normPct]
  | cons c r ih =>
    intro h
    have hc : c ≠ PCT := fun e => h (by simp [e])
    have hr : NoPct r := fun e => h (by simp [e])
    rw [normPct_cons_ne hc, ih hr]

theorem mem_of_mem_splitSl {p : Bytes} {s : Seg} {c : UInt8} (hs : s ∈ splitSl p) (hc : c ∈ s) : c ∈ p := by
  have := joinSl_splitSl p
  rw [← this]
  clear this
  generalize splitSl p = segs at hs
  induction segs with
  | nil => cases hs
  | cons t ts ih =>
    cases ts with
    | nil =>
      simp only [List.mem_singleton] at hs
      subst hs
      simpa [joinSl] using hc
    | cons u us =>
      simp only [joinSl, List.mem_append, List.mem_cons]
      cases hs with
      | head => exact Or.inl hc
      | tail _ h' => exact Or.inr (Or.inr (ih h'))

theorem mem_joinSl {segs : List Seg} {c : UInt8} (h : c ∈ joinSl segs) : c = SL ∨ ∃ s ∈ segs, c ∈ s := by
  induction segs with
  | nil => simp [joinSl] at h
  | cons t ts ih =>
    cases ts with
    | nil => exact Or.inr ⟨t, by simp, by simpa [joinSl] using h⟩
    | cons u us =>
      simp only [joinSl, List.mem_append, List.mem_cons] at h
      rcases h with h | h | h
      · exact Or.inr ⟨t, by simp, h⟩
      · exact Or.inl h
      · rcases ih h with h' | ⟨s, hs, hc⟩
        · exact Or.inl h'
        · exact Or.inr ⟨s, List.mem_cons_of_mem _ hs, hc⟩

theorem tame_noPct : Tame NoPct where
  norm := normPct_noPct
  seg := fun _ h _ hs hc => h (mem_of_mem_splitSl hs hc)
  join := fun segs h hc => by
    rcases mem_joinSl hc with e | ⟨s, hs, hm⟩
    · exact absurd e (by decide)
    · exact h s hs hm
  split_decode := fun p h => by
    rw [pctDecode_noPct p h]
    have : ∀ s ∈ splitSl p, pctDecode s = s := fun s hs =>
      pctDecode_noPct s (fun hc => h (mem_of_mem_splitSl hs hc))
    rw [List.map_congr_left this]
    simp
  decode_dotdot := fun s h hd => by rwa [pctDecode_noPct s h] at hd

/-! ### combine -/

/-- segments a transport base may consist of -/
def GoodSeg (P : Bytes → Prop) (s : Seg) : Prop := P s ∧ SL ∉ s ∧ s ≠ dotdot

theorem cmbStep_good {P : Bytes → Prop} {stk : List Seg} {seg : Seg}
    (hs : ∀ s ∈ stk, GoodSeg P s) (hp : P seg) (hsl : SL ∉ seg) :
    ∀ s ∈ cmbStep stk seg, GoodSeg P s := by
  unfold cmbStep
  split
  · exact hs
  · split
    · intro s h; exact hs s (List.mem_of_mem_drop h)
    · rename_i h2
      intro s h
      cases h with
      | head => exact ⟨hp, hsl, h2⟩
      | tail _ h' => exact hs s h'

theorem foldl_cmbStep_good {P : Bytes → Prop} : ∀ (segs : List Seg) (stk : List Seg),
    (∀ s ∈ stk, GoodSeg P s) → (∀ s ∈ segs, P s ∧ SL ∉ s) →
    ∀ s ∈ segs.foldl cmbStep stk, GoodSeg P s
  | [], stk, hs, _ => by simpa using hs
  | x :: xs, stk, hs, hx => by
    simp only [List.foldl_cons]
    exact foldl_cmbStep_good xs (cmbStep stk x)
      (cmbStep_good hs (hx x (by simp)).1 (hx x (by simp)).2)
      (fun s h => hx s (List.mem_cons_of_mem _ h))

theorem combine_good {P : Bytes → Prop} (hP : Tame P) {stk : List Seg} {rel : Bytes}
    (hs : ∀ s ∈ stk, GoodSeg P s) (hr : P rel) : ∀ s ∈ combine stk rel, GoodSeg P s := by
  unfold combine
  simp only []
  rw [hP.norm rel hr]
  apply foldl_cmbStep_good
  · split
    · simp
    · exact hs
  · intro s h
    exact ⟨hP.seg rel hr s h, splitSl_noSl rel s h⟩

theorem stkPath_tame {P : Bytes → Prop} (hP : Tame P) {stk : List Seg}
    (hs : ∀ s ∈ stk, GoodSeg P s) : P (stkPath stk) := by
  unfold stkPath
  exact hP.join _ (fun s h => (hs s (by simpa using h)).1)

theorem splitSl_stkPath {P : Bytes → Prop} {stk : List Seg}
    (hs : ∀ s ∈ stk, GoodSeg P s) : stk = [] ∨ splitSl (stkPath stk) = stk.reverse := by
  cases stk with
  | nil => exact Or.inl rfl
  | cons x t =>
    right
    unfold stkPath
    exact splitSl_joinSl _ (by simp) (fun s h => (hs s (List.mem_reverse.mp h)).2.1)

/-! ### the operating system resolving the path -/

theorem foldl_osStep_suffix : ∀ (segs : List Seg) (stk : List Seg),
    (∀ s ∈ segs, s ≠ dotdot) → stk <:+ segs.foldl osStep stk
  | [], stk, _ => by simp
  | x :: xs, stk, h => by
    simp only [List.foldl_cons]
    have hx : x ≠ dotdot := h x (by simp)
    have ih := foldl_osStep_suffix xs (osStep stk x) (fun s hs => h s (List.mem_cons_of_mem _ hs))
    have : stk <:+ osStep stk x := by
      unfold osStep
      split
      · exact List.suffix_refl _
      · first
          | exact List.suffix_cons _ _
          | (rw [if_neg hx]; exact List.suffix_cons _ _)
    exact List.IsSuffix.trans this ih

theorem osResolve_inside {root : List Seg} {u : Bytes} (h : ∀ s ∈ splitSl u, s ≠ dotdot) :
    inside root (osResolve root u) := by
  unfold inside osResolve
  have := foldl_osStep_suffix (splitSl u) root.reverse h
  have := List.reverse_prefix.mpr this
  simpa using this

/-- the relpath that reaches the local transport resolves inside, whichever branch `unescape` takes -/
theorem osRel_inside {P : Bytes → Prop} (hP : Tame P) {root : List Seg} {stk : List Seg} {u : Bytes}
    (hs : ∀ s ∈ stk, GoodSeg P s) (h : osRel (stkPath stk) = .ok u) :
    inside root (osResolve root u) := by
  apply osResolve_inside
  unfold osRel at h
  cases hu : unescape (stkPath stk) with
  | error e => rw [hu] at h; cases h
  | ok v =>
    rw [hu] at h
    simp only [] at h
    split at h
    · cases h
    · cases h
      unfold unescape at hu
      split at hu
      · cases hu
      · simp only [] at hu
        have hsplit : splitSl (stkPath stk) = [[]] ∨ splitSl (stkPath stk) = stk.reverse := by
          rcases splitSl_stkPath hs with e | e
          · left; subst e; simp [stkPath, joinSl, splitSl]
          · exact Or.inr e
        have hnd : ∀ s ∈ splitSl (stkPath stk), P s ∧ s ≠ dotdot := by
          intro s hm
          rcases hsplit with e | e
          · rw [e] at hm
            simp only [List.mem_singleton] at hm
            subst hm
            exact ⟨hP.seg _ (stkPath_tame hP hs) [] (by rw [e]; simp), by simp [dotdot]⟩
          · rw [e] at hm
            have := hs s (by simpa using hm)
            exact ⟨this.1, this.2.2⟩
        split at hu
        · cases hu
          rw [hP.split_decode _ (stkPath_tame hP hs)]
          intro s hm
          obtain ⟨t, ht, rfl⟩ := List.mem_map.mp hm
          intro hd
          exact (hnd t ht).2 (hP.decode_dotdot t (hnd t ht).1 hd)
        · cases hu
          intro s hm
          exact (hnd s hm).2

/-- the whole stack: a tame relpath on a transport with a tame base, behind a
filter that preserves tameness, lands inside the served directory -/
theorem locate_inside {P : Bytes → Prop} (hP : Tame P) (cfg : Cfg) (cloneStk : List Seg) (rel : Bytes)
    (loc : List Seg)
    (hf : ∀ p, P p → P (cfg.filter p))
    (hs : ∀ s ∈ cloneStk, GoodSeg P s) (hr : P rel)
    (h : locate cfg cloneStk rel = .ok loc) : inside cfg.rootDir loc := by
  unfold locate at h
  cases ho : osRel (backingRel cfg cloneStk rel) with
  | error e => rw [ho] at h; cases h
  | ok u =>
    rw [ho] at h
    cases h
    unfold backingRel at ho
    have h1 := combine_good hP hs hr
    cases hb : cfg.basePath with
    | none =>
      rw [hb] at ho
      exact osRel_inside hP h1 ho
    | some b =>
      rw [hb] at ho
      simp only [] at ho
      have h2 : P (cfg.filter (stkPath (combine cloneStk rel))) := hf _ (stkPath_tame hP h1)
      have h3 := combine_good hP (stk := []) (by simp) h2
      exact osRel_inside hP h3 ho

/-! ### userdir expansion -/

theorem canon_withSlash {p : Bytes} (h : Canon p) : Canon (withSlash p) := by
  unfold withSlash
  split
  · exact h
  · exact canon_append h (.safe SL [] isSafe_SL .nil)

theorem expandUserdirs_canon {expander : Bytes → Bytes} (he : ∀ p, Canon p → Canon (expander p))
    (base : Bytes) {p : Bytes} (hp : Canon p) : Canon (expandUserdirs expander base p) := by
  unfold expandUserdirs
  split
  · simp only []
    split
    · exact canon_drop (canon_withSlash (he p hp)) _
    · exact hp
  · exact hp

theorem dropWhile_eq_drop {α : Type} (p : α → Bool) (l : List α) : ∃ n, l.dropWhile p = l.drop n := by
  induction l with
  | nil => exact ⟨0, rfl⟩
  | cons a t ih =>
    simp only [List.dropWhile_cons]
    split
    · obtain ⟨n, hn⟩ := ih
      exact ⟨n + 1, by simpa using hn⟩
    · exact ⟨0, rfl⟩

theorem expanduser_canon' {tbl : List (Bytes × Bytes)} (ht : ∀ e ∈ tbl, Canon (rstripSl e.2))
    {p : Bytes} (hp : Canon p) : Canon (expanduser tbl p) := by
  unfold expanduser
  cases p with
  | nil => exact hp
  | cons c rest =>
    simp only []
    split
    · cases hl : lookupHome tbl (rest.takeWhile (· ≠ SL)) with
      | none => exact hp
      | some home =>
        simp only []
        have hh : Canon (rstripSl home) := by
          unfold lookupHome at hl
          cases hfnd : tbl.find? (fun e => e.1 = rest.takeWhile (· ≠ SL)) with
          | none => rw [hfnd] at hl; cases hl
          | some e =>
            rw [hfnd] at hl
            cases hl
            exact ht e (List.mem_of_find?_eq_some hfnd)
        have hrest : Canon rest := by simpa using canon_drop hp 1
        obtain ⟨n, hn⟩ := dropWhile_eq_drop (fun x => decide (x ≠ SL)) rest
        have htail : Canon (rest.dropWhile (· ≠ SL)) := by rw [hn]; exact canon_drop hrest n
        split
        · exact .safe SL [] isSafe_SL .nil
        · exact canon_append hh htail
    · exact hp

/-! ### jail -/

theorem isChildUrl_iff (p url : Bytes) :
    isChildUrl (p ++ [SL]) url = true ↔ url = p ∨ ∃ rest, url = p ++ SL :: rest := by
  unfold isChildUrl
  simp only [Bool.or_eq_true, beq_iff_eq, List.dropLast_concat]
  constructor
  · rintro (h | h)
    · exact Or.inl h
    · obtain ⟨t, ht⟩ := List.isPrefixOf_iff_prefix.mp h
      exact Or.inr ⟨t, by simp [← ht]⟩
  · rintro (h | ⟨rest, h⟩)
    · exact Or.inl h
    · right
      exact List.isPrefixOf_iff_prefix.mpr ⟨rest, by simp [h]⟩

/-! ### translate_client_path -/

theorem translateAbs_shape (root cp r : Bytes) (h : translateAbs root cp = .ok r) :
    r = [DOT] ∨ ∃ segs : List Seg, (∀ s ∈ segs, Clean s) ∧ r = DOT :: SL :: joinSl (segs.map escape) := by
  unfold translateAbs at h
  split at h
  · cases h; exact Or.inl rfl
  · split at h
    · cases hj : joinpathRoot (List.drop root.length cp) with
      | error e => rw [hj] at h; cases h
      | ok rel =>
        rw [hj] at h
        simp only [] at h
        split at h
        · cases h
          obtain ⟨segs, rfl, hs⟩ := joinpath_clean_aux hj
          refine Or.inr ⟨segs, hs, ?_⟩
          simp only [escape, isSafe_DOT, isSafe_SL, if_true]
          rw [escape_joinSl]
        · cases h
    · cases h

theorem translateAbs_canon (root cp r : Bytes) (h : translateAbs root cp = .ok r) : Canon r := by
  unfold translateAbs at h
  split at h
  · cases h; exact .safe DOT [] isSafe_DOT .nil
  · split at h
    · split at h
      · cases h
      · split at h
        · cases h; exact canon_escape _
        · cases h
    · cases h

theorem jpStep_mem {stk : List Seg} {c : Seg} {stk' : List Seg} (h : jpStep stk c = .ok stk') :
    ∀ s ∈ stk', s ∈ stk ∨ s = c := by
  unfold jpStep at h
  split at h
  · cases h; exact fun s hs => Or.inl hs
  · split at h
    · split at h
      · cases h
      · split at h
        · cases h
        · cases h; exact fun s hs => Or.inl (List.mem_cons_of_mem _ hs)
    · cases h
      intro s hs
      cases hs with
      | head => exact Or.inr rfl
      | tail _ h' => exact Or.inl h'

theorem jpFold_mem : ∀ (cs : List Seg) (stk stk' : List Seg), jpFold stk cs = .ok stk' →
    ∀ s ∈ stk', s ∈ stk ∨ s ∈ cs
  | [], stk, stk', h => by simp [jpFold] at h; cases h; exact fun s hs => Or.inl hs
  | c :: cs, stk, stk', h => by
    unfold jpFold at h
    split at h
    · cases h
    · rename_i st hst
      intro s hs
      rcases jpFold_mem cs st stk' h s hs with h1 | h1
      · rcases jpStep_mem hst s h1 with h2 | h2
        · exact Or.inl h2
        · exact Or.inr (by simp [h2])
      · exact Or.inr (List.mem_cons_of_mem _ h1)

/-- `joinpath` invents no bytes: every byte of the result is a '/' or a byte of the argument -/
theorem joinpath_bytes {a r : Bytes} (h : joinpathRoot a = .ok r) : ∀ c ∈ r, c = SL ∨ c ∈ a := by
  unfold joinpathRoot at h
  simp only [] at h
  cases hf : jpFold (if a.head? = some SL then [] else [[]]) (splitSl a) with
  | error e => rw [hf] at h; cases h
  | ok stk =>
    rw [hf] at h
    simp only [] at h
    have hm := jpFold_mem _ _ _ hf
    split at h
    · cases h; intro c hc; simp at hc; exact Or.inl hc
    · cases h
      intro c hc
      rcases mem_joinSl hc with e | ⟨s, hs, hcs⟩
      · exact Or.inl e
      · rcases hm s (List.mem_reverse.mp hs) with h1 | h1
        · split at h1
          · cases h1
          · simp only [List.mem_singleton] at h1; subst h1; cases hcs
        · exact Or.inr (mem_of_mem_splitSl h1 hcs)

end BreezyVerif.C31
