"""C46 — clean-tree deletes only what was asked for.

Mechanism: breezy/clean_tree.py (is_detritus, iter_deletables,
_filter_out_nested_controldirs, delete_items, clean_tree) on top of
WorkingTree.extras() of bzr (breezy/bzr/workingtree.py) and git
(breezy/git/workingtree.py: extras, _iter_files_recursive) trees.

T1: the suffix list of `is_detritus` is read from the source and written to
    Generated/C46.lean; Props/C46T1.lean proves the regenerated function equal
    to the model's `isDetritus`.
T2: generated on-disk layouts (versioned / unknown / ignored / detritus-named
    files and directories, nested `.bzr` and `.git` control directories at
    depth 1 and 2, inside versioned directories and colocated at the root,
    fake control names, symbolic links to a directory / file outside the tree,
    into the tree and dangling) are materialised in real 2a and git working
    trees; the flags of every directory entry (kind, versioned, is_ignored,
    recognised control dir) are read back from the real tree and sent with the
    layout to the Lean model.  For all 16 option combinations (plus the prompt
    answered yes/no) the real `clean_tree()` is run on a copy and compared
    with the model on: extras(), the list handed to delete_items, whether an
    error escaped, the set of surviving paths, the directories on which
    ControlDir.open succeeds, and the surviving paths of the observed area
    OUTSIDE the tree.  The model side is the file-system refinement
    (Model/C46World.lean: os.unlink / shutil.rmtree chosen per kind with the
    lstat-based isdir, kernel path resolution through links to directories into
    the outside area, `if not dry_run` inside delete_items); theorem
    `clean_world_refines` ties it to the abstract layout model all other
    theorems speak about.  After the add, a versioned directory may be replaced
    on disk by a link to the outside directory (which holds files the inventory
    / index does not know), a link into the tree, a dangling link or a file;
    in git trees a versioned file by a directory with an unknown file in it.
    The hypotheses of the theorems (wf, unvClosed, invShaped) are evaluated on
    every real layout, by the driver and independently in Python; a layout that
    violates one is reported as a broken tie.  `is_detritus` and
    `controldir.is_control_filename` are compared on name corpora.
Oracle (independent of the model): from directory snapshots before/after —
    nothing is created; every removed path is unversioned and has nothing
    versioned below it; every top-most removed path is in a requested class
    (detritus by name / ignored / unknown by the real is_ignored); no removed
    path is, is inside or contains a nested branch (a directory ControlDir.open
    accepts) or a recognised control directory; the outside directory (canary,
    link targets) is unchanged; a dry run or a declined prompt removes nothing.

Found by this check and repaired in /repo (fix: 0d2b8ad; no family is classified any more, a
recurrence is a plain VIOLATION): an unknown directory with a branch below its first level was
deleted whole (bzr, F10); in a git tree the files of a nested bzr branch and of its control
directory were unlinked one by one; in a bzr tree a colocated `.git` directory was deleted.
SCENARIOS below pins one layout per family (and per mutant that needs a special layout), run on
every seed.

The model has two final filters: the one found in the code and the proposed
repair (`keepFixed`); the harness probes which one the tree implements
(`filter_mode`) so that a repair of /repo does not break the correspondence.

Mutants this was built against (scratch worktrees; all caught by the oracle
with a concrete layout unless noted):
  m1 iter_deletables: `if ignored:` -> `if ignored or unknown:` (ignored files deleted with --unknown)
  m2 _filter_out_nested_controldirs: probes the parent directory instead of the candidate
     (top-level nested branches deleted)
  m3 delete_items: directories are rmtree'd regardless of dry_run
  m4 bzr extras(): control-file-name test skipped at the tree root (the tree's own .bzr deleted)
  m5 is_detritus: ".tmp" -> "tmp" (T1 equality fails, T2 differs, oracle: file `tmp` deleted)
  m6 git _iter_files_recursive: tree-reference test on the basename instead of the relative path
     (needs a nested git repository at depth >= 2 with files in it)
  m7 clean_tree: `from os.path import isdir` (follows links: rmtree on a link to a directory raises)
  m8 git extras(): index paths in subdirectories not subtracted (versioned files deleted)
  h1 harmless: filter rewritten as comprehension + helper, iter_deletables as one expression (clean)
  fix: the proposed repair (stays clean, the three finding families disappear, model mode `x`)
  n1 bzr extras(): `osutils.isdir(dirabs)` -> `os.path.isdir(dirabs)` (a versioned directory that has
     become a link to an outside directory is entered: `clean-tree --unknown` unlinks the outside
     file through the link; needs the replaced-directory family; oracle: outside canary)
  n2 git _iter_files_recursive: `os.walk(..., followlinks=True)` (outside file deleted through any
     link to the outside directory)
  n3 delete_items: `if not dry_run` guards rmtree only (a dry run unlinks files; m3 is the converse)
  h2 harmless: delete_items with `if dry_run: note; continue` first (clean)
  s1 seeded: the repaired filter memoises parent directories "free of control names" before their own
     ancestors are checked - needs >= 2 candidates sharing a subdirectory chain below a nested control
     directory that extras() descends into (git outer + nested bzr; bzr outer versioning a directory
     that holds .git); covered on every seed by two pinned scenarios (also corpus/C46/) and by the
     generator's populated nested trees (several files in each of several subdirectories, depth 2-3)
"""
import ast
import os
import shutil
import sys

from vlib import env

THEOREMS = [
    "selected_at", "deletables_subset", "never_versioned", "dry_run_noop", "declined_noop",
    "inside_tree", "extras_antichain", "clean_exact", "clean_only_selected",
    "rejected_candidate_kept", "nested_branch_top_level_kept", "git_nested_git_kept", "fixed_filter_protects",
    "nested_branch_deep_witness", "git_tree_nested_bzr_witness", "bzr_tree_git_controldir_witness",
    # the repaired filter and the exact effect together
    "fixed_no_ctl_component", "control_paths_survive", "nested_tree_survives",
    # inventory shape instead of unvClosed
    "invShaped_iff_unvClosed", "never_versioned_inv",
    # file-system refinement: primitives per kind, links, the outside, dry run inside delete_items
    "selected_dirs_above", "lstat_prim_accepts", "clean_world_refines", "outside_unchanged",
    "dry_run_deletes_nothing", "dry_run_noop_world", "follow_links_witness", "stat_isdir_witness",
]
T1_EQUALITY_THEOREMS = ["is_detritus_gen_eq"]
RULE = ("case = (format, generated layout, option combination); every layout is run with all 16 combinations "
        "of unknown/ignored/detritus/dry_run and two prompted runs; non-trivial = the real run selects at "
        "least one path and keeps at least one candidate; distinct by (format, layout with flags, options)")
ASSUMPTIONS = [
    "bzr: an entry versioned as a file is not a directory on disk (the inventory kind is not part of the layout; a "
    "versioned directory that became a link or a file, and in git trees a versioned file that became a directory, "
    "are generated); names are ASCII and NFC",
    "ControlDir.open(dir) succeeds iff dir has an entry .bzr/.git the probers recognise (compared with the real probe on every directory of every layout)",
    "tree.is_ignored is a parameter (property C48): its value per path is read from the real tree",
]
TRUSTED = ["the file system is modelled as a forest of entries for the tree, a second forest for the observed area "
           "outside it and the targets of the links into that area; os.unlink / shutil.rmtree as removal of an "
           "entry / a subtree after kernel-style path resolution (links followed at every component but the last), "
           "unlink refusing directories and rmtree refusing everything else; links to directories that do not point "
           "into the outside area are not resolved by the model (proved never to be traversed); permission errors "
           "and concurrent modification are out of scope"]

DETRITUS_SUFFIXES = (".THIS", ".BASE", ".OTHER", "~", ".tmp")   # the statement's "detritus-named"


# --------------------------------------------------------------------------
# T1

def extract(ctx):
    sys.path.insert(0, os.path.join(env.VERIF, "tools"))
    import extract as ex
    f = ex.find_func(os.path.join(env.REPO, "breezy/clean_tree.py"), "is_detritus")
    params = [a.arg for a in f.args.args]
    body = [s for s in f.body if not (isinstance(s, ast.Expr) and isinstance(s.value, ast.Constant))]
    if len(params) != 1 or len(body) != 1 or not isinstance(body[0], ast.Return):
        raise ex.ExtractError("is_detritus: unexpected shape")
    arg = params[0]

    def tr(e):
        if isinstance(e, ast.BoolOp):
            op = " || " if isinstance(e.op, ast.Or) else " && "
            return "(" + op.join(tr(v) for v in e.values) + ")"
        if isinstance(e, ast.UnaryOp) and isinstance(e.op, ast.Not):
            return "(!" + tr(e.operand) + ")"
        if (isinstance(e, ast.Call) and isinstance(e.func, ast.Attribute) and e.func.attr == "endswith"
                and isinstance(e.func.value, ast.Name) and e.func.value.id == arg and len(e.args) == 1
                and not e.keywords):
            a = e.args[0]
            if isinstance(a, ast.Constant) and isinstance(a.value, str):
                return "endsWith subp " + ex.lean_str(a.value)
            if isinstance(a, ast.Tuple) and all(isinstance(x, ast.Constant) and isinstance(x.value, str) for x in a.elts):
                return "(" + " || ".join("endsWith subp " + ex.lean_str(x.value) for x in a.elts) + ")" if a.elts else "false"
        raise ex.ExtractError("is_detritus: unsupported expression %s" % ast.unparse(e))

    text = ("-- GENERATED by harness/checks/c46.py from breezy/clean_tree.py — do not edit\n"
            "import BreezyVerif.Model.C46\nnamespace BreezyVerif.C46\n"
            "def isDetritusGen (subp : String) : Bool :=\n  " + tr(body[0].value) + "\nend BreezyVerif.C46\n")
    ex.write_if_changed(os.path.join(env.VERIF, "lean/BreezyVerif/Generated/C46.lean"), text)
    return "regenerated isDetritusGen from clean_tree.is_detritus"


# --------------------------------------------------------------------------
# templates (one real tree / control directory of each format per process)

_T = {}


def _templates():
    if _T:
        return _T
    base = env.fresh_dir("c46tpl")
    for fmt in ("2a", "git"):
        d = os.path.join(base, fmt)
        os.makedirs(d)
        env.make_tree(fmt, d)
        _T[fmt] = d
    _T["ctl"] = {"2a": os.path.join(_T["2a"], ".bzr"), "git": os.path.join(_T["git"], ".git")}
    return _T


def _ctlname(fmt):
    return ".bzr" if fmt == "2a" else ".git"


# --------------------------------------------------------------------------
# layout specs

FILES = ["a", "b.txt", "c.o", "x~", "y.tmp", "m.THIS", "m.BASE", "m.OTHER", "n.orig", "tmp", ".tmpx",
         "k.pyc", "THIS", "q.this", ".bzrdummy", "ign1", "keep.o", "z.tmp~", "README"]
DIRS = ["d", "e", "sub", "build", "t.tmp", "nest", "old~", "ig", "w"]
RULES = ["*.o", "build", "ign*", "*.pyc", "!keep.o", "sub/*.txt", "ig/", "d", "./a", "*.tmp", "RE:.*\\.orig", "e/x~"]


def gen_spec(rng, fmt, replace=False):
    """a layout: entries = [path, type, add?]; parents first.
    types: f file, d directory, B valid nested bzr control dir, G valid nested git
    control dir, eb empty dir, gf gitfile, gg garbage file, Lo link to the outside
    directory, Lf link to the outside file, Li link to a directory of the tree,
    Lx dangling link"""
    entries = []
    used = set()
    budget = [rng.randint(4, 13)]

    def add(path, typ, v):
        if path in used or budget[0] <= 0:
            return False
        used.add(path)
        budget[0] -= 1
        entries.append([path, typ, bool(v)])
        return True

    def nested(dirpath, kinds=None):
        """make `dirpath` (already added, a directory) a nested tree"""
        k = rng.choice(kinds or ["B", "B", "G", "G", "eb", "gf", "gg", "bf"])
        name = {"B": ".bzr", "G": ".git", "eb": rng.choice([".bzr", ".git"]), "gf": ".git", "gg": ".git", "bf": ".bzr"}[k]
        p = (dirpath + "/" if dirpath else "") + name
        if p not in used:
            used.add(p)
            entries.append([p, k, False])
        if rng.random() < 0.7:
            add((dirpath + "/" if dirpath else "") + rng.choice(["inner.txt", "a", "x~"]), "f", False)

    def fill(dirpath, depth, pv):
        n = rng.randint(1, 5) if depth == 0 else rng.randint(0, 3)
        for _ in range(n):
            pre = dirpath + "/" if dirpath else ""
            r = rng.random()
            if r < 0.5 or depth >= 3:
                v = pv and rng.random() < 0.45
                add(pre + rng.choice(FILES), "f", v)
            elif r < 0.85:
                name = rng.choice(DIRS)
                v = pv and rng.random() < 0.45
                if add(pre + name, "d", v and fmt != "git"):
                    q = rng.random()
                    if q < 0.3:
                        nested(pre + name)
                    elif q < 0.45 and not v:
                        # nested branch one level further down
                        if add(pre + name + "/deep", "d", False):
                            nested(pre + name + "/deep", ["B", "G"])
                    fill(pre + name, depth + 1, v or (fmt == "git" and pv and rng.random() < 0.6))
            else:
                t = rng.choice(["Lo", "Lo", "Lf", "Li", "Lx"])
                add(pre + rng.choice(["lnk", "lnk2", "l~", "l.o"]), t, pv and rng.random() < 0.25)

    if rng.random() < 0.6:
        # a nested tree at depth 1..3 below a chain of directories of which a prefix is versioned,
        # with files inside and beside it
        depth = rng.randint(1, 3)
        nv = rng.randint(0, depth - 1)
        chain = []
        for k in range(depth):
            chain.append(rng.choice(DIRS))
            p = "/".join(chain)
            if p not in used:
                used.add(p)
                entries.append([p, "d", k < nv and fmt != "git"])
            if k < depth - 1 and rng.random() < 0.5:
                q = p + "/" + rng.choice(FILES)
                if q not in used:
                    used.add(q)
                    entries.append([q, "f", k < nv and rng.random() < 0.5])
        nested("/".join(chain), ["B", "G", "B", "G", "gf", "eb"])
        q = "/".join(chain) + "/" + rng.choice(["inner.txt", "y.tmp", "c.o"])
        if q not in used:
            used.add(q)
            entries.append([q, "f", False])
    if rng.random() < 0.4:
        populated_nested(rng, fmt, entries, used)
    fill("", 0, True)
    # special root-level / versioned-dir situations
    r = rng.random()
    if r < 0.10 and fmt == "2a":
        # a git control directory colocated at the root of a bzr tree (the reverse layout is opened
        # by breezy as a bzr tree, i.e. it is this one)
        entries.append([".git", "G", False])
    elif r < 0.25:
        # a control directory of the other format directly inside a versioned directory
        vds = [e[0] for e in entries if e[1] == "d" and (e[2] or fmt == "git")]
        if vds:
            d = rng.choice(vds)
            p = d + "/" + (".git" if fmt == "2a" else ".bzr")
            if p not in used and not any(x[0].startswith(d + "/.") for x in entries):
                used.add(p)
                entries.append([p, "G" if fmt == "2a" else "B", False])
    rules = rng.sample(RULES, rng.randint(0, 4))
    # the ignore file: versioned, unknown or absent
    igv = rng.random() < 0.5
    spec = dict(fmt=fmt, entries=entries, rules=rules, ignore_versioned=igv)
    if replace:         # (off by default: C11 builds its layouts with this function too)
        repl = gen_replace(rng, fmt, entries)
        if repl:
            spec["replace"] = repl
    return spec


def gen_replace(rng, fmt, entries):
    """after the add: a versioned directory (bzr: in the inventory; git: holding an index entry) is
    replaced on disk by a link to the outside directory / to a directory of the tree / a dangling
    link / a file; git only: a versioned file is replaced by a directory with an unknown file in it
    (the inventory kind of a bzr entry is not part of the layout model, see ASSUMPTIONS)"""
    if rng.random() >= 0.4:
        return []
    used = {e[0] for e in entries}
    if rng.random() < 0.5 and "vdir" not in used:
        # make sure there is a versioned directory with versioned and unknown content
        entries.append(["vdir", "d", fmt == "2a"])
        entries.append(["vdir/tracked", "f", True])
        entries.append(["vdir/" + rng.choice(["a", "x~", "c.o"]), "f", False])
    if fmt == "2a":
        dirs = [e[0] for e in entries if e[1] == "d" and e[2]]
    else:
        dirs = [e[0] for e in entries if e[1] == "d" and any(x[2] and x[0].startswith(e[0] + "/") for x in entries)]
    files = [e[0] for e in entries if e[1] == "f" and e[2]] if fmt == "git" else []
    out = []
    if dirs and (not files or rng.random() < 0.75):
        out.append([rng.choice(dirs), rng.choice(["Lo", "Lo", "Lo", "Li", "f", "Lx"])])
    elif files:
        out.append([rng.choice(files), "d"])
    return out


def populated_nested(rng, fmt, entries, used, top=None):
    """a nested tree whose root the outer tree's extras() descends into (git outer tree: nested bzr
    branch; bzr outer tree: the nested root and its subdirectories are versioned and hold a git
    repository), with several unversioned files in each of several subdirectories at depth >= 2
    and >= 3 below the control directory's parent"""
    chain = [top or rng.choice(DIRS)]
    if rng.random() < 0.4:
        chain.append(rng.choice(DIRS))
    vdirs = fmt == "2a"

    def put(p, typ, v):
        if p not in used:
            used.add(p)
            entries.append([p, typ, bool(v)])

    for k in range(len(chain)):
        put("/".join(chain[:k + 1]), "d", vdirs)
    nroot = "/".join(chain)
    put(nroot + "/" + (".git" if fmt == "2a" else ".bzr"), "G" if fmt == "2a" else "B", False)
    subs = rng.sample(["sub", "e", "w", "t.tmp"], rng.randint(2, 3))
    for sname in subs:
        sp = nroot + "/" + sname
        put(sp, "d", vdirs)
        if vdirs:
            put(sp + "/tracked", "f", True)       # keeps the directory in the outer inventory
        for fn in rng.sample(["a", "b.txt", "c.o", "x~", "y.tmp", "README", "n.orig"], rng.randint(2, 4)):
            put(sp + "/" + fn, "f", False)
        if rng.random() < 0.7:
            dp = sp + "/" + rng.choice(["deep", "d"])
            put(dp, "d", vdirs)
            if vdirs:
                put(dp + "/tracked", "f", True)
            for fn in rng.sample(["a", "b.txt", "k.pyc", "m.THIS", "tmp"], rng.randint(2, 3)):
                put(dp + "/" + fn, "f", False)
    put(nroot + "/" + rng.choice(["inner.txt", "a"]), "f", False)


def materialise(spec, root, outside):
    """build the layout under `root` (a fresh copy of the empty template tree)"""
    T = _templates()
    fmt = spec["fmt"]
    shutil.copytree(T[fmt], root, symlinks=True)
    os.makedirs(outside, exist_ok=True)
    with open(os.path.join(outside, "canary"), "w") as f:
        f.write("canary\n")
    os.makedirs(os.path.join(outside, "od"), exist_ok=True)
    with open(os.path.join(outside, "od", "inner"), "w") as f:
        f.write("inner\n")
    to_add = []
    for path, typ, v in spec["entries"]:
        full = os.path.join(root, path)
        os.makedirs(os.path.dirname(full), exist_ok=True)
        if os.path.lexists(full):
            continue
        if typ == "f":
            with open(full, "w") as f:
                f.write("content of %s\n" % path)
        elif typ == "d":
            os.makedirs(full)
        elif typ == "B":
            shutil.copytree(T["ctl"]["2a"], full, symlinks=True)
        elif typ == "G":
            shutil.copytree(T["ctl"]["git"], full, symlinks=True)
        elif typ == "eb":
            os.makedirs(full)
        elif typ == "gf":
            with open(full, "w") as f:
                f.write("gitdir: %s\n" % T["ctl"]["git"])
        elif typ in ("gg", "bf"):
            with open(full, "w") as f:
                f.write("garbage\n")
        elif typ == "Lo":
            os.symlink(os.path.join(outside, "od"), full)
        elif typ == "Lf":
            os.symlink(os.path.join(outside, "canary"), full)
        elif typ == "Li":
            os.symlink(".", full)
        elif typ == "Lx":
            os.symlink("no-such-target", full)
        else:
            raise ValueError(typ)
        if v:
            to_add.append(path)
    if spec["rules"]:
        ign = ".bzrignore" if fmt == "2a" else ".gitignore"
        rules = [r for r in spec["rules"] if fmt == "2a" or not r.startswith(("RE:", "./"))]
        with open(os.path.join(root, ign), "w") as f:
            f.write("".join(r + "\n" for r in rules))
        if spec["ignore_versioned"]:
            to_add.append(ign)
    from breezy.workingtree import WorkingTree
    wt = WorkingTree.open(root)
    if to_add:
        wt.smart_add([os.path.join(root, p) for p in to_add], recurse=False)
    for path, how in spec.get("replace", ()):
        full = os.path.join(root, path)
        if not os.path.lexists(full):
            continue            # below an entry replaced earlier
        if os.path.isdir(full) and not os.path.islink(full):
            shutil.rmtree(full)
        else:
            os.unlink(full)
        if how == "Lo":
            os.symlink(os.path.join(outside, "od"), full)
        elif how == "Li":
            os.symlink(".", full)
        elif how == "Lx":
            os.symlink("no-such-target", full)
        elif how == "f":
            with open(full, "w") as f:
                f.write("a file where a versioned directory was\n")
        elif how == "d":
            os.makedirs(full)
            with open(os.path.join(full, "u"), "w") as f:
                f.write("unknown file in a directory where a versioned file was\n")
        else:
            raise ValueError(how)
    return wt


def _kind(full):
    if os.path.islink(full):
        return "D" if os.path.isdir(full) else "l"
    return "d" if os.path.isdir(full) else "f"


def snapshot(root, own_ctl):
    """{relpath: kind} without following links; the tree's own control
    directory is one opaque entry"""
    snap = {}

    def walk(rel):
        full = os.path.join(root, rel) if rel else root
        for name in sorted(os.listdir(full)):
            r = name if not rel else rel + "/" + name
            k = _kind(os.path.join(root, r))
            snap[r] = k
            if k == "d" and r != own_ctl:
                walk(r)

    walk("")
    return snap


def snapshot_outside(outside):
    out = {}
    for dp, dn, fn in os.walk(outside):
        for n in dn + fn:
            p = os.path.join(dp, n)
            rel = os.path.relpath(p, outside)
            out[rel] = open(p).read() if os.path.isfile(p) else "d"
    return out


def _valid_ctl(root, rel, kind):
    """is this entry something the control-dir probers recognise (the model's
    `valid` flag; the derived predicate is compared with ControlDir.open below)"""
    name = rel.rsplit("/", 1)[-1]
    full = os.path.join(root, rel)
    if name == ".bzr":
        return kind == "d" and os.path.isfile(os.path.join(full, "branch-format"))
    if name == ".git":
        if kind == "d":
            return True
        if kind == "f":
            with open(full, "rb") as f:
                return f.read(8) == b"gitdir: "
    return False


def _git_index_paths(wt):
    from breezy.git.mapping import decode_git_path
    return {decode_git_path(p) for p, _e in wt._recurse_index_entries()}


def read_flags(wt, root, snap, helper=(), exact_git_files=False):
    """per entry: kind + the four flags, read from the real tree.  `versioned`: bzr - the path is
    in the inventory; git - a real directory: is_versioned (an index entry lies below it), anything
    else: the path itself is an index path (a file standing where the index has a directory is
    *not* versioned although is_versioned(path) says so)"""
    rows = []
    with wt.lock_read():
        index_paths = _git_index_paths(wt) if exact_git_files and hasattr(wt, "_recurse_index_entries") else None
        for rel in sorted(snap, key=lambda r: r.split("/")):
            k = snap[rel]
            try:
                v = bool(wt.is_versioned(rel))
            except Exception:
                v = False
            if index_paths is not None and k != "d":
                v = rel in index_paths
            try:
                ig = wt.is_ignored(rel) is not None
            except Exception:
                ig = False
            rows.append((rel, k, v, ig, _valid_ctl(root, rel, k), rel in helper))
    return rows


def enc_layout(rows):
    b = lambda x: "T" if x else "F"
    # parents first: sort by component list
    return ";".join("%s|%s|%s%s%s%s" % (rel, k, b(v), b(ig), b(va), b(h)) for rel, k, v, ig, va, h in rows) or "-"


def nested_roots(root, snap, own_ctl):
    """directories (other than the root) on which the real ControlDir.open succeeds"""
    from breezy import errors
    from breezy.controldir import ControlDir
    out = []
    for rel, k in snap.items():
        if k != "d":
            continue
        try:
            ControlDir.open(os.path.join(root, rel))
        except errors.NotBranchError:
            continue
        except Exception as e:       # noqa
            out.append("E:%s:%s" % (type(e).__name__, rel))
            continue
        out.append(rel)
    return sorted(out)


def showpaths(ps):
    return ";".join(sorted(ps)) or "-"


def enc_outside(out_snap):
    """the observed area outside the tree as a layout (parents first)"""
    rels = sorted(out_snap, key=lambda r: r.split("/"))
    return ";".join("%s|%s|FFFF" % (rel, "d" if out_snap[rel] == "d" else "f") for rel in rels) or "-"


def link_targets(root, outside, snap):
    """the links-to-directories of the tree that point into the outside area: `link>target`"""
    real_out = os.path.realpath(outside)
    out = []
    for rel, k in sorted(snap.items()):
        if k != "D":
            continue
        tgt = os.path.realpath(os.path.join(root, rel))
        if tgt.startswith(real_out + os.sep):
            out.append("%s>%s" % (rel, os.path.relpath(tgt, real_out)))
    return ";".join(out) or "-"


def layout_hypotheses(rows):
    """the hypotheses of the theorems, evaluated on the real layout independently of the Lean
    definitions: wf (proper distinct names, only real directories have content), unvClosed (nothing
    versioned below an unversioned entry), invShaped (the parent of a versioned entry is versioned)"""
    info = {r[0]: r for r in rows}
    wf = len(info) == len(rows)
    unv_closed = inv_shaped = True
    for rel, k, v, _ig, _va, _h in rows:
        parts = rel.split("/")
        if any(c in ("", ".", "..") for c in parts):
            wf = False
        if len(parts) > 1:
            parent = info.get("/".join(parts[:-1]))
            if parent is None or parent[1] != "d":
                wf = False
            elif v and not parent[2]:
                inv_shaped = False
        if v and any(not info[a][2] for a in ("/".join(parts[:n]) for n in range(1, len(parts))) if a in info):
            unv_closed = False
    return "".join("T" if x else "F" for x in (wf, unv_closed, inv_shaped))


OPTS = [(u, i, d, r) for u in (True, False) for i in (True, False) for d in (True, False) for r in (True, False)]


def enc_opts(o):
    u, i, d, r, p = o
    return "".join("T" if x else "F" for x in (u, i, d, r)) + ("~" if p is None else "T" if p else "F")


class _Recorder:
    """wraps clean_tree.delete_items to see the list the selection produced"""

    def __init__(self):
        self.seen = None

    def __enter__(self):
        from breezy import clean_tree as ct
        self.ct = ct
        self.orig = ct.delete_items

        def wrapper(deletables, dry_run=False):
            deletables = list(deletables)
            self.seen = [s for _p, s in deletables]
            return self.orig(deletables, dry_run=dry_run)

        ct.delete_items = wrapper
        return self

    def __exit__(self, *a):
        self.ct.delete_items = self.orig


def run_real(root, o):
    """run the real clean_tree on `root`; (selected, raised)"""
    from breezy import clean_tree as ct
    from breezy import ui
    u, i, d, r, p = o

    shown = []
    asked = []

    class UI(ui.SilentUIFactory):
        def get_boolean(self, prompt, **kw):
            asked.append(list(shown))
            return bool(p)

        def note(self, msg):
            shown.append(msg)

        def show_warning(self, msg):
            pass

    old = ui.ui_factory
    ui.ui_factory = UI()
    raised = False
    with _Recorder() as rec:
        try:
            ct.clean_tree(root, unknown=u, ignored=i, detritus=d, dry_run=r, no_prompt=(p is None))
        except Exception as e:      # noqa
            raised = True
            rec.error = "%s: %s" % (type(e).__name__, e)
        finally:
            ui.ui_factory = old
    sel = rec.seen or []
    if p is not None:
        # prompted run: the candidates are what the user was shown before the question
        listed = asked[0] if asked else []
        if p and sorted(listed) != sorted(sel):
            raised, rec.error = True, "prompt listed %r but delete_items got %r" % (listed, sel)
        sel = listed
    return sel, raised, getattr(rec, "error", None)


_MODE = []


def filter_mode():
    """which _filter_out_nested_controldirs the tree implements: 'o' as found (only the candidate
    itself is probed), 'x' the proposed repair (nothing that is, is in, or contains a control
    directory); probed on a bzr tree with an unknown directory holding a branch one level down"""
    if not _MODE:
        spec = dict(fmt="2a", entries=[["unk", "d", False], ["unk/sub", "d", False], ["unk/sub/.bzr", "B", False]],
                    rules=[], ignore_versioned=False)
        base = env.fresh_dir("c46probe")
        materialise(spec, os.path.join(base, "P"), os.path.join(base, "outside"))
        sel, _raised, _err = run_real(os.path.join(base, "P"), (True, False, False, True, None))
        shutil.rmtree(base, ignore_errors=True)
        _MODE.append("o" if "unk" in sel else "x")
    return _MODE[0]


def is_det_name(rel):
    return rel.endswith(DETRITUS_SUFFIXES)


def under(a, b):
    """is path b equal to or below path a"""
    return b == a or b.startswith(a + "/")


def oracle(viol, spec, o, rows, before, after, nroots, out_before, out_after, raised, err, own_ctl):
    fmt = spec["fmt"]
    case = dict(spec=spec, opts=enc_opts(o))
    u, i, d, r, p = o
    info = {row[0]: row for row in rows}
    nroots = [n for n in nroots if not n.startswith("E:")]
    removed = sorted(x for x in before if x not in after)
    created = sorted(x for x in after if x not in before)
    changed = sorted(x for x in after if x in before and after[x] != before[x])
    if created or changed:
        viol.append((case, "clean-tree created/changed paths %r %r" % (created, changed), None))
    if out_before != out_after:
        viol.append((case, "something outside the tree changed: %r -> %r" % (sorted(out_before), sorted(out_after)), None))
    if raised:
        viol.append((case, "clean_tree raised %s" % err, None))
    top = [x for x in removed if x.rsplit("/", 1)[0] not in removed or "/" not in x]
    if (r or p is False) and removed:
        viol.append((case, "%s removed %r" % ("dry run" if r else "declined prompt", top), None))
        return
    versioned = [x for x in before if info[x][2]]
    # protected: nested branches (with everything below) and recognised control directories,
    # the tree's own control directory included
    ctl_entries = [x for x in before if info[x][4] or x == own_ctl]
    for x in top:
        if info[x][2]:
            viol.append((case, "versioned path %r removed" % x, None))
        below = [v for v in versioned if under(x, v) and v != x]
        if below:
            viol.append((case, "removed %r which contains versioned %r" % (x, below), None))
        ign = info[x][3]
        if not ((d and is_det_name(x)) or (i and ign) or (u and not ign)):
            viol.append((case, "removed %r (ignored=%s detritus-named=%s) not in a requested class %s"
                         % (x, ign, is_det_name(x), enc_opts(o)), None))
        for kind, prot in protected_hits(x, info, nroots, ctl_entries):
            # the three input families on which this failed were repaired in /repo (0d2b8ad):
            # any recurrence is a plain violation
            viol.append((case, "removed %r which %s %r" % (x, kind, prot), None))


def protected_hits(x, info, nroots, ctl_entries):
    """what the removal of x (with everything below it) destroys"""
    hits = []
    for c in ctl_entries:
        if under(x, c):
            hits.append(("is or contains the control directory", c))
        elif under(c, x):
            hits.append(("is inside the control directory", c))
    for nr in nroots:
        if under(x, nr):
            if not any(under(x, c) for c in ctl_entries if under(nr, c)):
                hits.append(("is or contains the nested branch", nr))
        elif under(nr, x) and not any(under(c, x) for c in ctl_entries):
            # a working file of a nested tree (whether or not the outer tree versions the nested
            # root: since fix 0d2b8ad nothing below a directory that holds a control name is touched)
            hits.append(("is a working file of the nested tree", nr))
    return hits


def run_layout(ctx, spec, viol, cases, lines, outs, opts_list):
    fmt = spec["fmt"]
    own_ctl = _ctlname(fmt)
    base = env.fresh_dir("c46")
    root = os.path.join(base, "P")
    outside = os.path.join(base, "outside")
    wt = materialise(spec, root, outside)
    before = snapshot(root, own_ctl)
    rows = read_flags(wt, root, before, exact_git_files=True)
    layout = enc_layout(rows)
    with wt.lock_read():
        extras = showpaths(wt.extras())
    nroots = nested_roots(root, before, own_ctl)
    out_before = snapshot_outside(outside)
    out_layout = enc_outside(out_before)
    targets = link_targets(root, outside, before)
    hyp = layout_hypotheses(rows)
    if hyp != "TTT":
        # the theorems do not speak about this layout: a gap in the tie, not a property failure
        ctx.mismatch(dict(spec=spec, hypotheses="wf/unvClosed/invShaped"), hyp, "TTT required by the theorems")
    ctx.count("hypotheses:" + hyp)
    if targets != "-":
        ctx.count("layouts-with-link-to-outside")
    for _p, how in spec.get("replace", ()):
        ctx.count("replaced:" + how)
    for o in opts_list:
        u, i, d, r, p = o
        if r or p is False or not (u or i or d):
            target = root
        else:
            target = os.path.join(base, "Q")
            shutil.copytree(root, target, symlinks=True)
        sel, raised, err = run_real(target, o)
        after = snapshot(target, own_ctl)
        out_after = snapshot_outside(outside)
        oracle(viol, spec, o, rows, before, after, nroots, out_before, out_after, raised, err, own_ctl)
        case = dict(spec=spec, opts=enc_opts(o))
        kept = len(extras.split(";")) - len(sel) if extras != "-" else 0
        ctx.case(["clean", fmt, layout, enc_opts(o)], nontrivial=bool(sel) and kept > 0)
        ctx.count("selected:%d" % min(len(sel), 5))
        cases.append(case)
        lines.append("cleanw %s %s%s %s %s %s" % ("B" if fmt == "2a" else "G", enc_opts(o), filter_mode(), layout,
                                                  out_layout, targets))
        outs.append("%s %s %s %s %s %s %s" % (extras, showpaths(sel), "T" if raised else "F",
                                             showpaths(after.keys()), showpaths(nroots),
                                             showpaths(out_after.keys()), hyp))
        if target != root:
            shutil.rmtree(target)
        elif after != before:
            # a dry run changed the pristine copy: rebuild it for the remaining combinations
            shutil.rmtree(root)
            wt = materialise(spec, root, outside)
    ctx.count("fmt:" + fmt)
    ctx.count("entries:%d" % (len(spec["entries"]) // 4 * 4))
    ctx.count("nested_roots:%d" % min(len(nroots), 3))
    for t in set(e[1] for e in spec["entries"]):
        ctx.count("type:" + t)
    shutil.rmtree(base, ignore_errors=True)


def detritus_corpus(rng):
    names = set()
    alpha = ["a", ".", "~", "T", "/", "tmp", ".tmp", ".THIS", ".BASE", ".OTHER", "THIS", ".this", ".tm", "p", " "]
    for s in DETRITUS_SUFFIXES + (".orig", ".rej", ".bak", ".TMP", ".Other", ".swp", ""):
        for pre in ("", "a", "d/", "d/x", ".", "~", "a" + s):
            names.add(pre + s)
            names.add(pre + s + "x")
            names.add(pre + s[:-1])
            names.add(pre + s.lower())
            names.add(pre + s.upper())
    for _ in range(300):
        names.add("".join(rng.choice(alpha) for _ in range(rng.randint(0, 4))))
    return sorted(names)


def _sc(fmt, entries, rules=(), replace=()):
    d = dict(fmt=fmt, entries=[list(e) for e in entries], rules=list(rules), ignore_versioned=False)
    if replace:
        d["replace"] = [list(r) for r in replace]
    return d


# fixed layouts, run first on every seed: one per repaired family and per mutant that needs a
# special layout (nested git repository at depth 2 in a git tree; links; ignored + detritus names)
SCENARIOS = [
    _sc("2a", [["v", "f", True], ["unk", "d", False], ["unk/sub", "d", False], ["unk/sub/.bzr", "B", False],
               ["unk/sub/file", "f", False], ["nest", "d", False], ["nest/.bzr", "B", False], ["nest/x", "f", False]]),
    _sc("git", [["v", "f", True], ["nest", "d", False], ["nest/.bzr", "B", False], ["nest/file", "f", False],
                ["a", "d", False], ["a/b", "d", False], ["a/b/.git", "G", False], ["a/b/inner.txt", "f", False],
                ["a/c.o", "f", False]], ["*.o"]),
    _sc("2a", [["v", "f", True], [".git", "G", False], ["w", "d", True], ["w/f", "f", True], ["w/.git", "G", False],
               ["w/u~", "f", False], ["lnk", "Lo", False], ["lf", "Lf", False]]),
    # several candidates per subdirectory, several subdirectories, depth 2 and 3 below a nested
    # control directory; both outer formats (seeded change: memoised "plain" parent directories)
    _sc("git", [["v", "f", True], ["nested", "d", False], ["nested/.bzr", "B", False], ["nested/top", "f", False],
                ["nested/sub", "d", False], ["nested/sub/a", "f", False], ["nested/sub/b", "f", False],
                ["nested/sub/c", "f", False], ["nested/sub/deep", "d", False], ["nested/sub/deep/x", "f", False],
                ["nested/sub/deep/y", "f", False], ["nested/sub/deep/z", "f", False],
                ["nested/sub2", "d", False], ["nested/sub2/p", "f", False], ["nested/sub2/q", "f", False],
                ["nested/sub2/r", "f", False], ["plain", "d", False], ["plain/s", "d", False],
                ["plain/s/one", "f", False], ["plain/s/two", "f", False]]),
    _sc("2a", [["v", "f", True], ["nested", "d", True], ["nested/.git", "G", False], ["nested/top", "f", False],
               ["nested/sub", "d", True], ["nested/sub/tracked", "f", True], ["nested/sub/a", "f", False],
               ["nested/sub/b", "f", False], ["nested/sub/c", "f", False], ["nested/sub/deep", "d", True],
               ["nested/sub/deep/tracked", "f", True], ["nested/sub/deep/x", "f", False],
               ["nested/sub/deep/y", "f", False], ["nested/sub/deep/z", "f", False],
               ["nested/sub2", "d", True], ["nested/sub2/tracked", "f", True], ["nested/sub2/p", "f", False],
               ["nested/sub2/q", "f", False], ["nested/sub2/r", "f", False],
               ["plain", "d", True], ["plain/s", "d", True], ["plain/s/tracked", "f", True],
               ["plain/s/one", "f", False], ["plain/s/two", "f", False]]),
    _sc("git", [["d", "d", False], ["d/v", "f", True], ["d/u.tmp", "f", False], ["d/k.o", "f", False],
                ["lnk", "Lo", False], ["lf", "Lf", False], ["s", "d", False], ["s/.git", "gf", False],
                ["s/x", "f", False]], ["*.o"]),
    # a versioned directory that has become a link to a directory outside the tree (holding files
    # the inventory / index does not know), a link into the tree, a file; git: a versioned file
    # that has become a directory with an unknown file in it
    _sc("2a", [["v", "f", True], ["vd", "d", True], ["vd/f", "f", True], ["vd/sub", "d", True], ["vd/sub/g", "f", True],
               ["junk", "f", False], ["lnk", "Lo", False], ["w", "d", True], ["w/x~", "f", False]],
        replace=[["vd", "Lo"]]),
    _sc("2a", [["v", "f", True], ["p", "d", True], ["p/f", "f", True], ["q", "d", True], ["q/g", "f", True],
               ["q/u", "f", False], ["r", "d", True], ["r/h", "f", True], ["z.tmp", "f", False]],
        replace=[["p", "f"], ["q", "Li"], ["r", "Lx"]]),
    _sc("git", [["gd", "d", False], ["gd/f", "f", True], ["vf", "f", True], ["junk", "f", False], ["l2", "Lo", False],
                ["hd", "d", False], ["hd/f", "f", True], ["hd/k.o", "f", False]], ["*.o"],
        replace=[["gd", "Lo"], ["vf", "d"], ["hd", "f"]]),
]


def run(ctx):
    from breezy.clean_tree import is_detritus
    viol = []
    cases, lines, outs = [], [], []
    # corpus first
    cdir = os.path.join(env.VERIF, "corpus", "C46")
    specs = []
    if os.path.isdir(cdir):
        import json
        for fn in sorted(os.listdir(cdir)):
            if fn.endswith(".json"):
                specs.append(json.load(open(os.path.join(cdir, fn)))["spec"])
    specs.extend(sc for sc in SCENARIOS if sc not in specs)   # corpus files may pin the same layouts
    n = ctx.pick(12, 120)
    for k in range(n):
        for fmt in ("2a", "git"):
            specs.append(gen_spec(ctx.rng, fmt, replace=True))
    for spec in specs:
        opts_list = [(u, i, d, r, None) for (u, i, d, r) in OPTS]
        u, i, d = ctx.rng.choice([(True, False, False), (True, True, True), (False, True, True)])
        opts_list += [(u, i, d, False, True), (u, i, d, False, False)]
        run_layout(ctx, spec, viol, cases, lines, outs, opts_list)
    ctx.diff(cases, lines, outs)
    ctx.extra["nested_filter"] = {"o": "as found", "x": "proposed repair"}[filter_mode()]
    # is_detritus on a name corpus
    names = detritus_corpus(ctx.rng)
    dl = ["det " + (nm.encode("latin-1").hex() or "-") for nm in names]
    do = ["T" if is_detritus(nm) else "F" for nm in names]
    for nm, o in zip(names, do):
        if (o == "T") != nm.endswith(DETRITUS_SUFFIXES):
            viol.append((dict(det=nm), "is_detritus(%r) = %s" % (nm, o), None))
    ctx.diff([dict(det=nm) for nm in names], dl, do)
    ctx.count("detritus_names", len(names))
    # controldir.is_control_filename (what the filter asks about every name) on a name corpus
    from breezy import controldir
    cn = sorted({pre + n + suf for n in (".bzr", ".git", ".hg", ".svn", "CVS", "_darcs", ".BZR", ".Git", "bzr", "git")
                 for pre in ("", "a", ".", "x.") for suf in ("", "x", ".d", "ignore", "~", ".backup", " ")} - {""})
    cn = [n for n in cn if " " not in n]
    ctx.diff([dict(ctl=n) for n in cn], ["ctl " + n.encode("latin-1").hex() for n in cn],
             ["T" if controldir.is_control_filename(n) else "F" for n in cn])
    ctx.count("control_names", len(cn))
    # unclassified violations first, so that a new defect is never hidden behind a recorded family
    seen = set()
    for case, what, fam in sorted(viol, key=lambda v: (v[2] is not None,)):
        key = (fam, what) if fam is None else (fam,)
        if fam is not None:
            ctx.count("finding:" + fam)
        if key in seen:
            continue
        seen.add(key)
        ctx.violation(case, what, family=fam)


def widen(ctx):
    ctx.tier = "thorough"
    run(ctx)


def replay(ctx, case):
    if "ctl" in case:
        from breezy import controldir
        nm = case["ctl"]
        return dict(case=case, impl=controldir.is_control_filename(nm),
                    model=ctx.model(["ctl " + nm.encode("latin-1").hex()])[0])
    if "hypotheses" in case:
        return dict(case=case, note="the generated layout violates a hypothesis of the theorems",
                    impl=None, model=None)
    if "det" in case:
        from breezy.clean_tree import is_detritus
        nm = case["det"]
        return dict(case=case, impl=is_detritus(nm), model=ctx.model(["det " + (nm.encode("latin-1").hex() or "-")])[0])
    spec = case["spec"]
    oe = case["opts"]
    o = tuple(c == "T" for c in oe[:4]) + (None if oe[4] == "~" else oe[4] == "T",)
    viol, cases, lines, outs = [], [], [], []
    run_layout(ctx, spec, viol, cases, lines, outs, [o])
    m = ctx.model(lines)[0]
    for c, what, fam in viol:
        ctx.violation(c, what, family=fam)
    return dict(case=case, impl=outs[0], model=m, line=lines[0],
                oracle_failures=[dict(what=w, family=f) for _c, w, f in viol])
