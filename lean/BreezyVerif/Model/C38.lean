import BreezyVerif.Common
/-
C38 — the bzr/git SHA map (`breezy/git/cache.py`).

One state type (four association lists, insertion order kept) and, per
backend, the update policy its cache updater implements:

* `dict`   — `DictCacheUpdater.add_object`: `_by_sha[sha][key] = entry`
             (`key` = revid for commits, `(fileid, revision)` for blobs and
             trees), `_by_fileid[revision][fileid] = sha`, `_by_revid[revid] = sha`;
             later adds override.  This is the specification the property
             theorems are about.
* `sqlite` — `SqliteCacheUpdater.finish`: `replace into` tables whose unique
             indices are commits(revid), blobs(fileid, revid), trees(sha1) and
             trees(fileid, revid): a replaced row disappears.
* `index`  — `IndexCacheUpdater.add_object` / `IndexGitShaMap._add_node`: a
             node is added only when its key is not present yet; there is one
             node per git sha (`("git", sha, "X")`), one per commit revid and
             one per blob key; tree ids are not stored (`lookup_tree_id` is
             not implemented).

Not modelled: `DictGitShaMap` keeps blob and tree ids in one shared dict
(cross-kind queries are not issued); `SqliteCacheUpdater` applies its rows at
`finish()` (tables are independent, so only queries between `add_object` and
`finish` could tell); write groups (queries are made between write groups).
The layered storage of the index backend (one `.rix` file per write group, a
builder for the open one) is modelled separately at the end (`IdxStore`) for
the reopen theorem.
-/
namespace BreezyVerif.C38

abbrev B := Bytes

/-- what `lookup_git_sha` yields (`type`, `type_data`) -/
inductive Entry where
  | commit (revid tree : B) (testament : Option B)
  | blob (fid rev : B)
  | tree (fid rev : B)
  deriving DecidableEq, Repr

/-- one `add_object` call; `revid` of a commit is the updater's revision -/
inductive Op where
  | commit (revid sha tree : B) (testament : Option B)
  | blob (sha fid rev : B)
  | tree (sha fid rev : B)
  deriving DecidableEq, Repr

inductive Backend where
  | dict | sqlite | index
  deriving DecidableEq, Repr

abbrev Row := B × Entry
abbrev FKey := B × B          -- (fileid, revision)

structure St where
  git : List Row
  blobs : List (FKey × B)
  trees : List (FKey × B)
  commits : List (B × B)
  deriving DecidableEq, Repr

def St.empty : St := ⟨[], [], [], []⟩

def Op.sha : Op → B
  | .commit _ s _ _ => s | .blob s _ _ => s | .tree s _ _ => s

def Op.entry : Op → Entry
  | .commit r _ t tm => .commit r t tm
  | .blob _ f r => .blob f r
  | .tree _ f r => .tree f r

def Op.row (o : Op) : Row := (o.sha, o.entry)

/-- the key of the inner dict of `_by_sha[sha]` -/
def sameKey : Entry → Entry → Bool
  | .commit r _ _, .commit r' _ _ => r == r'
  | .blob f r, .blob f' r' => f == f' && r == r'
  | .blob f r, .tree f' r' => f == f' && r == r'
  | .tree f r, .blob f' r' => f == f' && r == r'
  | .tree f r, .tree f' r' => f == f' && r == r'
  | _, _ => false

/-! ### association lists -/

def alGet {κ : Type} [DecidableEq κ] : List (κ × B) → κ → Option B
  | [], _ => none
  | (k, v) :: rest, q => if k = q then some v else alGet rest q

/-- replace in place or append (Python `d[k] = v`) -/
def alSet {κ : Type} [DecidableEq κ] (k : κ) (v : B) : List (κ × B) → List (κ × B)
  | [] => [(k, v)]
  | (k', v') :: rest => if k' = k then (k, v) :: rest else (k', v') :: alSet k v rest

/-- add only when the key is absent (`_add_node`) -/
def alAddNew {κ : Type} [DecidableEq κ] (k : κ) (v : B) (l : List (κ × B)) : List (κ × B) :=
  match alGet l k with
  | some _ => l
  | none => l ++ [(k, v)]

/-! ### update policies -/

/-- `_by_sha.setdefault(sha, {})[key] = entry` -/
def upsertRow (row : Row) : List Row → List Row
  | [] => [row]
  | r :: rs => if r.1 = row.1 ∧ sameKey r.2 row.2 = true then row :: rs else r :: upsertRow row rs

/-- `replace into`: rows in `conflict` with the new one disappear; an identical
row stays where it is (the order of rows is not observable) -/
def replaceRow (conflict : Row → Bool) (row : Row) (l : List Row) : List Row :=
  if row ∈ l then l.filter (fun r => r = row ∨ conflict r = false)
  else l.filter (fun r => conflict r = false) ++ [row]

def isCommitOf (revid : B) : Row → Bool
  | (_, .commit r _ _) => r == revid
  | _ => false

def isBlobOf (k : FKey) : Row → Bool
  | (_, .blob f r) => f == k.1 && r == k.2
  | _ => false

/-- the two unique indices of the `trees` table -/
def treeConflict (sha : B) (k : FKey) : Row → Bool
  | (s, .tree f r) => s == sha || (f == k.1 && r == k.2)
  | _ => false

/-- the `trees` table as a map: a row with the same sha or the same key is replaced -/
def treesReplace (sha : B) (k : FKey) (l : List (FKey × B)) : List (FKey × B) :=
  if (k, sha) ∈ l then l.filter (fun e => e = (k, sha) ∨ (e.1 ≠ k ∧ e.2 ≠ sha))
  else l.filter (fun e => e.1 ≠ k ∧ e.2 ≠ sha) ++ [(k, sha)]

/-- `_add_node(("git", sha, "X"), …)`: one node per sha -/
def addIfNoSha (row : Row) (l : List Row) : List Row :=
  if l.any (fun r => r.1 == row.1) then l else l ++ [row]

def step (b : Backend) (st : St) (o : Op) : St :=
  match b, o with
  | .dict, .commit r s _ _ => { st with git := upsertRow o.row st.git, commits := alSet r s st.commits }
  | .dict, .blob s f r => { st with git := upsertRow o.row st.git, blobs := alSet (f, r) s st.blobs }
  | .dict, .tree s f r => { st with git := upsertRow o.row st.git, trees := alSet (f, r) s st.trees }
  | .sqlite, .commit r s _ _ =>
    { st with git := replaceRow (isCommitOf r) o.row st.git, commits := alSet r s st.commits }
  | .sqlite, .blob s f r =>
    { st with git := replaceRow (isBlobOf (f, r)) o.row st.git, blobs := alSet (f, r) s st.blobs }
  | .sqlite, .tree s f r =>
    { st with git := replaceRow (treeConflict s (f, r)) o.row st.git, trees := treesReplace s (f, r) st.trees }
  | .index, .commit r s _ _ => { st with git := addIfNoSha o.row st.git, commits := alAddNew r s st.commits }
  | .index, .blob s f r => { st with git := addIfNoSha o.row st.git, blobs := alAddNew (f, r) s st.blobs }
  | .index, .tree s f r => { st with git := addIfNoSha o.row st.git, trees := alAddNew (f, r) s st.trees }

def run (b : Backend) (st : St) (ops : List Op) : St := ops.foldl (step b) st

/-! ### queries -/

/-- `lookup_git_sha`: `[]` = KeyError -/
def gitSha (st : St) (sha : B) : List Entry := (st.git.filter fun r => r.1 == sha).map (·.2)

def blobId (st : St) (k : FKey) : Option B := alGet st.blobs k

inductive TreeAns where
  | unsupported | missing | found (sha : B)
  deriving DecidableEq, Repr

def treeId (b : Backend) (st : St) (k : FKey) : TreeAns :=
  match b with
  | .index => .unsupported
  | _ => match alGet st.trees k with
    | some s => .found s
    | none => .missing

def commitId (st : St) (revid : B) : Option B := alGet st.commits revid

def revids (st : St) : List B := st.commits.map (·.1)

def sha1s (st : St) : List B := (st.git.map (·.1)).eraseDups

/-- `missing_revisions(revids)` as a duplicate-free list -/
def missing (st : St) (xs : List B) : List B := (xs.filter fun x => !(revids st).contains x).eraseDups

/-! ### when do the backends agree? -/

/-- the key is absent from the map or already bound to this value -/
def alOK {κ : Type} [DecidableEq κ] (l : List (κ × B)) (k : κ) (v : B) : Bool :=
  match alGet l k with
  | some v' => v' == v
  | none => true

def mapOK (st : St) : Op → Bool
  | .commit r s _ _ => alOK st.commits r s
  | .blob s f r => alOK st.blobs (f, r) s
  | .tree s f r => alOK st.trees (f, r) s

/-- nothing already recorded contradicts the new add: the sha is not recorded
for another entry, and the entry's key is not bound to another sha -/
def okIndex (st : St) (o : Op) : Bool :=
  st.git.all (fun r => r.1 != o.sha || r == o.row) && mapOK st o

def isTreeOp : Op → Bool
  | .tree .. => true
  | _ => false

def isTreeRow : Row → Bool
  | (_, .tree ..) => true
  | _ => false

/-- the `trees` table holds no other row with this key or this sha -/
def treesOK (l : List (FKey × B)) (k : FKey) (s : B) : Bool :=
  l.all (fun e => (e.1 != k || e.2 == s) && (e.2 != s || e.1 == k))

/-- weaker: a sha may be shared by several blob keys and by entries of different
types, but not by two tree keys; keys are functional -/
def okSqlite (st : St) (o : Op) : Bool :=
  st.git.all (fun r => (!(sameKey r.2 o.entry) || r == o.row) &&
    (!(isTreeOp o && isTreeRow r && r.1 == o.sha) || r == o.row)) &&
  (match o with
   | .tree s f r => treesOK st.trees (f, r) s
   | _ => mapOK st o)

/-- the hypothesis along a whole sequence, evaluated on the reference states -/
def okSeq (ok : St → Op → Bool) : St → List Op → Bool
  | _, [] => true
  | st, o :: ops => ok st o && okSeq ok (step .dict st o) ops

/-! ### the index backend's storage: layers -/

abbrev IKey := B × B × B

abbrev Layer := List (IKey × B)

structure IdxStore where
  files : List Layer          -- committed `.rix` files, newest first
  builder : Option Layer      -- the open write group

def layerGet : Layer → IKey → Option B
  | [], _ => none
  | (k, v) :: rest, q => if k = q then some v else layerGet rest q

def filesGet : List Layer → IKey → Option B
  | [], _ => none
  | l :: ls, q =>
    match layerGet l q with
    | some v => some v
    | none => filesGet ls q

/-- `_get_entry`: the committed files first, then the builder -/
def IdxStore.get (s : IdxStore) (k : IKey) : Option B :=
  match filesGet s.files k with
  | some v => some v
  | none =>
    match s.builder with
    | some b => layerGet b k
    | none => none

/-- `_add_node`; `none` = no builder open (`AttributeError` in the code) -/
def IdxStore.addNode (s : IdxStore) (k : IKey) (v : B) : Option IdxStore :=
  match s.builder with
  | none => none
  | some b =>
    match s.get k with
    | some _ => some s
    | none => some { s with builder := some (b ++ [(k, v)]) }

def IdxStore.startWriteGroup (s : IdxStore) : Option IdxStore :=
  match s.builder with
  | some _ => none
  | none => some { s with builder := some [] }

def IdxStore.commitWriteGroup (s : IdxStore) : Option IdxStore :=
  match s.builder with
  | none => none
  | some b => some { files := b :: s.files, builder := none }

/-- a new `IndexGitShaMap(transport)`: the committed files in directory-listing order -/
def IdxStore.reopen (files' : List Layer) : IdxStore := { files := files', builder := none }

/-- no key occurs twice in the whole store -/
def keysOf (ls : List Layer) : List IKey := (ls.flatMap id).map (·.1)

def IdxStore.allKeys (s : IdxStore) : List IKey :=
  keysOf s.files ++ (match s.builder with | some b => b.map (·.1) | none => [])

/-! the files have names: `commit_write_group` writes `<sha1 of the shas fed to
_add_git_sha in this write group>.rix` with `put_file`, which replaces a file of
the same name -/

abbrev NamedFiles := List (B × Layer)

def commitNamed (files : NamedFiles) (name : B) (b : Layer) : NamedFiles :=
  (name, b) :: files.filter (fun f => f.1 != name)

def namedGet (files : NamedFiles) (k : IKey) : Option B := filesGet (files.map (·.2)) k

/-! ### what the index updater writes: `IndexCacheUpdater.add_object` as `_add_node` calls

Keys are 3-tuples of byte strings, values byte strings joined with single spaces
(`IndexGitShaMap._add_git_sha`, `IndexCacheUpdater.add_object`). -/

def kGit : B := [103, 105, 116]                    -- b"git"
def kCommit : B := [99, 111, 109, 109, 105, 116]   -- b"commit"
def kBlob : B := [98, 108, 111, 98]                -- b"blob"
def kTree : B := [116, 114, 101, 101]              -- b"tree"
def kX : B := [88]                                 -- b"X"
def sp : B := [32]

def gitKey (sha : B) : IKey := (kGit, sha, kX)
def commitKey (revid : B) : IKey := (kCommit, revid, kX)
def blobKey (fid rev : B) : IKey := (kBlob, fid, rev)

/-- `b" ".join((type,) + type_data)` -/
def encEntry : Entry → B
  | .commit r t none => kCommit ++ sp ++ r ++ sp ++ t
  | .commit r t (some tm) => kCommit ++ sp ++ r ++ sp ++ t ++ sp ++ tm
  | .blob f r => kBlob ++ sp ++ f ++ sp ++ r
  | .tree f r => kTree ++ sp ++ f ++ sp ++ r

/-- the `_add_node` calls of one `add_object`, in order -/
def opNodes : Op → List (IKey × B)
  | .commit r s t tm => [(gitKey s, encEntry (.commit r t tm)), (commitKey r, s ++ sp ++ t)]
  | .blob s f r => [(gitKey s, encEntry (.blob f r)), (blobKey f r, s)]
  | .tree s f r => [(gitKey s, encEntry (.tree f r))]

/-- `lookup_commit`: `value[:40]` -/
def commitShaOf (v : B) : B := v.take 40

def IdxStore.addNodes (s : IdxStore) : List (IKey × B) → Option IdxStore
  | [] => some s
  | (k, v) :: rest =>
    match s.addNode k v with
    | none => none
    | some s' => s'.addNodes rest

/-- one write group: start, every `add_object` of every session, commit -/
def IdxStore.writeGroup (s : IdxStore) (ops : List Op) : Option IdxStore :=
  match s.startWriteGroup with
  | none => none
  | some s1 =>
    match s1.addNodes (ops.flatMap opNodes) with
    | none => none
    | some s2 => s2.commitWriteGroup

def IdxStore.runGroups (s : IdxStore) : List (List Op) → Option IdxStore
  | [] => some s
  | g :: gs =>
    match s.writeGroup g with
    | none => none
    | some s' => s'.runGroups gs

def IdxStore.empty : IdxStore := { files := [], builder := none }

/-- the first row recorded for a sha (what the one-node-per-sha index can hold) -/
def firstRow (st : St) (sha : B) : Option Row := st.git.find? (fun r => r.1 == sha)

/-- commit shas are 40 bytes (hex SHA-1), which `lookup_commit`'s `[:40]` relies on -/
def Op.wf : Op → Bool
  | .commit _ s _ _ => s.length == 40
  | _ => true

/-! ### `DictGitShaMap._by_fileid`: ONE dict for blob and tree ids

`lookup_blob_id` and `lookup_tree_id` of the in-memory backend both read
`_by_fileid[revision][fileid]`, which `add_object` writes for blobs and trees
alike: the answer is the sha of the last blob-or-tree add for the key. -/

def Op.fkey : Op → Option FKey
  | .blob _ f r => some (f, r)
  | .tree _ f r => some (f, r)
  | .commit .. => none

/-- chronological list of adds; later adds win -/
def sharedId : List Op → FKey → Option B
  | [], _ => none
  | o :: rest, k =>
    match sharedId rest k with
    | some v => some v
    | none => if o.fkey = some k then some o.sha else none

end BreezyVerif.C38
