import BreezyVerif.Lemmas.C22Num
/-!
C22 — `mergeSort` as a whole: total on topologically numbered graphs, lists
exactly the revisions reachable from the tip, each once, with pairwise
different dotted revnos.
-/
namespace BreezyVerif.C22

theorem PF.suffix {g : Graph} : ∀ (xs : List Entry) {l : List Entry}, PF g (xs ++ l) → PF g l
  | [], _, h => h
  | _ :: xs, _, h => PF.suffix xs h.2

theorem eomFlags_map (g : Graph) : ∀ (l : List (Nat × Nat × List Nat)),
    (eomFlags g l).map (fun e => (e.rev, e.depth, e.revno)) = l
  | [] => rfl
  | [(n, d, r)] => rfl
  | (n, d, r) :: (n', d', r') :: rest => by
    have := eomFlags_map g ((n', d', r') :: rest)
    simp only [eomFlags, List.map_cons] at this ⊢
    rw [this]

theorem eomFlags_rev (g : Graph) (l : List (Nat × Nat × List Nat)) :
    (eomFlags g l).map (·.rev) = l.map (·.1) := by
  have := congrArg (List.map (·.1)) (eomFlags_map g l)
  simpa [List.map_map, Function.comp_def] using this

theorem eomFlags_depth (g : Graph) (l : List (Nat × Nat × List Nat)) :
    (eomFlags g l).map (·.depth) = l.map (·.2.1) := by
  have := congrArg (List.map (·.2.1)) (eomFlags_map g l)
  simpa [List.map_map, Function.comp_def] using this

theorem eomFlags_revno (g : Graph) (l : List (Nat × Nat × List Nat)) :
    (eomFlags g l).map (·.revno) = l.map (·.2.2) := by
  have := congrArg (List.map (·.2.2)) (eomFlags_map g l)
  simpa [List.map_map, Function.comp_def] using this

theorem inv_empty (g : Graph) : Inv g ⟨[], []⟩ :=
  ⟨List.nodup_nil, trivial, (fun e he => by cases he), (fun e he => by cases he)⟩

theorem numInv_empty (g : Graph) : NumInv g [] ⟨[], []⟩ :=
  ⟨rfl, (fun _ => rfl), (fun _ _ h => by cases h), (fun _ _ _ h => by cases h), (fun _ _ _ h => by cases h)⟩

/-- everything `mergeSort` computes, with the facts proved about the walk and the numbering -/
theorem mergeSort_spec (g : Graph) (hw : WF g) (tip : Nat) (htip : tip < g.length) :
    ∃ (st : Dfs) (out : List (Nat × Nat × List Nat)),
      visit g (tip + 1) tip 0 ⟨[], []⟩ = some st ∧ Inv g st ∧
      (∀ x, x ∈ doneSet st ↔ Reach g tip x) ∧
      (∃ fc rest, st.done = (tip, 0, fc) :: rest) ∧
      numberAll g ⟨[], []⟩ st.done.reverse = some out ∧
      out.map (fun e => (e.1, e.2.1)) = st.done.reverse.map (fun e => (e.1, e.2.1)) ∧
      (out.map (·.2.2)).Nodup ∧
      mergeSort g tip = some (eomFlags g out.reverse) := by
  obtain ⟨st, hv, hinv, hext, hhead⟩ := visit_spec g hw (tip + 1) tip 0 ⟨[], []⟩ (Nat.lt_succ_self _) htip
    (inv_empty g) (by simp [doneSet])
  have hcov : ∀ x, x ∈ doneSet st ↔ Reach g tip x := by
    intro x
    obtain ⟨new, hnew, _, hp⟩ := hext
    simp only [List.append_nil] at hnew
    constructor
    · intro hx
      unfold doneSet at hx
      obtain ⟨e, he, rfl⟩ := List.mem_map.mp hx
      rw [hnew] at he
      obtain ⟨⟨r, hr, hreach⟩, _, _⟩ := hp e he
      rw [List.mem_singleton.mp hr] at hreach
      exact hreach
    · intro hr
      obtain ⟨fc, rest, hd⟩ := hhead
      apply closed_reach hinv.pf hr
      rw [hd]; simp
  have hnd : ((([] : List Entry) ++ st.done.reverse).map (·.1)).Nodup := by
    simp only [List.nil_append, List.map_reverse]
    exact (List.reverse_perm _).nodup_iff.mpr hinv.nodup
  have hfcu : ∀ e1 ∈ ([] : List Entry) ++ st.done.reverse, ∀ e2 ∈ ([] : List Entry) ++ st.done.reverse,
      e1.2.2 = true → e2.2.2 = true → ∀ P, lpOf g e1.1 = some P → lpOf g e2.1 = some P → e1.1 = e2.1 := by
    intro e1 h1 e2 h2
    simp only [List.nil_append, List.mem_reverse] at h1 h2
    exact hinv.fcu e1 h1 e2 h2
  have hpf : ∀ a b, st.done.reverse = a ++ b → ∀ e, b.head? = some e →
      e.1 < g.length ∧ ∀ P, lpOf g e.1 = some P → P ∈ (([] : List Entry) ++ a).map (·.1) := by
    intro a b hab e he
    cases b with
    | nil => cases he
    | cons e' b' =>
      simp only [List.head?_cons, Option.some.injEq] at he
      subst he
      have hd : st.done = b'.reverse ++ e' :: a.reverse := by
        have := congrArg List.reverse hab
        simpa using this
      have hpf := hinv.pf
      rw [hd] at hpf
      have := PF.suffix _ hpf
      have hlt : e'.1 < g.length := this.1.1
      refine ⟨hlt, ?_⟩
      intro P hP
      unfold lpOf at hP
      have hg : g[e'.1]? = some g[e'.1] := List.getElem?_eq_getElem hlt
      rw [hg] at hP
      have hm := leftParent_mem hP
      have := this.1.2 P (by rw [parentsD_of_get hg]; exact hm.1) hm.2
      simpa using this
  obtain ⟨out, hall, hmap, hnodup, _⟩ := numberAll_spec g st.done.reverse [] ⟨[], []⟩ (numInv_empty g) hnd hfcu hpf
  refine ⟨st, out, hv, hinv, hcov, hhead, hall, hmap, hnodup, ?_⟩
  unfold mergeSort mergeSortCore dfsOrder
  simp [hv, hall]

end BreezyVerif.C22
