#!/venv/bin/python
"""C40 finding `directive-file-roundtrip-patch-without-final-newline-before-bundle`.

MergeDirective2.to_lines() writes `patch.splitlines(True)` and then `# Begin bundle\n`.
When the patch does not end with a newline, its last line and the bundle marker share one
physical line as soon as the lines are joined (to_email, `brz send -o file`, any file on disk):
MergeDirective.from_lines(file) no longer sees a line that *starts with* `# Begin bundle`, so
the marker and the whole bundle become part of the patch and the directive has no bundle.

Run:  PYTHONPATH=<tree> /venv/bin/python repro_directive_patch_no_final_newline.py      (default tree: /repo)
exit 1 = the bundle is lost, 0 = the bundle survives (the patch may have been newline-terminated,
which is what option-terminate-last-patch-line-before-bundle.diff does) or to_lines refuses.
"""
import sys
from io import BytesIO

import breezy
import breezy.bzr  # noqa: F401
from breezy import merge_directive as md

kw = dict(revision_id=b"rev-1", testament_sha1=b"0" * 40, time=1500000000, timezone=0,
          target_branch="http://example.com/target", base_revision_id=b"rev-0",
          patch=b"=== modified file 'a'\n+last line without newline",
          bundle=b"QlpoOTFBWSZTWQ==\n")
d = md.MergeDirective2(**kw)
try:
    lines = d.to_lines()
except Exception as e:
    print("to_lines refuses the directive: %s: %s" % (type(e).__name__, e))
    sys.exit(0)
as_list = md.MergeDirective.from_lines(list(lines))
print("from the line list :", as_list.patch == kw["patch"], as_list.bundle == kw["bundle"])
bad = False
try:
    as_file = md.MergeDirective.from_lines(BytesIO(b"".join(lines)))
    print("through a file     : patch=%r bundle=%r" % (as_file.patch, as_file.bundle))
    bad = as_file.bundle != kw["bundle"]
except Exception as e:
    print("through a file     : raises %s (%s)" % (type(e).__name__, e))
    bad = True
# with a public branch the loss is silent: the directive falls back to pulling from the branch
d = md.MergeDirective2(source_branch="http://example.com/source", **kw)
as_file = md.MergeDirective.from_lines(BytesIO(b"".join(d.to_lines())))
print("with source_branch : patch=%r bundle=%r" % (as_file.patch, as_file.bundle))
bad = bad or as_file.bundle != kw["bundle"]
if not bad and as_file.patch != kw["patch"]:
    print("note: the bundle survives; the patch came back as %r" % as_file.patch)
if bad:
    print("DEFECT: the bundle is lost (merged into the patch) when the directive goes through a file")
    sys.exit(1)
print("ok")
