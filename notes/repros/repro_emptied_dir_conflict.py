"""C17 / git: OTHER deletes the only file of directory c (so git sees directory c disappear); THIS adds a new file
c/g.  The two sides change disjoint files, git itself merges this cleanly, and breezy's merged tree IS right
(c/g kept, c/b gone) — but do_merge() returns / prints "Text conflict in c" (the cooked fs-level 'deleting parent'
of the implicit directory), `brz merge` would exit 1, and the git working tree then silently drops the conflict.
Run: /venv/bin/python repro_emptied_dir_conflict.py   (exit 1 = defect present)"""
import os, sys, tempfile
sys.path.insert(0, os.environ.get("VERIF_REPO", "/repo"))
top = tempfile.mkdtemp(prefix="c17-emptied-", dir="/var/tmp")
os.environ["HOME"] = top; os.environ["BRZ_HOME"] = top; os.environ["BRZ_EMAIL"] = "T <t@example.com>"
import breezy; breezy.initialize()
import breezy.bzr, breezy.git
from breezy import controldir, merge as M, ui, trace
ui.ui_factory = ui.SilentUIFactory(); trace.be_quiet(True)
wt = controldir.ControlDir.create_standalone_workingtree(os.path.join(top, "this"), format=controldir.format_registry.make_controldir("git"))
os.mkdir(wt.abspath("c"))
open(wt.abspath("c/b"), "w").write("in c\n"); open(wt.abspath("b"), "w").write("top\n")
wt.add(["c/b", "b"]); wt.commit("base")
owt = wt.controldir.sprout(os.path.join(top, "other")).open_workingtree()
owt.remove(["c/b"], keep_files=False, force=True)
if os.path.isdir(owt.abspath("c")):
    os.rmdir(owt.abspath("c"))
owt.commit("other: delete c/b")
open(wt.abspath("c/g"), "w").write("new in this\n"); wt.add(["c/g"]); wt.commit("this: add c/g")
with wt.lock_write():
    m = M.Merger.from_revision_ids(wt, owt.branch.last_revision(), other_branch=owt.branch)
    m.merge_type = M.Merge3Merger
    got = m.do_merge()
print("returned by do_merge:", got)
print("wt.conflicts():", list(wt.conflicts()))
print("tree:", sorted(p for p in wt.all_versioned_paths() if p), "c/g on disk:", os.path.exists(wt.abspath("c/g")),
      "c/b on disk:", os.path.exists(wt.abspath("c/b")))
sys.exit(1 if got else 0)
