import BreezyVerif.Common
import BreezyVerif.Model.C04
import BreezyVerif.Driver.C04Proto
/-
C04 driver.

  commit <chk T|F> <names> <files> <torn> <viewNames> <viewAtLoad> <counts> <tmp0,new0,tmp1,new1>
  pack   <chk T|F> <names> <files> <torn> <viewNames> <viewAtLoad> <hint ~|names> <optimal T|F> <clean T|F> <tmp1,new1>

names / viewNames / viewAtLoad = comma separated pack numbers (`-` = none)
files / torn = comma separated `<d><stem>.<ext>` with d ∈ u p i o (`-` = none)
counts = `name:count` comma separated (all packs after allocate, new0 included), in the
         order Python's sort processes equal counts

reply: `<op>;<op>;… <state>/<state>/…` — the operation list and the directory
state after every prefix (including the empty one); state =
`names|files|torn|L or U`, each list sorted.
-/
namespace BreezyVerif.C04

def parseCounts (s : String) : Option (List (Nat × Nat)) :=
  (splitList s).mapM fun t => match t.splitOn ":" with
    | [a, b] => do pure (← a.toNat?, ← b.toNat?)
    | _ => none

def showPlan : Plan → String
  | .noAutopack => "none"
  | .error => "error"
  | .combine s => s!"combine:{showNatsRaw s}"

def handle : List String → String
  | ["commit", chk, names, files, torn, vn, va, counts, fresh] =>
    match parseBool chk, parseNatList names, parseFiles files, parseFiles torn, parseNatList vn, parseNatList va,
          parseCounts counts, parseNatList fresh with
    | some chk, some names, some files, some torn, some vn, some va, some counts, some [t0, n0, t1, n1] =>
      let d : Disk := ⟨names, files, torn, false⟩
      showRun d (commitOps chk d ⟨vn, va⟩ counts t0 n0 t1 n1)
    | _, _, _, _, _, _, _, _ => "bad-op"
  | ["pack", chk, names, files, torn, vn, va, hint, optimal, clean, fresh] =>
    match parseBool chk, parseNatList names, parseFiles files, parseFiles torn, parseNatList vn, parseNatList va,
          (if hint == "~" then some none else (parseNatList hint).map some),
          parseBool optimal, parseBool clean, parseNatList fresh with
    | some chk, some names, some files, some torn, some vn, some va, some hint, some optimal, some clean, some [t1, n1] =>
      let d : Disk := ⟨names, files, torn, false⟩
      showRun d (packOps chk d ⟨vn, va⟩ hint optimal clean t1 n1)
    | _, _, _, _, _, _, _, _, _, _ => "bad-op"
  | ["plan", counts] =>
    match parseCounts counts with
    | some c => showPlan (planAutopack c)
    | none => "bad-op"
  | ["merge", disk, atLoad, mine] =>
    match parseNatList disk, parseNatList atLoad, parseNatList mine with
    | some a, some b, some c => showNats (mergeNames a b c)
    | _, _, _ => "bad-op"
  | _ => "bad-op"

end BreezyVerif.C04

def main : IO Unit := BreezyVerif.runDriver BreezyVerif.C04.handle
