import BreezyVerif.Model.C04
/-!
C05 — concurrent pack writers and packers.  Core Lean only.

Any number of processes work on ONE repository directory (the `Disk` of
`Model/C04.lean`).  Every process has a private view of the collection
(`RepositoryPackCollection._names`, `_packs_at_load`) and performs *phases*;
between two phases any other process may run (interleaving at phase
granularity — the granularity at which the harness gates the real threads).
A phase is executed with the very operation lists of the C04 model:

* `reload`   — `ensure_loaded` (first time) / `reload_pack_names`:
               `_diff_pack_names` against the disk, `_packs_at_load := disk`,
               `_syncronize_pack_names_from_disk_nodes(merged)`;
* `finish r` — a write group's new pack: `NewPack.finish` (C04 `newPackOps`) +
               `allocate`; the pack gets a globally fresh name and holds the
               revisions `r`;
* `repack s` — the write phase of a `Packer` combining the packs `s` of the
               process' list: new pack with a fresh name holding the union of
               their revisions (`finish`, `allocate`), `_remove_pack_from_memory`
               for `s`.  The packer has READ the sources before this phase
               (before its `finish` baton); when a source is unreadable at that
               time the real code reloads and retries (`RetryAutopack`,
               `RetryPackOperations`), which is the phase `reload`.  Asking to
               repack packs that are not in the process' list is such a
               reload as well;
* `save c`   — `_save_pack_names` up to the unlock, atomic under the names lock:
               three-way merge, `put_file`, if `c`: `_clear_obsolete_packs`
               preserving the packs about to be obsoleted; memory synchronised;
* `obsolete` — `_obsolete_packs` for the packs combined before the save that
               were not found in `obsolete_packs/` already;
* `clearAll` — `_clear_obsolete_packs()` (`pack(clean_obsolete_packs=True)`).

Ghost state (not present in the code, used to state the theorems): `ever` =
every name that was ever listed in `pack-names`; `committed` = the revisions of
every pack whose `save` completed; `owner` = the process that created a name.
-/
namespace BreezyVerif.C05
open BreezyVerif.C04

structure Proc where
  loaded : Bool
  names : List Nat
  atLoad : List Nat
  /-- packs removed from memory by pack operations since the last save -/
  combined : List Nat
  /-- packs to be moved to `obsolete_packs/` (set by the save) -/
  toObsolete : List Nat
  deriving Repr

def Proc.init : Proc := ⟨false, [], [], [], []⟩

structure Sys where
  chk : Bool
  disk : Disk
  procs : Nat → Proc
  /-- revisions held by the pack with a given name -/
  content : Nat → List Nat
  /-- next fresh name (pack names and upload names) -/
  next : Nat
  ever : List Nat
  committed : List Nat
  owner : Nat → Nat

def upd {α : Type} (f : Nat → α) (i : Nat) (x : α) : Nat → α := fun j => if j = i then x else f j

inductive Act where
  | reload
  | finish (revs : List Nat)
  | repack (s : List Nat)
  | save (clear : Bool)
  | obsolete
  | clearAll
  deriving Repr

/-- `reload_pack_names` / first `ensure_loaded`.  For a process that has not
loaded anything (`names = atLoad = []`) the merge is just the disk list, which
is what `ensure_loaded` reads. -/
def reloadProc (d : Disk) (p : Proc) : Proc :=
  { p with loaded := true, names := mergeNames d.names p.atLoad p.names, atLoad := d.names }

def doReload (s : Sys) (i : Nat) : Sys :=
  { s with procs := upd s.procs i (reloadProc s.disk (s.procs i)) }

/-- the private (created, not yet saved) names of a process -/
def privateNames (p : Proc) : List Nat := p.names.filter (fun n => !p.atLoad.contains n)

def step (s : Sys) (i : Nat) : Act → Sys
  | .reload => doReload s i
  | .finish revs =>
    let p := s.procs i
    let m := s.next + 1
    { s with
      disk := run s.disk (newPackOps s.chk (upTmp s.next false) m)
      procs := upd s.procs i { p with names := p.names ++ [m] }
      content := upd s.content m revs
      owner := upd s.owner m i
      next := s.next + 2 }
  | .repack sel =>
    let p := s.procs i
    if sel.all (fun n => p.names.contains n) then
      let m := s.next + 1
      { s with
        disk := run s.disk (newPackOps s.chk (upTmp s.next true) m)
        procs := upd s.procs i
          { p with names := p.names.filter (fun n => !sel.contains n) ++ [m], combined := p.combined ++ sel }
        content := upd s.content m (sel.flatMap s.content)
        owner := upd s.owner m i
        next := s.next + 2 }
    else doReload s i
  | .save clear =>
    let p := s.procs i
    let merged := mergeNames s.disk.names p.atLoad p.names
    let ops := [Op.lock, Op.putNames merged] ++ (if clear then clearOps s.disk p.combined else []) ++ [Op.unlock]
    let already := alreadyObsolete s.disk
    { s with
      disk := run s.disk ops
      procs := upd s.procs i
        { p with names := merged, atLoad := merged, combined := [],
                 toObsolete := p.toObsolete ++ p.combined.filter (fun n => !already.contains n) }
      ever := s.ever ++ merged
      committed := s.committed ++ (privateNames p).flatMap s.content }
  | .obsolete =>
    let p := s.procs i
    { s with
      disk := run s.disk (p.toObsolete.flatMap (obsoleteOps s.chk))
      procs := upd s.procs i { p with toObsolete := [] } }
  | .clearAll => { s with disk := run s.disk (clearOps s.disk []) }

/-- a schedule: which process performs which phase next -/
abbrev Schedule := List (Nat × Act)

def exec (s : Sys) (sched : Schedule) : Sys := sched.foldl (fun st a => step st a.1 a.2) s

/-- an initial system: a consistent directory, nobody has loaded anything -/
def Sys.init (chk : Bool) (d : Disk) (content : Nat → List Nat) (next : Nat) : Sys :=
  ⟨chk, d, fun _ => Proc.init, content, next, d.names, d.names.flatMap content, fun _ => 0⟩

/-- what a reader that lists `pack-names` now can see -/
def visible (s : Sys) : List Nat := s.disk.names.flatMap s.content

/-! ## Content-addressed names

A real pack name is the md5 of the pack's content, so two processes that write
byte-identical packs (two fetches of the same revisions, two packers combining
the same packs) use the SAME name.  `finish` / `repack` above give the new pack
a globally fresh name (the case of different content); the extended actions
below take the name from the schedule (the harness passes the number it gave to
that content hash), everything else is unchanged:

* `NewPack.finish` writes the indices and renames the pack file over whatever is
  there under that name;
* `allocate` raises "Pack … already exists" when the process itself lists the
  name (nothing in memory changes, the operation fails) and otherwise adds it —
  it does not look at `pack-names` or at other processes;
* the revisions of the name are what they were (same hash = same content).

The positive theorems are about `exec` (fresh names); `execX` is what the
driver runs, it coincides with `exec` on schedules without name reuse
(`execX_base`) and `same_name_relisted_witness` shows what name reuse does. -/

inductive XAct where
  | base (a : Act)
  | finishAs (m : Nat) (revs : List Nat)
  | repackAs (m : Nat) (sel : List Nat)
  deriving Repr

def stepX (s : Sys) (i : Nat) : XAct → Sys
  | .base a => step s i a
  | .finishAs m revs =>
    let p := s.procs i
    let d := run s.disk (newPackOps s.chk (upTmp s.next false) m)
    if p.names.contains m then { s with disk := d, next := s.next + 2 }
    else
      { s with
        disk := d
        procs := upd s.procs i { p with names := p.names ++ [m] }
        content := upd s.content m revs
        next := s.next + 2 }
  | .repackAs m sel =>
    let p := s.procs i
    if sel.all (fun n => p.names.contains n) then
      let d := run s.disk (newPackOps s.chk (upTmp s.next true) m)
      if p.names.contains m then { s with disk := d, next := s.next + 2 }
      else
        { s with
          disk := d
          procs := upd s.procs i
            { p with names := p.names.filter (fun n => !sel.contains n) ++ [m], combined := p.combined ++ sel }
          content := upd s.content m (sel.flatMap s.content)
          next := s.next + 2 }
    else doReload s i

abbrev XSchedule := List (Nat × XAct)

def execX (s : Sys) (sched : XSchedule) : Sys := sched.foldl (fun st a => stepX st a.1 a.2) s

end BreezyVerif.C05
