import BreezyVerif.Lemmas.C24
/-! C24 — helper lemmas: decimal lengths, bencode strings, byte order, sorting. -/
namespace BreezyVerif.C24

/-! ### decimal -/

def valRev : List Nat → Nat
  | [] => 0
  | d :: r => d + 10 * valRev r

theorem digitsRev_val (f n : Nat) (h : n < f) : valRev (digitsRev f n) = n := by
  induction f generalizing n with
  | zero => omega
  | succ f ih =>
    unfold digitsRev
    split
    · simp [valRev]
    · simp only [valRev]
      rw [ih (n / 10) (by omega)]; omega

theorem digitsRev_lt (f n : Nat) : ∀ d ∈ digitsRev f n, d < 10 := by
  induction f generalizing n with
  | zero => simp [digitsRev]
  | succ f ih =>
    unfold digitsRev
    split
    · simp; omega
    · intro d hd
      rcases List.mem_cons.mp hd with h | h
      · omega
      · exact ih _ d h

theorem digitsRev_ne_nil (f n : Nat) (h : n < f) : digitsRev f n ≠ [] := by
  cases f with
  | zero => omega
  | succ f => unfold digitsRev; split <;> simp

theorem digitsRev_msd (f n : Nat) (h : n < f) (hn : n ≠ 0) :
    ∀ d, (digitsRev f n).getLast? = some d → d ≠ 0 := by
  induction f generalizing n with
  | zero => omega
  | succ f ih =>
    unfold digitsRev
    split
    · simp; omega
    · intro d hd
      have hne := digitsRev_ne_nil f (n / 10) (by omega)
      cases hT : digitsRev f (n / 10) with
      | nil => exact absurd hT hne
      | cons a t =>
        rw [hT, List.getLast?_cons_cons] at hd
        rw [← hT] at hd
        exact ih (n / 10) (by omega) (by omega) d hd

theorem digitsRev_small (f n : Nat) (h : n < 10) : digitsRev (f + 1) n = [n] := by
  unfold digitsRev; simp [h]

theorem digitsRev_len (f n : Nat) (h : 10 ≤ n) (hf : n < f) : 2 ≤ (digitsRev f n).length := by
  cases f with
  | zero => omega
  | succ f =>
    unfold digitsRev
    have : ¬ n < 10 := by omega
    simp only [this, if_false, List.length_cons]
    have := digitsRev_ne_nil f (n / 10) (by omega)
    cases hT : digitsRev f (n / 10) with
    | nil => exact absurd hT this
    | cons a t => simp

def toDigit (d : Nat) : UInt8 := UInt8.ofNat (48 + d)

theorem toDigit_toNat (d : Nat) (h : d < 10) : (toDigit d).toNat = 48 + d := by
  simp [toDigit, UInt8.toNat_ofNat]; omega

theorem dec_eq (n : Nat) : dec n = (digitsRev (n + 1) n).reverse.map toDigit := rfl

theorem dec_all_digit (n : Nat) : ∀ b ∈ dec n, isDigit b = true := by
  intro b hb
  rw [dec_eq] at hb
  simp only [List.mem_map, List.mem_reverse] at hb
  obtain ⟨d, hd, rfl⟩ := hb
  have := digitsRev_lt _ _ d hd
  simp [isDigit, toDigit_toNat d this]; omega

theorem digitsVal_rev (l : List Nat) (h : ∀ d ∈ l, d < 10) :
    digitsVal (l.reverse.map toDigit) = valRev l := by
  induction l with
  | nil => simp [digitsVal, valRev]
  | cons d r ih =>
    have hr : ∀ x ∈ r, x < 10 := fun x hx => h x (by simp [hx])
    have hd : d < 10 := h d (by simp)
    have ih' := ih hr
    unfold digitsVal at ih' ⊢
    simp only [List.reverse_cons, List.map_append, List.map_cons, List.map_nil, List.foldl_append,
      List.foldl_cons, List.foldl_nil, valRev]
    rw [ih', toDigit_toNat d hd]; omega

theorem digitsVal_dec (n : Nat) : digitsVal (dec n) = n := by
  rw [dec_eq, digitsVal_rev _ (digitsRev_lt _ _), digitsRev_val _ _ (by omega)]

theorem dec_ne_nil (n : Nat) : dec n ≠ [] := by
  rw [dec_eq]
  simp [digitsRev_ne_nil (n + 1) n (by omega)]

theorem dec_small (n : Nat) (h : n < 10) : dec n = [toDigit n] := by
  rw [dec_eq, digitsRev_small n n h]; rfl

theorem dec_head_ne_zero (n : Nat) (h : 10 ≤ n) : ∃ d t u, dec n = d :: t :: u ∧ d ≠ 48 := by
  have hlen := digitsRev_len (n + 1) n h (by omega)
  have hmsd := digitsRev_msd (n + 1) n (by omega) (by omega)
  have hlt := digitsRev_lt (n + 1) n
  rw [dec_eq]
  generalize digitsRev (n + 1) n = l at hlen hmsd hlt
  have hl : (l.reverse.map toDigit).length = l.length := by simp
  match hm : l.reverse.map toDigit, hl with
  | [], hl => simp at hl; omega
  | [_], hl => simp at hl; omega
  | d :: t :: u, _ =>
    refine ⟨d, t, u, rfl, ?_⟩
    have hh : (l.reverse.map toDigit).head? = some d := by rw [hm]; rfl
    simp only [List.head?_map, List.head?_reverse] at hh
    cases hg : l.getLast? with
    | none => simp [hg] at hh
    | some x =>
      simp [hg] at hh
      have hx0 := hmsd x hg
      have hxl : x < 10 := hlt x (List.mem_of_getLast? hg)
      intro e
      have := toDigit_toNat x hxl
      rw [hh, e] at this
      simp at this; omega

theorem takeWhile_stop {α : Type} (p : α → Bool) (l : List α) (y : α) (r : List α)
    (hl : ∀ x ∈ l, p x = true) (hy : p y = false) :
    (l ++ y :: r).takeWhile p = l ∧ (l ++ y :: r).dropWhile p = y :: r := by
  induction l with
  | nil => simp [hy]
  | cons a t ih =>
    have ha : p a = true := hl a (by simp)
    have := ih (fun x hx => hl x (by simp [hx]))
    simp [ha, this]

theorem parseLen_dec (n : Nat) (rest : Bytes) : parseLen (dec n ++ 58 :: rest) = some (n, rest) := by
  have h58 : isDigit 58 = false := by decide
  obtain ⟨h1, h2⟩ := takeWhile_stop isDigit (dec n) 58 rest (dec_all_digit n) h58
  unfold parseLen
  simp only [h1, h2]
  by_cases hn : n < 10
  · rw [dec_small n hn]
    simp only []
    rw [← dec_small n hn, digitsVal_dec]
  · obtain ⟨d, t, u, he, hd⟩ := dec_head_ne_zero n (by omega)
    have hv := digitsVal_dec n
    rw [he] at hv ⊢
    simp only [hd, if_false, hv]

theorem decStr_enc (b rest : Bytes) : decStr (encStr b ++ rest) = some (b, rest) := by
  unfold decStr encStr
  rw [List.append_assoc, List.cons_append, parseLen_dec]
  simp

theorem encStr_head (b : Bytes) : ∃ c t, encStr b = c :: t ∧ isDigit c = true := by
  unfold encStr
  cases h : dec b.length with
  | nil => exact absurd h (dec_ne_nil _)
  | cons c t =>
    refine ⟨c, t ++ 58 :: b, by simp, ?_⟩
    exact dec_all_digit b.length c (by rw [h]; simp)


/-! ### byte order and sorting -/

theorem bytesLt_irrefl (a : Bytes) : bytesLt a a = false := by
  induction a with
  | nil => rfl
  | cons x t ih => simp [bytesLt, ih]

theorem bytesLt_trans (a b c : Bytes) (h1 : bytesLt a b = true) (h2 : bytesLt b c = true) :
    bytesLt a c = true := by
  induction a generalizing b c with
  | nil =>
    cases b with
    | nil => simp [bytesLt] at h1
    | cons y bt =>
      cases c with
      | nil => simp [bytesLt] at h2
      | cons z ct => simp [bytesLt]
  | cons x at' ih =>
    cases b with
    | nil => simp [bytesLt] at h1
    | cons y bt =>
      cases c with
      | nil => simp [bytesLt] at h2
      | cons z ct =>
        simp only [bytesLt] at h1 h2 ⊢
        by_cases hxy : x.toNat < y.toNat
        · by_cases hyz : y.toNat < z.toNat
          · have : x.toNat < z.toNat := by omega
            simp [this]
          · simp only [hyz, if_false] at h2
            by_cases e : y = z
            · subst e; simp [hxy]
            · simp [e] at h2
        · simp only [hxy, if_false] at h1
          by_cases e : x = y
          · subst e
            simp only [if_true] at h1
            by_cases hyz : x.toNat < z.toNat
            · simp [hyz]
            · simp only [hyz, if_false] at h2 ⊢
              by_cases e2 : x = z
              · subst e2; simp only [if_true] at h2 ⊢; exact ih _ _ h1 h2
              · simp [e2] at h2
          · simp [e] at h1

theorem bytesLt_total (a b : Bytes) (h : a ≠ b) : bytesLt a b = true ∨ bytesLt b a = true := by
  induction a generalizing b with
  | nil =>
    cases b with
    | nil => exact absurd rfl h
    | cons y bt => simp [bytesLt]
  | cons x at' ih =>
    cases b with
    | nil => simp [bytesLt]
    | cons y bt =>
      simp only [bytesLt]
      by_cases hxy : x.toNat < y.toNat
      · simp [hxy]
      · by_cases hyx : y.toNat < x.toNat
        · simp [hyx]
        · have e : x = y := UInt8.toNat_inj.mp (by omega)
          subst e
          simp only [hxy, if_false, if_true]
          exact ih bt (fun e => h (by rw [e]))

theorem bytesLt_asymm (a b : Bytes) (h : bytesLt a b = true) : bytesLt b a = false := by
  cases hb : bytesLt b a with
  | false => rfl
  | true => have := bytesLt_trans a b a h hb; rw [bytesLt_irrefl] at this; exact absurd this (by simp)

/-- keys strictly ascending in byte order -/
def Sorted (d : Dict Bytes Bytes) : Prop := d.Pairwise fun x y => bytesLt x.1 y.1 = true

theorem mem_insertKV (e x : Bytes × Bytes) (l : Dict Bytes Bytes) :
    x ∈ insertKV e l ↔ x = e ∨ x ∈ l := by
  induction l with
  | nil => simp [insertKV]
  | cons y r ih =>
    unfold insertKV
    split
    · simp
    · simp only [List.mem_cons, ih]
      constructor
      · rintro (h | h | h) <;> simp [h]
      · rintro (h | h | h) <;> simp [h]

theorem insertKV_sorted (e : Bytes × Bytes) (l : Dict Bytes Bytes) (hs : Sorted l)
    (hk : e.1 ∉ dkeys l) : Sorted (insertKV e l) := by
  induction l with
  | nil => simp [insertKV, Sorted]
  | cons y r ih =>
    unfold Sorted at hs
    rw [List.pairwise_cons] at hs
    have hne : e.1 ≠ y.1 := fun h => hk (by simp [dkeys, h])
    have hkr : e.1 ∉ dkeys r := fun h => hk (by simp only [dkeys, List.map_cons, List.mem_cons]; exact Or.inr h)
    unfold insertKV
    split
    · rename_i hlt
      unfold Sorted
      rw [List.pairwise_cons]
      refine ⟨?_, List.pairwise_cons.mpr hs⟩
      intro a ha
      rcases List.mem_cons.mp ha with rfl | ha
      · exact hlt
      · exact bytesLt_trans _ _ _ hlt (hs.1 a ha)
    · rename_i hlt
      have hgt : bytesLt y.1 e.1 = true := by
        rcases bytesLt_total e.1 y.1 hne with h | h
        · exact absurd h hlt
        · exact h
      unfold Sorted
      rw [List.pairwise_cons]
      refine ⟨?_, ih hs.2 hkr⟩
      intro a ha
      rcases (mem_insertKV e a r).mp ha with rfl | ha
      · exact hgt
      · exact hs.1 a ha

theorem mem_sortKV (x : Bytes × Bytes) (d : Dict Bytes Bytes) : x ∈ sortKV d ↔ x ∈ d := by
  induction d with
  | nil => simp [sortKV]
  | cons y r ih =>
    have : sortKV (y :: r) = insertKV y (sortKV r) := rfl
    rw [this, mem_insertKV, ih]; simp

theorem dkeys_sortKV (k : Bytes) (d : Dict Bytes Bytes) : k ∈ dkeys (sortKV d) ↔ k ∈ dkeys d := by
  simp only [dkeys, List.mem_map]
  constructor <;> rintro ⟨x, hx, rfl⟩
  · exact ⟨x, (mem_sortKV x d).mp hx, rfl⟩
  · exact ⟨x, (mem_sortKV x d).mpr hx, rfl⟩

theorem sortKV_sorted (d : Dict Bytes Bytes) (hn : (dkeys d).Nodup) : Sorted (sortKV d) := by
  induction d with
  | nil => simp [sortKV, Sorted]
  | cons y r ih =>
    simp only [dkeys, List.map_cons, List.nodup_cons] at hn
    have : sortKV (y :: r) = insertKV y (sortKV r) := rfl
    rw [this]
    exact insertKV_sorted y _ (ih (by simpa [dkeys] using hn.2))
      (fun h => hn.1 ((dkeys_sortKV y.1 r).mp h))

theorem Sorted.nodup (d : Dict Bytes Bytes) (h : Sorted d) : (dkeys d).Nodup := by
  induction d with
  | nil => simp [dkeys]
  | cons y r ih =>
    unfold Sorted at h
    rw [List.pairwise_cons] at h
    simp only [dkeys, List.map_cons, List.nodup_cons, List.mem_map]
    refine ⟨?_, ih h.2⟩
    rintro ⟨x, hx, he⟩
    have := h.1 x hx
    rw [he, bytesLt_irrefl] at this
    exact absurd this (by simp)

theorem dget_sortKV (d : Dict Bytes Bytes) (hn : (dkeys d).Nodup) (k : Bytes) :
    dget (sortKV d) k = dget d k := by
  have hs := Sorted.nodup _ (sortKV_sorted d hn)
  cases h : dget d k with
  | none =>
    rw [dget_eq_none_iff] at h ⊢
    exact fun hm => h ((dkeys_sortKV k d).mp hm)
  | some v =>
    exact dget_of_mem _ hs k v ((mem_sortKV (k, v) d).mpr (dget_some_mem d k v h))

/-! ### decoding the items of an encoded dict -/

theorem encItems_cons (k v : Bytes) (t : Dict Bytes Bytes) :
    encItems ((k, v) :: t) = encStr k ++ (encStr v ++ encItems t) := by
  simp [encItems]

theorem isDigit_ne {c : UInt8} (h : isDigit c = true) : c ≠ 101 ∧ c ≠ 105 ∧ c ≠ 108 ∧ c ≠ 100 := by
  simp only [isDigit, Bool.and_eq_true, decide_eq_true_eq] at h
  refine ⟨?_, ?_, ?_, ?_⟩ <;> (intro e; subst e; simp at h)

theorem decItems_enc (items : Dict Bytes Bytes) (hs : Sorted items) (fuel : Nat)
    (hf : items.length < fuel) (last : Option Bytes)
    (hl : ∀ l, last = some l → ∀ e ∈ items, bytesLt l e.1 = true) (rest : Bytes) :
    decItems fuel last (encItems items ++ 101 :: rest) = .ok (items, rest) := by
  induction items generalizing fuel last with
  | nil =>
    cases fuel with
    | zero => simp at hf
    | succ f => simp [encItems, decItems]
  | cons e t ih =>
    obtain ⟨k, v⟩ := e
    cases fuel with
    | zero => simp at hf
    | succ f =>
      unfold Sorted at hs
      rw [List.pairwise_cons] at hs
      obtain ⟨c, ct, hc, hcd⟩ := encStr_head k
      obtain ⟨c', ct', hc', hcd'⟩ := encStr_head v
      have hne := isDigit_ne hcd
      have hne' := isDigit_ne hcd'
      have hin : encItems ((k, v) :: t) ++ 101 :: rest
          = encStr k ++ (encStr v ++ (encItems t ++ 101 :: rest)) := by
        rw [encItems_cons]; simp [List.append_assoc]
      have hb : ∀ l, last = some l → bytesLt l k = true := fun l h => hl l h (k, v) (by simp)
      have hrec := ih hs.2 f (by simp at hf; omega) (some k)
        (fun l hl' e he => by cases hl'; exact hs.1 e he)
      rw [hin]
      unfold decItems
      rw [hc]
      simp only [List.cons_append, hne.1, if_false]
      rw [← List.cons_append, ← hc, decStr_enc]
      rw [hc']
      simp only [List.cons_append, hne'.2.1, hne'.2.2.1, hne'.2.2.2, Bool.or_self, decide_false,
        Bool.false_eq_true, if_false]
      rw [← List.cons_append, ← hc', decStr_enc]
      cases last with
      | none => simp [hrec]
      | some l => simp [hb l rfl, hrec]

theorem encItems_length (items : Dict Bytes Bytes) : items.length ≤ (encItems items).length := by
  induction items with
  | nil => simp
  | cons e t ih =>
    obtain ⟨k, v⟩ := e
    obtain ⟨c, ct, hc, _⟩ := encStr_head k
    rw [encItems_cons, hc]
    simp only [List.length_cons, List.length_append]
    omega

end BreezyVerif.C24
