import BreezyVerif.Lemmas.C27Orphan
import BreezyVerif.Lemmas.C27Lost
/-!
C27 — lock operations leave recoverable state at every crash point.

As in C26 the theorems quantify over every event list: every interleaving of
every program of any number of lockers, where any process may stop at any point
(`Ev.crash`, or simply no further events for it: every reachable state *is* a
crash point of every running operation) and any transport call may raise
(`Ev.fault`).  Nothing restricts who breaks which lock here.
-/
namespace BreezyVerif.C27
open BreezyVerif.C26

/-- **Every crash point is recoverable.**  Starting from a lock that is free or held
with readable info, after any events whatsoever the lock on disk is again
`Free` or `HeldReadable` — `info` is written before the rename into place and
deleted only after the rename away. -/
theorem crash_recoverable (cfg : Nat → Cfg) (h0 : Option Dir) (evs : List Ev)
    (h : recoverable h0 = true) : recoverable ((Sys.init cfg h0).run evs).held = true :=
  (RInv.run ⟨h, PendOk.init cfg h0⟩ evs).disk

example : recoverable (some (some (.ok ⟨7, 3⟩))) = true ∧ recoverable none = true ∧
    recoverable (some none) = false ∧ recoverable (some (some (.bad 1))) = false := by decide

/-- the directory a locker is about to rename into place always carries its complete info
(whatever else happened, including faults and leftovers of crashed lockers) -/
theorem pending_complete (cfg : Nat → Cfg) (h0 : Option Dir) (evs : List Ev) (i : Nat)
    (h : (((Sys.init cfg h0).run evs).lk i).pc = .aRename) :
    (((Sys.init cfg h0).run evs).lk i).pend =
      some (some (.ok ⟨i, (((Sys.init cfg h0).run evs).lk i).nonce⟩)) :=
  (PendOk.init cfg h0).run evs i (by simp [h, Pc.hasPend])

/-- a free lock is acquired directly by any idle live locker: mkdir, put, rename, peek -/
theorem fresh_acquires_free (s : Sys) (i : Nat) (hfree : s.held = none) (hidle : (s.lk i).pc = .idle)
    (hal : s.crashed i = false) :
    ((s.run (acquireEvs i)).lk i).held = true ∧ ((s.run (acquireEvs i)).lk i).last = .ok ∧
      ownerOf (s.run (acquireEvs i)).held = some i := by
  simp [acquireEvs, Sys.run, Sys.step, hal, hidle, hfree, startOp, lstep, peekDir, Locker.done, ownerOf]

/-- a lock held with readable info is freed by `break_lock` of any idle live locker that does not hold it,
which then acquires it -/
theorem fresh_acquires_after_break (s : Sys) (i : Nat) (x : Nonce) (hheld : s.held = some (some (.ok x)))
    (hidle : (s.lk i).pc = .idle) (hnh : (s.lk i).held = false) (hal : s.crashed i = false) :
    (s.run (breakEvs i)).held = none ∧ ((s.run (breakEvs i)).lk i).last = .broken ∧
      ((s.run (breakEvs i ++ acquireEvs i)).lk i).held = true ∧
      ownerOf (s.run (breakEvs i ++ acquireEvs i)).held = some i := by
  simp [breakEvs, acquireEvs, Sys.run, Sys.step, hal, hidle, hnh, hheld, startOp, lstep, peekDir,
    Locker.done, ownerOf]

/-- the hypotheses of the three recovery theorems are satisfiable (free / readable / corrupt lock, idle live locker) -/
example :
    let cfg : Nat → Cfg := fun _ => ⟨1, 1, false⟩
    ((Sys.init cfg).held = none ∧ ((Sys.init cfg).lk 5).pc = .idle ∧ (Sys.init cfg).crashed 5 = false) ∧
    ((Sys.init cfg (some (some (.ok ⟨9, 2⟩)))).held = some (some (.ok ⟨9, 2⟩)) ∧
      ((Sys.init cfg (some (some (.ok ⟨9, 2⟩)))).lk 5).held = false) ∧
    ((Sys.init cfg (some (some (.bad 3)))).held = some (some (.bad 3)) ∧
      (((Sys.init cfg (some (some (.bad 3)))).run (breakCorruptEvs 5 ++ acquireEvs 5)).lk 5).last = .ok) := by
  decide +kernel

/-- **Recovery after any crash**: whatever happened before (any interleaving, crashes, faults, breaks), a live
idle locker that does not hold the lock acquires it directly or after one explicit break. -/
theorem recover_after_any_crash (cfg : Nat → Cfg) (h0 : Option Dir) (evs : List Ev) (i : Nat)
    (h : recoverable h0 = true)
    (hidle : (((Sys.init cfg h0).run evs).lk i).pc = .idle)
    (hnh : (((Sys.init cfg h0).run evs).lk i).held = false)
    (hal : ((Sys.init cfg h0).run evs).crashed i = false) :
    ((((Sys.init cfg h0).run evs).run (acquireEvs i)).lk i).held = true ∨
      ((((Sys.init cfg h0).run evs).run (breakEvs i ++ acquireEvs i)).lk i).held = true := by
  have hr := crash_recoverable cfg h0 evs h
  generalize (Sys.init cfg h0).run evs = s at *
  match hs : s.held with
  | none => exact Or.inl (fresh_acquires_free s i hs hidle hal).1
  | some (some (.ok x)) => exact Or.inr (fresh_acquires_after_break s i x hs hidle hnh hal).2.2.1
  | some none => simp [hs, recoverable, classify] at hr
  | some (some (.bad t)) => simp [hs, recoverable, classify] at hr

/-- non-vacuity: a locker crashes after each call of its attempt / unlock; a second locker recovers -/
example : ∀ k ∈ [0, 1, 2, 3, 4, 5, 6, 7, 8, 9],
    let evs := ([.start 0 .attempt, .step 0, .step 0, .step 0, .step 0, .start 0 .unlock, .step 0, .step 0,
      .step 0, .step 0] : List Ev).take k ++ [.crash 0]
    let s := (Sys.init (fun _ => ⟨1, 1, false⟩)).run evs
    (s.lk 1).pc = .idle ∧ (s.lk 1).held = false ∧ s.crashed 1 = false ∧
      (((s.run (acquireEvs 1)).lk 1).held = true ∨ ((s.run (breakEvs 1 ++ acquireEvs 1)).lk 1).held = true) := by
  decide +kernel

/-- if `held/` carries unparsable info, `break_lock` (→ `force_break_corrupt`) of any idle live locker frees it -/
theorem corrupt_info_break (s : Sys) (i : Nat) (t : Nat) (hheld : s.held = some (some (.bad t)))
    (hidle : (s.lk i).pc = .idle) (hnh : (s.lk i).held = false) (hal : s.crashed i = false) :
    (s.run (breakCorruptEvs i)).held = none ∧ ((s.run (breakCorruptEvs i)).lk i).last = .broken ∧
      ((s.run (breakCorruptEvs i ++ acquireEvs i)).lk i).held = true := by
  simp [breakCorruptEvs, acquireEvs, Sys.run, Sys.step, hal, hidle, hnh, hheld, startOp, lstep, peekDir,
    Locker.done]

/-- **A failed acquisition does not leave the lock held by the failing process (partial).**  In every
reachable state (all interleavings, crashes, faults, breaks, steals): if the lock on disk carries locker `i`'s
nonce with serial `n`, then `i` believes it holds the lock, or is just about to confirm exactly this nonce
(`aConfirm`), or — the missing part — a transport error hit the confirming `peek` of exactly the attempt with
serial `n`, right after its rename succeeded (`n ∈ orphanSerials`; see `failed_attempt_witness`).  The exception
is tied to the nonce on disk: it says nothing about other attempts of the same locker. -/
theorem failed_attempt_not_held_partial (cfg : Nat → Cfg) (h0 : Option Dir) (evs : List Ev) (i n : Nat)
    (h : ownerOf h0 ≠ some i) (ho : ((Sys.init cfg h0).run evs).held = okDir ⟨i, n⟩) :
    (((Sys.init cfg h0).run evs).lk i).held = true ∨
      ((((Sys.init cfg h0).run evs).lk i).pc = .aConfirm ∧ n = (((Sys.init cfg h0).run evs).lk i).nonce) ∨
      n ∈ orphanSerials (Sys.init cfg h0) evs i := by
  have inv := (NInv.init cfg h0 i h).runG evs
  rw [runG_fst] at inv
  exact inv.own n ho

/-- the serial on disk is never ahead of its owner's attempt counter -/
theorem disk_serial_le_current (cfg : Nat → Cfg) (h0 : Option Dir) (evs : List Ev) (i n : Nat)
    (h : ownerOf h0 ≠ some i) (ho : ((Sys.init cfg h0).run evs).held = okDir ⟨i, n⟩) :
    n ≤ (((Sys.init cfg h0).run evs).lk i).nonce := by
  have inv := (NInv.init cfg h0 i h).runG evs
  rw [runG_fst] at inv
  exact inv.le n ho

/-- **The latest attempt leaves nothing behind unless its own confirming peek failed**: a locker that does not
believe it holds the lock and is not about to confirm does not find its current nonce on disk, unless a fault
hit the confirming peek of this very attempt.  In particular a later attempt (fresh serial) that fails by
contention, by a fault at mkdir / put / rename / cleanup or inside a steal's `force_break` leaves no lock of
its own, whatever happened to earlier attempts. -/
theorem latest_attempt_leaves_no_nonce (cfg : Nat → Cfg) (h0 : Option Dir) (evs : List Ev) (i : Nat)
    (h : ownerOf h0 ≠ some i)
    (hflag : (((Sys.init cfg h0).run evs).lk i).held = false)
    (hpc : (((Sys.init cfg h0).run evs).lk i).pc ≠ .aConfirm)
    (hno : (((Sys.init cfg h0).run evs).lk i).nonce ∉ orphanSerials (Sys.init cfg h0) evs i) :
    ((Sys.init cfg h0).run evs).held ≠ okDir ⟨i, (((Sys.init cfg h0).run evs).lk i).nonce⟩ := by
  intro ho
  rcases failed_attempt_not_held_partial cfg h0 evs i _ h ho with h1 | ⟨h1, _⟩ | h1
  · rw [hflag] at h1; cases h1
  · exact hpc h1
  · exact hno h1

/-- a serial is orphaned only by a fault injected into the confirming peek of a live locker whose current
serial it is -/
theorem orphan_serial_origin (s : Sys) (evs : List Ev) (e : Ev) (i n : Nat)
    (h : n ∈ orphanSerials s (evs ++ [e]) i) :
    n ∈ orphanSerials s evs i ∨
      (∃ k, e = .fault i k ∧ (s.run evs).crashed i = false ∧ ((s.run evs).lk i).pc = .aConfirm ∧
        ((s.run evs).lk i).nonce = n) := by
  unfold orphanSerials at h ⊢
  rw [runG_append] at h
  simp only [runG] at h
  have := orphanStep_origin _ _ e i n h
  rw [runG_fst] at this
  exact this

/-- non-vacuity: (a) the lock on disk carries locker 0's nonce right after its rename (second disjunct) and after
its confirming peek (first disjunct), no fault involved; (b) after a fault at the confirming peek of attempt 1
the serial 1 is orphaned and on disk (third disjunct); locker 2 breaks that lock; locker 0's second attempt
(serial 2) then loses the race against locker 2 and fails by contention: its nonce is not on disk and serial 2
is not orphaned (`latest_attempt_leaves_no_nonce` applies) -/
example :
    let cfg : Nat → Cfg := fun _ => ⟨1, 1, false⟩
    let s3 := (Sys.init cfg).run [.start 0 .attempt, .step 0, .step 0, .step 0]
    let s4 := s3.run [.step 0]
    s3.held = okDir ⟨0, 1⟩ ∧ (s3.lk 0).pc = .aConfirm ∧ (s3.lk 0).held = false ∧ (s3.lk 0).nonce = 1 ∧
      s4.held = okDir ⟨0, 1⟩ ∧ (s4.lk 0).held = true ∧
      orphanSerials (Sys.init cfg) [.start 0 .attempt, .step 0, .step 0, .step 0, .step 0] 0 = [] := by
  decide +kernel

example :
    let cfg : Nat → Cfg := fun _ => ⟨1, 1, false⟩
    let evs1 : List Ev := [.start 0 .attempt, .step 0, .step 0, .step 0, .fault 0 .T]
    let evs2 : List Ev := evs1 ++ [.start 2 .brk, .step 2, .step 2, .step 2, .step 2, .step 2, .step 2,
      .start 2 .attempt, .step 2, .step 2, .step 2, .step 2,
      .start 0 .attempt, .step 0, .step 0, .step 0, .step 0, .step 0, .step 0]
    let s1 := (Sys.init cfg).run evs1
    let s2 := (Sys.init cfg).run evs2
    s1.held = okDir ⟨0, 1⟩ ∧ (s1.lk 0).held = false ∧ (s1.lk 0).pc = .idle ∧
      orphanSerials (Sys.init cfg) evs1 0 = [1] ∧
      (s2.lk 0).held = false ∧ (s2.lk 0).pc = .idle ∧ (s2.lk 0).nonce = 2 ∧ (s2.lk 0).last = .contention ∧
      orphanSerials (Sys.init cfg) evs2 0 = [1] ∧ s2.held = okDir ⟨2, 1⟩ := by
  decide +kernel

/-- **Witness (finding).**  Locker 0 attempts the free lock; its rename succeeds; the confirming `peek`
raises a transport error: `attempt_lock` fails, `_lock_held` is false, and the lock on disk stays held with
locker 0's info. -/
theorem failed_attempt_witness :
    let s := (Sys.init (fun _ => ⟨1, 1, false⟩)).run
      [.start 0 .attempt, .step 0, .step 0, .step 0, .fault 0 .T]
    (s.lk 0).pc = .idle ∧ (s.lk 0).last = .faultT ∧ (s.lk 0).held = false ∧
      s.held = some (some (.ok ⟨0, 1⟩)) := by
  decide +kernel

/-- `_lock_held` is set only by a confirming peek that reads the locker's own nonce; faults never set it -/
theorem flag_set_only_by_successful_confirm (id : Nat) (cfg : Nat → Cfg) (crashed : Nat → Bool) (me : Locker)
    (held : Option Dir) (k : FaultKind) :
    ((lstep id cfg crashed me held).1.held = true →
      me.held = true ∨ (me.pc = .aConfirm ∧ held = some (some (.ok ⟨id, me.nonce⟩)))) ∧
    (lfault k me).held = me.held := by
  refine ⟨fun h => ?_, lfault_held k me⟩
  rcases lstep_flag id cfg crashed me held h with h1 | ⟨h1, h2, _⟩
  · exact Or.inl h1
  · exact Or.inr ⟨h1, h2⟩

/-- a fault at any call of an attempt other than the confirming peek: the failed attempt leaves `held/`
exactly as it was and `_lock_held` false (solo run to completion; `k` = index of the failing call) -/
theorem failed_attempt_solo (s : Sys) (i : Nat) (fk : FaultKind) (k : Nat) (hk : k < 3)
    (hidle : (s.lk i).pc = .idle) (hnh : (s.lk i).held = false) (hal : s.crashed i = false)
    (hsteal : (s.cfg i).steal = false) :
    let evs := [Ev.start i .attempt] ++ List.replicate k (Ev.step i) ++ [Ev.fault i fk] ++
      List.replicate 4 (Ev.step i)
    (s.run evs).held = s.held ∧ ((s.run evs).lk i).held = false ∧ ((s.run evs).lk i).pc = .idle := by
  have hk' : k = 0 ∨ k = 1 ∨ k = 2 := by omega
  rcases hk' with rfl | rfl | rfl
  · simp [Sys.run, Sys.step, hal, hidle, hnh, startOp, lstep, lfault, Locker.done]
  · simp [Sys.run, Sys.step, hal, hidle, hnh, startOp, lstep, lfault, Locker.done, dropPend]
  · cases hh : s.held with
    | none =>
      simp [Sys.run, Sys.step, hal, hidle, hnh, hh, startOp, lstep, lfault, Locker.done, dropPend, peekDir]
    | some d =>
      cases hp : peekDir (some d) <;>
        simp [Sys.run, Sys.step, hal, hidle, hnh, hh, hp, hsteal, startOp, lstep, lfault, Locker.done,
          dropPend]

/-- non-vacuity of `failed_attempt_solo`: the rename of a contended attempt raises; the attempt cleans up its
pending directory and fails with the other holder's lock untouched -/
example :
    let cfg : Nat → Cfg := fun _ => ⟨1, 1, false⟩
    let s := (Sys.init cfg (some (some (.ok ⟨9, 2⟩))))
    let evs := [Ev.start 0 .attempt] ++ List.replicate 2 (Ev.step 0) ++ [Ev.fault 0 .P] ++ List.replicate 4 (Ev.step 0)
    (s.lk 0).pc = .idle ∧ (s.cfg 0).steal = false ∧ (s.run evs).held = s.held ∧
      ((s.run evs).lk 0).last = .contention ∧ ((s.run evs).lk 0).pend = none ∧ ((s.run evs).lk 0).junk = [] := by
  decide +kernel

/-! ## `held/` without `info`: the one unrecoverable state -/

/-- **`held/` without an info file is stuck for ever.**  From a lock directory whose `held/` exists but
contains no `info` (it is never *reached*: `crash_recoverable`), whatever any number of lockers do —
attempts, breaks, unlocks, with any faults and crashes — `held/` stays as it is and nobody ever holds the
lock: `peek()` reports "not held" while every rename into place fails. -/
theorem heldNoInfo_unrecoverable (cfg : Nat → Cfg) (evs : List Ev) (j : Nat) :
    ((Sys.init cfg (some none)).run evs).held = some none ∧
      (((Sys.init cfg (some none)).run evs).lk j).held = false := by
  have hq : Quiet (Sys.init cfg (some none)) := fun j => ⟨rfl, by simp [Sys.init]⟩
  obtain ⟨h1, _, h3⟩ := stuck_run (s := Sys.init cfg (some none)) rfl hq evs
  exact ⟨h1, by rw [h3 j]; rfl⟩

/-- what the two recovery procedures answer there: a complete attempt of any idle live locker ends in
`LockContention` with its pending directory cleaned up, and `break_lock` sees nothing to break -/
theorem heldNoInfo_witness (s : Sys) (i : Nat) (hheld : s.held = some none) (hidle : (s.lk i).pc = .idle)
    (hnh : (s.lk i).held = false) (hal : s.crashed i = false) :
    let sa := s.run ([Ev.start i .attempt] ++ List.replicate 6 (Ev.step i))
    let sb := s.run [Ev.start i .brk, Ev.step i]
    sa.held = some none ∧ (sa.lk i).pc = .idle ∧ (sa.lk i).last = .contention ∧ (sa.lk i).held = false ∧
      (sa.lk i).pend = none ∧
      sb.held = some none ∧ (sb.lk i).pc = .idle ∧ (sb.lk i).last = .nothing := by
  simp [Sys.run, Sys.step, hal, hidle, hnh, hheld, startOp, lstep, peekDir, Locker.done, dropPend]

example : recoverable (some none) = false ∧ classify (some none) = .heldNoInfo := by decide

/-! ## a failing *stealing* attempt -/

/-- **A fault at any call inside the `force_break` of a stealing attempt** (`locks.steal_dead`, the holder is
known dead; `k` = index of the failing call: peek, rename away, read, delete, rmdir): the attempt cleans its
pending directory up and fails, `_lock_held` stays false, and the lock on disk is not the failing locker's — it
is still the dead holder's when the fault came before the rename away, and free afterwards. -/
theorem failed_steal_solo (s : Sys) (i : Nat) (x : Nonce) (fk : FaultKind) (k : Nat) (hk : k < 5)
    (hheld : s.held = okDir x) (hx : x.owner ≠ i)
    (hidle : (s.lk i).pc = .idle) (hnh : (s.lk i).held = false) (hal : s.crashed i = false)
    (hsteal : (s.cfg i).steal = true) (hdead : stealable s.cfg s.crashed i x = true) :
    let evs := [Ev.start i .attempt] ++ List.replicate 4 (Ev.step i) ++ List.replicate k (Ev.step i) ++
      [Ev.fault i fk] ++ List.replicate 2 (Ev.step i)
    ((s.run evs).lk i).held = false ∧ ((s.run evs).lk i).pc = .idle ∧ ((s.run evs).lk i).pend = none ∧
      ownerOf (s.run evs).held ≠ some i ∧
      (k ≤ 1 → (s.run evs).held = s.held) ∧ (2 ≤ k → (s.run evs).held = none) := by
  have hk' : k = 0 ∨ k = 1 ∨ k = 2 ∨ k = 3 ∨ k = 4 := by omega
  simp only [okDir] at hheld
  rcases hk' with rfl | rfl | rfl | rfl | rfl <;>
    simp [Sys.run, Sys.step, hal, hidle, hnh, hheld, hsteal, hdead, hx, startOp, lstep, lfault, peekDir,
      Locker.done, dropPend, dropTmp, breakErr, ownerOf]

/-- non-vacuity of `failed_steal_solo`: locker 1 took the lock and died; locker 0 (same host and user,
`locks.steal_dead`) steals; the rename away of the dead holder's lock succeeded, the read of the broken
directory raises -/
example :
    let cfg : Nat → Cfg := fun j => ⟨1, 1, j == 0⟩
    let s := (Sys.init cfg).run [.start 1 .attempt, .step 1, .step 1, .step 1, .step 1, .crash 1]
    let evs := [Ev.start 0 .attempt] ++ List.replicate 4 (Ev.step 0) ++ List.replicate 2 (Ev.step 0) ++
      [Ev.fault 0 .T] ++ List.replicate 2 (Ev.step 0)
    s.held = okDir ⟨1, 1⟩ ∧ (s.lk 0).pc = .idle ∧ (s.cfg 0).steal = true ∧
      stealable s.cfg s.crashed 0 ⟨1, 1⟩ = true ∧
      (s.run evs).held = none ∧ ((s.run evs).lk 0).last = .faultT ∧ ((s.run evs).lk 0).junk = [(.B, some (.ok ⟨1, 1⟩))] := by
  decide +kernel

/-! ## lost replies -/

/-- **Every crash point stays recoverable when renames may take effect and then raise** (lost replies, any
number, mixed with every other event; both variants of the contention handler). -/
theorem crash_recoverable_lost (fx : Bool) (cfg : Nat → Cfg) (h0 : Option Dir) (evs : List Ev27)
    (h : recoverable h0 = true) : recoverable (run27 fx (Sys.init cfg h0) evs).held = true :=
  ((RInvW.init cfg h0 h).run27 fx evs).disk

/-- the layer is conservative: without lost replies the extended machine is the machine of C26 -/
theorem run27_base (cfg : Nat → Cfg) (h0 : Option Dir) (evs : List Ev) :
    run27 false (Sys.init cfg h0) (evs.map .base) = (Sys.init cfg h0).run evs := by
  have key : ∀ (evs : List Ev) (s : Sys), PendOk s → run27 false s (evs.map .base) = s.run evs := by
    intro evs
    induction evs with
    | nil => intro s _; rfl
    | cons e es ih =>
      intro s hp
      simp only [List.map_cons, run27, List.foldl_cons, Sys.run]
      have hstep : step27 false s (.base e) = s.step e := by
        cases e with
        | step i =>
          simp only [step27]
          have h1 : ¬ (s.crashed i = false ∧ (s.lk i).pc = .aRename ∧ (s.lk i).pend = none) := by
            intro ⟨_, hpc, hn⟩
            have := hp i (by simp [hpc, Pc.hasPend])
            rw [hn] at this; simp [okDir] at this
          simp [h1]
        | _ => rfl
      rw [hstep]
      exact ih (s.step e) (hp.step e)
  exact key evs _ (PendOk.init cfg h0)

/-- **Witness (finding).**  Locker 0 attempts the free lock; its rename takes effect but the reply is lost
(the call raises a transport error): the contention handler peeks, finds a live holder — itself — and
raises `LockContention`; `attempt_lock` fails, `_lock_held` is false, and the lock on disk stays held with
locker 0's info. -/
theorem lost_reply_rename_witness :
    let s := run27 false (Sys.init (fun _ => ⟨1, 1, false⟩))
      [.base (.start 0 .attempt), .base (.step 0), .base (.step 0), .lost 0 .T, .base (.step 0), .base (.step 0)]
    (s.lk 0).pc = .idle ∧ (s.lk 0).last = .contention ∧ (s.lk 0).held = false ∧
      s.held = some (some (.ok ⟨0, 1⟩)) := by
  decide +kernel

/-- with a contention handler that recognises its own current nonce the same schedule ends with the lock
held: mkdir, put, rename (reply lost), peek, confirming peek -/
theorem lost_reply_rename_fixed (s : Sys) (i : Nat) (k : FaultKind) (hfree : s.held = none)
    (hidle : (s.lk i).pc = .idle) (hal : s.crashed i = false) :
    let evs : List Ev27 := [.base (.start i .attempt), .base (.step i), .base (.step i), .lost i k,
      .base (.step i), .base (.step i)]
    ((run27 true s evs).lk i).held = true ∧ ((run27 true s evs).lk i).last = .ok ∧
      ownerOf (run27 true s evs).held = some i := by
  simp [run27, step27, lostReply, Sys.step, hal, hidle, hfree, startOp, lstep, peekDir, Locker.done, ownerOf]

/-- a lost reply of the rename in `unlock`: the lock is free, the `releasing.*` directory stays behind, and
the locker still believes it holds the lock (`_lock_held = False` comes after the rename) -/
example :
    let s := run27 false (Sys.init (fun _ => ⟨1, 1, false⟩))
      ([.start 0 .attempt, .step 0, .step 0, .step 0, .step 0, .start 0 .unlock, .step 0].map .base ++ [.lost 0 .P])
    s.held = none ∧ (s.lk 0).held = true ∧ (s.lk 0).last = .swallowed ∧ (s.lk 0).junk = [(.R, some (.ok ⟨0, 1⟩))] := by
  decide +kernel

end BreezyVerif.C27
