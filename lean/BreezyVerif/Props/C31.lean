import BreezyVerif.Lemmas.C31D
import BreezyVerif.Lemmas.C31E
/-
C31 — smart server clients cannot reach files outside the served directory.

Everything is stated for ALL client paths (byte strings of any length), all
root client paths, all served directories, every transport base reached by
cloning, and every userdir filter that maps canonical escaped paths to
canonical escaped paths (proved for `_expand_userdirs` over an arbitrary
expander with that property, and for the posix `expanduser` over any table of
canonical home directories).

"inside" means: the absolute location the operating system finally resolves
(`locate`: userdir filter → chroot combination → LocalTransport unescape →
lexical `..` resolution by the OS) has the served directory as a prefix.
-/
namespace BreezyVerif.C31

/-- `urlutils.joinpath("/", p)` returns "/" followed by segments that contain
no "/" and are neither "." nor ".." -/
theorem joinpath_clean (a r : Bytes) (h : joinpathRoot a = .ok r) :
    ∃ segs, r = SL :: joinSl segs ∧ ∀ s ∈ segs, Clean s :=
  joinpath_clean_aux h

example : joinpathRoot [97, 47, 47, 46, 46, 47, 46, 46, 47, 98] = .ok [47, 98] := by decide
example : joinpathRoot [97, 47, 46, 46, 47, 46, 46] = .error .aboveRoot := by decide

/-- `translate_client_path` returns "." or "./s₁/…/sₙ" where the sᵢ are the
escaped forms of clean segments (so no sᵢ is ".." and none contains "/") -/
theorem translate_shape (root cp r : Bytes) (h : translate root cp = .ok r) :
    r = [DOT] ∨ ∃ segs : List Seg, (∀ s ∈ segs, Clean s) ∧ r = DOT :: SL :: joinSl (segs.map escape) := by
  unfold translate at h
  split at h
  · cases h
  · exact translateAbs_shape root _ r h

/-- the result of `translate_client_path` is a canonical escaped string -/
theorem translate_canon (root cp r : Bytes) (h : translate root cp = .ok r) : Canon r := by
  unfold translate at h
  split at h
  · cases h
  · exact translateAbs_canon root _ r h

/-- a canonical escaped relpath, on any transport cloned at canonical segments,
behind any filter preserving canonical strings, is resolved inside the served
directory -/
theorem locate_canon_inside (cfg : Cfg) (cloneStk : List Seg) (rel : Bytes) (loc : List Seg)
    (hf : ∀ p, Canon p → Canon (cfg.filter p))
    (hs : ∀ s ∈ cloneStk, GoodSeg Canon s) (hr : Canon rel)
    (h : locate cfg cloneStk rel = .ok loc) : inside cfg.rootDir loc :=
  locate_inside tame_canon cfg cloneStk rel loc hf hs hr h

/-- **containment for every non-VFS verb**: for every client path and root
client path, `transport_from_client_path` either raises or yields a transport
such that every operation with a canonical relpath `rel` below it (in
particular "" and ".bzr/…") lands inside the served directory -/
theorem translate_inside (cfg : Cfg) (root cp r rel : Bytes) (loc : List Seg)
    (hf : ∀ p, Canon p → Canon (cfg.filter p))
    (ht : translate root cp = .ok r) (hrel : Canon rel)
    (h : locate cfg (combine [] r) rel = .ok loc) : inside cfg.rootDir loc :=
  locate_canon_inside cfg (combine [] r) rel loc hf
    (combine_good tame_canon (by simp) (translate_canon root cp r ht)) hrel h

/-- **containment for every VFS verb with the fixed `VfsRequest.translate_client_path`**
(unescape first): the translated path lands inside the served directory — this
covers %2E%2E, %2F, doubly encoded forms, '~' and NUL -/
theorem vfs_translate_then_chroot_inside (cfg : Cfg) (root cp r : Bytes) (loc : List Seg)
    (hf : ∀ p, Canon p → Canon (cfg.filter p))
    (ht : vfsTranslate true root cp = .ok r)
    (h : locate cfg [] r = .ok loc) : inside cfg.rootDir loc := by
  have hc : Canon r := by
    unfold vfsTranslate at ht
    simp only [if_true] at ht
    split at ht
    · cases ht
    · cases hu : unescape cp with
      | error e => rw [hu] at ht; cases ht
      | ok u => rw [hu] at ht; exact translate_canon root u r ht
  exact locate_canon_inside cfg [] r loc hf (by simp) hc h

/-- **as found** (`VfsRequest.translate_client_path` unescapes after the
normalising join): containment holds for every client path that contains no
'%' at all.  PARTIAL: the excluded family (client paths with percent escapes)
contains real breakouts, see `vfs_as_found_escape_witness`. -/
theorem vfs_as_found_inside_partial (cfg : Cfg) (root cp r : Bytes) (loc : List Seg)
    (hfc : ∀ p, Canon p → Canon (cfg.filter p)) (hfn : ∀ p, NoPct p → NoPct (cfg.filter p))
    (hcp : PCT ∉ cp)
    (ht : vfsTranslate false root cp = .ok r)
    (h : locate cfg [] r = .ok loc) : inside cfg.rootDir loc := by
  unfold vfsTranslate at ht
  simp only [Bool.false_eq_true, if_false] at ht
  cases hx : translate root cp with
  | error e => rw [hx] at ht; cases ht
  | ok x =>
    rw [hx] at ht
    simp only [] at ht
    have hcx := translate_canon root cp x hx
    unfold unescape at ht
    split at ht
    · cases ht
    · simp only [] at ht
      split at ht
      · -- decoded: the result contains no '%'
        cases ht
        have hn : NoPct (pctDecode x) := by
          unfold translate at hx
          split at hx
          · cases hx
          · unfold translateAbs at hx
            split at hx
            · cases hx; unfold NoPct; decide
            · split at hx
              · cases hj : joinpathRoot (List.drop root.length (addSlash cp)) with
                | error e => rw [hj] at hx; cases hx
                | ok rel =>
                  rw [hj] at hx
                  simp only [] at hx
                  split at hx
                  · cases hx
                    rw [pctDecode_escape]
                    intro hm
                    cases hm with
                    | tail _ hm' =>
                      rcases joinpath_bytes hj PCT hm' with e | e
                      · exact absurd e (by decide)
                      · have := List.mem_of_mem_drop e
                        unfold addSlash at this
                        split at this
                        · exact hcp this
                        · cases this with
                          | tail _ t => exact hcp t
                  · cases hx
              · cases hx
        exact locate_inside tame_noPct cfg [] _ loc hfn (by simp) hn h
      · cases ht
        exact locate_inside tame_canon cfg [] _ loc hfc (by simp) hcx h

/-- the client path `..%2Fcanary` given to a VFS verb of the as-found code is
translated to `./..%2Fcanary`, which the chroot transport passes on unchanged
and the local transport decodes to `../canary`: with the served directory
/srv/root the file touched is /srv/canary -/
theorem vfs_as_found_escape_witness :
    let cfg : Cfg := { rootDir := [[115, 114, 118], [114, 111, 111, 116]], basePath := none, filter := id }
    let cp : Bytes := [46, 46, 37, 50, 70, 99, 97, 110, 97, 114, 121]
    vfsTranslate false [SL] cp = .ok (DOT :: SL :: cp)
      ∧ locate cfg [] (DOT :: SL :: cp) = .ok [[115, 114, 118], [99, 97, 110, 97, 114, 121]]
      ∧ ¬ inside cfg.rootDir [[115, 114, 118], [99, 97, 110, 97, 114, 121]] := by
  decide

/-- the same client path is refused by the fixed variant -/
example : vfsTranslate true [SL] [46, 46, 37, 50, 70, 99, 97, 110, 97, 114, 121] = .error .aboveRoot := by
  decide

/-- a single chroot layer decodes `%%32E%%32E/canary` to `%2E%2E/canary`, which
the local transport decodes once more to `../canary` -/
theorem chroot_double_decode_witness :
    let cfg : Cfg := { rootDir := [[115, 114, 118], [114, 111, 111, 116]], basePath := none, filter := id }
    let cp : Bytes := [37, 37, 51, 50, 69, 37, 37, 51, 50, 69, 47, 99, 97, 110, 97, 114, 121]
    vfsTranslate false [SL] cp = .ok (DOT :: SL :: cp)
      ∧ locate cfg [] (DOT :: SL :: cp) = .ok [[115, 114, 118], [99, 97, 110, 97, 114, 121]] := by
  decide

/-- `_expand_userdirs` returns the path unchanged, or the part of the expanded
path (with a trailing "/") that follows the base path -/
theorem userdir_inside_or_untouched (expander : Bytes → Bytes) (base path : Bytes) :
    expandUserdirs expander base path = path
      ∨ (path.head? = some TILDE
          ∧ base ++ expandUserdirs expander base path = withSlash (expander path)) := by
  unfold expandUserdirs
  split
  · rename_i ht
    simp only []
    split
    · rename_i hp
      right
      obtain ⟨t, ht'⟩ := List.isPrefixOf_iff_prefix.mp hp
      refine ⟨ht, ?_⟩
      rw [← ht']
      simp
    · exact Or.inl rfl
  · exact Or.inl rfl

/-- `_expand_userdirs` maps canonical escaped paths to canonical escaped paths
whenever the expander does (any base path) -/
theorem userdir_filter_canon (expander : Bytes → Bytes) (he : ∀ p, Canon p → Canon (expander p))
    (base p : Bytes) (hp : Canon p) : Canon (expandUserdirs expander base p) :=
  expandUserdirs_canon he base hp

/-- posix `expanduser` over any table whose home directories (trailing slashes
stripped) are canonical preserves canonical strings -/
theorem expanduser_canon (tbl : List (Bytes × Bytes)) (ht : ∀ e ∈ tbl, Canon (rstripSl e.2))
    (p : Bytes) (hp : Canon p) : Canon (expanduser tbl p) :=
  expanduser_canon' ht hp

/-- non-vacuity of the filter hypothesis: the userdir filter of a server whose
only user lives in /srv/root/home/u, base path /srv/root/ -/
example : ∀ p, Canon p →
    Canon (expandUserdirs (expanduser [([], [47, 115, 114, 118, 47, 114, 111, 111, 116, 47, 104, 111, 109, 101, 47, 117])])
      [47, 115, 114, 118, 47, 114, 111, 111, 116, 47] p) := fun p hp =>
  userdir_filter_canon _ (fun q hq => expanduser_canon _ (by
    intro e he
    simp only [List.mem_singleton] at he
    subst he
    have : rstripSl [47, 115, 114, 118, 47, 114, 111, 111, 116, 47, 104, 111, 109, 101, 47, 117]
        = escape [47, 115, 114, 118, 47, 114, 111, 111, 116, 47, 104, 111, 109, 101, 47, 117] := by decide
    rw [this]
    exact canon_escape _) q hq) _ p hp

example : expandUserdirs (expanduser [([], [47, 115, 47, 104])]) [47, 115, 47] [126, 47, 120]
    = [104, 47, 120, 47] := by decide


/-! ### home directories that are not canonical escaped strings

`_expand_userdirs` hands the part of the expanded OS path below the base path to
the chroot as if it were a URL path (it is not escaped).  Containment survives
for every home directory in which each "%" starts an upper-case escape of a byte
outside `A-Za-z0-9-._~/` (`isMild`; in particular every home directory without a
"%" — spaces, non-ASCII bytes, ... are fine), and fails otherwise. -/

/-- `_expand_userdirs` over posix `expanduser` maps mild paths to mild paths
when every home directory of the table is mild -/
theorem userdir_filter_mild (tbl : List (Bytes × Bytes))
    (ht : ∀ e ∈ tbl, isMild (rstripSl e.2) = true) (base p : Bytes) (hp : Mild p) :
    Mild (expandUserdirs (expanduser tbl) base p) :=
  expandUserdirs_mild (fun _ hq => expanduser_mild (fun e he => mild_of_isMild _ (ht e he)) hq) base hp

/-- **containment behind the userdir filter for arbitrary mild home directories**:
with `_expand_userdirs` over `expanduser` installed, every operation with a
canonical relpath on a transport cloned at canonical segments lands inside the
served directory — for every user table whose home directories are mild, every
base path and every served directory -/
theorem userdir_locate_inside (rootDir : List Seg) (base : Bytes) (tbl : List (Bytes × Bytes))
    (cloneStk : List Seg) (rel : Bytes) (loc : List Seg)
    (ht : ∀ e ∈ tbl, isMild (rstripSl e.2) = true)
    (hs : ∀ s ∈ cloneStk, GoodSeg Canon s) (hr : Canon rel)
    (h : locate { rootDir := rootDir, basePath := some base,
                  filter := expandUserdirs (expanduser tbl) base } cloneStk rel = .ok loc) :
    inside rootDir loc :=
  locate_inside tame_mild _ cloneStk rel loc
    (fun p hp => userdir_filter_mild tbl ht base p hp)
    (fun s h' => goodSeg_mild_of_canon (hs s h')) (mild_of_canon hr) h

/-- the same for a whole request: any client path, any root client path, VFS
(`vfs = true`, unescape first) or non-VFS translation -/
theorem translate_userdir_inside (rootDir : List Seg) (base : Bytes) (tbl : List (Bytes × Bytes))
    (vfs : Bool) (root cp r rel : Bytes) (loc : List Seg)
    (ht : ∀ e ∈ tbl, isMild (rstripSl e.2) = true)
    (htr : (if vfs then vfsTranslate true root cp else translate root cp) = .ok r) (hrel : Canon rel)
    (h : locate { rootDir := rootDir, basePath := some base,
                  filter := expandUserdirs (expanduser tbl) base } (combine [] r) rel = .ok loc) :
    inside rootDir loc := by
  have hc : Canon r := by
    cases vfs with
    | false => exact translate_canon root cp r (by simpa using htr)
    | true =>
      simp only [if_true] at htr
      unfold vfsTranslate at htr
      simp only [if_true] at htr
      split at htr
      · cases htr
      · cases hu : unescape cp with
        | error e => rw [hu] at htr; cases htr
        | ok u => rw [hu] at htr; exact translate_canon root u r htr
  exact userdir_locate_inside rootDir base tbl (combine [] r) rel loc ht
    (combine_good tame_canon (by simp) hc) hrel h

/-- non-vacuity: a home directory with a space (not a canonical escaped string) is mild -/
example : ∀ e ∈ [(([] : Bytes), ([47, 115, 114, 118, 47, 114, 111, 111, 116, 47, 104, 111, 109, 101, 47, 109, 121, 32, 117, 115, 101, 114] : Bytes))],
    isMild (rstripSl e.2) = true := by decide

example :
    locate { rootDir := [[115, 114, 118], [114, 111, 111, 116]],
             basePath := some [47, 115, 114, 118, 47, 114, 111, 111, 116, 47],
             filter := expandUserdirs (expanduser [([], [47, 115, 114, 118, 47, 114, 111, 111, 116, 47, 104, 111, 109, 101, 47, 109, 121, 32, 117, 115, 101, 114])])
               [47, 115, 114, 118, 47, 114, 111, 111, 116, 47] } [] [46, 47, 126, 47, 102]
      = .ok [[115, 114, 118], [114, 111, 111, 116], [104, 111, 109, 101], [109, 121, 32, 117, 115, 101, 114], [102]] := by
  decide

/-- a home directory that is NOT mild: the current user's home is the directory
literally named `..%2Fevil` inside the served directory /srv/root (base path
/srv/root/).  The VFS client path `~/f` is translated to `./~/f`, expanded to
`..%2Fevil/f/`, kept by the chroot and decoded by the local transport to
`../evil/f`: the file touched is /srv/evil/f -/
theorem userdir_percent_home_witness :
    let home : Bytes := [47, 115, 114, 118, 47, 114, 111, 111, 116, 47, 46, 46, 37, 50, 70, 101, 118, 105, 108]
    let base : Bytes := [47, 115, 114, 118, 47, 114, 111, 111, 116, 47]
    let cfg : Cfg := { rootDir := [[115, 114, 118], [114, 111, 111, 116]], basePath := some base,
                       filter := expandUserdirs (expanduser [([], home)]) base }
    isMild (rstripSl home) = false
      ∧ vfsTranslate true [SL] [126, 47, 102] = .ok [46, 47, 126, 47, 102]
      ∧ locate cfg [] [46, 47, 126, 47, 102] = .ok [[115, 114, 118], [101, 118, 105, 108], [102]]
      ∧ ¬ inside cfg.rootDir [[115, 114, 118], [101, 118, 105, 108], [102]] := by
  decide

/-- the PROPOSED FIX of `_expand_userdirs` (unescape, expand, escape the remainder) maps canonical
paths to canonical paths for EVERY expander — no condition on the home directories is left -/
theorem userdir_fixed_canon (expander : Bytes → Bytes) (base p : Bytes) (hp : Canon p) :
    Canon (expandUserdirsFx expander base p) := by
  unfold expandUserdirsFx
  split
  · cases unescape p with
    | error e => exact hp
    | ok fs =>
      simp only []
      split
      · exact canon_escape _
      · exact hp
  · exact hp

/-- with the proposed fix containment behind the userdir filter holds for every expander, i.e. for
arbitrary home directories (compare `userdir_percent_home_witness`) -/
theorem userdir_fixed_locate_inside (rootDir : List Seg) (base : Bytes) (expander : Bytes → Bytes)
    (cloneStk : List Seg) (rel : Bytes) (loc : List Seg)
    (hs : ∀ s ∈ cloneStk, GoodSeg Canon s) (hr : Canon rel)
    (h : locate { rootDir := rootDir, basePath := some base,
                  filter := expandUserdirsFx expander base } cloneStk rel = .ok loc) :
    inside rootDir loc :=
  locate_canon_inside _ cloneStk rel loc (fun p hp => userdir_fixed_canon expander base p hp) hs hr h

/-- the home directory of `userdir_percent_home_witness` under the proposed fix: `~/f` stays inside -/
example :
    locate { rootDir := [[115, 114, 118], [114, 111, 111, 116]], basePath := some [47, 115, 114, 118, 47, 114, 111, 111, 116, 47],
             filter := expandUserdirsFx (expanduser [([], [47, 115, 114, 118, 47, 114, 111, 111, 116, 47, 46, 46, 37, 50, 70, 101, 118, 105, 108])])
               [47, 115, 114, 118, 47, 114, 111, 111, 116, 47] } [] [46, 47, 126, 47, 102]
      = .ok [[115, 114, 118], [114, 111, 111, 116], [46, 46, 37, 50, 70, 101, 118, 105, 108], [102]] := by
  decide

/-- the jail accepts a URL iff no jail is installed or the URL is an allowed
base without its last character or has an allowed base as a prefix -/
theorem jail_rejects_outside (allowed : Option (List Bytes)) (url : Bytes) :
    jailAllows allowed url = true ↔
      allowed = none ∨ ∃ bases, allowed = some bases ∧ ∃ b ∈ bases, url = b.dropLast ∨ b <+: url := by
  cases allowed with
  | none => simp [jailAllows]
  | some bases =>
    simp only [jailAllows, List.any_eq_true, isChildUrl, Bool.or_eq_true, beq_iff_eq,
      List.isPrefixOf_iff_prefix, reduceCtorEq, Option.some.injEq, false_or, exists_eq_left']

/-- for an allowed base "p/" the accepted URLs are exactly p itself and the
URLs that extend p at a "/" boundary: a sibling such as "p2/…" is refused -/
theorem jail_segment_boundary (p url : Bytes) :
    jailAllows (some [p ++ [SL]]) url = true ↔ url = p ∨ ∃ rest, url = p ++ SL :: rest := by
  simp only [jailAllows, List.any_cons, List.any_nil, Bool.or_false]
  exact isChildUrl_iff p url


/-! ### from the URL the jail admits to the location that is opened

`_pre_open_hook` looks at `transport.base`.  For a transport built from a URL
(`get_transport_from_url(prefix ++ p)`, the only way a request can name a
location that is not a clone of its backing transport) `.base` has the dot
segments resolved while operations use the path as written (`urlBase`,
`urlBackingRel`, `urlLocate` in the model).  The link between "admitted" and
"inside" therefore needs the URL to be in normal form (`normalisedUrl`:
canonical escaping — no `%2F`, `%2E`, `%41`, `%%32E`, lower-case hex — and no
".." segment; "." and empty segments are harmless), and fails without it. -/

/-- the default jail root (the backing transport itself, `cloneBase [] = ""`)
admits every URL that has its prefix -/
theorem jail_default_allows_all (pfx x : Bytes) :
    jailAllows (some [pfx ++ cloneBase []]) (pfx ++ x) = true := by
  simp [jailAllows, isChildUrl, cloneBase]

/-- **default jail**: every operation with a normal-form relpath through a
transport built from a normal-form URL lands inside the served directory —
all URL paths, all relpaths, with or without a userdir filter (any filter that
maps canonical paths to mild ones, e.g. `_expand_userdirs` over mild homes) -/
theorem jail_url_inside_served (cfg : Cfg) (p rel : Bytes) (loc : List Seg)
    (hf : ∀ q, Canon q → Mild (cfg.filter q))
    (hp : normalisedUrl p = true) (hr : normalisedUrl rel = true)
    (h : urlLocate cfg p rel = .ok loc) : inside cfg.rootDir loc := by
  obtain ⟨hcp, hnp⟩ := normalisedUrl_spec hp
  obtain ⟨hcr, hnr⟩ := normalisedUrl_spec hr
  have hcb : Canon (rawJoin p rel) := by
    unfold rawJoin
    split
    · exact hcr
    · exact canon_append (canon_withSlash hcp) hcr
  have hnd : ∀ s ∈ splitSl (rawJoin p rel), s ≠ dotdot := fun s hs => by
    rcases mem_splitSl_rawJoin hs with h' | h'
    · exact hnp s h'
    · exact hnr s h'
  unfold urlLocate at h
  cases ho : osRel (urlBackingRel cfg p rel) with
  | error e => rw [ho] at h; cases h
  | ok u =>
    rw [ho] at h
    cases h
    unfold urlBackingRel at ho
    cases hb : cfg.basePath with
    | none =>
      rw [hb] at ho
      rcases osRel_locate_nodotdot (root := cfg.rootDir) (mild_of_canon hcb) hnd ho with e | ⟨_, e⟩
      · rw [e]; exact List.prefix_append _ _
      · rw [e]; exact List.prefix_append _ _
    | some b =>
      rw [hb] at ho
      simp only [] at ho
      exact osRel_inside tame_mild (combine_good tame_mild (stk := []) (by simp) (hf _ hcb)) ho

/-- `_expand_userdirs` leaves every path that does not start with "~" alone (so hypothesis `hid`
of `jail_allows_inside` holds for every URL path not starting with "~") -/
theorem userdir_untouched_without_tilde (expander : Bytes → Bytes) (base p : Bytes)
    (h : p.head? ≠ some TILDE) : expandUserdirs expander base p = p := by
  unfold expandUserdirs
  simp [h]

/-- **the jail**: let the jail root be the transport cloned at the segments `J`
(its `.base` is `pfx ++ cloneBase J`, its directory is the served directory
followed by the decoded segments).  If `_pre_open_hook` admits the `.base` of
the transport built from the URL `pfx ++ p`, and `p` is in normal form, then
every operation with a normal-form relpath through that transport lands
inside the jail root's directory.  For ALL prefixes, jail roots, URL paths and
relpaths.  `hid`: no userdir filter, or the filter leaves this path alone
(`_expand_userdirs` does for every path not starting with "~").  `hu`: the jail
segments contain no escapes, or the path decodes to valid UTF-8 (otherwise
`unescape` hands the path back undecoded, see `jail_invalid_utf8_sibling_witness`). -/
theorem jail_allows_inside (cfg : Cfg) (pfx : Bytes) (J : List Seg) (p rel : Bytes) (loc : List Seg)
    (hJ : ∀ s ∈ J, goodJailSeg s = true)
    (hp : normalisedUrl p = true) (hr : normalisedUrl rel = true)
    (hid : cfg.basePath = none ∨ cfg.filter (rawJoin p rel) = rawJoin p rel)
    (hu : (∀ s ∈ J, pctDecode s = s) ∨ validUtf8 (pctDecode (urlBackingRel cfg p rel)) = true)
    (ha : jailAllows (some [pfx ++ cloneBase J]) (pfx ++ urlBase p) = true)
    (h : urlLocate cfg p rel = .ok loc) :
    inside (cfg.rootDir ++ J.reverse.map pctDecode) loc := by
  obtain ⟨hcp, hnp⟩ := normalisedUrl_spec hp
  obtain ⟨hcr, hnr⟩ := normalisedUrl_spec hr
  have hJ' : ∀ s ∈ J, JailSeg s := fun s hs => jailSeg_of_good (hJ s hs)
  -- the jail base is a segment prefix of the kept segments of the URL path
  have hpre : J.reverse <+: segsK p := by
    have h1 : isChildUrl (pfx ++ cloneBase J) (pfx ++ urlBase p) = true := by
      simpa [jailAllows] using ha
    have h2 := jail_prefix_segs hJ' (isChildUrl_cloneBase h1)
    rwa [segsK_snoc_sl, segsK_urlBase (mild_of_canon hcp) hnp] at h2
  have hcb : Canon (rawJoin p rel) := by
    unfold rawJoin
    split
    · exact hcr
    · exact canon_append (canon_withSlash hcp) hcr
  have hnd : ∀ s ∈ splitSl (rawJoin p rel), s ≠ dotdot := fun s hs => by
    rcases mem_splitSl_rawJoin hs with h' | h'
    · exact hnp s h'
    · exact hnr s h'
  -- what reaches the local transport: mild, no "..", same kept segments
  have hbk : Mild (urlBackingRel cfg p rel) ∧ (∀ s ∈ splitSl (urlBackingRel cfg p rel), s ≠ dotdot)
      ∧ segsK (urlBackingRel cfg p rel) = segsK p ++ segsK rel := by
    unfold urlBackingRel
    cases hb : cfg.basePath with
    | none => exact ⟨mild_of_canon hcb, hnd, segsK_rawJoin p rel⟩
    | some b =>
      simp only []
      have hx : cfg.filter (rawJoin p rel) = rawJoin p rel := by
        rcases hid with e | e
        · rw [hb] at e; cases e
        · exact e
      rw [hx]
      obtain ⟨e1, e2, e3⟩ := stkPath_combine_nodotdot (mild_of_canon hcb) hnd
      exact ⟨e2, e3, by rw [e1, segsK_rawJoin]⟩
  obtain ⟨hm, hn, hk⟩ := hbk
  unfold urlLocate at h
  cases ho : osRel (urlBackingRel cfg p rel) with
  | error e => rw [ho] at h; cases h
  | ok u =>
    rw [ho] at h
    cases h
    unfold inside
    rcases osRel_locate_nodotdot (root := cfg.rootDir) hm hn ho with e | ⟨hv, e⟩
    · rw [e, hk, List.map_append]
      exact (List.prefix_append_right_inj _).mpr ((hpre.map pctDecode).trans (List.prefix_append _ _))
    · rw [e, hk]
      rcases hu with hd | hd
      · have : J.reverse.map pctDecode = J.reverse := by
          rw [List.map_congr_left (g := id) (fun s hs => hd s (List.mem_reverse.mp hs))]
          simp
        rw [this]
        exact (List.prefix_append_right_inj _).mpr (hpre.trans (List.prefix_append _ _))
      · rw [hd] at hv; cases hv

/-- non-vacuity of `jail_allows_inside`: served directory /srv/root, jail root
cloned at "a", URL path `a/x%20y/`, relpath `.bzr/branch-format`: admitted, and
resolved to /srv/root/a/x y/.bzr/branch-format -/
example :
    let cfg : Cfg := { rootDir := [[115, 114, 118], [114, 111, 111, 116]], basePath := none, filter := id }
    let pfx : Bytes := [99, 58, 47, 47, 47]
    let p : Bytes := [97, 47, 120, 37, 50, 48, 121, 47]
    let rel : Bytes := [46, 98, 122, 114, 47, 98, 114, 97, 110, 99, 104, 45, 102, 111, 114, 109, 97, 116]
    (∀ s ∈ [[97]], goodJailSeg s = true) ∧ normalisedUrl p = true ∧ normalisedUrl rel = true
      ∧ jailAllows (some [pfx ++ cloneBase [[97]]]) (pfx ++ urlBase p) = true
      ∧ urlLocate cfg p rel = .ok [[115, 114, 118], [114, 111, 111, 116], [97], [120, 32, 121], [46, 98, 122, 114],
          [98, 114, 97, 110, 99, 104, 45, 102, 111, 114, 109, 97, 116]] := by
  decide

/-- the same jail refuses the sibling URL `ab/` and the parent `../` is admitted only by
the default jail -/
example : jailAllows (some [[99, 58, 47, 47, 47] ++ cloneBase [[97]]]) ([99, 58, 47, 47, 47] ++ urlBase [97, 98, 47]) = false := by
  decide

/-- F45 family jail-url-encoded-slash-dotdot: the URL path `..%2F` (chroot only).
`.base` is `..%2F/` — admitted by the default jail — while the operation on `.bzr`
hands `..%2F/.bzr` to the local transport, which decodes it to `..//.bzr`:
the location is /srv/.bzr, outside the served directory /srv/root -/
theorem jail_unnormalised_encoded_slash_witness :
    let cfg : Cfg := { rootDir := [[115, 114, 118], [114, 111, 111, 116]], basePath := none, filter := id }
    let pfx : Bytes := [99, 58, 47, 47, 47]
    let p : Bytes := [46, 46, 37, 50, 70]
    normalisedUrl p = false
      ∧ jailAllows (some [pfx ++ cloneBase []]) (pfx ++ urlBase p) = true
      ∧ urlLocate cfg p [46, 98, 122, 114] = .ok [[115, 114, 118], [46, 98, 122, 114]]
      ∧ ¬ inside cfg.rootDir [[115, 114, 118], [46, 98, 122, 114]] := by
  decide

/-- F45 family jail-url-double-encoded-dotdot: the URL path `%%32E%%32E/` with a
userdir filter layer above the chroot: the chroot layer turns `%%32E%%32E/.bzr`
into `%2E%2E/.bzr`, the local transport decodes that to `../.bzr` -/
theorem jail_unnormalised_double_encoded_witness :
    let cfg : Cfg := { rootDir := [[115, 114, 118], [114, 111, 111, 116]], basePath := some [47], filter := id }
    let pfx : Bytes := [99, 58, 47, 47, 47]
    let p : Bytes := [37, 37, 51, 50, 69, 37, 37, 51, 50, 69, 47]
    normalisedUrl p = false
      ∧ jailAllows (some [pfx ++ cloneBase []]) (pfx ++ urlBase p) = true
      ∧ urlLocate cfg p [46, 98, 122, 114] = .ok [[115, 114, 118], [46, 98, 122, 114]]
      ∧ ¬ inside cfg.rootDir [[115, 114, 118], [46, 98, 122, 114]] := by
  decide

/-- F45 family jail-url-dotdot-unnormalised: the URL path `../` (chroot only):
`.base` is the root of the chroot, the operation uses `../.bzr` as written -/
theorem jail_unnormalised_dotdot_witness :
    let cfg : Cfg := { rootDir := [[115, 114, 118], [114, 111, 111, 116]], basePath := none, filter := id }
    let pfx : Bytes := [99, 58, 47, 47, 47]
    let p : Bytes := [46, 46, 47]
    normalisedUrl p = false
      ∧ urlBase p = []
      ∧ jailAllows (some [pfx ++ cloneBase []]) (pfx ++ urlBase p) = true
      ∧ urlLocate cfg p [46, 98, 122, 114] = .ok [[115, 114, 118], [46, 98, 122, 114]]
      ∧ ¬ inside cfg.rootDir [[115, 114, 118], [46, 98, 122, 114]] := by
  decide

/-- why `hu` is needed: jail root cloned at `a%20b` (directory "a b"), URL path
`a%20b/%FF/` in normal form and admitted; the decoded bytes are not UTF-8, so
`unescape` hands the path back undecoded and the location is the SIBLING
directory literally named `a%20b` — inside the served directory, outside the
jail root's directory -/
theorem jail_invalid_utf8_sibling_witness :
    let cfg : Cfg := { rootDir := [[115, 114, 118], [114, 111, 111, 116]], basePath := none, filter := id }
    let pfx : Bytes := [99, 58, 47, 47, 47]
    let J : List Seg := [[97, 37, 50, 48, 98]]
    let p : Bytes := [97, 37, 50, 48, 98, 47, 37, 70, 70, 47]
    (∀ s ∈ J, goodJailSeg s = true) ∧ normalisedUrl p = true
      ∧ jailAllows (some [pfx ++ cloneBase J]) (pfx ++ urlBase p) = true
      ∧ urlLocate cfg p [102] = .ok [[115, 114, 118], [114, 111, 111, 116], [97, 37, 50, 48, 98], [37, 70, 70], [102]]
      ∧ ¬ inside (cfg.rootDir ++ J.reverse.map pctDecode)
            [[115, 114, 118], [114, 111, 111, 116], [97, 37, 50, 48, 98], [37, 70, 70], [102]] := by
  decide

example : jailAllows (some [[114, 47]]) [114, 50, 47] = false := by decide
example : jailAllows (some [[114, 47]]) [114, 47, 120, 47] = true := by decide
example : jailAllows (some []) [114, 47] = false := by decide

/-! ## the jail while several connections are served concurrently

`jail_info` is a `threading.local` (`JailTL`: one slot per connection-handler thread).
Traces are arbitrary interleavings of `setup_jail` / `teardown_jail` / control-directory opens
of any number of threads. -/

/-- whatever other threads do (any number of setups / teardowns / opens, in any order), this
thread's jail is what it was -/
theorem jail_other_threads_never_change_mine (st : JailTL) (ops : List JOp) (t : Tid)
    (h : ∀ op ∈ ops, op.tid ≠ t) : (JailTL.final st ops) t = st t :=
  JailTL.final_other st ops t h

/-- NON-INTERFERENCE between connections: in every interleaved trace, the verdicts of the jail
on thread `t`'s opens are exactly the verdicts it gets when its own operations run alone -/
theorem jail_verdicts_are_per_connection (ops : List JOp) (t : Tid) :
    (runTL JailTL.init ops).filter (fun r => r.1 == t)
      = runTL JailTL.init (ops.filter (fun o => o.tid == t)) :=
  runTL_projection _ _ ops t rfl

/-- DURING A REQUEST the jail holds: after `setup_jail` on thread `t` with roots `roots`, and
before `t` itself tears it down or sets it up again (`mid`: anything by other threads, opens
by `t`), an open by `t` passes the hook iff `_pre_open_hook` admits it for `roots` — whatever
happened before (`pre`) and whatever else is going on. -/
theorem jail_holds_during_request (pre mid post : List JOp) (t : Tid) (roots : List Bytes) (url : Bytes)
    (hmid : ∀ op ∈ mid, op.tid ≠ t ∨ op.writes = false) :
    runTL JailTL.init (pre ++ .setup t roots :: (mid ++ .open_ t url :: post))
      = runTL JailTL.init (pre ++ .setup t roots :: mid)
        ++ (t, jailAllows (some roots) url)
        :: runTL (JailTL.final JailTL.init (pre ++ .setup t roots :: mid)) post := by
  have e : pre ++ JOp.setup t roots :: (mid ++ JOp.open_ t url :: post)
      = (pre ++ JOp.setup t roots :: mid) ++ (JOp.open_ t url :: post) := by simp
  rw [e, runTL_append]
  congr 1
  have hs : (JailTL.final JailTL.init (pre ++ JOp.setup t roots :: mid)) t = some roots := by
    rw [JailTL.final_append]
    simp only [JailTL.final]
    rw [JailTL.final_nowrite _ mid t hmid]
    simp [JailTL.step, JailTL.set]
  simp only [runTL, hs]

/-- SHARED-STATE VARIANT (a plain object instead of `threading.local`): connection 1's complete
request (`setup`, `teardown`) in the middle of connection 0's request leaves connection 0
unjailed — the URL outside the served directory passes the hook; with per-thread state it is
refused. -/
theorem jail_shared_state_witness :
    let root : Bytes := [99, 58, 47, 47, 47]                        -- "c:///"
    let outside : Bytes := [102, 105, 108, 101, 58, 47, 47, 47, 120, 47]  -- "file:///x/"
    let trace := [JOp.setup 0 [root], .setup 1 [root], .open_ 1 root, .teardown 1, .open_ 0 outside, .teardown 0]
    runShared none trace = [(1, true), (0, true)] ∧ runTL JailTL.init trace = [(1, true), (0, false)] := by
  decide

example : (∀ op ∈ [JOp.setup 1 [], .open_ 0 [1], .teardown 1], op.tid ≠ 0 ∨ op.writes = false) := by decide

end BreezyVerif.C31
