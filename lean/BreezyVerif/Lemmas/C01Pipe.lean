import BreezyVerif.Model.C01
/-!
C01 — the commit pipeline over a write group: what a prefix of the program
does to the state (`run_group`, `run_published`), and why aborting inside the
`try` block restores the state (`abort_foldl_group`).
-/
namespace BreezyVerif.C01

/-- operations that only touch the open write group -/
def isGroupOp : Op → Bool
  | .startGroup | .addText _ | .checkPointless | .addInv | .message | .addRev => true
  | _ => false

theorem abort_effect_group (new : Rev) (s : PState) (op : Op) (h : isGroupOp op = true) :
    abortGroup (effect new s op) = abortGroup s := by
  cases op <;> simp_all [effect, abortGroup, isGroupOp]

theorem abort_foldl_group (new : Rev) : ∀ (ops : List Op) (s : PState), (∀ op ∈ ops, isGroupOp op = true) →
    abortGroup (ops.foldl (effect new) s) = abortGroup s := by
  intro ops
  induction ops with
  | nil => intro s _; rfl
  | cons op rest ih =>
    intro s h
    simp only [List.foldl_cons]
    rw [ih _ (fun o ho => h o (List.mem_cons_of_mem _ ho)), abort_effect_group new s op (h op (by simp))]

theorem abort_clean {s : PState} (h : s.clean = true) : abortGroup s = s := by
  cases s
  simp_all [PState.clean, abortGroup]

theorem groupOps_all (texts : List Key) : ∀ op ∈ Op.startGroup :: groupOps texts, isGroupOp op = true := by
  intro op h
  simp only [groupOps, List.mem_cons, List.mem_append, List.mem_map] at h
  rcases h with h | ⟨k, _, h⟩ | h | h | h | h | h
  all_goals (first | (subst h; rfl) | cases h)

theorem program_split (texts : List Key) (bound : Bool) :
    program texts bound = (Op.startGroup :: groupOps texts) ++ (Op.commitGroup :: lateOps bound) := by
  simp [program]

theorem program_length (texts : List Key) (bound : Bool) :
    (program texts bound).length = (groupOps texts).length + 2 + (lateOps bound).length := by
  simp [program]; omega

theorem lateOps_length (bound : Bool) : (lateOps bound).length = if bound then 7 else 5 := by
  cases bound <;> rfl

/-- a prefix that stops before `commit_write_group` only touches the write group -/
theorem take_group (texts : List Key) (bound : Bool) {e : Nat} (he : e ≤ (groupOps texts).length + 1) :
    ∀ op ∈ (program texts bound).take e, isGroupOp op = true := by
  intro op hop
  rw [program_split, List.take_append_of_le_length (by simpa using he)] at hop
  exact groupOps_all texts op (List.mem_of_mem_take hop)

theorem foldl_addText (new : Rev) : ∀ (texts : List Key) (s : PState),
    (texts.map Op.addText).foldl (effect new) s = { s with pTexts := s.pTexts ++ texts } := by
  intro texts
  induction texts with
  | nil => intro s; simp
  | cons k rest ih =>
    intro s
    simp only [List.map_cons, List.foldl_cons, ih, effect]
    simp

/-- the state just before `commit_write_group` -/
theorem run_group (new : Rev) (texts : List Key) (s : PState) :
    (Op.startGroup :: groupOps texts).foldl (effect new) s =
      { s with inGroup := true, pTexts := s.pTexts ++ texts, pInvs := s.pInvs ++ [new], pRevs := s.pRevs ++ [new] } := by
  simp only [groupOps, List.foldl_cons, List.foldl_append, foldl_addText, effect, List.foldl_nil]

/-- the state just after `commit_write_group`, from a clean state -/
def published (new : Rev) (texts : List Key) (s : PState) : PState :=
  { s with revs := s.revs ++ [new], invs := s.invs ++ [new], texts := s.texts ++ texts }

theorem run_published (new : Rev) (texts : List Key) (s : PState) (hc : s.clean = true) :
    ((Op.startGroup :: groupOps texts) ++ [Op.commitGroup]).foldl (effect new) s = published new texts s := by
  rw [List.foldl_append, run_group]
  cases s
  simp_all [PState.clean, effect, published]

/-- a prefix that includes `commit_write_group` -/
theorem take_late (new : Rev) (texts : List Key) (bound : Bool) (s : PState) (hc : s.clean = true) (j : Nat) :
    ((program texts bound).take ((groupOps texts).length + 2 + j)).foldl (effect new) s =
      ((lateOps bound).take j).foldl (effect new) (published new texts s) := by
  have : program texts bound = ((Op.startGroup :: groupOps texts) ++ [Op.commitGroup]) ++ lateOps bound := by
    simp [program]
  rw [this, List.take_append]
  have hl : ((Op.startGroup :: groupOps texts) ++ [Op.commitGroup]).length = (groupOps texts).length + 2 := by simp
  rw [List.take_of_length_le (by omega), hl, List.foldl_append, run_published new texts s hc]
  congr 2
  omega

end BreezyVerif.C01
