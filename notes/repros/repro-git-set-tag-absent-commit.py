"""C24 finding `git-set-tag-absent-commit-breaks-ref` — standalone repro.

usage: /venv/bin/python repro-git-set-tag-absent-commit.py [/path/to/breezy/checkout]   (default /repo)

LocalGitTagDict.set_tag (breezy/git/branch.py) documents "GhostTagsNotSupported:
If the revision ID is not present in the repository" but only checks that the
revision id *parses* as a git revision id.  For a `git-v1:<sha>` revision the
repository does not have it writes refs/tags/<name> = <sha>, a broken ref:
get_tag_dict() skips it ("does not point to a valid object").  When tags are
merged from a non-git tag store (bzr branch, MemoryTags) with overwrite=True,
a destination tag whose source definition is such a revision DISAPPEARS from the
destination's tag dictionary (neither the destination nor the source value is
readable); `updates` claims the tag now has the source value.
InterTagsFromGitToLocalGit (git -> git) handles the same situation correctly
(KeyError -> the tag is skipped, the destination's definition is kept).

exit 1 = the destination tag is lost, exit 0 = kept.
"""
import os
import shutil
import sys
import tempfile

sys.path.insert(0, sys.argv[1] if len(sys.argv) > 1 else "/repo")
home = tempfile.mkdtemp(prefix="c24-repro-home-", dir="/var/tmp")
os.environ["HOME"] = os.environ["BRZ_HOME"] = home
import breezy  # noqa: E402

breezy.initialize()
import breezy.bzr  # noqa: E402,F401
import breezy.git  # noqa: E402,F401
from breezy import trace  # noqa: E402
from breezy.controldir import ControlDir, format_registry  # noqa: E402

trace.be_quiet(True)
scratch = tempfile.mkdtemp(prefix="c24-repro-", dir="/var/tmp")
try:
    def tree(name, fmt):
        return ControlDir.create_standalone_workingtree(
            os.path.join(scratch, name), format=format_registry.make_controldir(fmt))

    wt = tree("dest-git", "git")
    r1 = wt.commit("one", committer="T <t@example.com>")
    dest = wt.branch
    dest.tags.set_tag("release", r1)
    dest.tags.set_tag("other", r1)

    # a bzr branch (e.g. one imported from git) whose `release` tag is on a git
    # revision that was never pushed to dest-git
    unpushed = b"git-v1:" + b"12" * 20
    src = tree("src-bzr", "2a").branch
    src.tags.set_tag("release", unpushed)

    before = dict(dest.tags.get_tag_dict())
    updates, conflicts = src.tags.merge_to(dest.tags, overwrite=True)
    after = ControlDir.open(wt.basedir).open_branch().tags.get_tag_dict()
    print("before :", before)
    print("updates:", updates, "conflicts:", sorted(conflicts))
    print("after  :", after)
    lost = [n for n in before if n not in after]
finally:
    shutil.rmtree(scratch, ignore_errors=True)
    shutil.rmtree(home, ignore_errors=True)
if lost:
    print("C24 VIOLATED: destination tag(s) %r are no longer readable (broken ref written)" % lost)
    sys.stdout.flush()
    os._exit(1)
print("ok: every destination tag is still readable")
sys.stdout.flush()
os._exit(0)
