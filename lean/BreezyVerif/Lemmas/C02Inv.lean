import BreezyVerif.Lemmas.C02
/-
C02: what one `record` step produces, and the repository invariant `WF`
preserved by every well-formed commit.
-/
namespace BreezyVerif.C02

/-! ### association-list facts -/

theorem lookup_map_snd {α β : Type} (l : List (Nat × α)) (g : Nat → α → β) (f : Nat) :
    (l.map fun t => (t.1, g t.1 t.2)).lookup f = (l.lookup f).map (g f) := by
  induction l with
  | nil => rfl
  | cons t l ih =>
    obtain ⟨k, v⟩ := t
    simp only [List.map_cons, List.lookup_cons]
    by_cases e : f = k
    · subst e; simp
    · have : (f == k) = false := by simp [e]
      simp only [this, ih]

theorem mem_of_lookup {α : Type} {l : List (Nat × α)} {f : Nat} {a : α}
    (h : l.lookup f = some a) : (f, a) ∈ l := by
  induction l with
  | nil => simp at h
  | cons t l ih =>
    obtain ⟨k, v⟩ := t
    simp only [List.lookup_cons] at h
    by_cases e : f = k
    · subst e
      simp only [beq_self_eq_true, Option.some.injEq] at h
      subst h
      exact List.mem_cons_self
    · have : (f == k) = false := by simp [e]
      simp only [this] at h
      exact List.mem_cons_of_mem _ (ih h)

theorem lookup_of_mem_nodup {α : Type} {l : List (Nat × α)} {f : Nat} {a : α}
    (hn : (l.map (·.1)).Nodup) (h : (f, a) ∈ l) : l.lookup f = some a := by
  induction l with
  | nil => simp at h
  | cons t l ih =>
    obtain ⟨k, v⟩ := t
    simp only [List.map_cons, List.nodup_cons, List.mem_map, not_exists, not_and] at hn
    simp only [List.lookup_cons]
    rcases List.mem_cons.mp h with h | h
    · simp only [Prod.mk.injEq] at h
      simp [h.1, h.2]
    · have : f ≠ k := fun e => hn.1 (f, a) h e
      have : (f == k) = false := by simp [this]
      simp only [this]
      exact ih hn.2 h

/-! ### one `record` step -/

theorem mkRec_inv_lookup (st : State) (c : Commit) (f : FileId) :
    (mkRec st c).inv.lookup f = (c.tree.lookup f).map fun a => (recordOne st c f a).1 := by
  simp only [mkRec]
  exact lookup_map_snd c.tree (fun f a => (recordOne st c f a).1) f

/-- the two outcomes of `recordOne`: carry-over of the unique head's entry, or a
new version whose parents are the heads -/
theorem recordOne_cases (st : State) (c : Commit) (f : FileId) (a : Attr) :
    (∃ x pe, heads (textsOf st) f (candidates st c.parents f) = [x] ∧
        entryWithRev st c.parents f x = some pe ∧ carryTest pe.attr a = true ∧
        recordOne st c f a = (pe, none)) ∨
    (recordOne st c f a = (⟨a, c.id⟩, some (heads (textsOf st) f (candidates st c.parents f))) ∧
      ¬ ∃ x pe, heads (textsOf st) f (candidates st c.parents f) = [x] ∧
        entryWithRev st c.parents f x = some pe ∧ carryTest pe.attr a = true) := by
  simp only [recordOne]
  split
  · rename_i x hx
    split
    · rename_i pe hw
      split
      · rename_i ht
        left; exact ⟨x, pe, hx, hw, ht, by first | rfl | rw [hx]⟩
      · rename_i ht
        right
        refine ⟨by first | rfl | rw [hx], ?_⟩
        rintro ⟨x', pe', h1, h2, h3⟩
        rw [hx] at h1
        simp only [List.cons.injEq, and_true] at h1
        subst h1
        rw [hw] at h2
        simp only [Option.some.injEq] at h2
        subst h2
        exact ht h3
    · rename_i hw
      right
      refine ⟨by first | rfl | rw [hx], ?_⟩
      rintro ⟨x', pe', h1, h2, _⟩
      rw [hx] at h1
      simp only [List.cons.injEq, and_true] at h1
      subst h1
      rw [hw] at h2
      simp at h2
  · rename_i hn
    right
    refine ⟨rfl, ?_⟩
    rintro ⟨x', pe', h1, _, _⟩
    exact hn x' h1

theorem entryWithRev_some {st : State} {ps : List Rev} {f : FileId} {x : Rev} {pe : Entry}
    (h : entryWithRev st ps f x = some pe) :
    pe.rev = x ∧ ∃ p ∈ ps, entryIn st f p = some pe := by
  simp only [entryWithRev] at h
  have h1 := List.find?_some h
  have h2 := List.mem_of_find?_eq_some h
  simp only [candEntries, List.mem_filterMap] at h2
  exact ⟨by simpa using h1, h2⟩

theorem entryWithRev_isSome {st : State} {ps : List Rev} {f : FileId} {x : Rev}
    (h : x ∈ candidates st ps f) : ∃ pe, entryWithRev st ps f x = some pe := by
  simp only [candidates, mem_dedup, List.mem_map] at h
  obtain ⟨e, he, hx⟩ := h
  cases hw : entryWithRev st ps f x with
  | some pe => exact ⟨pe, rfl⟩
  | none =>
    simp only [entryWithRev, List.find?_eq_none] at hw
    exact absurd (by simpa using hx) (hw e he)

theorem candidates_entry {st : State} {ps : List Rev} {f : FileId} {x : Rev}
    (h : x ∈ candidates st ps f) : ∃ p ∈ ps, ∃ e, entryIn st f p = some e ∧ e.rev = x := by
  simp only [candidates, mem_dedup, List.mem_map, candEntries, List.mem_filterMap] at h
  obtain ⟨e, ⟨p, hp, he⟩, hx⟩ := h
  exact ⟨p, hp, e, he, hx⟩

/-! ### the invariant -/

structure WF (st : State) : Prop where
  nodup : (ids st).Nodup
  revs : ∀ r ∈ st, ∀ f e, r.inv.lookup f = some e → e.rev ∈ ids st
  sound : ∀ r ∈ st, ∀ f e, r.inv.lookup f = some e → entryIn st f e.rev = some e
  anc : ∀ r ∈ st, ∀ f e, r.inv.lookup f = some e → e.rev = r.id ∨ e.rev ∈ ranc st r.id
  key : ∀ r ∈ st, ∀ f e, r.inv.lookup f = some e → ∃ ps, ((f, e.rev), ps) ∈ textsOf st

theorem id_mem_ids {st : State} {r : Rec} (h : r ∈ st) : r.id ∈ ids st :=
  List.mem_map.mpr ⟨r, h, rfl⟩

theorem entryIn_mem {st : State} {f : FileId} {p : Rev} {e : Entry} (h : entryIn st f p = some e) :
    ∃ r ∈ st, r.id = p ∧ r.inv.lookup f = some e := by
  simp only [entryIn] at h
  cases hi : invOf st p with
  | none => simp [hi] at h
  | some i =>
    simp only [hi] at h
    obtain ⟨r, hr, h1, h2⟩ := invOf_mem hi
    exact ⟨r, hr, h1, by rw [h2]; exact h⟩

theorem WF.cand_mem {st : State} (w : WF st) {ps : List Rev} {f : FileId} {x : Rev}
    (h : x ∈ candidates st ps f) : x ∈ ids st := by
  obtain ⟨p, _, e, he, hx⟩ := candidates_entry h
  obtain ⟨r, hr, _, hl⟩ := entryIn_mem he
  exact hx ▸ w.revs r hr f e hl

theorem entryIn_cons_ne (r : Rec) (st : State) (f : FileId) (p : Rev) (h : p ≠ r.id) :
    entryIn (r :: st) f p = entryIn st f p :=
  entryIn_append [r] st f p (by simpa [ids] using h)

theorem entryIn_cons_self (r : Rec) (st : State) (f : FileId) :
    entryIn (r :: st) f r.id = r.inv.lookup f := by
  simp [entryIn, invOf]

theorem ranc_cons_ne (r : Rec) (st : State) (x : Rev) (h : x ≠ r.id) :
    ranc (r :: st) x = ranc st x := by
  have : ¬ r.id = x := fun e => h e.symm
  simp [ranc, this]

theorem ranc_cons_self (r : Rec) (st : State) :
    ranc (r :: st) r.id = r.parents ++ r.parents.flatMap (fun p => ranc st p) := by
  simp [ranc]

theorem id_mem_mentioned {st : State} {x : Rev} (h : x ∈ ids st) : x ∈ mentioned st :=
  List.mem_append_left _ h

theorem parent_mem_mentioned {st : State} {r : Rec} (hr : r ∈ st) {p : Rev} (hp : p ∈ r.parents) :
    p ∈ mentioned st :=
  List.mem_append_right _ (List.mem_flatMap.mpr ⟨r, hr, hp⟩)

/-- candidates and heads of the older repository are not changed by a newer
revision whose id is none of the parents looked at (present or ghost) -/
theorem heads_stable {st : State} (w : WF st) (r : Rec) (hr : r.id ∉ ids st) (ps : List Rev)
    (hps : ∀ p ∈ ps, p ≠ r.id) (f : FileId) :
    heads (textsOf (r :: st)) f (candidates (r :: st) ps f)
      = heads (textsOf st) f (candidates st ps f) := by
  have hc : candidates (r :: st) ps f = candidates st ps f :=
    candidates_append [r] st ps f fun p hp => by
      simp only [ids, List.map_cons, List.map_nil, List.mem_singleton]
      exact hps p hp
  rw [hc]
  apply heads_congr
  intro x hx
  have := w.cand_mem hx
  exact fanc_textsOf_append [r] st f x (by
    simp only [ids, List.map_cons, List.map_nil, List.mem_singleton]
    intro e; exact hr (e ▸ this))

/-- the entry recorded for `f`: either carried over from a parent, or fresh -/
theorem mkRec_entry {st : State} {c : Commit} {f : FileId} {e : Entry}
    (h : (mkRec st c).inv.lookup f = some e) :
    ∃ a, c.tree.lookup f = some a ∧ e = (recordOne st c f a).1 := by
  rw [mkRec_inv_lookup] at h
  cases ht : c.tree.lookup f with
  | none => simp [ht] at h
  | some a => exact ⟨a, rfl, by simpa [ht] using h.symm⟩

theorem WF.step {st : State} (w : WF st) {c : Commit} (ok : okCommit st c) :
    WF (record st c) := by
  obtain ⟨hment, _, hnd⟩ := ok
  have hid : c.id ∉ ids st := fun h => hment (id_mem_mentioned h)
  have hne : ∀ x ∈ ids st, x ≠ c.id := fun x hx e => hid (e ▸ hx)
  -- what a carried-over entry satisfies in the old repository
  have carried : ∀ f x pe, entryWithRev st c.parents f x = some pe →
      pe.rev ∈ ids st ∧ entryIn st f pe.rev = some pe ∧
      (pe.rev ∈ c.parents ++ c.parents.flatMap (fun p => ranc st p)) ∧
      (∃ ps, ((f, pe.rev), ps) ∈ textsOf st) := by
    intro f x pe hw
    obtain ⟨_, p, hp, he⟩ := entryWithRev_some hw
    obtain ⟨r, hr, hrp, hl⟩ := entryIn_mem he
    refine ⟨w.revs r hr f pe hl, w.sound r hr f pe hl, ?_, w.key r hr f pe hl⟩
    rcases w.anc r hr f pe hl with h | h
    · exact List.mem_append_left _ (by rw [h, hrp]; exact hp)
    · exact List.mem_append_right _ (List.mem_flatMap.mpr ⟨p, hp, hrp ▸ h⟩)
  have sub : ∀ k, k ∈ textsOf st → k ∈ textsOf (mkRec st c :: st) := fun k hk => by
    rw [textsOf_cons]; exact List.mem_append_right _ hk
  show WF (mkRec st c :: st)
  refine ⟨?_, ?_, ?_, ?_, ?_⟩
  · show (ids (mkRec st c :: st)).Nodup
    simp only [ids, List.map_cons, List.nodup_cons]
    exact ⟨hid, w.nodup⟩
  · intro r hr f e hl
    rcases List.mem_cons.mp hr with h | h
    · subst h
      obtain ⟨a, _, he⟩ := mkRec_entry hl
      rcases recordOne_cases st c f a with ⟨x, pe, _, hw, _, hrec⟩ | ⟨hrec, _⟩
      · have he' : e = pe := by rw [he, hrec]
        rw [he']
        exact List.mem_cons_of_mem _ (carried f x pe hw).1
      · have he' : e.rev = c.id := by rw [he, hrec]
        rw [he']
        exact List.mem_cons_self
    · exact List.mem_cons_of_mem _ (w.revs r h f e hl)
  · intro r hr f e hl
    rcases List.mem_cons.mp hr with h | h
    · subst h
      obtain ⟨a, _, he⟩ := mkRec_entry hl
      rcases recordOne_cases st c f a with ⟨x, pe, _, hw, _, hrec⟩ | ⟨hrec, _⟩
      · have he' : e = pe := by rw [he, hrec]
        rw [he']
        obtain ⟨h1, h2, _, _⟩ := carried f x pe hw
        rw [entryIn_cons_ne _ _ _ _ (hne _ h1)]; exact h2
      · have he' : e.rev = (mkRec st c).id := by rw [he, hrec]; rfl
        rw [he', entryIn_cons_self]; exact hl
    · rw [entryIn_cons_ne _ _ _ _ (hne _ (w.revs r h f e hl))]
      exact w.sound r h f e hl
  · intro r hr f e hl
    rcases List.mem_cons.mp hr with h | h
    · subst h
      obtain ⟨a, _, he⟩ := mkRec_entry hl
      rcases recordOne_cases st c f a with ⟨x, pe, _, hw, _, hrec⟩ | ⟨hrec, _⟩
      · have he' : e = pe := by rw [he, hrec]
        right
        rw [he', ranc_cons_self]
        exact (carried f x pe hw).2.2.1
      · left; rw [he, hrec]; rfl
    · have hrid : r.id ≠ (mkRec st c).id := hne _ (id_mem_ids h)
      rw [ranc_cons_ne _ _ _ hrid]
      exact w.anc r h f e hl
  · intro r hr f e hl
    rcases List.mem_cons.mp hr with h | h
    · subst h
      obtain ⟨a, ha, he⟩ := mkRec_entry hl
      rcases recordOne_cases st c f a with ⟨x, pe, _, hw, _, hrec⟩ | ⟨hrec, _⟩
      · have he' : e = pe := by rw [he, hrec]
        rw [he']
        obtain ⟨ps, hps⟩ := (carried f x pe hw).2.2.2
        exact ⟨ps, sub _ hps⟩
      · refine ⟨heads (textsOf st) f (candidates st c.parents f), ?_⟩
        rw [textsOf_cons]
        apply List.mem_append_left
        simp only [List.mem_map]
        refine ⟨(f, heads (textsOf st) f (candidates st c.parents f)), ?_, ?_⟩
        · simp only [mkRec, List.mem_filterMap]
          exact ⟨(f, a), mem_of_lookup ha, by simp [hrec]⟩
        · rw [he, hrec]; rfl
    · obtain ⟨ps, hps⟩ := w.key r h f e hl
      exact ⟨ps, sub _ hps⟩

theorem WF.nil : WF [] :=
  ⟨by simp [ids], by simp, by simp, by simp, by simp⟩

theorem build_WF : ∀ (h : List Commit), hist h → WF (build h)
  | [], _ => WF.nil
  | _ :: older, hh => (build_WF older hh.1).step hh.2

end BreezyVerif.C02
