import BreezyVerif.Model.C10
/-
C01 — a commit records exactly the selected working-tree state.

Three small executable models, all total; pending merges are a flag (`commitModelM`):

* **inventory trees (bzr formats), id space** — the tree model of `Model/C10.lean`
  (file id ↦ entry(parent, name, node)).  `breezy/commit.py: Commit.commit`
  drives

      work_tree.iter_changes(basis, specific_files)       -- `reportedChanges` (C10.iterChanges, require_versioned)
        → filter_excluded(exclude)                         -- `keepChange`
        → Commit._filter_iter_changes                      -- missing entries become deletions (`effective`)
        → VersionedFileCommitBuilder.record_iter_changes   -- one inventory-delta item per reported id (`recordOne`)
        → finish_inventory → add_inventory_by_delta        -- validation of the result (`wf`), else InconsistentDelta
        → builder.commit, _update_branches
        → work_tree.unversion(deleted_paths); update_basis_by_delta   -- `Result.wt`

  The new revision's inventory is the basis inventory with the entry of every
  id that reached `record_iter_changes` replaced by the working entry (removed
  when the id is unversioned or missing on disk); every other id keeps its
  basis entry (`commitTree`).

* **git trees, path space** (`breezy/git/commit.py: GitCommitBuilder.record_iter_changes`):
  a tree is a list `path ↦ node` of files and symlinks, a change is a pair of
  optional paths (old, new) as reported by `InterGitTrees.iter_changes` (rename
  pairs come from dulwich's content-based detector and are an input here).

* **pipeline with a fault** (`Commit.commit`: `try … except: builder.abort()`,
  then `_update_branches`, `unversion`, `update_basis_by_delta`): a program of
  operations over a repository with a write group (pending texts, inventory,
  revision; `commit_write_group` publishes them at once, `abort_write_group`
  discards them), the branch tip, the master branch of a bound branch and the
  tree's basis pointer; a fault is an exception raised by any operation, before
  or after its effect; it aborts the write group iff the operation is inside
  the `try` block.

The change stream is the one of `InterInventoryTree` with the closure loop as
repaired by /repo e6ca8fc (`C10.iterChangesG true`), which always terminates
(`commit_never_fuel`); the loop as found did not terminate on every well-formed
pair of trees (`closure_diverges_witness`).  The real commit uses the compiled
dirstate comparison, which is exercised, not modelled.
-/
namespace BreezyVerif.C01
open BreezyVerif.C10

/-! ### inventory trees -/

/-- the working tree as the commit pipeline sees it: the versioned entries with
the node found on disk, and the ids whose path is missing on disk (their node
in `inv` is irrelevant for the result) -/
structure WT where
  inv : Tree
  missing : List Id
  deriving Repr

/-- what can be recorded: versioned and present on disk -/
def effective (w : WT) : Tree := w.inv.filter fun x => !w.missing.contains x.1

def insideOpt (filt : List Path) : Option Path → Bool
  | none => false
  | some p => insideAny filt p

/-- `filter_excluded`: a change is dropped when its old or its new path is at or
below an excluded path -/
def keepChange (excl : List Path) (c : Change) : Bool :=
  !(insideOpt excl c.srcPath || insideOpt excl c.tgtPath)

/-- `work_tree.iter_changes(basis_tree, specific_files=…)` (changed records only,
`require_versioned=True`): the `InterInventoryTree` comparison with the
delta-consistency closure as repaired by /repo e6ca8fc (`iterChangesG true`:
every id is examined at most once, so the closure always terminates —
`commit_never_fuel`; the loop as found did not, `closure_diverges_witness`) -/
def reportedChanges (basis : Tree) (w : WT) (sel : Option (List Path)) : Except C10.Err (List Change) :=
  iterChangesG true .generic basis w.inv sel false true

/-- the ids that reach `record_iter_changes` -/
def commitIds (excl : List Path) (cs : List Change) : List Id :=
  (cs.filter (keepChange excl)).map (·.id)

/-- one inventory-delta item `(old_path, new_path, file_id, entry | None)` -/
def recordOne (eff : Tree) (t : Tree) (i : Id) : Tree :=
  match get eff i with
  | some e => set t i e
  | none => erase t i

/-- the inventory `add_inventory_by_delta(basis, delta)` produces -/
def commitTree (basis eff : Tree) (S : List Id) : Tree := S.foldl (recordOne eff) basis

inductive CErr where
  | pathsNotVersioned (ps : List Path)
  | inconsistentDelta
  | rootMissing
  | fuel                  -- the delta-consistency closure ran out of fuel (unreachable: `commit_never_fuel`)
  | selectedFileMerge     -- CannotCommitSelectedFileMerge
  deriving DecidableEq, Repr

structure Result where
  ids : List Id      -- ids handed to record_iter_changes
  tree : Tree        -- the new revision's tree = the new basis tree
  wt : WT            -- working tree afterwards (`unversion(deleted_paths)`)
  deriving Repr

/-- `create_by_apply_delta` also checks every delta item's `new_path` against
the path the entry really has in the resulting inventory: a recorded entry must
sit at its working-tree path -/
def deltaConsistent (t : Tree) (w : WT) (S : List Id) : Bool :=
  S.all fun i => (get (effective w) i).isNone || pathOf t i == pathOf w.inv i

/-- what `create_by_apply_delta` validates.  `strict`: the result is well-formed.
`lax` (the code as found, see `excluded_child_corrupt_witness`): "the parent is
a directory" is only checked for the entries of the delta, so an *unrecorded*
child can be left below an entry the delta turned into a file or symlink. -/
inductive Validation where
  | strict | lax
  deriving DecidableEq, Repr

/-- `wf` with the parent-kind check restricted to the ids of `S` -/
def wfLax (t : Tree) (S : List Id) : Bool :=
  (rootsOf t).length == 1
  && decide (ids t).Nodup
  && t.all (fun x => match x.2.parent with
      | none => x.2.node.kind == .dir
      | some p => match get t p with
        | some pe => pe.node.kind == .dir || !S.contains x.1
        | none => false)
  && t.all (fun x => t.all fun y => x.1 == y.1 || !(x.2.parent == y.2.parent && x.2.name == y.2.name))
  && t.all (fun x => (pathOf t x.1).isSome)

def valid (v : Validation) (t : Tree) (S : List Id) : Bool :=
  match v with
  | .strict => wf t
  | .lax => wfLax t S

/-- the part of the pipeline after the change stream is known -/
def commitFrom (v : Validation) (basis : Tree) (w : WT) (S : List Id) : Except CErr Result :=
  let t := commitTree basis (effective w) S
  if valid v t S && deltaConsistent t w S then
    .ok { ids := S, tree := t,
          wt := { inv := w.inv.filter fun x => !(w.missing.contains x.1 && S.contains x.1),
                  missing := w.missing.filter fun i => !S.contains i } }
  else if (rootsOf t).isEmpty then .error .rootMissing      -- first commit that does not record the root
  else .error .inconsistentDelta

/-- `osutils.minimum_path_selection`: paths at or below another path of the list
are redundant (`Commit.commit` normalises `specific_files` with it *before* the
comparison checks that every path is versioned) -/
def minSel (f : List Path) : List Path :=
  f.filter fun p => !f.any fun q => q != p && q.isPrefixOf p

/-- `Commit.commit(specific_files=sel, exclude=excl)` on an inventory tree -/
def commitModel (v : Validation) (basis : Tree) (w : WT) (sel : Option (List Path)) (excl : List Path) :
    Except CErr Result :=
  match reportedChanges basis w (sel.map minSel) with
  | .error (.pathsNotVersioned ps) => .error (.pathsNotVersioned ps)
  | .error .fuel => .error .fuel
  | .ok cs => commitFrom v basis w (commitIds excl cs)

/-- `Commit.commit` with pending merges (`len(self.parents) > 1`): a selection or
an exclusion is refused before anything is collected; a full commit records the
working tree as usual (the extra parents only matter for the per-file graph, C02) -/
def commitModelM (merges : Bool) (v : Validation) (basis : Tree) (w : WT) (sel : Option (List Path))
    (excl : List Path) : Except CErr Result :=
  if merges && (sel.isSome || !excl.isEmpty) then .error .selectedFileMerge
  else commitModel v basis w sel excl

/-! ### git trees (path space) -/

/-- files and symlinks by path; first match wins; directories are implied -/
abbrev GTree := List (Path × Node)

def glookup : GTree → Path → Option Node
  | [], _ => none
  | (q, n) :: rest, p => if q = p then some n else glookup rest p

/-- one record of `InterGitTrees.iter_changes` -/
structure GChange where
  old : Option Path
  new : Option Path
  deriving DecidableEq, Repr

/-- `osutils.is_inside_or_parent_of_any` -/
def insideOrParentOfAny (filt : List Path) (p : Path) : Bool :=
  filt.any fun f => f.isPrefixOf p || p.isPrefixOf f

def relatedOpt (filt : List Path) : Option Path → Bool
  | none => false
  | some p => insideOrParentOfAny filt p

/-- `changes_from_git_changes(specific_files)` followed by `filter_excluded` -/
def gKeep (sel : Option (List Path)) (excl : List Path) (c : GChange) : Bool :=
  (match sel with
   | none => true
   | some f => relatedOpt f c.old || relatedOpt f c.new)
  && !(insideOpt excl c.old || insideOpt excl c.new)

/-- the paths `record_iter_changes` writes (`_blobs`) -/
def gWritten (wt : GTree) (kept : List GChange) : List Path :=
  kept.filterMap fun c => c.new.bind fun p => if (glookup wt p).isSome then some p else none

/-- the paths it drops (`_deleted_paths`) -/
def gDeleted (kept : List GChange) : List Path := kept.filterMap (·.old)

/-- `GitCommitBuilder`: written paths take the working content, deleted paths
disappear, every other basis path is filled in unchanged -/
def gitCommitTree (basis wt : GTree) (cs : List GChange) (sel : Option (List Path)) (excl : List Path) : GTree :=
  let kept := cs.filter (gKeep sel excl)
  let written := gWritten wt kept
  let deleted := gDeleted kept
  (written.filterMap fun p => (glookup wt p).map fun n => (p, n))
    ++ basis.filter fun x => !written.contains x.1 && !deleted.contains x.1

/-! ### the pipeline with a fault

`Commit.commit` as a program over a repository with a write group, a branch
tip, an optional master branch (bound branch / heavyweight checkout) and the
working tree's basis pointer:

    get_commit_builder                      startGroup
    try:
      record_iter_changes                   addText k   (one per recorded text)
      _check_pointless                      checkPointless
      builder.finish_inventory              addInv
      message_callback                      message
      builder.commit                        addRev; commitGroup   (everything pending becomes visible)
    except: builder.abort(); raise          abortGroup
    _update_branches                        preHook; [masterImport]; setTip; [mergeTags]
    work_tree.unversion(deleted_paths)      unversion
    update_basis_by_delta                   updateBasis
    _process_post_hooks                     postHook
-/

abbrev Rev := String
abbrev Key := String

structure PState where
  revs : List Rev          -- revisions visible in the repository
  invs : List Rev          -- inventories visible
  texts : List Key         -- text keys visible
  pRevs : List Rev         -- … in the open write group
  pInvs : List Rev
  pTexts : List Key
  inGroup : Bool
  tip : Option Rev         -- branch tip
  mrevs : List Rev         -- revisions in the master branch's repository (bound branches)
  mtip : Option Rev        -- master branch tip
  basis : Option Rev       -- working tree basis
  deriving DecidableEq, Repr

/-- no write group open, nothing pending -/
def PState.clean (s : PState) : Bool := !s.inGroup && s.pRevs.isEmpty && s.pInvs.isEmpty && s.pTexts.isEmpty

inductive Op where
  | startGroup | addText (k : Key) | checkPointless | addInv | message | addRev | commitGroup
  | preHook | masterImport | setTip | mergeTags | unversion | updateBasis | postHook
  deriving DecidableEq, Repr

/-- the effect of an operation that completes -/
def effect (new : Rev) (s : PState) : Op → PState
  | .startGroup => { s with inGroup := true }
  | .addText k => { s with pTexts := s.pTexts ++ [k] }
  | .addInv => { s with pInvs := s.pInvs ++ [new] }
  | .addRev => { s with pRevs := s.pRevs ++ [new] }
  | .commitGroup => { s with revs := s.revs ++ s.pRevs, invs := s.invs ++ s.pInvs, texts := s.texts ++ s.pTexts,
                             pRevs := [], pInvs := [], pTexts := [], inGroup := false }
  | .masterImport => { s with mrevs := s.mrevs ++ [new], mtip := some new }
  | .setTip => { s with tip := some new }
  | .updateBasis => { s with basis := some new }
  | .checkPointless | .message | .preHook | .mergeTags | .unversion | .postHook => s

/-- `abort_write_group` -/
def abortGroup (s : PState) : PState := { s with pRevs := [], pInvs := [], pTexts := [], inGroup := false }

/-- the operations inside the `try` block before the write group is committed -/
def groupOps (texts : List Key) : List Op := texts.map .addText ++ [.checkPointless, .addInv, .message, .addRev]

/-- everything after `builder.commit` -/
def lateOps (bound : Bool) : List Op :=
  [.preHook] ++ (if bound then [.masterImport] else []) ++ [.setTip] ++ (if bound then [.mergeTags] else [])
    ++ [.unversion, .updateBasis, .postHook]

def program (texts : List Key) (bound : Bool) : List Op :=
  .startGroup :: (groupOps texts ++ .commitGroup :: lateOps bound)

/-- a fault: the operation at index `k` of the program raises, before its effect
or (`after`) when its effect is already there -/
structure Fault where
  k : Nat
  after : Bool
  deriving DecidableEq, Repr

def Fault.executed (f : Fault) : Nat := if f.after then f.k + 1 else f.k

/-- is the operation at index `k` inside the `try … except: builder.abort()` block?
(everything from the first text up to and including `builder.commit`) -/
def inTry (texts : List Key) (k : Nat) : Bool := decide (1 ≤ k) && decide (k ≤ (groupOps texts).length + 1)

/-- run the commit; returns the final state and whether the commit raised -/
def runCommit (new : Rev) (texts : List Key) (bound : Bool) (fault : Option Fault) (s : PState) : PState × Bool :=
  let prog := program texts bound
  match fault with
  | none => (prog.foldl (effect new) s, false)
  | some f =>
    if f.k < prog.length then
      let s' := (prog.take f.executed).foldl (effect new) s
      (if inTry texts f.k then abortGroup s' else s', true)
    else (prog.foldl (effect new) s, false)      -- the fault point is never reached

end BreezyVerif.C01
