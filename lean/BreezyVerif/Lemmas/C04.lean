import BreezyVerif.Model.C04
/-!
C04 — helper lemmas: frame properties of `step`, readiness of a freshly
finished pack, membership in the three-way merge, the planner only selects
packs it was given.
-/
namespace BreezyVerif.C04

/-- `f` lives where readable packs live and belongs to a pack of `ns` -/
def touches (ns : List Nat) (f : File) : Bool :=
  (f.dir == .packs || f.dir == .indices) && ns.contains f.stem

/-- the operation neither replaces `pack-names` nor creates, truncates, moves,
overwrites or deletes a file of a pack in `ns` -/
def safeOp (ns : List Nat) : Op → Bool
  | .beginWrite f => !touches ns f
  | .endWrite _ => true
  | .move a b => !touches ns a && !touches ns b
  | .delete f => !touches ns f
  | .lock => true
  | .unlock => true
  | .putNames _ => false

theorem mem_rm {l : List File} {f g : File} : f ∈ rm l g ↔ f ∈ l ∧ f ≠ g := by
  simp [rm]

theorem packFiles_touches {chk : Bool} {n : Nat} {ns : List Nat} {f : File}
    (hf : f ∈ packFiles chk n) (hn : n ∈ ns) : touches ns f = true := by
  simp only [packFiles, List.mem_cons, List.mem_map] at hf
  rcases hf with rfl | ⟨e, _, rfl⟩ <;> simp [touches, hn]

theorem step_names_of_safe {ns : List Nat} {d : Disk} {op : Op} (h : safeOp ns op = true) :
    (step d op).names = d.names := by
  cases op <;> simp [step, safeOp] at h ⊢ <;> (repeat' split) <;> rfl

/-- a complete file survives every operation that does not name it -/
theorem mem_step_files {d : Disk} {op : Op} {f : File} (hf : f ∈ d.files)
    (h : match op with
         | .beginWrite g => f ≠ g
         | .move a b => f ≠ a ∧ f ≠ b
         | .delete g => f ≠ g
         | _ => True) : f ∈ (step d op).files := by
  cases op with
  | beginWrite g => simp [step, mem_rm, hf, h]
  | endWrite g => simp only [step]; split <;> simp [hf]
  | move a b =>
    simp only [step]
    split
    · simp [mem_rm, hf, h.1, h.2]
    · split
      · simp [mem_rm, hf, h.2]
      · exact hf
  | delete g => simp [step, mem_rm, hf, h]
  | lock => exact hf
  | unlock => exact hf
  | putNames ns => exact hf

theorem ready_iff {chk : Bool} {d : Disk} {n : Nat} :
    ready chk d n = true ↔ ∀ f ∈ packFiles chk n, f ∈ d.files := by
  simp [ready]

theorem ne_of_touches {ns : List Nat} {f g : File} (hf : touches ns f = true) (hg : touches ns g = false) :
    f ≠ g := by
  intro e; subst e; rw [hf] at hg; cases hg

/-- **Frame lemma.**  A safe operation keeps `pack-names` and keeps every pack
of `ns` that was complete, complete. -/
theorem step_safe (chk : Bool) (ns : List Nat) (d : Disk) (op : Op) (h : safeOp ns op = true) :
    (step d op).names = d.names ∧
    ∀ n ∈ ns, ready chk d n = true → ready chk (step d op) n = true := by
  refine ⟨step_names_of_safe h, ?_⟩
  intro n hn hr
  rw [ready_iff] at hr ⊢
  intro f hf
  have ht := packFiles_touches hf hn
  apply mem_step_files (hr f hf)
  cases op with
  | beginWrite g => simp [safeOp] at h; exact ne_of_touches ht h
  | move a b =>
    simp [safeOp] at h
    exact ⟨ne_of_touches ht h.1, ne_of_touches ht h.2⟩
  | delete g => simp [safeOp] at h; exact ne_of_touches ht h
  | _ => trivial

theorem run_append (d : Disk) (a b : List Op) : run d (a ++ b) = run (run d a) b := by
  simp [run, List.foldl_append]

theorem run_cons (d : Disk) (op : Op) (l : List Op) : run d (op :: l) = run (step d op) l := rfl

theorem run_nil (d : Disk) : run d [] = d := rfl

/-- the frame lemma over a whole list of safe operations -/
theorem run_safe (chk : Bool) (ns : List Nat) (ops : List Op) (d : Disk)
    (h : ∀ op ∈ ops, safeOp ns op = true) :
    (run d ops).names = d.names ∧
    ∀ n ∈ ns, ready chk d n = true → ready chk (run d ops) n = true := by
  induction ops generalizing d with
  | nil => exact ⟨rfl, fun _ _ h => h⟩
  | cons op rest ih =>
    have h1 := step_safe chk ns d op (h op (by simp))
    have h2 := ih (step d op) (fun o ho => h o (by simp [ho]))
    rw [run_cons]
    exact ⟨h2.1.trans h1.1, fun n hn hr => h2.2 n hn (h1.2 n hn hr)⟩

/-! ### a freshly written pack is complete -/

theorem upload_not_touches (ns : List Nat) (f : File) (h : f.dir = .upload) : touches ns f = false := by
  simp [touches, h]

theorem obsolete_not_touches (ns : List Nat) (f : File) (h : f.dir = .obsolete) : touches ns f = false := by
  simp [touches, h]

theorem touches_false_of_not_mem {ns : List Nat} {f : File} (h : f.stem ∉ ns) : touches ns f = false := by
  simp [touches, h]

/-- writing a new pack called `name` is safe for every collection that does
not contain `name` -/
theorem newPackOps_safe (chk : Bool) (ns : List Nat) (tmp : File) (name : Nat)
    (ht : tmp.dir = .upload) (hn : name ∉ ns) :
    ∀ op ∈ newPackOps chk tmp name, safeOp ns op = true := by
  intro op hop
  have hup := upload_not_touches ns tmp ht
  have h1 : ∀ dir e, touches ns ⟨dir, name, e⟩ = false := fun _ _ => touches_false_of_not_mem hn
  simp only [newPackOps, finishOps, List.mem_cons, List.mem_append, List.mem_flatMap,
    List.not_mem_nil, or_false] at hop
  rcases hop with rfl | ⟨e, _, rfl | rfl⟩ | rfl | rfl <;> simp [safeOp, hup, h1]

/-- **`NewPack.finish` leaves the pack complete.** -/
theorem finish_ready (chk : Bool) (d : Disk) (tmp : File) (name : Nat) (ht : tmp.dir = .upload) :
    ready chk (run d (newPackOps chk tmp name)) name = true := by
  obtain ⟨td, ts, te⟩ := tmp
  simp only at ht
  subst ht
  cases chk <;>
    simp [newPackOps, finishOps, idxExts, run, step, ready, packFiles, rm, List.mem_filter]

/-! ### the three-way merge -/

theorem mem_mergeNames {disk atLoad mine : List Nat} {n : Nat} :
    n ∈ mergeNames disk atLoad mine ↔
      (n ∈ disk ∧ ¬(n ∈ atLoad ∧ n ∉ mine)) ∨ (n ∈ mine ∧ n ∉ atLoad ∧ n ∉ disk) := by
  simp only [mergeNames, List.mem_append, List.mem_filter, List.contains_eq_mem, Bool.not_eq_true',
    Bool.and_eq_true, Bool.not_eq_eq_eq_not, Bool.not_true, decide_eq_true_eq, decide_eq_false_iff_not,
    Bool.and_eq_false_imp, Bool.not_eq_false']
  by_cases h1 : n ∈ atLoad <;> by_cases h2 : n ∈ mine <;> by_cases h3 : n ∈ disk <;> simp [h1, h2, h3]

/-! ### obsoleting and clearing -/

theorem obsoleteOps_safe (chk : Bool) (ns : List Nat) (n : Nat) (hn : n ∉ ns) :
    ∀ op ∈ obsoleteOps chk n, safeOp ns op = true := by
  intro op hop
  simp only [obsoleteOps, List.mem_cons, List.mem_map] at hop
  rcases hop with rfl | ⟨e, _, rfl⟩ <;> simp [safeOp, touches, hn]

theorem clearOps_safe (ns : List Nat) (d : Disk) (p : List Nat) :
    ∀ op ∈ clearOps d p, safeOp ns op = true := by
  intro op hop
  simp only [clearOps, clearTargets, List.mem_map, List.mem_filter] at hop
  obtain ⟨f, ⟨_, hf⟩, rfl⟩ := hop
  simp only [Bool.and_eq_true, decide_eq_true_eq] at hf
  simp [safeOp, touches, hf.1]

/-! ### the shape of `_save_pack_names` -/

/-- what `_save_pack_names` does after the `put_file` -/
def savePost (chk : Bool) (d : Disk) (obs : Option (List Nat)) : List Op :=
  (match obs with | none => [] | some s => clearOps d s) ++ [Op.unlock]
    ++ (match obs with
        | none => []
        | some s => (s.filter (fun n => !(alreadyObsolete d).contains n)).flatMap (obsoleteOps chk))

theorem saveOps_eq (chk : Bool) (d : Disk) (v : View) (obs : Option (List Nat)) :
    saveOps chk d v obs
      = Op.lock :: Op.putNames (mergeNames d.names v.atLoad v.names) :: savePost chk d obs := by
  cases obs <;> rfl

/-- the operations after the `put_file` (clearing `obsolete_packs/`, unlocking,
obsoleting `s`) are safe for every collection that contains no pack of `s` -/
theorem savePost_safe (chk : Bool) (d : Disk) (N : List Nat) (obs : Option (List Nat))
    (h : ∀ s, obs = some s → ∀ n ∈ s, n ∉ N) :
    ∀ op ∈ savePost chk d obs, safeOp N op = true := by
  intro op hop
  simp only [savePost, List.mem_append, List.mem_singleton] at hop
  rcases hop with (hop | rfl) | hop
  · cases obs with
    | none => cases hop
    | some s => exact clearOps_safe N d s op hop
  · rfl
  · cases obs with
    | none => cases hop
    | some s =>
      simp only [List.mem_flatMap, List.mem_filter] at hop
      obtain ⟨n, ⟨hn, _⟩, hop⟩ := hop
      exact obsoleteOps_safe chk N n (h s rfl n hn) op hop

def isPut : Op → Bool
  | .putNames _ => true
  | _ => false

theorem step_names_noPut (d : Disk) (op : Op) (h : isPut op = false) : (step d op).names = d.names := by
  cases op <;> simp [step, isPut] at h ⊢ <;> (repeat' split) <;> rfl

theorem run_names_noPut (l : List Op) (d : Disk) (h : ∀ op ∈ l, isPut op = false) :
    (run d l).names = d.names := by
  induction l generalizing d with
  | nil => rfl
  | cons op rest ih =>
    rw [run_cons, ih _ (fun o ho => h o (by simp [ho])), step_names_noPut _ _ (h op (by simp))]

theorem savePost_noPut (chk : Bool) (d : Disk) (obs : Option (List Nat)) :
    ∀ op ∈ savePost chk d obs, isPut op = false := by
  intro op hop
  simp only [savePost, List.mem_append, List.mem_singleton] at hop
  rcases hop with (hop | rfl) | hop
  · cases obs with
    | none => cases hop
    | some s =>
      simp only [clearOps, List.mem_map] at hop
      obtain ⟨f, _, rfl⟩ := hop; rfl
  · rfl
  · cases obs with
    | none => cases hop
    | some s =>
      simp only [List.mem_flatMap, obsoleteOps, List.mem_cons, List.mem_map] at hop
      obtain ⟨n, _, (rfl | ⟨e, _, rfl⟩)⟩ := hop <;> rfl

theorem clearOps_noPut (d : Disk) (p : List Nat) : ∀ op ∈ clearOps d p, isPut op = false := by
  intro op hop
  simp only [clearOps, List.mem_map] at hop
  obtain ⟨f, _, rfl⟩ := hop; rfl

/-- whatever the directory looks like, after `_save_pack_names` the content of
`pack-names` is the three-way merge -/
theorem run_saveOps_names (chk : Bool) (d0 d : Disk) (v : View) (obs : Option (List Nat)) :
    (run d0 (saveOps chk d v obs)).names = mergeNames d.names v.atLoad v.names := by
  rw [saveOps_eq, run_cons, run_cons, run_names_noPut _ _ (savePost_noPut chk d obs)]
  rfl

/-! ### the planner only selects packs it was given -/

theorem planLoop_subset (ex : List (Nat × Nat)) (dist : List Nat) (cur : Nat) (acc res : List Nat)
    (h : planLoop ex dist cur acc = some res) :
    ∀ n ∈ res, n ∈ acc ∨ n ∈ ex.map (·.1) := by
  induction ex generalizing dist cur acc with
  | nil =>
    simp [planLoop] at h; subst h; intro n hn; exact Or.inl hn
  | cons p rest ih =>
    obtain ⟨name, cnt⟩ := p
    cases dist with
    | nil => simp [planLoop] at h
    | cons d0 dist =>
      simp only [planLoop] at h
      intro n hn
      split at h
      · split at h
        · cases h
        · rcases ih _ _ _ h n hn with h1 | h1
          · exact Or.inl h1
          · exact Or.inr (by simp [h1])
      · split at h <;>
        · rcases ih _ _ _ h n hn with h1 | h1
          · simp only [List.mem_append, List.mem_singleton] at h1
            rcases h1 with h1 | rfl
            · exact Or.inl h1
            · exact Or.inr (by simp)
          · exact Or.inr (by simp [h1])

theorem mem_insertDesc (p q : Nat × Nat) (l : List (Nat × Nat)) : q ∈ insertDesc p l ↔ q = p ∨ q ∈ l := by
  induction l with
  | nil => simp [insertDesc]
  | cons x rest ih =>
    simp only [insertDesc]
    split
    · simp
    · simp [ih]; constructor
      · rintro (h | h | h) <;> simp [h]
      · rintro (h | h | h) <;> simp [h]

theorem mem_sortDesc_aux (l acc : List (Nat × Nat)) (q : Nat × Nat) :
    q ∈ l.foldl (fun acc p => insertDesc p acc) acc ↔ q ∈ acc ∨ q ∈ l := by
  induction l generalizing acc with
  | nil => simp
  | cons x rest ih =>
    simp only [List.foldl_cons, ih, mem_insertDesc, List.mem_cons]
    constructor
    · rintro ((h | h) | h) <;> simp [h]
    · rintro (h | h | h) <;> simp [h]

theorem mem_sortDesc (l : List (Nat × Nat)) (q : Nat × Nat) : q ∈ sortDesc l ↔ q ∈ l := by
  simp [sortDesc, mem_sortDesc_aux]

/-- `plan_autopack_combinations` combines only packs of the collection -/
theorem planAutopack_subset (packs : List (Nat × Nat)) (s : List Nat)
    (h : planAutopack packs = .combine s) : ∀ n ∈ s, n ∈ packs.map (·.1) := by
  unfold planAutopack at h
  simp only at h
  split at h
  · cases h
  · split at h
    · cases h; intro n hn; cases hn
    · generalize hpl : planLoop _ _ 0 [] = r at h
      cases r with
      | none => cases h
      | some res =>
        have hsub := planLoop_subset _ _ _ _ _ hpl
        have key : ∀ n ∈ res, n ∈ packs.map (·.1) := by
          intro n hn
          rcases hsub n hn with h1 | h1
          · cases h1
          · simp only [List.mem_map] at h1 ⊢
            obtain ⟨q, hq, rfl⟩ := h1
            rw [mem_sortDesc] at hq
            exact ⟨q, (List.mem_filter.mp hq).1, rfl⟩
        cases res with
        | nil => cases h; intro n hn; cases hn
        | cons a t =>
          cases t with
          | nil => cases h
          | cons b t' => cases h; exact key

end BreezyVerif.C04
