"""Repro: git working trees, a file added by BOTH sides with different texts is silently replaced by
OTHER's text (no conflict, THIS's committed text lost) when OTHER's new file looks like a copy of a
file that OTHER also modified.  Exit 1 when the defect is present.

usage: /venv/bin/python repro_copy_added.py [repo path, default /repo]
"""
import os, sys, tempfile, shutil
repo = sys.argv[1] if len(sys.argv) > 1 else "/repo"
sys.path.insert(0, repo)
home = tempfile.mkdtemp(prefix="c19-home-", dir="/var/tmp")
os.environ.update(HOME=home, BRZ_HOME=home, BRZ_EMAIL="Tester <t@example.com>")
import breezy
breezy.initialize()
import breezy.bzr, breezy.git
from breezy import trace
from breezy.controldir import ControlDir, format_registry
from breezy.merge import Merge3Merger, Merger
trace.be_quiet(True)

THIS_SRC = b"x\n<<<<<<<\n"
top = tempfile.mkdtemp(prefix="c19-work-", dir="/var/tmp")
try:
    this_dir = os.path.join(top, "this"); os.mkdir(this_dir)
    wt = ControlDir.create_standalone_workingtree(this_dir, format=format_registry.make_controldir("git"))
    open(this_dir + "/src", "wb").write(b"x\n<<<<<<<\n")
    wt.add(["src"]); wt.commit("base")
    other_dir = os.path.join(top, "other")
    owt = wt.controldir.sprout(other_dir).open_workingtree()
    open(other_dir + "/src", "wb").write(b"e\n<<<<<<<\n")          # OTHER modifies src ...
    open(other_dir + "/new", "wb").write(b"x\n<<<<<<<\nc\nO")   # ... and adds a file that resembles the old src
    owt.add(["new"]); other_rev = owt.commit("other")
    open(this_dir + "/src", "wb").write(THIS_SRC)
    open(this_dir + "/new", "wb").write(b"x\n<<<<<<<\nc\nTHIS")     # THIS adds the same path with another text
    wt.add(["new"]); wt.commit("this")
    with owt.lock_read():
        bt = owt.branch.repository.revision_tree(owt.branch.repository.get_parent_map([other_rev])[other_rev][0])
        ot = owt.branch.repository.revision_tree(other_rev)
        print("iter_changes(other vs base):", [(c.path, c.copied) for c in ot.iter_changes(bt)])
    with wt.lock_write():
        m = Merger.from_revision_ids(wt, other_rev, other_branch=owt.branch)
        m.merge_type = Merge3Merger
        m.do_merge()
    text = open(this_dir + "/new", "rb").read()
    confs = [(c.typestring, c.path) for c in wt.conflicts()]
    print("new =", text, "conflicts =", confs, "files =", sorted(os.listdir(this_dir)))
    bad = not confs and b"THIS" not in text
    print("DEFECT: THIS's text of 'new' silently replaced by OTHER's" if bad else "ok: conflict reported")
    sys.exit(1 if bad else 0)
finally:
    shutil.rmtree(top, ignore_errors=True); shutil.rmtree(home, ignore_errors=True)
