"""C12 — tree-changing commands never silently discard uncommitted work.

Mechanism: breezy/transform.py:_alter_files (keep_content / backup decision of
revert), TreeTransform._available_backup_name + osutils.available_backup_name
(crates/osutils, rebuilt per run), BzrDir/GitDir._available_backup_name,
InventoryWorkingTree.remove / GitWorkingTree.remove (safety test for changed /
unknown files), Merge3Merger (content decision, _dump_conflicts helper files),
the conflict resolution of the transform (`.moved`, "not deleting"), uncommit.

T1: the statements of _alter_files that compute `keep_content`, and the dispatch
    on the working file (delete_contents / rename to tt._available_backup_name
    + create_path / leave in place), are translated from the AST into
    Generated/C12.lean (`sourceKeepContent`, `sourceRevertAction`, and the
    variant flag `sourceFlags` of the `basis_path is None` branch).
    Props/C12T1.lean proves them equal to the model for ALL inputs
    (source_keep_content_eq, source_revert_action_eq, source_flags_fixed) and
    restates the property for the source's own functions
    (revert_keeps_user_content_source, revert_dir_keeps_user_bytes_source).
    A source change that alters the decision - e.g. a return to the variant
    that deletes content absent from the basis - makes that module fail (the
    driver still builds; the oracle then names the concrete lost content,
    corpus/C12 first).  A shape the translator does not understand yields a
    definition the theorems cannot be proved for (reported as a broken tie).
T2: (a) revert: for every versioned working-tree entry (regular file, symlink,
    or missing) in the scope of a generated revert the inputs of the decision
    are gathered: `changed_content`, both kinds and `versioned[0]` from the same
    `iter_changes` call `_alter_files` makes (the harness's own recomputation is
    kept beside it and disagreements are counted), merge-modified hash, working
    hash, basis hash or "absent from basis" through public API; the Lean model
    decides delete / backup / keep-in-place, and the fate observed after the real
    `WorkingTree.revert` (text or link target still at a tree path / only under
    a new `.~N~` name / gone; for a missing entry: no backup name appears) must
    agree; (b) remove: the same for `WorkingTree.remove` with keep / force /
    neither, with `versioned[0]` / `changed_content` taken from the records of
    the `iter_changes` call `remove` makes (a path no record names counts as
    clean, as in the code; where that misdescribes the state it is listed in
    the evidence key remove_inputs_misdescribe_state); (c) backup names:
    osutils.available_backup_name (Rust) on generated taken-sets, and - asked
    directly on real directories with generated sibling names -
    `tt._available_backup_name` (siblings on disk and children created in the
    transform) and `controldir._available_backup_name`; (c') the whole backup
    action: the directory listing after ONE real revert / ONE real remove over
    many such directories against the model's backupAndReplace / renameToBackup
    (name chosen, old bytes under it, new bytes under the old name, every
    sibling unchanged, no extra entry); (d) merge content decision: fate of THIS
    content for generated (base, this, other) texts against the model (kept /
    replaced by OTHER / merged / conflict helpers).
    (e) merge hashes: after every merge-like command of the two-step sequences
    `WorkingTree.merge_modified()` is compared per path with the model's rule
    (recorded iff the incoming revision changed the file's text or added it;
    never for a file it only renames or moves).
Two-step sequences (own stream, every seed, corpus/C12/seq-min-*.json first):
    a checkout / branch with uncommitted edits receives, by pull / merge
    --force / update / switch (optionally twice), revisions that rename or
    move edited files (in place, into a new or existing directory, out of a
    directory, renamed again), change other files, add files (with an unknown
    user file - and sometimes `<name>.moved` - already at that path) and delete
    a whole directory that holds an unknown user file; then revert (all / the
    moved path, backups on), remove of the moved path, or a second merge.  User
    contents are tracked over the whole sequence: a content must stay verbatim
    below the tree root after every step, until a merge-like step merges it
    into a text (from then on it is "written by a merge").
Oracle: histories (bzr 2a and git trees) with modified, added, re-added,
    unknown and previously merged files; unknown files at the paths the command
    is going to create (incoming adds of merge / pull / update / switch, paths
    revert restores after `rm` / `mv`), `<path>.moved` already taken, unknown
    files deep inside directories the incoming revision or `remove` deletes,
    files replaced by a symlink or by a directory with an unknown file inside,
    edited files with a flipped exec bit, numbered backups that already exist;
    commands revert (all / selected / -r OLD, backups on/off), remove (keep /
    force / default; directories holding unknown files are selected often),
    merge, pull, update, switch, uncommit.  Every content the harness wrote as a
    user edit must be found verbatim in some file below the tree root afterwards
    (tree, `.~N~` backups, `.THIS/.OTHER/.BASE`, `.moved`, kept directories), or
    - for merge-like commands - every line of the edit must appear in one file
    (clean three-way merge); exceptions: the user asked to discard (revert
    --no-backup on versioned files in scope, remove --force).
    uncommit (ORACLE ONLY, nothing modelled): standalone tree / bound checkout /
    lightweight checkout, revno None / 1 / 2, dry_run, local, keep_tags, with
    and without pending merges: bytes and symlinks identical AND a read-only
    guard: inode, size, mode, mtime and ctime of every entry below the tree root
    outside the control directory (root directory included) are unchanged, so a
    rewrite with the same bytes, a chmod, a temp file created and removed are
    all seen.
    Exceptions of the real commands: expected ones (PathsNotVersionedError for an
    unversioned selection, LocalRequiresBoundBranch) are counted; any other
    class is counted as `unexpected-exception:…` and listed (id, class, trace
    tail) in the evidence key unexpected_exceptions - the content oracle still
    runs on what the command left behind, so a loss is a violation.

Findings:
  * repaired by a fix: commit in /repo (corpus/C12 holds the two scenarios, run
    first): revert with backups deleted the content of a working file whose id
    is absent from the basis but present in the revert target.
  * OPEN, family `git-unknown-file-overwritten-by-incoming-add`: in a git tree,
    merge / pull of a revision that adds a file at a path where the user has an
    unversioned file overwrites that file (no conflict, no `.moved`); bzr trees
    move it aside.  Cause: Merge3Merger._compute_transform gives the incoming
    entry the trans_id of the tree path, then deletes "its" old contents.
  * OPEN, family `git-unknown-file-at-unversioned-path-deleted-by-merge`: the
    same mechanism with another trigger (found by the thorough tier): THIS
    removed (or renamed away) f and has a new unknown file at f, the incoming
    revision modifies f: the contents conflict writes f.BASE / f.OTHER and the
    unknown f is deleted; bzr trees leave it in place.
  * OPEN, family `bzr-remove-deletes-unknown-file-at-removed-path`: `brz rm f;
    echo new > f; brz rm f` deletes the new unknown file without --force:
    iter_changes(want_unversioned=True) does not report an unversioned file at
    the path of a removed entry, InventoryWorkingTree.remove then falls through
    to delete_any (Lean: remove_trusts_reported_attributes_witness).
  Not losses, listed as unexpected exceptions: git remove / walkdirs on a tree
  with conflicts (AttributeError: ConflictedIndexEntry.mode), git merge-like
  commands over a file replaced by a symlink / directory (MalformedTransform
  'overwrite'), revert after a merge-written file was replaced by a directory
  (IsADirectoryError in merge_modified()).

Mutants this was built against (scratch worktree; o = caught by the oracle with a
concrete lost content, t = by the correspondence, T1 = by the translated-source
theorems): keep_content when the hash EQUALS the basis (o,t); `backups and
target_kind is None` (o,t); merge_modified test inverted (o,t); bzr remove:
changed files not added to files_to_backup (o,t); git remove: the same (o,t);
bzr remove: safety scan skipped (o,t); bzr remove: rmtree of a non-empty
directory without force (o,t); backup branch of _alter_files deleting instead of
renaming (o,t); _dump_conflicts without the THIS helper (o,t); _has_named_child
ignoring the file system, so the backup name collides (t); no-basis branch
keeping content only for a versioned target (o,t); _apply_insertions reporting
renamed files in modified_paths, so that write_modified records them as written
by the merge and a later revert drops the edit without backup (seeded by the
coordinator; o,t on every seed through the two-step sequences).
Second round (worktree with the two patches of the open findings applied):
the conflict pass deleting an unknown file that is in the way of a created entry instead of moving it to
`<name>.moved` (o: switch / merge / revert lose the unknown file); controldir._available_backup_name
not looking at what exists, so `remove` renames onto an older numbered backup (o: the older backup's
content is lost; t: 55 lines); uncommit rewriting every versioned file with its own bytes (o: read-only
guard, inode / mtime / ctime changed - the byte comparison alone is clean); the keep_content variant
that keeps content absent from the basis only when the target has nothing (o: corpus scenario; T1: the
five source theorems fail, 27/32, no crash); tt._available_backup_name skipping the existence check for
`*.~2~` (o: helper returned an existing name; t); a directory that the incoming revision deletes and
that holds unknown files deleted anyway instead of "Not deleting" (o: d/uk lost after switch).
Harmless rewrite that stays clean with 32/32: `(target_kind is None or backups) and wt_kind == "file"`.
Equivalent mutants (stay clean, by design of the code): dropping the `versioned[0]
is False` branch of remove (the `changed_content` branch covers unknown and added
files).  Harmless rewrites that stay clean: remove() using sorted(); the
keep_content condition reordered (T1 still proves the equality).
"""
import ast
import hashlib
import os
import random
import shutil
import sys

from vlib import env

THEOREMS = [
    "revert_keeps_user_content", "revert_keeps_user_content_partial", "revert_no_basis_witness",
    "revert_no_backup_keeps_added", "revert_deletes_only_unedited_or_on_request", "revert_nonfile_never_kept",
    "firstFree_sound", "firstFree_congr", "firstFree_total", "backup_name_fresh",
    "rename_to_backup_spec", "backup_and_replace_spec", "revert_dir_keeps_user_bytes", "revert_dir_siblings_untouched",
    "remove_dir_keeps_unsafe_bytes",
    "remove_safe", "remove_keep", "remove_deletes_only_clean", "remove_trusts_reported_attributes_witness",
    "remove_never_deletes_unversioned_fixed", "remove_variants_agree_on_versioned",
    "merge_keeps_local", "merge_helper_iff",
    "merge_records_only_written", "move_only_merge_then_revert_keeps", "merge_written_then_revert_may_discard",
]
T1_THEOREMS = ["source_flags_fixed", "source_keep_content_eq", "source_revert_action_eq", "revert_keeps_user_content_source",
               "revert_dir_keeps_user_bytes_source"]
RUST = ("osutils-py",)
RULE = ("scenario = (format, random two-revision history with a side branch, local state with modified / added / "
        "re-added / unknown / merged files, unknown files in the way of incoming adds and inside deleted directories, "
        "kind changes, command with options); distinct by canonical scenario; non-trivial = "
        "at least one user-edited content is in the scope of the command; directory cases: non-trivial = a numbered "
        "backup of the name already exists")
ASSUMPTIONS = ["contents the harness writes as user edits carry unique marker lines; merge3 output for disjoint edits contains both edits",
               "uncommit read-only guard: a write that leaves bytes, size, inode, mtime and ctime of an entry unchanged is not seen"]
TRUSTED = ["whole-command composition (locking, dirstate, index, conflict resolution of the transform: .moved / not deleting) is "
           "exercised by the content oracle, not modelled; the model is per-file decisions plus the backup action on one directory listing",
           "uncommit is not modelled at all: the clause 'never modifies working-tree files' is checked on the real command only",
           "the T1 translator (harness/checks/c12.py: _keep_expr/_action_expr) maps the conditions of _alter_files to model attributes by "
           "a fixed table of atoms; the attributes themselves are gathered by the harness (T2)"]

FILES = ["f0", "f1", "f2", "f3", "d/g0", "d/g1"]


def base_text(name, v=0):
    return "".join("%s-L%d v%d\n" % (name.replace("/", "_"), i, v if i == 2 else 0) for i in range(5))


# --------------------------------------------------------------------------
# scenario construction

def gen_scenario(seed_tuple):
    rng = random.Random(repr(tuple(seed_tuple)))
    fmt, cmd = seed_tuple[1], seed_tuple[3]
    sc = dict(id=list(seed_tuple), fmt=fmt, cmd=cmd)
    sc["files"] = [f for f in FILES if rng.random() < 0.85] or ["f0"]
    files = sc["files"]
    sc["main_mod"] = [f for f in files if rng.random() < 0.3]
    rest = [f for f in files if f not in sc["main_mod"]]
    sc["main_del"] = [rng.choice(rest)] if rest and rng.random() < 0.5 else []
    rest = [f for f in rest if f not in sc["main_del"]]
    sc["main_ren"] = [rng.choice(rest)] if rest and rng.random() < 0.3 else []
    sc["other_mod"] = [f for f in files if rng.random() < 0.4]
    sc["other_del"] = [f for f in files if f not in sc["other_mod"] and rng.random() < 0.15]
    sc["other_add"] = ["o0"] if rng.random() < 0.5 else []
    # local state
    k = [0]

    def tok(kind):
        k[0] += 1
        return "%s-%d-%d" % (kind, seed_tuple[2], k[0])
    live = [f for f in files if f not in sc["main_del"]]
    live = [(f + "r" if f in sc["main_ren"] else f) for f in live]
    sc["premerge"] = cmd in ("revert", "remove") and rng.random() < 0.25
    sc["edits"] = []
    for f in live:
        r = rng.random()
        if r < 0.25:
            sc["edits"].append([f, "top", tok("EDIT")])
        elif r < 0.45:
            sc["edits"].append([f, "bottom", tok("EDIT")])
        elif r < 0.55:
            sc["edits"].append([f, "whole", tok("EDIT")])
    sc["unknown"] = [[p, tok("UNK")] for p in ["u0", "d/u1"] if rng.random() < 0.5 and (("/" not in p) or any(x.startswith("d/") for x in live))]
    sc["added"] = [[p, tok("ADD")] for p in ["a0", "d/a1"] if rng.random() < 0.4 and (("/" not in p) or any(x.startswith("d/") for x in live))]
    # re-create a path deleted on main and version it again (same file id in bzr half of the time)
    sc["readd"] = [[f, tok("READD"), rng.random() < 0.6] for f in sc["main_del"] if rng.random() < 0.6 and (("/" not in f) or any(x.startswith("d/") for x in live))]
    # command options
    if cmd == "revert":
        sc["backups"] = rng.random() < 0.75
        sc["old"] = rng.random() < 0.5
        cand = live + [u[0] for u in sc["unknown"]] + [a[0] for a in sc["added"]] + [x[0] for x in sc["readd"]] + ["d"]
        sc["select"] = sorted(set(rng.sample(cand, rng.randint(1, min(3, len(cand)))))) if rng.random() < 0.5 else None
    elif cmd == "remove":
        sc["mode"] = rng.choice(["safe", "safe", "keep", "force"])
        cand = live + [u[0] for u in sc["unknown"]] + [a[0] for a in sc["added"]] + ["d"]
        sc["select"] = sorted(set(rng.sample(cand, rng.randint(1, min(3, len(cand))))))
    _extend_scenario(sc, seed_tuple, live, tok)
    return sc


def _extend_scenario(sc, seed_tuple, live, tok):
    """unknown files in the way of what the command creates or deletes, kind changes, exec bits, uncommit
    options.  Drawn from a second generator so that the scenarios of corpus/C12 keep their shape."""
    rng = random.Random(repr(("ext",) + tuple(seed_tuple)))
    cmd, files = sc["cmd"], sc["files"]
    has_d = any(x.startswith("d/") for x in live)
    # ---- incoming revisions: more adds, whole-directory deletions
    sc["other_add2"] = ["d/o1"] if has_d and rng.random() < 0.35 else []
    sc["other_deldir"] = any(f.startswith("d/") for f in files) and rng.random() < 0.3
    sc["main_add"] = ["n0"] if rng.random() < 0.5 else []
    sc["main_deldir"] = cmd in ("pull", "revert") and any(f.startswith("d/") for f in files) and rng.random() < 0.3
    sc["rev3_add"] = ["n1"] if rng.random() < 0.6 else []
    sc["rev3_deldir"] = cmd == "update" and has_d and rng.random() < 0.3
    if sc["main_deldir"]:
        has_d = False
    # ---- unknown user files at the paths the command is going to create
    incoming = {"merge": sc["other_add"] + sc["other_add2"], "switch": sc["other_add"] + sc["other_add2"],
                "pull": sc["main_add"], "update": sc["rev3_add"]}.get(cmd, [])
    sc["inway"] = []
    for pth in incoming:
        if rng.random() < 0.7:
            sc["inway"].append([pth, tok("UNK"), rng.random() < 0.3])      # [path, token, also `<path>.moved`]
    # ---- unknown files inside the directory the command is going to delete
    sc["unknown_deep"] = []
    deldir = (cmd in ("merge", "switch") and sc["other_deldir"]) or (cmd == "pull" and sc["main_deldir"]) \
        or (cmd == "update" and sc["rev3_deldir"])
    if (deldir or cmd == "remove" or rng.random() < 0.2) and (has_d or cmd == "pull"):
        for pth in ["d/u2", "d/sub/u3"]:
            if rng.random() < 0.6:
                sc["unknown_deep"].append([pth, tok("UNK")])
    # ---- local operations of the user on files that are otherwise untouched
    busy = {e[0] for e in sc["edits"]} | {x[0] for x in sc["readd"]}
    free = [f for f in live if f not in busy]
    rng.shuffle(free)
    sc["local_ops"] = []
    nops = rng.choice([0, 0, 1, 1, 2]) if cmd in ("revert", "remove") else rng.choice([0, 0, 0, 1])
    kinds = ["rm-unknown", "mv-unknown", "to-symlink", "to-dir", "chmod-edit"]
    for f in free[:nops]:
        sc["local_ops"].append([rng.choice(kinds), f, tok("EDIT")])
    # a third generator (so that nothing above shifts): one more otherwise untouched file becomes a symlink or
    # is deleted from disk - the non-file branches of the revert decision
    rng3 = random.Random(repr(("ext3",) + tuple(seed_tuple)))
    left = [f for f in free[nops:]]
    if cmd == "revert" and left and rng3.random() < 0.6:
        sc["local_ops"].append([rng3.choice(["to-symlink", "delete"]), left[0], tok("EDIT")])
    if cmd in ("merge", "switch", "pull", "update") and rng3.random() < 0.3:
        # the user removed (or renamed away) a file the incoming revision modifies, and has a new unknown file there
        inc_mod = {"merge": sc["other_mod"], "switch": sc["other_mod"], "pull": sc["main_mod"]}.get(cmd, [])
        cand = [f for f in left if f in inc_mod]
        if cand:
            sc["local_ops"].append([rng3.choice(["rm-unknown", "mv-unknown"]), cand[0], tok("EDIT")])
    if cmd == "remove":
        # directories that hold unknown files, and the kind-changed paths, are what `remove` has to be careful with
        sel = set(sc["select"])
        if (sc["unknown_deep"] or any(u[0].startswith("d/") for u in sc["unknown"])) and rng.random() < 0.7:
            sel.add("d")
        for op, f, _t in sc["local_ops"]:
            if rng.random() < 0.6:
                sel.add(f)
        sc["select"] = sorted(sel)
    if cmd == "revert" and sc["select"] is not None:
        sel = set(sc["select"])
        for op, f, _t in sc["local_ops"]:
            if rng.random() < 0.7:
                sel.add(f)
        sc["select"] = sorted(sel)
    if cmd == "uncommit":
        sc["unc"] = dict(layout=rng.choice(["standalone", "standalone", "bound", "lightweight"]),
                         revno=rng.choice([None, None, 1, 2]), dry_run=rng.random() < 0.2,
                         local=rng.random() < 0.3, keep_tags=rng.random() < 0.3, pending=rng.random() < 0.3)


def _write(root, rel, data):
    full = os.path.join(root, rel)
    os.makedirs(os.path.dirname(full), exist_ok=True)
    with open(full, "w") as f:
        f.write(data)


def apply_edit(text, how, token):
    if how == "top":
        return token + "\n" + text
    if how == "bottom":
        return text + token + "\n"
    return token + "\nwhole " + token + "\n"


def build(sc):
    """-> dict(wt=<working tree to run the command on>, other=<branch>, rev1, rev2, user={path: content})"""
    from breezy.controldir import ControlDir
    from breezy.workingtree import WorkingTree
    fmt = sc["fmt"]
    main = env.make_tree(fmt)
    root = main.basedir
    for f in sc["files"]:
        _write(root, f, base_text(f))
    main.smart_add([root])
    rev1 = main.commit("rev1")
    # side branch from rev1
    odir = env.fresh_dir("other")
    os.rmdir(odir)
    other_cd = main.controldir.sprout(odir)
    other = other_cd.open_workingtree()
    odeldir = sc.get("other_deldir") and os.path.isdir(os.path.join(odir, "d"))
    for f in sc["other_mod"]:
        if not (odeldir and f.startswith("d/")):
            _write(odir, f, base_text(f).replace("L0 v0", "L0 other"))
    for f in sc["other_del"]:
        if not (odeldir and f.startswith("d/")):
            other.remove([f], keep_files=False, force=True)
    if odeldir:
        other.remove(["d"], keep_files=False, force=True)
    for f in sc["other_add"] + ([] if odeldir else sc.get("other_add2", [])):
        _write(odir, f, "other new %s\n" % f)
        other.add([f])
    other_rev = other.commit("other") if other.has_changes() else other.commit("other-empty")
    # main rev2
    ids = {}
    mdeldir = sc.get("main_deldir") and os.path.isdir(os.path.join(root, "d"))
    for f in sc["main_mod"]:
        if not (mdeldir and f.startswith("d/")):
            _write(root, f, base_text(f, 1))
    for f in sc["main_del"]:
        if fmt != "git":
            ids[f] = main.path2id(f)
        if not (mdeldir and f.startswith("d/")):
            main.remove([f], keep_files=False, force=True)
    for f in sc["main_ren"]:
        if not (mdeldir and f.startswith("d/")):
            main.rename_one(f, f + "r")
    if mdeldir:
        main.remove(["d"], keep_files=False, force=True)
    for f in sc.get("main_add", []):
        _write(root, f, "main new %s\n" % f)
        main.add([f])
    rev2 = main.commit("rev2")
    res = dict(rev1=rev1, rev2=rev2, other_rev=other_rev, other=other.branch)
    cmd = sc["cmd"]
    wt = main
    if cmd in ("update", "switch"):
        # a lightweight checkout of main, made when main was at rev2; main advances afterwards (update)
        cdir = env.fresh_dir("co")
        os.rmdir(cdir)
        wt = main.branch.create_checkout(cdir, lightweight=True)
    elif cmd == "pull":
        # a branch of main at rev1 with local edits pulls rev2
        pdir = env.fresh_dir("pull")
        os.rmdir(pdir)
        wt = main.controldir.sprout(pdir, revision_id=rev1).open_workingtree()
    elif cmd == "uncommit" and sc.get("unc"):
        unc = sc["unc"]
        try:
            main.branch.tags.set_tag("t2", rev2)
        except Exception:
            pass
        if unc["layout"] in ("bound", "lightweight"):
            cdir = env.fresh_dir("co")
            os.rmdir(cdir)
            wt = main.branch.create_checkout(cdir, lightweight=(unc["layout"] == "lightweight"))
    res["main"] = main
    wroot = wt.basedir
    if sc.get("premerge") or (cmd == "uncommit" and sc.get("unc", {}).get("pending")):
        try:
            wt.merge_from_branch(res["other"], force=True)
        except Exception as e:
            res["premerge_error"] = type(e).__name__
    user = {}
    exists = lambda p: os.path.isfile(os.path.join(wroot, p))
    for f, how, token in sc["edits"]:
        if cmd == "pull":
            f = f[:-1] if f.endswith("r") and f[:-1] in sc["main_ren"] else f     # the rev1 name
            if not exists(f):
                continue
        if not exists(f):
            continue
        text = apply_edit(open(os.path.join(wroot, f)).read(), how, token)
        _write(wroot, f, text)
        user[f] = text
    for p, token in sc["unknown"]:
        if os.path.isdir(os.path.join(wroot, os.path.dirname(p))) and not os.path.lexists(os.path.join(wroot, p)):
            _write(wroot, p, token + "\nunknown\n")
            user[p] = token + "\nunknown\n"
    for p, token in sc["added"]:
        if os.path.isdir(os.path.join(wroot, os.path.dirname(p))) and not os.path.lexists(os.path.join(wroot, p)):
            _write(wroot, p, token + "\nadded\n")
            wt.add([p])
            user[p] = token + "\nadded\n"
    if cmd != "pull":
        for f, token, sameid in sc["readd"]:
            if os.path.isdir(os.path.join(wroot, os.path.dirname(f))) and not os.path.lexists(os.path.join(wroot, f)):
                _write(wroot, f, token + "\nre-added\n")
                try:
                    if fmt != "git" and sameid and f in ids:
                        wt.add([f], ids=[ids[f]])
                    else:
                        wt.add([f])
                except Exception:       # the id is in use (a conflict helper of the previous merge carries it)
                    wt.add([f])
                user[f] = token + "\nre-added\n"
    present = lambda p: os.path.lexists(os.path.join(wroot, p))
    pdir = lambda p: os.path.isdir(os.path.join(wroot, os.path.dirname(p))) and not os.path.islink(os.path.join(wroot, os.path.dirname(p)))
    # unknown files where the command is going to create something, and deep inside directories
    for p, token, moved_too in sc.get("inway", []):
        if pdir(p) and not present(p):
            _write(wroot, p, token + "\nunknown in the way\n")
            user[p] = token + "\nunknown in the way\n"
            if moved_too and not present(p + ".moved"):
                _write(wroot, p + ".moved", token + "\nunknown .moved\n")
                user[p + ".moved"] = token + "\nunknown .moved\n"
    for p, token in sc.get("unknown_deep", []):
        if os.path.isdir(os.path.join(wroot, "d")) and not present(p):
            _write(wroot, p, token + "\nunknown deep\n")
            user[p] = token + "\nunknown deep\n"
    links = {}
    for op, f, token in sc.get("local_ops", []):
        if cmd == "pull" and f.endswith("r") and f[:-1] in sc["main_ren"]:
            f = f[:-1]
        full = os.path.join(wroot, f)
        if not (os.path.isfile(full) and not os.path.islink(full) and wt.is_versioned(f)) or f in user:
            continue
        if op == "rm-unknown":
            wt.remove([f], keep_files=False, force=True)
            _write(wroot, f, token + "\nnew unknown at a removed path\n")
            user[f] = token + "\nnew unknown at a removed path\n"
        elif op == "mv-unknown":
            wt.rename_one(f, f + "x")
            _write(wroot, f, token + "\nnew unknown at a renamed path\n")
            user[f] = token + "\nnew unknown at a renamed path\n"
        elif op == "to-symlink":
            os.unlink(full)
            os.symlink("LINK-" + token, full)
            links[f] = "LINK-" + token
        elif op == "to-dir":
            os.unlink(full)
            _write(wroot, f + "/inner", token + "\nunknown inside a new directory\n")
            user[f + "/inner"] = token + "\nunknown inside a new directory\n"
        elif op == "delete":
            os.unlink(full)
        elif op == "chmod-edit":
            text = apply_edit(open(full).read(), "bottom", token)
            _write(wroot, f, text)
            os.chmod(full, 0o755)
            user[f] = text
    res["links"] = links
    if cmd == "update":
        _write(root, sc["files"][0] if sc["files"][0] not in sc["main_del"] and sc["files"][0] not in sc["main_ren"] else "newmain", "main rev3\n")
        for f in sc.get("rev3_add", []):
            _write(root, f, "main rev3 new %s\n" % f)
        if sc.get("rev3_deldir") and os.path.isdir(os.path.join(root, "d")):
            main.remove(["d"], keep_files=False, force=True)
        main.smart_add([root])
        res["rev3"] = main.commit("rev3")
    res["wt"] = wt
    res["user"] = user
    return res


def all_files(root, wt):
    out = {}
    for dp, dn, fn in os.walk(root):
        rel = os.path.relpath(dp, root)
        rel = "" if rel == "." else rel
        dn[:] = [d for d in dn if not wt.is_control_filename((rel + "/" + d) if rel else d)]
        for f in fn:
            r = (rel + "/" + f) if rel else f
            p = os.path.join(dp, f)
            if os.path.islink(p) or not os.path.isfile(p):
                continue
            with open(p, "rb") as fh:
                out[r] = fh.read().decode("utf-8", "replace")
    return out


def meta_snapshot(root, wt):
    """{relpath: (mode, inode, size, mtime_ns, ctime_ns, link target)} of everything below the tree root
    outside the control directory (the root directory itself is ""): any write, truncation, chmod, rename,
    creation or removal changes an entry (ctime cannot be set from user space)"""
    out = {}
    for dp, dn, fn in os.walk(root):
        rel = os.path.relpath(dp, root)
        rel = "" if rel == "." else rel
        dn[:] = [d for d in dn if not wt.is_control_filename((rel + "/" + d) if rel else d)]
        for name in [None] + dn + fn:
            r = rel if name is None else ((rel + "/" + name) if rel else name)
            full = os.path.join(root, r)
            st = os.lstat(full)
            out[r] = [st.st_mode, st.st_ino, st.st_size, st.st_mtime_ns, st.st_ctime_ns,
                      os.readlink(full) if os.path.islink(full) else None]
    return out


def all_links(root, wt):
    out = {}
    for dp, dn, fn in os.walk(root):
        rel = os.path.relpath(dp, root)
        rel = "" if rel == "." else rel
        for name in dn + fn:
            r = (rel + "/" + name) if rel else name
            if os.path.islink(os.path.join(root, r)):
                out[r] = os.readlink(os.path.join(root, r))
        dn[:] = [d for d in dn if not wt.is_control_filename((rel + "/" + d) if rel else d) and not os.path.islink(os.path.join(dp, d))]
    return out


def run_command(sc, b):
    from breezy.workingtree import WorkingTree
    wt = WorkingTree.open(b["wt"].basedir)
    cmd = sc["cmd"]
    err = None
    try:
        if cmd == "revert":
            with wt.lock_tree_write():
                old = wt.branch.repository.revision_tree(b["rev1"]) if sc["old"] else None
                wt.revert(filenames=sc["select"], old_tree=old, backups=sc["backups"])
        elif cmd == "remove":
            sel = [p for p in sc["select"] if os.path.lexists(os.path.join(wt.basedir, p))]
            if sel:
                wt.remove(sel, keep_files=(sc["mode"] == "keep"), force=(sc["mode"] == "force"))
        elif cmd == "merge":
            wt.merge_from_branch(b["other"], force=True)
        elif cmd == "pull":
            wt.pull(b["main"].branch)
        elif cmd == "update":
            wt.update()
        elif cmd == "switch":
            from breezy import switch
            switch.switch(wt.controldir, b["other"], force=True)
        elif cmd == "uncommit":
            from breezy.uncommit import uncommit
            unc = sc.get("unc") or {}
            uncommit(wt.branch, tree=wt, revno=unc.get("revno"), dry_run=bool(unc.get("dry_run")),
                     local=bool(unc.get("local")), keep_tags=bool(unc.get("keep_tags")))
    except Exception as e:
        import traceback
        err = "%s: %s" % (type(e).__name__, traceback.format_exc()[-400:])
    return err


# --------------------------------------------------------------------------
# per-file facts for the model (computed before the command through public API)

def sha(text):
    return hashlib.sha1(text.encode()).hexdigest()


def revert_facts(sc, b):
    """[(path, inputs-dict)] for the versioned working-tree entries (files, symlinks, missing) in the scope
    of the revert.  `changed`, the kinds and `tversioned` are taken from the same `iter_changes` call
    `_alter_files` makes; the harness's own recomputation is kept beside it (`changed_re`) and disagreements
    are counted"""
    from breezy.tree import InterTree
    from breezy.workingtree import WorkingTree
    wt = WorkingTree.open(b["wt"].basedir)
    out = []
    with wt.lock_read():
        basis = wt.basis_tree()
        target = wt.branch.repository.revision_tree(b["rev1"]) if sc["old"] else basis
        with basis.lock_read(), target.lock_read():
            try:
                mm = wt.merge_modified() if wt.supports_merge_modified() else {}
            except OSError:
                mm = {}       # a recorded file was replaced by a directory: merge_modified() (and the command) raise
            try:
                changes = {c.path[1]: c for c in wt.iter_changes(target, specific_files=sc["select"]) if c.path[1] is not None}
                ic = True
            except Exception:
                changes, ic = {}, False       # e.g. a selected path is not versioned: the command refuses too
            files = all_files(wt.basedir, wt)
            links = all_links(wt.basedir, wt)
            for p in sorted(wt.all_versioned_paths()):
                if p == "" or (sc["select"] is not None and not any(p == s or p.startswith(s + "/") for s in sc["select"])):
                    continue
                full = os.path.join(wt.basedir, p)
                if p in links:
                    wk, thing = "symlink", ["l", links[p]]
                elif p in files:
                    wk, thing = "file", ["f", files[p]]
                elif not os.path.lexists(full) and not os.path.islink(os.path.dirname(full)):
                    wk, thing = None, ["~", None]
                else:
                    continue        # directories: their fate is decided by the conflict resolution of the transform
                if sc.get("premerge") and p.endswith((".THIS", ".OTHER", ".BASE")):
                    # helper files of the earlier merge: WorkingTree.revert resolves the conflicts it
                    # reverted and that removes their helpers - not a decision of _alter_files
                    continue
                try:
                    tpath = InterTree.get(target, wt).find_source_path(p)
                    bpath = InterTree.get(basis, wt).find_source_path(p)
                except Exception:
                    continue        # git: a versioned path that is missing on disk cannot be looked up
                tkind = target.kind(tpath) if tpath is not None else None
                if wk == "file":
                    ttext = target.get_file_text(tpath).decode() if tkind == "file" else None
                    changed_re = (tkind != "file") or ttext != files[p]
                elif wk == "symlink":
                    changed_re = tkind != "symlink" or target.get_symlink_target(tpath) != links[p]
                else:
                    changed_re = tkind is not None
                c = changes.get(p)
                if not ic:
                    changed, tk, tv, source = changed_re, tkind, tpath is not None, "recomputed"
                elif c is None:
                    changed, tk, tv, source = False, tkind, tpath is not None, "not-reported"
                else:
                    changed, tk, tv, source = bool(c.changed_content), c.kind[0], bool(c.versioned[0]), "iter_changes"
                    if c.kind[1] != wk:
                        source = "iter_changes-kind-differs"
                bfile = bpath is not None and basis.kind(bpath) == "file"
                out.append((p, dict(changed=changed, changed_re=changed_re, source=source, wkind=wk, backups=sc["backups"],
                                    tkind=tk, tversioned=tv, mm=mm.get(p) if wk == "file" else None,
                                    wsha=wt.get_file_sha1(p) if wk == "file" else None, bpresent=bpath is not None,
                                    bsha=basis.get_file_sha1(bpath) if bfile else None, text=thing)))
    return out


_BACKUP_RE = None


def fate(pre_path, thing, before, after, links_before=None, links_after=None):
    """what happened to the working-tree entry `thing` = [kind, payload] that was at pre_path: 'kept' (at a
    tree path that is not a new backup name), 'backup' (only under a new *.~N~ name), 'gone'.  A regular
    file is followed by its text, a symlink by its target; for a missing entry ('~') the question is
    whether a backup name appeared for it"""
    import re
    if isinstance(thing, str):
        thing = ["f", thing]
    kind, payload = thing
    is_backup = lambda p, old: bool(re.search(r"\.~\d+~(/|$)", p)) and p not in old
    if kind == "~":
        new = [p for p in list(after) + list(links_after or {}) if p.startswith(pre_path + ".~") and is_backup(p, dict(before, **(links_before or {})))]
        return "backup" if new else "kept"
    aft, bef = (after, before) if kind == "f" else (links_after or {}, links_before or {})
    holders = [p for p, t in aft.items() if t == payload]
    if not holders:
        return "gone"
    if [p for p in holders if not is_backup(p, bef)]:
        return "kept"
    return "backup"



def remove_facts(sc, b):
    """[(path, inputs, text)] for regular files at or below the selected paths.  `inbasis` / `changed` are
    what the code reads: the records of the same `iter_changes(basis, include_unchanged, want_unversioned)`
    call `remove` makes (a path no record names is treated as clean by `remove`); the harness's own
    account of the state (`*_re`) is kept beside it"""
    from breezy import osutils
    from breezy.tree import InterTree
    from breezy.workingtree import WorkingTree
    wt = WorkingTree.open(b["wt"].basedir)
    out = []
    sel = [p for p in sc["select"] if os.path.lexists(os.path.join(wt.basedir, p))]
    with wt.lock_read():
        basis = wt.basis_tree()
        with basis.lock_read():
            files = all_files(wt.basedir, wt)
            scope = sorted(set(sel) | {p for p in wt.all_versioned_paths() if any(p.startswith(s + "/") for s in sel)})
            try:
                recs = {c.path[1]: c for c in wt.iter_changes(basis, include_unchanged=True, require_versioned=False,
                                                               want_unversioned=True, specific_files=scope) if c.path[1] is not None}
                ic = True
            except Exception:
                recs, ic = {}, False
            for p, text in sorted(files.items()):
                if not any(p == s or p.startswith(s + "/") for s in sel):
                    continue
                versioned = wt.is_versioned(p)
                role = "s" if (p in sel or versioned) else "n"
                bpath = InterTree.get(basis, wt).find_source_path(p) if versioned else None
                inbasis_re = bpath is not None
                changed_re = inbasis_re and (basis.kind(bpath) != "file" or basis.get_file_text(bpath).decode() != text)
                c = recs.get(p)
                if not ic or role == "n":
                    inbasis, changed, source = inbasis_re, changed_re, "recomputed"
                elif c is None:
                    inbasis, changed, source = True, False, "not-reported"
                else:
                    inbasis = c.versioned[0] is not False
                    changed = bool(c.changed_content and c.kind[1] is not None and osutils.is_inside_any(scope, c.path[1]))
                    source = "iter_changes"
                out.append((p, dict(keep=sc["mode"] == "keep", force=sc["mode"] == "force", role=role, wtversioned=versioned, inbasis=inbasis, changed=changed,
                                    inbasis_re=inbasis_re, changed_re=changed_re, source=source), text))
    return out


def run_scenario(seed_tuple):
    """never raises (an exception object that cannot be unpickled would hang the pool)"""
    try:
        return _run_scenario(seed_tuple)
    except Exception as e:
        import traceback
        return dict(harness_error="%s: %s" % (type(e).__name__, traceback.format_exc()[-500:]), id=list(seed_tuple))


def _run_scenario(seed_tuple):
    """build, run the command on the real code, return everything the checks need (JSON-able)"""
    from breezy.workingtree import WorkingTree
    sc = gen_scenario(seed_tuple)
    b = build(sc)
    wt = WorkingTree.open(b["wt"].basedir)
    # numbered backup files that already exist (unknown user files): a new backup must not clobber them
    rng = random.Random(repr(("pre", tuple(seed_tuple))))
    for pth in sorted(b["user"]):
        if rng.random() < 0.25 and sc["cmd"] in ("revert", "remove"):
            for n in range(1, rng.randint(1, 2) + 1):
                bp = "%s.~%d~" % (pth, n)
                text = "UNK-%d-old-backup-%s\n" % (seed_tuple[2], bp.replace("/", "_"))
                _write(wt.basedir, bp, text)
                b["user"][bp] = text
    before = all_files(wt.basedir, wt)
    with wt.lock_read():
        versioned_before = sorted(wt.all_versioned_paths())
    facts = []
    if sc["cmd"] == "revert":
        facts = [(p, {k: v for k, v in f.items() if k != "text"}, f["text"]) for p, f in revert_facts(sc, b)]
    elif sc["cmd"] == "remove":
        facts = remove_facts(sc, b)
    links_before = all_links(wt.basedir, wt)
    meta_before = meta_snapshot(wt.basedir, wt) if sc["cmd"] == "uncommit" else None
    err = run_command(sc, b)
    wt = WorkingTree.open(b["wt"].basedir)
    touched = None
    if meta_before is not None:
        meta_after = meta_snapshot(wt.basedir, wt)
        touched = sorted(k for k in set(meta_before) | set(meta_after) if meta_before.get(k) != meta_after.get(k))
    after = all_files(wt.basedir, wt)
    links_after = all_links(wt.basedir, wt)
    with wt.lock_read():
        versioned_after = sorted(wt.all_versioned_paths())
    res = dict(sc=sc, err=err, user=b["user"], before=before, after=after, touched=touched,
               links=b.get("links", {}), links_before=links_before, links_after=links_after,
               versioned_before=versioned_before, versioned_after=versioned_after,
               facts=[(p, f, fate(p, t, before, after, links_before, links_after)) for p, f, t in facts],
               premerge_error=b.get("premerge_error"))
    dirs = set([b["main"].basedir, b["wt"].basedir])
    try:
        dirs.add(b["other"].user_transport.local_abspath("."))
    except Exception:
        pass
    for d in dirs:
        shutil.rmtree(d, ignore_errors=True)
    return res


# --------------------------------------------------------------------------
# merge mini-stream: one file, (this edit, other edit)

MERGE_EDITS = ["none", "top", "bottom", "whole", "line2"]
OTHER_EDITS = ["none", "top", "bottom", "line0", "line2", "delete", "same"]


def run_merge_case(case):
    try:
        return _run_merge_case(case)
    except Exception as e:
        import traceback
        return dict(harness_error="%s: %s" % (type(e).__name__, traceback.format_exc()[-500:]))


def _run_merge_case(case):
    """case = [fmt, this_edit, other_edit, k]"""
    from breezy.workingtree import WorkingTree
    fmt, te, oe, k = case
    main = env.make_tree(fmt)
    root = main.basedir
    base = base_text("m")
    _write(root, "m", base)
    _write(root, "keep", "keep\n")
    main.smart_add([root])
    main.commit("base")
    odir = env.fresh_dir("mo")
    os.rmdir(odir)
    other = main.controldir.sprout(odir).open_workingtree()
    token = "EDIT-m-%d" % k

    def edit(text, how, tok):
        if how == "none":
            return text
        if how == "line0":
            return text.replace("L0 v0", "L0 " + tok)
        if how == "line2":
            return text.replace("L2 v0", "L2 " + tok)
        return apply_edit(text, how, tok)
    this_text = edit(base, te, token)
    if oe == "delete":
        other.remove(["m"], keep_files=False, force=True)
        other_text = None
    elif oe == "same":
        other_text = this_text
        _write(odir, "m", other_text)
    else:
        other_text = edit(base, oe, "OTHER-%d" % k)
        _write(odir, "m", other_text)
    _write(odir, "keep", "keep other\n")
    other.commit("other")
    _write(root, "m", this_text)
    if te != "none" and rng_commit(k):
        main.commit("this")          # committed local change: merge of two committed texts
    err = None
    try:
        main.merge_from_branch(other.branch, force=True)
    except Exception as e:
        err = type(e).__name__
    wt = WorkingTree.open(root)
    after = all_files(root, wt)
    # independent account of the text merge (external library merge3)
    text_conflict = False
    if other_text is not None:
        import merge3
        m3 = merge3.Merge3(base.splitlines(True), other_text.splitlines(True), this_text.splitlines(True))
        text_conflict = any(r[0] == "conflict" for r in m3.merge_regions())
    if after.get("m") == this_text:
        f = "kept"
    elif after.get("m.THIS") == this_text:
        f = "kept" if oe == "delete" else "helper"
    elif "m" in after and token in after["m"] and te != "none" and all(l in after["m"].split("\n") for l in this_text.split("\n") if token in l):
        f = "merged"
    elif this_text in after.values():
        f = "kept"
    else:
        f = "gone"
    shutil.rmtree(root, ignore_errors=True)
    shutil.rmtree(odir, ignore_errors=True)
    return dict(fate=f, err=err, this_changed=this_text != base, other_changed=other_text is not None and other_text != base,
                other_deleted=other_text is None, same=other_text == this_text, text_conflict=text_conflict,
                after=sorted(after))


def rng_commit(k):
    return k % 3 == 0



# --------------------------------------------------------------------------
# two-step sequences: merge-like command(s) that rename / move edited files, then revert / remove / merge

SEQ_BRING = ["pull", "merge", "update", "switch"]
SEQ_FINAL = ["revert", "revert", "revert-path", "revert-path", "merge-other", "remove-path"]


def gen_sequence(seed_tuple):
    """seed_tuple = (seed, fmt, index | "min-<bring>", "seq")"""
    fmt, idx = seed_tuple[1], seed_tuple[2]
    rng = random.Random(repr(tuple(seed_tuple)))
    sc = dict(id=list(seed_tuple), fmt=fmt, cmd="seq")
    if isinstance(idx, str) and idx.startswith("min-"):
        # the minimal sequence: one edited file, the incoming revision only renames it, then revert
        sc.update(files=["f0", "f1"], bring=idx[4:], moves=[["f0", "f0r"]], mods=[], adds=[], chain=None,
                  edits=[["f0", "bottom", "EDIT-min-1"]], unknown=[], final="revert")
        return sc
    files = [f for f in FILES if rng.random() < 0.9] or ["f0"]
    sc["files"] = files
    sc["bring"] = rng.choice(SEQ_BRING)
    pool = list(files)
    rng.shuffle(pool)
    moves = []
    for f in pool[:rng.randint(1, 2)]:
        how = rng.random()
        if how < 0.4:
            new = f + "r"                                         # rename in place
        elif "/" in f:
            new = os.path.basename(f) + "m"                       # out of its directory
        else:
            new = "nd/" + f + "m" if how < 0.7 else "d/" + f + "m"   # into a new / an existing directory
        moves.append([f, new])
    sc["moves"] = moves
    moved = [m[0] for m in moves]
    sc["mods"] = [f for f in files if f not in moved and rng.random() < 0.35]      # content changed by the incoming revision
    sc["adds"] = ["inc0"] if rng.random() < 0.4 else []
    # an optional second incoming revision (chained merge-like command)
    chain = None
    if rng.random() < 0.4:
        rest = [f for f in files if f not in moved and f not in sc["mods"]]
        cm = []
        if rest and rng.random() < 0.6:
            cm.append([rest[0], rest[0] + "r2"])
        elif moves:
            cm.append([moves[0][1], moves[0][1] + "2"])            # rename the renamed file again
        chain = dict(moves=cm, mods=[f for f in sc["mods"][:1] if rng.random() < 0.5])
    sc["chain"] = chain
    k = [0]

    def tok():
        k[0] += 1
        return "EDIT-%s-%d" % (idx, k[0])
    sc["edits"] = []
    for f in files:
        p_edit = 0.85 if f in moved else 0.4 if f in sc["mods"] else 0.3
        if rng.random() < p_edit:
            sc["edits"].append([f, rng.choice(["top", "bottom", "bottom", "whole"]) if f not in sc["mods"] else "bottom", tok()])
    sc["unknown"] = [["u0", "UNK-%s-%d" % (idx, 99)]] if rng.random() < 0.4 else []
    sc["final"] = rng.choice(SEQ_FINAL)
    # second generator (the earlier fields keep their values): unknown files in the way of what the incoming
    # revision adds, and inside a directory it deletes
    rng2 = random.Random(repr(("ext",) + tuple(seed_tuple)))
    sc["inway"] = [[a, "UNK-%s-%d" % (idx, 98), rng2.random() < 0.3] for a in sc["adds"] if rng2.random() < 0.7]
    touched = [m[0] for m in moves] + [m[1] for m in moves] + sc["mods"] + (([m[0] for m in chain["moves"]] + chain["mods"]) if chain else [])
    sc["rmdir"] = any(f.startswith("d/") for f in files) and not any(t.startswith("d/") for t in touched) and rng2.random() < 0.4
    if sc["rmdir"]:
        sc["edits"] = [e for e in sc["edits"] if not e[0].startswith("d/")]
        sc["unknown"] = sc["unknown"] + [["d/uk", "UNK-%s-%d" % (idx, 97)]]
    return sc


def _apply_incoming(main, root, moves, mods, adds, version, rmdir=False):
    if rmdir and os.path.isdir(os.path.join(root, "d")):
        main.remove(["d"], keep_files=False, force=True)
    for f in mods:
        if os.path.exists(os.path.join(root, f)):
            _write(root, f, open(os.path.join(root, f)).read().replace("L%d v" % version, "L%d inc v" % version))
    for old, new in moves:
        if not os.path.exists(os.path.join(root, old)):
            continue
        d = os.path.dirname(new)
        if d and not os.path.isdir(os.path.join(root, d)):
            os.mkdir(os.path.join(root, d))
            main.add([d])
        main.rename_one(old, new)
    for f in adds:
        _write(root, f, "incoming new %d\n" % version)
        main.add([f])


def _bring(kind, wt, main, first):
    from breezy.workingtree import WorkingTree
    wt = WorkingTree.open(wt.basedir)
    if kind == "pull":
        wt.pull(main.branch)
    elif kind == "merge":
        wt.merge_from_branch(main.branch, force=True)
    elif kind == "update" or (kind == "switch" and not first):
        wt.update()
    elif kind == "switch":
        from breezy import switch
        switch.switch(wt.controldir, main.branch, force=True)


def run_sequence(seed_tuple):
    try:
        return _run_sequence(seed_tuple)
    except Exception as e:
        import traceback
        return dict(harness_error="%s: %s" % (type(e).__name__, traceback.format_exc()[-600:]), id=list(seed_tuple))


def _run_sequence(seed_tuple):
    from breezy.workingtree import WorkingTree
    sc = gen_sequence(seed_tuple)
    fmt = sc["fmt"]
    main = env.make_tree(fmt)
    root = main.basedir
    for f in sc["files"]:
        _write(root, f, base_text(f))
    main.smart_add([root])
    rev1 = main.commit("rev1")
    # a side branch for the final "merge-other"
    odir = env.fresh_dir("sother")
    os.rmdir(odir)
    other = main.controldir.sprout(odir).open_workingtree()
    _write(odir, "o-only", "other side\n")
    other.add(["o-only"])
    other.commit("other")
    # the tree the user works in
    wdir = env.fresh_dir("swork")
    os.rmdir(wdir)
    bring = sc["bring"]
    dirs = [root, odir, wdir]
    if bring in ("pull", "merge"):
        wt = main.controldir.sprout(wdir).open_workingtree()
    elif bring == "update":
        wt = main.branch.create_checkout(wdir, lightweight=True)
    else:
        bdir = env.fresh_dir("sbase")
        os.rmdir(bdir)
        dirs.append(bdir)
        base_br = main.controldir.sprout(bdir).open_branch()
        wt = base_br.create_checkout(wdir, lightweight=True)
    # user edits (before the incoming revision exists in the tree)
    tracked = {}
    for f, how, token in sc["edits"]:
        text = apply_edit(open(os.path.join(wdir, f)).read(), how, token)
        _write(wdir, f, text)
        tracked[text] = f
    for pth, token in sc["unknown"]:
        _write(wdir, pth, token + "\nunknown\n")
        tracked[token + "\nunknown\n"] = pth
    for pth, token, moved_too in sc.get("inway", []):
        _write(wdir, pth, token + "\nunknown in the way\n")
        tracked[token + "\nunknown in the way\n"] = pth
        if moved_too:
            _write(wdir, pth + ".moved", token + "\nunknown .moved\n")
            tracked[token + "\nunknown .moved\n"] = pth + ".moved"
    steps = []
    lost = []

    def snapshot():
        w = WorkingTree.open(wdir)
        return all_files(wdir, w)

    def account(step, kind, after, exempt=()):
        """tracked contents must still exist verbatim; after a merge-like step a content whose lines were
        merged into a file is from then on "written by a merge" and is no longer tracked"""
        for text in list(tracked):
            if text in after.values():
                continue
            origin = tracked.pop(text)
            toks = _tokens(text)
            if kind == "merge-like" and toks and any(all(t in a.split("\n") for t in toks) for a in after.values()):
                continue
            if origin in exempt:
                continue
            lost.append(dict(step=step, origin=origin, text=text[:60]))

    def mm_facts(moves, mods, adds):
        """[(path, otherChangedContent, otherAdded, onlyMoved, recorded)] for versioned files after a merge-like step"""
        w = WorkingTree.open(wdir)
        out = []
        if not w.supports_merge_modified():
            return out
        with w.lock_read():
            mm = w.merge_modified()
            newname = dict((m[0], m[1]) for m in moves)
            for pth in sorted(all_files(wdir, w)):
                if not w.is_versioned(pth):
                    continue
                changed = pth in mods
                added = pth in adds
                only_moved = pth in newname.values()
                out.append((pth, changed, added, only_moved, pth in mm))
        return out
    # ---- step 1 (and 1b): merge-like commands
    incoming = [(sc["moves"], sc["mods"], sc["adds"])]
    if sc["chain"]:
        incoming.append((sc["chain"]["moves"], sc["chain"]["mods"], []))
    mmobs = []
    cum_mods, cum_adds, cum_moves = [], [], []
    path_now = {f: f for f in sc["files"]}
    for n, (moves, mods, adds) in enumerate(incoming):
        mods_now = [path_now.get(f, f) for f in mods]
        _apply_incoming(main, root, moves, mods_now, adds, n + 2, rmdir=(n == 0 and sc.get("rmdir")))
        try:
            main.commit("rev%d" % (n + 2))
        except Exception as e:
            if type(e).__name__ != "ConflictsInTree":
                raise
            # git: the conflicts of a lightweight checkout that was switched to this branch are listed for
            # the branch's own tree too (shared common directory); not a matter of this property
            main.set_conflicts([])
            main.commit("rev%d" % (n + 2))
        for old, new in moves:
            for f0, cur in list(path_now.items()):
                if cur == old:
                    path_now[f0] = new
        err = None
        try:
            _bring(bring, wt, main, n == 0)
        except Exception as e:
            import traceback
            err = "%s: %s" % (type(e).__name__, traceback.format_exc()[-300:])
        after = snapshot()
        steps.append(dict(cmd=bring if n == 0 else (bring if bring != "switch" else "update"), err=err))
        account(len(steps), "merge-like", after)
        if bring == "merge":
            # the first merge is not committed: the second merge from the same branch writes its texts again
            cum_mods = sorted(set([path_now.get(f, f) for f in cum_mods] + mods_now))
            cum_adds = sorted(set(cum_adds + adds))
            cum_moves = cum_moves + moves
        else:
            cum_mods, cum_adds, cum_moves = mods_now, adds, moves
        if err is None:
            fs = mm_facts(cum_moves, cum_mods, cum_adds)
            if bring == "merge" and n > 0:
                # whether a repeated, uncommitted merge rewrites a text depends on the local edits; what is
                # compared there is that nothing the merges did not write is recorded
                fs = [f for f in fs if not f[1] and not f[2]]
            mmobs.append(dict(step=len(steps), facts=fs))
    # ---- final step
    final = sc["final"]
    edited_moved = [path_now[f] for f, _h, _t in sc["edits"] if path_now[f] != f and os.path.exists(os.path.join(wdir, path_now[f]))]
    target = edited_moved[0] if edited_moved else None
    before_final = snapshot()
    links_before_final = all_links(wdir, WorkingTree.open(wdir))
    facts = []
    err = None
    w = WorkingTree.open(wdir)
    try:
        if final in ("revert", "revert-path") or (final == "remove-path" and target is None):
            fsc = dict(backups=True, old=False, select=[target] if (final == "revert-path" and target) else None)
            b = dict(wt=w, rev1=rev1)
            facts = [(pth, {k: v for k, v in f.items() if k != "text"}, f["text"]) for pth, f in revert_facts(fsc, b)]
            with w.lock_tree_write():
                w.revert(filenames=fsc["select"], backups=True)
            final = "revert-path" if fsc["select"] else "revert"
        elif final == "remove-path":
            w.remove([target], keep_files=False, force=False)
        elif final == "merge-other":
            w.merge_from_branch(other.branch, force=True)
    except Exception as e:
        import traceback
        err = "%s: %s" % (type(e).__name__, traceback.format_exc()[-300:])
    after = snapshot()
    steps.append(dict(cmd=final, err=err, target=target))
    account(len(steps), "merge-like" if final == "merge-other" else "exact", after)
    res = dict(sc=sc, steps=steps, lost=lost, mm=mmobs,
               facts=[(pth, f, fate(pth, t, before_final, after, links_before_final, all_links(wdir, WorkingTree.open(wdir))))
                      for pth, f, t in facts] if err is None else [],
               ntracked=len(sc["edits"]) + len(sc["unknown"]))
    for d in dirs:
        shutil.rmtree(d, ignore_errors=True)
    return res


def check_sequence(ctx, res, flag):
    sc = res["sc"]
    cid = dict(id=sc["id"], fmt=sc["fmt"], cmd="seq",
               sequence=[s["cmd"] for s in res["steps"]], incoming_moves=sc["moves"], incoming_mods=sc["mods"],
               chain=sc["chain"], edits=sc["edits"], final_target=res["steps"][-1].get("target"))
    ctx.case(dict(sc=sc), nontrivial=bool(sc["edits"]))
    ctx.count("seq:%s:%s+%s%s" % (sc["fmt"], sc["bring"], res["steps"][-1]["cmd"], "+chain" if sc["chain"] else ""))
    for st in res["steps"]:
        if st["err"]:
            ctx.count("error:seq:%s:%s" % (st["cmd"], st["err"].split(":")[0]))
    for key in ("inway", "rmdir"):
        if sc.get(key):
            ctx.count("gen:seq:%s" % key)
    for l in res["lost"]:
        ctx.count("user-content:LOST")
        stepcmd = res["steps"][l["step"] - 1]["cmd"]
        fam = None
        if sc["fmt"] == "git" and stepcmd in ("merge", "pull", "update", "switch") and any(l["origin"] == w[0] for w in sc.get("inway", [])):
            fam = "git-unknown-file-overwritten-by-incoming-add"
        ctx.violation(dict(cid, lost=l, inway=sc.get("inway")), "sequence %s: step %d (%s) discarded the user's content of %r (written before the sequence; "
                      "not in the tree, not in a backup or helper file afterwards): %r"
                      % (" ; ".join(s["cmd"] for s in res["steps"]), l["step"], stepcmd, l["origin"], l["text"]), family=fam)
    cases, lines, impls = [], [], []
    for ob in res["mm"]:
        for pth, changed, added, only_moved, recorded in ob["facts"]:
            ctx.count("merge-hashes:%s" % ("content-changed" if changed else "added" if added else "only-moved" if only_moved else "untouched"))
            cases.append(dict(cid, merge_hashes_after_step=ob["step"], path=pth))
            lines.append("mm %s %s %s" % (TF(changed), TF(added), TF(only_moved)))
            impls.append("recorded" if recorded else "absent")
    for pth, f, observed in res["facts"]:
        cases.append(dict(cid, path=pth, inputs=f))
        lines.append("revert %s %s %s %s %s %s %s %s %s" % (
            TF(flag), TF(f["changed"]), KC[f["wkind"]], TF(f["backups"]), KC[f["tkind"]], TF(f["tversioned"]),
            TF(f["mm"] is not None and f["mm"] == f["wsha"]), TF(f["bpresent"]), TF(f["bsha"] is not None and f["bsha"] == f["wsha"])))
        impls.append(observed)
    return cases, lines, impls


# --------------------------------------------------------------------------
# backup action on a real directory: tt._available_backup_name asked directly, then one real revert and
# one real remove over many small directories with generated sibling names

def gen_dir_cases(rng, n):
    cases = []
    for k in range(n):
        name = rng.choice(["f", "f", "a.b", "x~", "f.~1~"])
        ks = rng.sample(range(1, 9), rng.randint(0, 6))
        if rng.random() < 0.5:
            ks = list(range(1, rng.randint(1, 7)))        # a dense prefix: the loop has to walk it
        sib = ["%s.~%d~" % (name, j) for j in ks] + rng.sample([name + ".~0~", name + ".~1", name + "~1~", "other.~1~", name + ".moved"], 2)
        rng.shuffle(sib)
        free = next(j for j in range(1, 20) if j not in ks)
        cases.append(dict(k=k, name=name, mode=rng.choice(["revert", "revert", "remove"]),
                          siblings=[[nm, "S%d_%d" % (k, j)] for j, nm in enumerate(sib)],
                          ttnew=["%s.~%d~" % (name, free)] if rng.random() < 0.3 else []))
    return cases


def run_dir_cases(arg):
    try:
        return _run_dir_cases(arg)
    except Exception as e:
        import traceback
        return dict(harness_error="%s: %s" % (type(e).__name__, traceback.format_exc()[-500:]))


def _listing(root, sub):
    out = {}
    for nm in sorted(os.listdir(os.path.join(root, sub))):
        full = os.path.join(root, sub, nm)
        out[nm] = open(full).read() if os.path.isfile(full) and not os.path.islink(full) else "<%s>" % ("link" if os.path.islink(full) else "dir")
    return out


def _run_dir_cases(arg):
    from breezy.workingtree import WorkingTree
    fmt, cases = arg
    wt = env.make_tree(fmt)
    root = wt.basedir
    for c in cases:
        _write(root, "c%d/%s" % (c["k"], c["name"]), "B%d" % c["k"])
    wt.smart_add([root])
    with wt.lock_read():
        ignored = [pth for pth in ("c%d/%s" % (c["k"], c["name"]) for c in cases) if not wt.is_versioned(pth)]
    if ignored:
        wt.add(ignored)             # names like `x~` match the default ignore rules
    wt.commit("r1")
    for c in cases:
        _write(root, "c%d/%s" % (c["k"], c["name"]), "O%d" % c["k"])          # the user's edit
        for nm, content in c["siblings"]:
            _write(root, "c%d/%s" % (c["k"], nm), content)                      # unknown files beside it
    out = {}
    # (1) the transform's helper, asked directly (nothing is applied)
    wt = WorkingTree.open(root)
    with wt.lock_tree_write():
        tt = wt.transform()
        try:
            for c in cases:
                parent = tt.trans_id_tree_path("c%d" % c["k"])
                for nm in c["ttnew"]:
                    tt.new_file(nm, parent, [b"x"])
                out[c["k"]] = dict(tt_name=tt._available_backup_name(c["name"], parent))
        finally:
            tt.finalize()
    # (2) the controldir's helper (used by remove), asked directly
    for c in cases:
        out[c["k"]]["cd_name"] = wt.controldir._available_backup_name("c%d/%s" % (c["k"], c["name"]))
    # (3) one real revert and one real remove
    err = {}
    wt = WorkingTree.open(root)
    rv = ["c%d/%s" % (c["k"], c["name"]) for c in cases if c["mode"] == "revert"]
    rm = ["c%d/%s" % (c["k"], c["name"]) for c in cases if c["mode"] == "remove"]
    try:
        if rv:
            with wt.lock_tree_write():
                wt.revert(filenames=rv, backups=True)
    except Exception as e:
        err["revert"] = type(e).__name__
    try:
        if rm:
            WorkingTree.open(root).remove(rm, keep_files=False, force=False)
    except Exception as e:
        err["remove"] = type(e).__name__
    for c in cases:
        out[c["k"]]["after"] = _listing(root, "c%d" % c["k"])
    shutil.rmtree(root, ignore_errors=True)
    return dict(out=out, err=err)


def check_dir_cases(ctx, fmt, cases, res):
    cs, lines, impls = [], [], []
    for e, name in res["err"].items():
        ctx.count("error:dir-%s:%s" % (e, name))
    for c in cases:
        o = res["out"][c["k"]]
        cid = dict(dir_case=dict(fmt=fmt, name=c["name"], mode=c["mode"], siblings=[x[0] for x in c["siblings"]], ttnew=c["ttnew"]))
        ctx.case(cid, nontrivial=any(x[0].startswith(c["name"] + ".~") for x in c["siblings"]))
        ctx.count("dir:%s:%s" % (fmt, c["mode"]))
        taken = [c["name"]] + [x[0] for x in c["siblings"]]
        # (1)/(2): the name the helpers pick, against the model
        cs.append(dict(cid, asked="tt._available_backup_name"))
        lines.append("backup %s %s" % (c["name"], ",".join(taken + c["ttnew"])))
        impls.append(o["tt_name"])
        cs.append(dict(cid, asked="controldir._available_backup_name"))
        lines.append("backup %s %s" % (c["name"], ",".join(taken)))
        impls.append(o["cd_name"].split("/", 1)[1] if o["cd_name"].startswith("c%d/" % c["k"]) else o["cd_name"])
        if o["tt_name"] in taken + c["ttnew"] or o["cd_name"].split("/", 1)[-1] in taken:
            ctx.violation(cid, "the backup-name helper returned an existing name: tt=%r controldir=%r taken=%r" % (o["tt_name"], o["cd_name"], taken + c["ttnew"]))
        if res["err"].get(c["mode"]):
            continue
        # (3): the directory after the real command, against backupAndReplace / renameToBackup
        before = [[c["name"], "O%d" % c["k"]]] + c["siblings"]
        after = o["after"]
        where = lambda content: next((nm for nm, t in sorted(after.items()) if t == content), "?")
        ent = ",".join("%s=%s" % (nm, t) for nm, t in before)
        if c["mode"] == "revert":
            line = "dirbackup %s B%d %s" % (c["name"], c["k"], ent)
            impl = ["%s=%s" % (c["name"], after.get(c["name"], "?"))] + ["%s=%s" % (where(t), t) for _n, t in before]
            extra = len(after) - (len(before) + 1)
        else:
            line = "dirrename %s %s" % (c["name"], ent)
            impl = ["%s=%s" % (where(t), t) for _n, t in before]
            extra = len(after) - len(before)
        if extra:
            impl.append("UNEXPECTED-ENTRIES:%s" % "+".join(sorted(after)))
        # oracle: nothing that was in the directory may be gone or overwritten
        lost = [t for _n, t in before if t not in after.values()]
        if lost:
            ctx.violation(cid, "%s with backups lost or overwrote %r; directory before %r, after %r" % (c["mode"], lost, before, sorted(after.items())))
        cs.append(dict(cid, asked="directory after " + c["mode"]))
        lines.append(line)
        impls.append(",".join(impl))
    return cs, lines, impls


# --------------------------------------------------------------------------
# T1

def source_flag():
    tree = ast.parse(open(os.path.join(env.REPO, "breezy/transform.py")).read())
    fn = next(n for n in tree.body if isinstance(n, ast.FunctionDef) and n.name == "_alter_files")
    for n in ast.walk(fn):
        if isinstance(n, ast.If) and isinstance(n.test, ast.Compare) and isinstance(n.test.left, ast.Name) \
                and n.test.left.id == "basis_path" and isinstance(n.test.ops[0], ast.Is):
            first = n.body[0]
            if isinstance(first, ast.Assign) and getattr(first.targets[0], "id", None) == "keep_content":
                return True
            if isinstance(first, ast.If):
                # `if target_kind is None and not target_versioned: keep_content = True`
                names = {x.id for x in ast.walk(first.test) if isinstance(x, ast.Name)}
                if names == {"target_kind", "target_versioned"}:
                    return False
                if "backups" in names or names == {"target_kind"}:
                    return True
            raise ValueError("unexpected shape of the `basis_path is None` branch")
    raise ValueError("`if basis_path is None` not found in _alter_files")


# translation of the `keep_content` decision and of the dispatch on the working file into Lean
_ATOMS = {
    "wt_kind == 'file'": "decide (i.wtKind = some Kind.file)",
    "wt_kind == 'symlink'": "decide (i.wtKind = some Kind.symlink)",
    "wt_kind == 'directory'": "decide (i.wtKind = some Kind.dir)",
    "wt_kind is None": "i.wtKind.isNone", "wt_kind is not None": "i.wtKind.isSome",
    "target_kind is None": "i.targetKind.isNone", "target_kind is not None": "i.targetKind.isSome",
    "target_kind == 'file'": "decide (i.targetKind = some Kind.file)",
    "backups": "i.backups", "target_versioned": "i.targetVersioned", "wt_versioned": "true",
    "merge_modified.get(wt_path) != wt_sha1": "(!i.mergeModifiedIsWt)", "merge_modified.get(wt_path) == wt_sha1": "i.mergeModifiedIsWt",
    "basis_path is None": "(!i.basisPresent)", "basis_path is not None": "i.basisPresent",
    "wt_sha1 != basis_tree.get_file_sha1(basis_path)": "(!i.basisIsWt)", "wt_sha1 == basis_tree.get_file_sha1(basis_path)": "i.basisIsWt",
    "basis_tree.get_file_sha1(basis_path) != wt_sha1": "(!i.basisIsWt)", "basis_tree.get_file_sha1(basis_path) == wt_sha1": "i.basisIsWt",
}
_IGNORED_TARGETS = {"wt_sha1", "basis_tree", "basis_inter", "basis_path"}


class Shape(ValueError):
    pass


def _cond(t, keep=None):
    if isinstance(t, ast.BoolOp):
        op = " && " if isinstance(t.op, ast.And) else " || "
        return "(" + op.join(_cond(v, keep) for v in t.values) + ")"
    if isinstance(t, ast.UnaryOp) and isinstance(t.op, ast.Not):
        return "(!" + _cond(t.operand, keep) + ")"
    if isinstance(t, ast.Name) and t.id == "keep_content" and keep is not None:
        return keep
    src = ast.unparse(t)
    if src in _ATOMS:
        return _ATOMS[src]
    raise Shape("condition not understood: %s" % src)


def _assigns_keep(stmts):
    return any(isinstance(n, ast.Assign) and any(getattr(t, "id", None) == "keep_content" for t in n.targets)
               for st in stmts for n in ast.walk(st))


def _keep_expr(stmts, v):
    """symbolic value of `keep_content` after the statements, given its value `v` before"""
    for st in stmts:
        if isinstance(st, ast.Assign) and len(st.targets) == 1 and isinstance(st.targets[0], ast.Name):
            name = st.targets[0].id
            if name == "keep_content":
                if not (isinstance(st.value, ast.Constant) and isinstance(st.value.value, bool)):
                    raise Shape("keep_content = %s" % ast.unparse(st.value))
                v = "true" if st.value.value else "false"
            elif name not in _IGNORED_TARGETS:
                raise Shape("assignment to %s" % name)
        elif isinstance(st, ast.Expr) and ast.unparse(st).startswith("es.enter_context("):
            pass
        elif isinstance(st, ast.If):
            if ast.unparse(st.test) == "basis_tree is None":
                if _assigns_keep(st.body) or st.orelse:
                    raise Shape("lazy basis_tree block touches keep_content")
                continue
            v = "(if %s then %s else %s)" % (_cond(st.test), _keep_expr(st.body, v), _keep_expr(st.orelse, v))
        else:
            raise Shape("statement not understood: %s" % ast.unparse(st)[:60])
    return v


def _action_expr(stmts):
    """which RevertAction a block performs on the working file"""
    if len(stmts) == 1 and isinstance(stmts[0], ast.If):
        st = stmts[0]
        return "(if %s then %s else %s)" % (_cond(st.test, keep="sourceKeepContent i"), _action_expr(st.body), _action_expr(st.orelse))
    calls = {ast.unparse(n.func) for st in stmts for n in ast.walk(st) if isinstance(n, ast.Call)}
    if not stmts:
        return "RevertAction.keepInPlace"
    if "tt.delete_contents" in calls and not ({"tt.adjust_path", "tt._available_backup_name"} & calls):
        return "RevertAction.deleteContents"
    if {"tt._available_backup_name", "tt.adjust_path", "tt.create_path"} <= calls and "tt.delete_contents" not in calls:
        # the rename must go to the name the helper returned
        ap = [n for st in stmts for n in ast.walk(st) if isinstance(n, ast.Call) and ast.unparse(n.func) == "tt.adjust_path"]
        if [ast.unparse(x) for x in ap[0].args] != ["backup_name", "parent_trans_id", "trans_id"]:
            raise Shape("adjust_path arguments: %s" % ast.unparse(ap[0]))
        return "RevertAction.backupAndReplace"
    raise Shape("action block not understood: %s" % sorted(calls))


def source_decision():
    """(Lean expression of keep_content, Lean expression of the action) read from _alter_files"""
    tree = ast.parse(open(os.path.join(env.REPO, "breezy/transform.py")).read())
    fn = next(n for n in tree.body if isinstance(n, ast.FunctionDef) and n.name == "_alter_files")
    blk = next((n for n in ast.walk(fn) if isinstance(n, ast.If) and ast.unparse(n.test) == "change.changed_content"), None)
    if blk is None:
        raise Shape("`if change.changed_content:` not found")
    idx = next((k for k, st in enumerate(blk.body) if isinstance(st, ast.If) and ast.unparse(st.test) == "wt_kind is not None"), None)
    if idx is None:
        raise Shape("`if wt_kind is not None:` not found")
    first = blk.body[0]
    if not (isinstance(first, ast.Assign) and ast.unparse(first) == "keep_content = False"):
        raise Shape("block does not start with keep_content = False")
    keep = _keep_expr(blk.body[:idx], "false")
    act_if = blk.body[idx]
    if act_if.orelse or _assigns_keep(blk.body[idx:]):
        raise Shape("unexpected else / later assignment of keep_content")
    action = "(if !i.changedContent then RevertAction.nothing else if i.wtKind.isSome then %s else RevertAction.nothing)" % _action_expr(act_if.body)
    return keep, action


def extract(ctx):
    sys.path.insert(0, os.path.join(env.VERIF, "tools"))
    import extract as ex
    note = ""
    try:
        flag = source_flag()
    except Exception as e:
        flag, note = True, "flag: %s; " % e
    try:
        keep, action = source_decision()
    except Exception as e:
        # the source no longer has the shape the translator understands: emit a definition the T1
        # theorems cannot be proved for, so that the run reports the broken tie
        keep, action = "false", "RevertAction.nothing"
        note += "UNTRANSLATABLE (%s: %s)" % (type(e).__name__, e)
    text = ("-- GENERATED by harness/checks/c12.py from breezy/transform.py:_alter_files — do not edit\n"
            "import BreezyVerif.Model.C12\nnamespace BreezyVerif.C12\n"
            "/-- does `_alter_files` keep the content of a working file whose id is absent from the basis whenever it may? -/\n"
            "def sourceFlags : Flags := { keepWhenNoBasis := %s }\n"
            "/-- the value of `keep_content` computed by the statements of `_alter_files` (translated from the AST)%s -/\n"
            "def sourceKeepContent (i : RevertIn) : Bool :=\n  %s\n"
            "/-- what `_alter_files` does with the working file of a changed entry (translated from the AST) -/\n"
            "def sourceRevertAction (i : RevertIn) : RevertAction :=\n  %s\n"
            "end BreezyVerif.C12\n" % ("true" if flag else "false", (" — " + note.replace("-/", "- /")) if note else "", keep, action))
    ex.write_if_changed(os.path.join(env.VERIF, "lean/BreezyVerif/Generated/C12.lean"), text)
    ctx.extra["keepWhenNoBasis"] = flag
    ctx.extra["t1_keep_content"] = keep
    return "keepWhenNoBasis=%s; keep_content and action translated%s" % (flag, (" [" + note + "]") if note else "")


def remove_variant():
    """does the deletion step of InventoryWorkingTree.remove itself refuse to delete a path that is not
    versioned (`f in files_to_backup or (not fid and not force)`)?  Read from the source."""
    tree = ast.parse(open(os.path.join(env.REPO, "breezy/bzr/workingtree.py")).read())
    fn = next(n for n in ast.walk(tree) if isinstance(n, ast.FunctionDef) and n.name == "remove")
    tests = [ast.unparse(n.test) for n in ast.walk(fn) if isinstance(n, ast.If) and "files_to_backup" in ast.unparse(n.test)]
    if not tests:
        raise ValueError("`if f in files_to_backup` not found in InventoryWorkingTree.remove")
    return any("not fid" in t for t in tests)


def _remove_variant(ctx):
    if "remove_backs_up_unversioned" not in ctx.extra:
        try:
            ctx.extra["remove_backs_up_unversioned"] = remove_variant()
        except Exception:
            ctx.extra["remove_backs_up_unversioned"] = False
    return ctx.extra["remove_backs_up_unversioned"]


def _flag(ctx):
    if "keepWhenNoBasis" not in ctx.extra:
        try:
            ctx.extra["keepWhenNoBasis"] = source_flag()
        except Exception:
            ctx.extra["keepWhenNoBasis"] = False
    return ctx.extra["keepWhenNoBasis"]


# --------------------------------------------------------------------------
# checks

TF = lambda b: "T" if b else "F"
KC = {"file": "f", "directory": "d", "symlink": "l", None: "~", "tree-reference": "d"}
MERGE_LIKE = ("merge", "pull", "update", "switch")


def _tokens(text):
    return [l for l in text.split("\n") if l.startswith(("EDIT-", "UNK-", "ADD-", "READD-"))]


def _family(sc, path, fact):
    """known-finding families, computed from the concrete scenario and the lost path.  (The first defect found
    here - revert deleting a file whose id is absent from the basis, without backup - was repaired by a fix:
    commit and is a plain violation if it returns.)"""
    cmd, fmt = sc["cmd"], sc["fmt"]
    if fmt == "git" and cmd in ("merge", "pull", "update", "switch") and any(path == w[0] for w in sc.get("inway", [])):
        # git tree: an unversioned file at a path the incoming revision adds is overwritten by the merge
        return "git-unknown-file-overwritten-by-incoming-add"
    if fmt == "git" and cmd in ("merge", "pull", "update", "switch") \
            and any(op in ("rm-unknown", "mv-unknown") and f == path for op, f, _t in sc.get("local_ops", [])):
        # git tree: the same mechanism, other trigger: the path is not versioned in THIS any more (removed or
        # renamed away), an unknown file is there, and the incoming revision touches the entry of that path
        return "git-unknown-file-at-unversioned-path-deleted-by-merge"
    if fmt != "git" and cmd == "remove" and sc.get("mode") == "safe" \
            and any(op == "rm-unknown" and f == path for op, f, _t in sc.get("local_ops", [])) \
            and any(path == s or path.startswith(s + "/") for s in sc.get("select") or []):
        # bzr tree: an unknown file at a path that is removed in the working tree but still in the basis is
        # not reported by iter_changes(want_unversioned=True); remove deletes it without backup
        return "bzr-remove-deletes-unknown-file-at-removed-path"
    return None


def _expected_error(sc, res):
    """exception classes the command is documented to raise for this scenario"""
    cmd, name = sc["cmd"], res["err"].split(":")[0]
    if cmd == "revert" and name == "PathsNotVersionedError":
        return any(s not in res["versioned_before"] for s in sc["select"] or [])
    if cmd == "uncommit" and name == "LocalRequiresBoundBranch":
        return bool(sc.get("unc", {}).get("local")) and sc.get("unc", {}).get("layout") != "bound"
    return False


def _note_error(ctx, sc, res):
    name = res["err"].split(":")[0]
    ctx.count("error:%s:%s" % (sc["cmd"], name))
    if not _expected_error(sc, res):
        # the command refused with an exception that is not part of its interface (an internal error);
        # not a loss by itself - the content oracle below still runs on what it left behind
        ctx.count("unexpected-exception:%s:%s:%s" % (sc["fmt"], sc["cmd"], name))
        lst = ctx.extra.setdefault("unexpected_exceptions", [])
        if len(lst) < 12:
            lst.append(dict(id=sc["id"], cmd=sc["cmd"], exception=name, trace=res["err"][-220:],
                            local_ops=sc.get("local_ops"), premerge=sc.get("premerge")))


def check_scenario(ctx, res, flag):
    sc = res["sc"]
    cmd = sc["cmd"]
    cid = dict(id=sc["id"], fmt=sc["fmt"], cmd=cmd, options={k: sc.get(k) for k in ("backups", "old", "select", "mode", "premerge")})
    facts = {p: f for p, f, _ in res["facts"]}
    in_scope = [p for p in res["user"] if p in facts]
    ctx.case(dict(sc=sc), nontrivial=bool(in_scope) or (cmd in MERGE_LIKE + ("uncommit",) and bool(res["user"])))
    ctx.count("cmd:%s:%s" % (sc["fmt"], cmd))
    if res["err"]:
        _note_error(ctx, sc, res)
    for key in ("inway", "unknown_deep", "local_ops"):
        for x in sc.get(key) or []:
            ctx.count("gen:%s%s" % (key, ":" + x[0] if key == "local_ops" else ""))
    # ---- oracle
    if cmd == "uncommit":
        unc = sc.get("unc") or {}
        cid["uncommit_options"] = unc
        ctx.count("uncommit:%s%s%s%s" % (unc.get("layout"), ":revno=%s" % unc.get("revno"), ":dry" if unc.get("dry_run") else "", ":local" if unc.get("local") else ""))
        if res["before"] != res["after"] or res["links_before"] != res["links_after"]:
            ctx.violation(cid, "uncommit changed working tree files: %r" % sorted(set(res["before"].items()) ^ set(res["after"].items()))[:3])
        elif res.get("touched"):
            # read-only guard: no entry below the tree root outside the control directory was written,
            # chmod-ed, renamed, created or removed (inode, size, mtime, ctime of every entry)
            ctx.violation(cid, "uncommit touched working tree entries (same bytes, but inode / mtime / ctime changed): %r" % res["touched"][:5])
        else:
            ctx.count("uncommit:tree-untouched")
        return [], [], []
    after_texts = list(res["after"].values())
    for p, text in sorted(res["user"].items()):
        ok = text in after_texts
        if not ok and cmd in MERGE_LIKE:
            toks = _tokens(text)
            ok = bool(toks) and any(all(t in a.split("\n") for t in toks) for a in after_texts)
        if ok:
            ctx.count("user-content:preserved")
            continue
        f = facts.get(p)
        if cmd == "revert" and not sc["backups"] and f is not None and f.get("tkind") is not None:
            ctx.count("user-content:discarded-on-request(no-backup)")
            continue
        if cmd == "remove" and sc["mode"] == "force" and f is not None:
            ctx.count("user-content:discarded-on-request(force)")
            continue
        ctx.count("user-content:LOST")
        ctx.violation(dict(cid, path=p, inputs=f), "%s discarded user content of %r (not in the tree, not in a backup or helper file): %r%s"
                      % (cmd, p, text[:40], " [command raised %s]" % res["err"].split(":")[0] if res["err"] else ""),
                      family=_family(sc, p, f))
    # ---- T2 lines
    cases, lines, impls = [], [], []
    for p, f, observed in res["facts"]:
        if cmd == "revert":
            line = "revert %s %s %s %s %s %s %s %s %s" % (
                TF(flag), TF(f["changed"]), KC[f["wkind"]], TF(f["backups"]), KC[f["tkind"]], TF(f["tversioned"]),
                TF(f["mm"] is not None and f["mm"] == f["wsha"]), TF(f["bpresent"]), TF(f["bsha"] is not None and f["bsha"] == f["wsha"]))
            ctx.count("revert-branch:%s" % ("unchanged" if not f["changed"] else "no-basis" if not f["bpresent"] else "modified" if f["bsha"] != f["wsha"] else "clean"))
            ctx.count("revert-wtkind:%s" % KC[f["wkind"]])
            ctx.count("revert-changed-from:%s%s" % (f["source"], "" if f["changed"] == f["changed_re"] else ":differs-from-recomputation"))
        else:
            line = "remove %s %s %s %s %s %s %s" % (TF(_remove_variant(ctx) and sc["fmt"] != "git"), TF(f["keep"]), TF(f["force"]), f["role"],
                                                     TF(f["wtversioned"]), TF(f["inbasis"]), TF(f["changed"]))
            ctx.count("remove-branch:%s:%s" % (sc["mode"], f["role"]))
            unsafe_re, unsafe = (not f["inbasis_re"]) or f["changed_re"], (not f["inbasis"]) or f["changed"]
            ctx.count("remove-inputs-from:%s%s" % (f["source"], "" if unsafe == unsafe_re else ":differs-from-recomputation"))
            if unsafe != unsafe_re:
                # the attributes `remove` reads misdescribe the file (the decision is right for what it is told)
                lst = ctx.extra.setdefault("remove_inputs_misdescribe_state", [])
                if len(lst) < 8:
                    lst.append(dict(id=sc["id"], path=p, code_reads=dict(inbasis=f["inbasis"], changed=f["changed"], source=f["source"]),
                                    state=dict(inbasis=f["inbasis_re"], changed=f["changed_re"])))
        if res["err"]:
            continue        # the command refused to run (e.g. a selected path is not versioned): nothing to compare
        cases.append(dict(cid, path=p, inputs=f))
        lines.append(line)
        impls.append(observed)
    return cases, lines, impls


def _scenarios(ctx, n):
    out = []
    cmds = ["revert", "revert", "revert", "remove", "remove", "merge", "pull", "update", "switch", "uncommit"]
    for fmt in ("2a", "git"):
        for i in range(n):
            out.append((ctx.seed, fmt, i, cmds[i % len(cmds)]))
    return out


def _corpus():
    import json
    d = os.path.join(env.VERIF, "corpus", "C12")
    out = []
    if os.path.isdir(d):
        for fn in sorted(os.listdir(d)):
            if fn.endswith(".json"):
                out.append(tuple(json.load(open(os.path.join(d, fn)))["id"]))
    return out


def run(ctx, n=None):
    flag = _flag(ctx)
    n = n or ctx.pick(70, 700)
    # ---- S1 commands
    seeds = [t for t in _corpus() if t[3] != "seq"] + _scenarios(ctx, n)
    results = ctx.pmap(run_scenario, seeds)
    cases, lines, impls = [], [], []
    nerr = 0
    # ---- S1b two-step sequences
    seqs = [t for t in _corpus() if t[3] == "seq"]
    for fmt in ("2a", "2a", "git"):
        for i in range(ctx.pick(14, 120)):
            seqs.append((ctx.seed, fmt, i if fmt != "2a" or len([x for x in seqs if x[1] == "2a" and x[0] == ctx.seed]) < ctx.pick(14, 120) else i + 1000, "seq"))
    seqs = list(dict.fromkeys(seqs))
    for res in ctx.pmap(run_sequence, seqs):
        if "harness_error" in res:
            nerr += 1
            ctx.count("harness-error:seq:" + res["harness_error"].split(":")[0])
            ctx.extra.setdefault("harness_errors", []).append(dict(id=res["id"], error=res["harness_error"][-300:]))
            continue
        c, l, i = check_sequence(ctx, res, flag)
        cases += c; lines += l; impls += i
    for res in results:
        if "harness_error" in res:
            nerr += 1
            ctx.count("harness-error:" + res["harness_error"].split(":")[0])
            ctx.extra.setdefault("harness_errors", []).append(dict(id=res["id"], error=res["harness_error"][-300:]))
            continue
        c, l, i = check_scenario(ctx, res, flag)
        cases += c; lines += l; impls += i
    if nerr > max(3, len(results) // 10):
        raise env.InfraError("too many scenarios could not be built: %r" % ctx.extra["harness_errors"][:2])
    # ---- S2 backup names (Rust osutils.available_backup_name, and the transform's wrapper)
    from breezy import osutils
    rng = ctx.rng
    for _ in range(ctx.pick(300, 3000)):
        base = rng.choice(["f", "d/g", "a.b", "x~", "f.~1~"])
        ks = rng.sample(range(1, 14), rng.randint(0, 12))
        if rng.random() < 0.5:
            ks = list(range(1, rng.randint(1, 12)))        # a dense prefix: the loop has to walk it
        taken = ["%s.~%d~" % (base, k) for k in ks] + rng.sample([base, base + ".~0~", base + ".~1", base + "~1~", "other.~1~"], 2)
        got = osutils.available_backup_name(base, lambda nme: nme in taken)
        ctx.case(dict(backup=base, taken=sorted(taken)), nontrivial=len(ks) > 0)
        ctx.count("backup:walk=%d" % min(len([k for k in ks]), 12))
        if got in taken:
            ctx.violation(dict(base=base, taken=taken), "available_backup_name returned the existing name %r" % got)
        cases.append(dict(backup=base, taken=sorted(taken)))
        lines.append("backup %s %s" % (base, ",".join(taken) or "-"))
        impls.append(got)
    # ---- S2b the backup action on real directories
    dcases = {fmt: gen_dir_cases(rng, ctx.pick(30, 200)) for fmt in ("2a", "git")}
    for (fmt, dc), r in zip(sorted(dcases.items()), ctx.pmap(run_dir_cases, sorted(dcases.items()))):
        if "harness_error" in r:
            ctx.count("harness-error:dir:" + r["harness_error"].split(":")[0])
            ctx.extra.setdefault("harness_errors", []).append(dict(id=["dir", fmt], error=r["harness_error"][-300:]))
            continue
        c, l, i = check_dir_cases(ctx, fmt, dc, r)
        cases += c; lines += l; impls += i
    # ---- S3 merge content decision
    mcases = []
    k = 0
    for fmt in ("2a", "git"):
        for te in MERGE_EDITS:
            for oe in OTHER_EDITS:
                if oe == "same" and te == "none":
                    continue
                k += 1
                mcases.append([fmt, te, oe, k + 100 * ctx.seed])
    if ctx.tier == "quick":
        mcases = rng.sample(mcases, 28)
    for mc, r in zip(mcases, ctx.pmap(run_merge_case, mcases)):
        if "harness_error" in r:
            ctx.count("harness-error:merge:" + r["harness_error"].split(":")[0])
            continue
        ctx.case(dict(merge=mc[:3]), nontrivial=r["this_changed"])
        ctx.count("merge:%s/%s:%s" % (mc[1], mc[2], r["fate"]))
        if r["this_changed"] and r["fate"] == "gone":
            ctx.violation(dict(merge=mc), "merge discarded the local text (this edit %s, other edit %s): files after = %r" % (mc[1], mc[2], r["after"]))
        if not r["this_changed"]:
            continue
        cases.append(dict(merge=mc))
        lines.append("merge %s %s %s %s %s" % (TF(r["this_changed"]), TF(r["other_changed"]), TF(r["other_deleted"]), TF(r["same"]), TF(r["text_conflict"])))
        impls.append(r["fate"])
    fams = {}
    for v in ctx.violations:
        fams[str(v["family"])] = fams.get(str(v["family"]), 0) + 1
    ctx.extra["violation_families"] = fams
    if lines and ctx.model_available:
        ctx.diff(cases, lines, impls)


def widen(ctx):
    run(ctx, n=400)


def replay(ctx, case):
    flag = _flag(ctx)
    if "id" in case and case["id"][3] == "seq":
        res = run_sequence(tuple(case["id"]))
        if "harness_error" in res:
            return dict(case=case, error=res["harness_error"])
        c, l, i = check_sequence(ctx, res, flag)
        m = ctx.model(l) if l else []
        return dict(case=case, scenario=res["sc"], steps=res["steps"], lost=res["lost"], merge_hashes=res["mm"], impl=i, model=m,
                    oracle_failures=[dict(what=v["what"], family=v["family"]) for v in ctx.violations])
    if "id" in case:
        res = run_scenario(tuple(case["id"]))
        c, l, i = check_scenario(ctx, res, flag)
        m = ctx.model(l) if l else []
        return dict(case=case, options={k: res["sc"].get(k) for k in ("backups", "old", "select", "mode", "premerge", "edits", "readd", "added", "unknown", "inway", "unknown_deep", "local_ops",
                                                       "other_add", "other_add2", "other_deldir", "main_add", "main_deldir", "rev3_add", "rev3_deldir", "unc")},
                    error=res["err"], impl=i, model=m, per_file=[(x["path"], x["inputs"]) for x in c], uncommit_touched=res.get("touched"),
                    oracle_failures=[dict(what=v["what"], family=v["family"]) for v in ctx.violations])
    if "merge" in case:
        r = run_merge_case(case["merge"])
        line = "merge %s %s %s %s %s" % (TF(r["this_changed"]), TF(r["other_changed"]), TF(r["other_deleted"]), TF(r["same"]), TF(r["text_conflict"]))
        return dict(case=case, impl=r["fate"], model=ctx.model([line])[0])
    if "dir_case" in case:
        d = case["dir_case"]
        c = dict(k=0, name=d["name"], mode=d["mode"], siblings=[[nm, "S0_%d" % j] for j, nm in enumerate(d["siblings"])], ttnew=d["ttnew"])
        r = run_dir_cases((d["fmt"], [c]))
        if "harness_error" in r:
            return dict(case=case, error=r["harness_error"])
        cs, l, i = check_dir_cases(ctx, d["fmt"], [c], r)
        return dict(case=case, lines=l, impl=i, model=ctx.model(l), errors=r["err"],
                    oracle_failures=[dict(what=v["what"], family=v["family"]) for v in ctx.violations])
    if "backup" in case:
        from breezy import osutils
        got = osutils.available_backup_name(case["backup"], lambda nme: nme in case["taken"])
        return dict(case=case, impl=got, model=ctx.model(["backup %s %s" % (case["backup"], ",".join(case["taken"]) or "-")])[0])
    return dict(case=case, error="unknown case shape")
