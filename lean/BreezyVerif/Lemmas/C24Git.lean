import BreezyVerif.Lemmas.C24
/-! C24 — helper lemmas for the local git tag store (`LocalGitTagDict._set_tag_dict`,
`GitTags.get_tag_dict`, `InterTagsFromGitToLocalGit.merge`). -/
namespace BreezyVerif.C24

section git
variable {κ ν : Type} [DecidableEq κ]

/-! ### `ddel`, `filter` on association lists -/

theorem dget_filter_key (d : Dict κ ν) (p : κ → Bool) (n : κ) :
    dget (d.filter fun e => p e.1) n = if p n then dget d n else none := by
  induction d with
  | nil => simp
  | cons e r ih =>
    obtain ⟨a, b⟩ := e
    by_cases hp : p a = true
    · simp only [List.filter_cons, hp, if_true, dget_cons]
      by_cases h : a = n
      · subst h; simp [hp]
      · simp [h, ih]
    · simp only [List.filter_cons, hp, dget_cons]
      by_cases h : a = n
      · subst h; simp [hp, ih]
      · simp [h, ih]

theorem dget_ddel (d : Dict κ ν) (k n : κ) :
    dget (ddel d k) n = if n = k then none else dget d n := by
  unfold ddel
  rw [dget_filter_key d (fun x => !(x == k)) n]
  by_cases h : n = k <;> simp [h]

theorem dkeys_filter_sublist (d : Dict κ ν) (p : κ × ν → Bool) :
    (dkeys (d.filter p)).Sublist (dkeys d) := by
  unfold dkeys
  exact (List.filter_sublist (l := d) (p := p)).map Prod.fst

theorem filter_nodup (d : Dict κ ν) (p : κ × ν → Bool) (h : (dkeys d).Nodup) :
    (dkeys (d.filter p)).Nodup :=
  (dkeys_filter_sublist d p).nodup h

theorem ddel_nodup (d : Dict κ ν) (k : κ) (h : (dkeys d).Nodup) : (dkeys (ddel d k)).Nodup :=
  filter_nodup d _ h

theorem dget_foldl_ddel (ex : List κ) (d : Dict κ ν) (n : κ) :
    dget (ex.foldl ddel d) n = if n ∈ ex then none else dget d n := by
  induction ex generalizing d with
  | nil => simp
  | cons k r ih =>
    rw [List.foldl_cons, ih, dget_ddel]
    by_cases h1 : n = k
    · subst h1; simp
    · by_cases h2 : n ∈ r <;> simp [h1, h2]

theorem foldl_ddel_nodup (ex : List κ) (d : Dict κ ν) (h : (dkeys d).Nodup) :
    (dkeys (ex.foldl ddel d)).Nodup := by
  induction ex generalizing d with
  | nil => exact h
  | cons k r ih => rw [List.foldl_cons]; exact ih _ (ddel_nodup d k h)

/-- reading through a value filter, for a dictionary with unique keys -/
theorem dget_filter_val (d : Dict κ ν) (hn : (dkeys d).Nodup) (p : ν → Bool) (n : κ) :
    dget (d.filter fun e => p e.2) n = (dget d n).filter p := by
  induction d with
  | nil => simp
  | cons e r ih =>
    obtain ⟨a, b⟩ := e
    simp only [dkeys, List.map_cons, List.nodup_cons] at hn
    have ih' := ih (by simpa [dkeys] using hn.2)
    by_cases h : a = n
    · subst h
      have hr : dget r a = none := (dget_eq_none_iff r a).mpr (by simpa [dkeys] using hn.1)
      by_cases hp : p b = true
      · rw [List.filter_cons_of_pos (by simpa using hp)]
        simp [dget_cons, Option.filter, hp]
      · rw [List.filter_cons_of_neg (by simpa using hp), ih', hr]
        simp [dget_cons, Option.filter, hp]
    · by_cases hp : p b = true
      · rw [List.filter_cons_of_pos (by simpa using hp)]
        simp [dget_cons, h, ih']
      · rw [List.filter_cons_of_neg (by simpa using hp)]
        simp [dget_cons, h, ih']

theorem gitRead_get (cls : ν → RevClass) (refs : Dict κ ν) (hn : (dkeys refs).Nodup) (n : κ) :
    dget (gitRead cls refs) n = (dget refs n).filter fun v => (cls v).isCommit :=
  dget_filter_val refs hn (fun v => (cls v).isCommit) n

theorem gitRead_nodup (cls : ν → RevClass) (refs : Dict κ ν) (hn : (dkeys refs).Nodup) :
    (dkeys (gitRead cls refs)).Nodup := filter_nodup refs _ hn

/-- whatever is readable is a commit -/
theorem gitRead_commit (cls : ν → RevClass) (refs : Dict κ ν) (n : κ) (v : ν)
    (h : dget (gitRead cls refs) n = some v) : (cls v).isCommit = true := by
  have hm := dget_some_mem _ n v h
  unfold gitRead at hm
  simpa using (List.mem_filter.mp hm).2

/-! ### the loop of `_set_tag_dict` -/

theorem gitSet_fold (strict : Bool) (cls : ν → RevClass) (to : Dict κ ν) (hn : (dkeys to).Nodup)
    (refs : Dict κ ν) (ex : List κ) (n : κ) :
    dget (to.foldl (gitSetStep strict cls) (refs, ex)).1 n
        = (match dget to n with
           | some v => if setTagWrites strict (cls v) then some v else dget refs n
           | none => dget refs n)
      ∧ (n ∈ (to.foldl (gitSetStep strict cls) (refs, ex)).2 ↔ n ∈ ex ∧ n ∉ dkeys to) := by
  induction to generalizing refs ex with
  | nil => simp [dkeys]
  | cons e r ih =>
    obtain ⟨k, v⟩ := e
    simp only [dkeys, List.map_cons, List.nodup_cons] at hn
    have hr : (dkeys r).Nodup := by simpa [dkeys] using hn.2
    rw [List.foldl_cons]
    obtain ⟨ih1, ih2⟩ := ih hr (gitSetStep strict cls (refs, ex) (k, v)).1
      (gitSetStep strict cls (refs, ex) (k, v)).2
    constructor
    · rw [ih1]
      by_cases h : k = n
      · subst h
        have hk : dget r k = none := (dget_eq_none_iff r k).mpr (by simpa [dkeys] using hn.1)
        simp only [hk, dget_cons, if_true, gitSetStep]
        by_cases hw : setTagWrites strict (cls v) = true
        · simp [hw, dget_dset_self]
        · simp [hw]
      · simp only [dget_cons, h, if_false, gitSetStep]
        have : dget (if setTagWrites strict (cls v) = true then dset refs k v else refs) n
            = dget refs n := by
          split
          · exact dget_dset_ne _ _ _ _ h
          · rfl
        rw [this]
    · rw [ih2]
      simp only [gitSetStep, List.mem_filter, dkeys, List.map_cons, List.mem_cons]
      by_cases h : n = k
      · subst h; simp
      · simp [h]

theorem gitSet_fold_nodup (strict : Bool) (cls : ν → RevClass) (to : Dict κ ν) (refs : Dict κ ν)
    (ex : List κ) (h : (dkeys refs).Nodup) :
    (dkeys (to.foldl (gitSetStep strict cls) (refs, ex)).1).Nodup := by
  induction to generalizing refs ex with
  | nil => exact h
  | cons e r ih =>
    rw [List.foldl_cons]
    apply ih
    simp only [gitSetStep]
    split
    · exact dset_nodup _ _ _ h
    · exact h

/-- raw refs after `_set_tag_dict(to)`: a tag named in `to` holds the new value
if it could be written and keeps its old ref otherwise; every other tag ref is
deleted -/
theorem gitSetTagDict_get (strict : Bool) (cls : ν → RevClass) (refs to : Dict κ ν)
    (hn : (dkeys to).Nodup) (n : κ) :
    dget (gitSetTagDict strict cls refs to) n
      = match dget to n with
        | some v => if setTagWrites strict (cls v) then some v else dget refs n
        | none => none := by
  unfold gitSetTagDict
  simp only
  obtain ⟨h1, h2⟩ := gitSet_fold strict cls to hn refs (dkeys refs) n
  rw [dget_foldl_ddel, h1]
  cases ht : dget to n with
  | some v =>
    have : n ∈ dkeys to := (dget_isSome_iff to n).mp (by simp [ht])
    have hne : ¬ n ∈ (to.foldl (gitSetStep strict cls) (refs, dkeys refs)).2 := by
      rw [h2]; simp [this]
    simp [hne]
  | none =>
    have hnt : n ∉ dkeys to := (dget_eq_none_iff to n).mp ht
    by_cases hr : n ∈ dkeys refs
    · have : n ∈ (to.foldl (gitSetStep strict cls) (refs, dkeys refs)).2 := by
        rw [h2]; exact ⟨hr, hnt⟩
      simp [this]
    · have : ¬ n ∈ (to.foldl (gitSetStep strict cls) (refs, dkeys refs)).2 := by
        rw [h2]; simp [hr]
      simp [this, (dget_eq_none_iff refs n).mpr hr]

theorem gitSetTagDict_nodup (strict : Bool) (cls : ν → RevClass) (refs to : Dict κ ν)
    (h : (dkeys refs).Nodup) : (dkeys (gitSetTagDict strict cls refs to)).Nodup := by
  unfold gitSetTagDict
  exact foldl_ddel_nodup _ _ (gitSet_fold_nodup strict cls to refs _ h)

end git
/-! ### specifications per tag name -/
section spec
variable {κ ν : Type} [DecidableEq κ] [DecidableEq ν]

/-- what a merge onto a local git store must leave readable for one tag name:
the statement's value (`specVal`) when the store can hold it; a value the store
cannot hold (ghost, or absent with a `strict` `set_tag`) leaves the destination's
definition alone; an absent commit written by a non-strict `set_tag` is a broken
ref, i.e. no readable tag. -/
def gitSpec (strict : Bool) (cls : ν → RevClass) (s d : Option ν) (ow : Bool) : Option ν :=
  match specVal s d ow with
  | none => none
  | some v =>
    match cls v with
    | .commit => some v
    | .ghost => d
    | .absent => if strict then d else none

/-- raw target ref of one tag after `InterTagsFromGitToLocalGit.merge` -/
def g2gSpec (cls : ν → RevClass) (s d : Option ν) (ow : Bool) : Option ν :=
  match s, d with
  | none, d => d
  | some v, none => if (cls v).isCommit then some v else none
  | some v, some w => if v = w then some w else if ow && (cls v).isCommit then some v else some w

/-- update reported for one tag by `InterTagsFromGitToLocalGit.merge` -/
def g2gUpd (cls : ν → RevClass) (s d : Option ν) (ow : Bool) : Option ν :=
  match s, d with
  | none, _ => none
  | some v, none => if (cls v).isCommit then some v else none
  | some v, some w => if v ≠ w ∧ ow = true ∧ (cls v).isCommit = true then some v else none

theorem g2gSpec_none (cls : ν → RevClass) (d : Option ν) (ow : Bool) : g2gSpec cls none d ow = d := by
  unfold g2gSpec; rfl

theorem g2gUpd_none (cls : ν → RevClass) (d : Option ν) (ow : Bool) : g2gUpd cls none d ow = none := by
  unfold g2gUpd; rfl

theorem g2gStep_eq (cls : ν → RevClass) (ow : Bool) (sel : Option (κ → Bool)) (st : G2G κ ν)
    (k : κ) (v : ν) :
    g2gStep cls ow sel st (k, v) =
      if selected sel k = false then st
      else match dget st.refs k with
        | none =>
          if (cls v).isCommit = true then
            { st with refs := dset st.refs k v, updates := dset st.updates k v } else st
        | some w =>
          if w = v then st
          else if ow = true then
            (if (cls v).isCommit = true then
              { st with refs := dset st.refs k v, updates := dset st.updates k v } else st)
          else if (cls w).isCommit = true then { st with conflicts := st.conflicts ++ [(k, v, w)] }
          else st := by
  unfold g2gStep
  cases hs : selected sel k <;> simp
  cases hc : dget st.refs k with
  | none => simp
  | some w => by_cases hw : w = v <;> cases ow <;> simp [hw]

theorem g2gStep_refs_self (cls : ν → RevClass) (ow : Bool) (sel : Option (κ → Bool)) (st : G2G κ ν)
    (k : κ) (v : ν) :
    dget (g2gStep cls ow sel st (k, v)).refs k
      = g2gSpec cls (if selected sel k then some v else none) (dget st.refs k) ow := by
  rw [g2gStep_eq]; unfold g2gSpec
  cases hs : selected sel k <;> simp
  cases hc : dget st.refs k with
  | none => by_cases hcv : (cls v).isCommit = true <;> simp [hcv, dget_dset_self, hc]
  | some w =>
    by_cases hw : w = v
    · simp [hw, hc]
    · have hw' : ¬ v = w := fun e => hw e.symm
      by_cases hcv : (cls v).isCommit = true <;> by_cases hcw : (cls w).isCommit = true <;>
        cases ow <;> simp [hw, hw', hc, hcv, hcw, dget_dset_self]

theorem g2gStep_refs_ne (cls : ν → RevClass) (ow : Bool) (sel : Option (κ → Bool)) (st : G2G κ ν)
    (k n : κ) (v : ν) (h : k ≠ n) :
    dget (g2gStep cls ow sel st (k, v)).refs n = dget st.refs n := by
  rw [g2gStep_eq]
  repeat' split
  all_goals first | rfl | simp [dget_dset_ne _ _ _ _ h]

theorem g2gStep_updates_self (cls : ν → RevClass) (ow : Bool) (sel : Option (κ → Bool))
    (st : G2G κ ν) (k : κ) (v : ν) :
    dget (g2gStep cls ow sel st (k, v)).updates k
      = match g2gUpd cls (if selected sel k then some v else none) (dget st.refs k) ow with
        | some x => some x
        | none => dget st.updates k := by
  rw [g2gStep_eq]; unfold g2gUpd
  cases hs : selected sel k <;> simp
  cases hc : dget st.refs k with
  | none => by_cases hcv : (cls v).isCommit = true <;> simp [hcv, dget_dset_self]
  | some w =>
    by_cases hw : w = v
    · subst hw; simp
    · have hw' : ¬ v = w := fun e => hw e.symm
      by_cases hcv : (cls v).isCommit = true <;> by_cases hcw : (cls w).isCommit = true <;>
        cases ow <;> simp [hw, hw', hcv, hcw, dget_dset_self]

theorem g2gStep_updates_ne (cls : ν → RevClass) (ow : Bool) (sel : Option (κ → Bool)) (st : G2G κ ν)
    (k n : κ) (v : ν) (h : k ≠ n) :
    dget (g2gStep cls ow sel st (k, v)).updates n = dget st.updates n := by
  rw [g2gStep_eq]
  repeat' split
  all_goals first | rfl | simp [dget_dset_ne _ _ _ _ h]

theorem g2gStep_conflicts (cls : ν → RevClass) (ow : Bool) (sel : Option (κ → Bool)) (st : G2G κ ν)
    (k : κ) (v : ν) (c : κ × ν × ν) :
    c ∈ (g2gStep cls ow sel st (k, v)).conflicts ↔
      c ∈ st.conflicts ∨ (c.1 = k ∧ c.2.1 = v ∧ selected sel k = true ∧ ow = false
        ∧ dget st.refs k = some c.2.2 ∧ v ≠ c.2.2 ∧ (cls c.2.2).isCommit = true) := by
  rw [g2gStep_eq]
  obtain ⟨cn, cv, cw⟩ := c
  cases hs : selected sel k <;> simp
  cases hc : dget st.refs k with
  | none => by_cases hcv : (cls v).isCommit = true <;> simp [hcv]
  | some w =>
    by_cases hw : w = v
    · subst hw; simp; grind
    · by_cases hcv : (cls v).isCommit = true <;> by_cases hcw : (cls w).isCommit = true <;>
        cases ow <;> simp [hw, hcv, hcw] <;> grind

theorem foldl_g2g_refs (cls : ν → RevClass) (ow : Bool) (sel : Option (κ → Bool)) (src : Dict κ ν)
    (hn : (dkeys src).Nodup) (st : G2G κ ν) (n : κ) :
    dget (src.foldl (g2gStep cls ow sel) st).refs n
      = g2gSpec cls (srcSel sel src n) (dget st.refs n) ow := by
  induction src generalizing st with
  | nil => simp [srcSel, g2gSpec_none]
  | cons e r ih =>
    obtain ⟨k, v⟩ := e
    simp only [dkeys, List.map_cons, List.nodup_cons] at hn
    rw [List.foldl_cons, ih (by simpa [dkeys] using hn.2)]
    by_cases h : k = n
    · subst h
      rw [srcSel_not_mem sel r k (by simpa [dkeys] using hn.1), g2gSpec_none, g2gStep_refs_self,
        srcSel_cons_self]
    · rw [g2gStep_refs_ne _ _ _ _ _ _ _ h, srcSel_cons_ne _ _ _ _ _ h]

theorem foldl_g2g_updates (cls : ν → RevClass) (ow : Bool) (sel : Option (κ → Bool)) (src : Dict κ ν)
    (hn : (dkeys src).Nodup) (st : G2G κ ν) (n : κ) :
    dget (src.foldl (g2gStep cls ow sel) st).updates n
      = match g2gUpd cls (srcSel sel src n) (dget st.refs n) ow with
        | some x => some x
        | none => dget st.updates n := by
  induction src generalizing st with
  | nil => simp [srcSel, g2gUpd_none]
  | cons e r ih =>
    obtain ⟨k, v⟩ := e
    simp only [dkeys, List.map_cons, List.nodup_cons] at hn
    rw [List.foldl_cons, ih (by simpa [dkeys] using hn.2)]
    by_cases h : k = n
    · subst h
      rw [srcSel_not_mem sel r k (by simpa [dkeys] using hn.1), g2gUpd_none, g2gStep_updates_self,
        srcSel_cons_self]
    · rw [g2gStep_refs_ne _ _ _ _ _ _ _ h, g2gStep_updates_ne _ _ _ _ _ _ _ h,
        srcSel_cons_ne _ _ _ _ _ h]

theorem foldl_g2g_conflicts (cls : ν → RevClass) (ow : Bool) (sel : Option (κ → Bool))
    (src : Dict κ ν) (hn : (dkeys src).Nodup) (st : G2G κ ν) (c : κ × ν × ν) :
    c ∈ (src.foldl (g2gStep cls ow sel) st).conflicts ↔
      c ∈ st.conflicts ∨ (ow = false ∧ srcSel sel src c.1 = some c.2.1
        ∧ dget st.refs c.1 = some c.2.2 ∧ c.2.1 ≠ c.2.2 ∧ (cls c.2.2).isCommit = true) := by
  induction src generalizing st with
  | nil => simp [srcSel]
  | cons e r ih =>
    obtain ⟨k, v⟩ := e
    simp only [dkeys, List.map_cons, List.nodup_cons] at hn
    rw [List.foldl_cons, ih (by simpa [dkeys] using hn.2), g2gStep_conflicts]
    by_cases h : k = c.1
    · subst h
      rw [srcSel_not_mem sel r c.1 (by simpa [dkeys] using hn.1), srcSel_cons_self]
      cases hs : selected sel c.1 <;> simp
      constructor
      · rintro (h | ⟨h1, h2, h3, h4, h5⟩)
        · exact Or.inl h
        · exact Or.inr ⟨h2, h1.symm, h3, h1 ▸ h4, h5⟩
      · rintro (h | ⟨h1, h2, h3, h4, h5⟩)
        · exact Or.inl h
        · exact Or.inr ⟨h2.symm, h1, h3, h2 ▸ h4, h5⟩
    · have h' : ¬ c.1 = k := fun e => h e.symm
      rw [g2gStep_refs_ne _ _ _ _ _ _ _ h, srcSel_cons_ne _ _ _ _ _ h]
      simp [h']

theorem foldl_g2g_nodup (cls : ν → RevClass) (ow : Bool) (sel : Option (κ → Bool)) (src : Dict κ ν)
    (st : G2G κ ν) (h : (dkeys st.refs).Nodup) :
    (dkeys (src.foldl (g2gStep cls ow sel) st).refs).Nodup := by
  induction src generalizing st with
  | nil => exact h
  | cons e r ih =>
    rw [List.foldl_cons]
    apply ih
    obtain ⟨k, v⟩ := e
    rw [g2gStep_eq]
    repeat' split
    all_goals first | exact h | exact dset_nodup _ _ _ h

end spec
end BreezyVerif.C24
