import BreezyVerif.Model.C32
import BreezyVerif.Lemmas.C33Wire
import BreezyVerif.Props.C33
/-
Helper lemmas for C32: wire codecs (tokens, decimal revnos, error names, the
get_parent_map lines) and the verb-level equalities between the client helpers
and the primitive transitions.
-/
namespace BreezyVerif.C32

open BreezyVerif.C33 (split join toDec parseDec SP NL split_join_ne parseDec_toDec mem_join)

/-! ### tokens, errors -/

theorem toDec_ne_nil (n : Nat) : toDec n ≠ [] := by
  unfold toDec
  exact BreezyVerif.C33.toDecAux_ne_nil (n + 1) n [] (by omega)

theorem decTok_encTok (tok : Option Nat) : decTok (encTok tok) = some tok := by
  cases tok with
  | none => simp [encTok, decTok]
  | some t =>
    have h := toDec_ne_nil t
    have he : (toDec t).isEmpty = false := by
      cases hd : toDec t with
      | nil => exact absurd hd h
      | cons a b => rfl
    simp [encTok, decTok, he, parseDec_toDec]

theorem decErr_errName (e : Err) : decErr (errName e) = e := by
  cases e <;> decide

theorem respErr_failResp (e : Err) : respErr (failResp e) = e := by
  simp [respErr, failResp, decErr_errName]

/-! ### client helpers = primitive transitions -/

theorem rLock_eq (src : Graph) (st : St) (ex : List RevId) (tok : Option Nat) :
    rLock src st ex tok = primLock st tok := by
  unfold rLock
  simp only [serve, decTok_encTok]
  cases h : primLock st tok with
  | error e => simp [failResp, respErr, decErr_errName]
  | ok p =>
    obtain ⟨t, s1⟩ := p
    simp [decTok_encTok]

theorem rUnlock_eq (src : Graph) (st : St) (ex : List RevId) (t : Nat) :
    rUnlock src st ex t = primRelease st t := by
  unfold rUnlock
  simp only [serve, decTok_encTok]
  cases h : primRelease st t with
  | error e => simp [failResp, respErr, decErr_errName]
  | ok s1 => simp

theorem withToken_held {st : St} {t : Nat} (h : st.lock = some t) (f : St → Resp × St) :
    withToken st (encTok (some t)) f = f st := by
  simp [withToken, decTok_encTok, h]

theorem primLock_none_ok {st : St} {t : Nat} {s1 : St} (h : primLock st none = .ok (t, s1)) :
    s1.lock = some t := by
  unfold primLock at h
  simp only [] at h
  split at h
  · cases h
  · cases h; rfl

theorem primLock_some_ok {st : St} {k t : Nat} {s1 : St} (h : primLock st (some k) = .ok (t, s1)) :
    s1.lock = some t ∧ s1 = st ∧ t = k := by
  unfold primLock at h
  simp only [] at h
  split at h
  · cases h; exact ⟨by assumption, rfl, rfl⟩
  · cases h

/-! ### get_parent_map lines -/

/-- revision ids that survive the line format: non-empty, no blank, no newline,
not starting with "missing:" -/
def RevOK (r : RevId) : Prop := r ≠ [] ∧ SP ∉ r ∧ NL ∉ r ∧ missingPfx.isPrefixOf r = false

def GraphOK (g : Graph) : Prop := ∀ e ∈ g, RevOK e.1 ∧ ∀ p ∈ e.2, RevOK p

theorem nullRev_ok : RevOK nullRev := by
  refine ⟨by decide, by decide, by decide, by decide⟩

theorem lookup_mem {β : Type} {k : Bytes} {l : List (Bytes × β)} {v : β} (h : lookup k l = some v) :
    (k, v) ∈ l := by
  induction l with
  | nil => simp [lookup] at h
  | cons e r ih =>
    obtain ⟨a, b⟩ := e
    unfold lookup at h
    split at h
    · cases h; rename_i hk; subst hk; simp
    · exact List.mem_cons_of_mem _ (ih h)

theorem split_missing {k : RevId} (hk : SP ∉ k) : split SP (missingPfx ++ k) = [missingPfx ++ k] := by
  apply BreezyVerif.C33.split_no_sep
  intro h
  rcases List.mem_append.mp h with h | h
  · revert h; decide
  · exact hk h

theorem pmParse_pmLine (g : Graph) (hg : GraphOK g) (k : RevId) (hk : RevOK k) :
    pmParse (pmLine g k) = some (k, parentsEntry g k) := by
  unfold pmLine parentsEntry
  cases hl : lookup k g with
  | none =>
    simp only []
    unfold pmParse
    rw [split_missing hk.2.1]
    simp
  | some ps =>
    simp only []
    have hps : ∀ p ∈ ps, RevOK p := (hg _ (lookup_mem hl)).2
    have hsplit : split SP (join SP (k :: ps)) = k :: ps :=
      split_join_ne SP (k :: ps) (by simp) (fun x hx => by
        cases hx with
        | head => exact hk.2.1
        | tail _ h => exact (hps x h).2.1)
    unfold pmParse
    rw [hsplit]
    cases ps with
    | nil => simp [hk.2.2.2]
    | cons p ps' => simp

theorem pmLine_ne_nil (g : Graph) (k : RevId) (hk : RevOK k) : pmLine g k ≠ [] := by
  unfold pmLine
  cases lookup k g with
  | none => simp [missingPfx]
  | some ps =>
    cases ps with
    | nil => simpa [join] using hk.1
    | cons p ps' =>
      simp only [join]
      intro h
      have := congrArg List.length h
      simp at this

theorem pmLine_noNL (g : Graph) (hg : GraphOK g) (k : RevId) (hk : RevOK k) : NL ∉ pmLine g k := by
  unfold pmLine
  cases hl : lookup k g with
  | none =>
    simp only []
    intro h
    rcases List.mem_append.mp h with h | h
    · revert h; decide
    · exact hk.2.2.1 h
  | some ps =>
    simp only []
    intro h
    rcases mem_join h with e | ⟨x, hx, hc⟩
    · revert e; decide
    · cases hx with
      | head => exact hk.2.2.1 hc
      | tail _ hx' => exact ((hg _ (lookup_mem hl)).2 x hx').2.2.1 hc

theorem mem_dedupKeys {k : RevId} {l : List RevId} : k ∈ dedupKeys l ↔ k ∈ l := by
  induction l with
  | nil => simp [dedupKeys]
  | cons a r ih =>
    unfold dedupKeys
    split
    · rename_i h
      rw [ih]
      constructor
      · exact fun hk => List.mem_cons_of_mem _ hk
      · intro hk
        cases hk with
        | head => exact h
        | tail _ h' => exact h'
    · simp only [List.mem_cons, ih]

theorem lookup_map_self {β : Type} (f : RevId → β) {k : RevId} {l : List RevId} (h : k ∈ l) :
    lookup k (l.map fun x => (x, f x)) = some (f k) := by
  induction l with
  | nil => cases h
  | cons a r ih =>
    simp only [List.map_cons, lookup]
    split
    · rename_i e; subst e; rfl
    · rename_i ne
      cases h with
      | head => exact absurd rfl ne
      | tail _ h' => exact ih h'

theorem join_ne_nil_of_head {x : Bytes} {l : List Bytes} (hx : x ≠ []) : join NL (x :: l) ≠ [] := by
  cases l with
  | nil => simpa [join] using hx
  | cons y ys =>
    simp only [join]
    intro h
    have := congrArg List.length h
    simp at this

theorem filterMap_congr' {α β : Type} {f g : α → Option β} {l : List α} (h : ∀ a ∈ l, f a = g a) :
    l.filterMap f = l.filterMap g := by
  induction l with
  | nil => rfl
  | cons a r ih =>
    simp only [List.filterMap_cons]
    rw [h a (by simp), ih (fun x hx => h x (List.mem_cons_of_mem _ hx))]

/-- what the client finds for a requested key in the decoded response -/
theorem served_lookup (src : Graph) (st : St) (ex ks : List RevId) (k : RevId)
    (hg : GraphOK st.revs) (hok : ∀ x ∈ ks ++ ex, RevOK x) (hin : k ∈ ks) :
    lookup k
      (if (serve src st ex { verb := .getParentMap, args := includeMissing :: ks }).1.body.isEmpty then []
       else (split NL (serve src st ex { verb := .getParentMap, args := includeMissing :: ks }).1.body).filterMap pmParse)
      = some (parentsEntry st.revs k) := by
  simp only [serve, if_true]
  generalize hall : dedupKeys (ks ++ ex) = all
  have hallok : ∀ x ∈ all, RevOK x := by
    intro x hx
    rw [← hall] at hx
    exact hok x (mem_dedupKeys.mp hx)
  have hkin : k ∈ all := by
    rw [← hall]; exact mem_dedupKeys.mpr (List.mem_append_left _ hin)
  have hallne : all ≠ [] := by
    intro e; rw [e] at hkin; cases hkin
  have hlines : ∀ x ∈ all.map (pmLine st.revs), NL ∉ x := by
    intro x hx
    obtain ⟨y, hy, rfl⟩ := List.mem_map.mp hx
    exact pmLine_noNL st.revs hg y (hallok y hy)
  have hbody : (join NL (all.map (pmLine st.revs))).isEmpty = false := by
    cases hal : all with
    | nil => exact absurd hal hallne
    | cons a r =>
      have := join_ne_nil_of_head (l := r.map (pmLine st.revs))
        (pmLine_ne_nil st.revs a (hallok a (by rw [hal]; simp)))
      simp only [List.map_cons]
      cases hj : join NL (pmLine st.revs a :: r.map (pmLine st.revs)) with
      | nil => exact absurd hj this
      | cons _ _ => rfl
  rw [hbody]
  simp only [Bool.false_eq_true, if_false]
  rw [split_join_ne NL _ (by simpa using hallne) hlines]
  have hgot : (all.map (pmLine st.revs)).filterMap pmParse
      = all.map (fun x => (x, parentsEntry st.revs x)) := by
    rw [List.filterMap_map]
    have : ∀ x ∈ all, (pmParse ∘ pmLine st.revs) x = some (x, parentsEntry st.revs x) :=
      fun x hx => pmParse_pmLine st.revs hg x (hallok x hx)
    rw [filterMap_congr' this]
    clear this hlines hbody hallne hkin hallok hall
    induction all with
    | nil => rfl
    | cons a r ih => simp [List.filterMap_cons, ih]
  rw [hgot]
  exact lookup_map_self (parentsEntry st.revs) hkin

theorem dedup_all_null : ∀ (l : List RevId), (∀ k ∈ dedupKeys l, k = nullRev) →
    dedupKeys l = [] ∨ dedupKeys l = [nullRev] := by
  intro l
  induction l with
  | nil => intro _; left; rfl
  | cons a r ih =>
    intro h
    unfold dedupKeys at h ⊢
    split
    · rename_i hm; simp only [hm, if_true] at h; exact ih h
    · rename_i hm
      simp only [hm, if_false] at h
      have ha : a = nullRev := h a (by simp)
      have hr := ih (fun k hk' => h k (List.mem_cons_of_mem _ hk'))
      rcases hr with hr | hr
      · right; rw [hr, ha]
      · exfalso
        apply hm
        have : nullRev ∈ dedupKeys r := by rw [hr]; simp
        rw [ha]; exact mem_dedupKeys.mp this

/-- the fixed client returns exactly the local answer -/
theorem remoteParentMap_eq (src : Graph) (st : St) (ex keys : List RevId)
    (hg : GraphOK st.revs) (hex : ∀ k ∈ ex, RevOK k) (hk : ∀ k ∈ keys, RevOK k) :
    remoteParentMap true src st ex keys = localParentMap st.revs keys := by
  unfold remoteParentMap localParentMap
  simp only []
  split
  · -- only null: (or nothing) was asked for
    rename_i hemp
    have hall : ∀ k ∈ dedupKeys keys, k = nullRev := by
      intro k hk'
      by_cases hne : k = nullRev
      · exact hne
      · exfalso
        have : k ∈ (dedupKeys keys).filter (· ≠ nullRev) := by simp [hk', hne]
        rw [List.isEmpty_iff.mp hemp] at this
        cases this
    rcases dedup_all_null keys hall with e | e
    · rw [e]; simp
    · rw [e]; simp
  · rename_i hne
    apply filterMap_congr'
    intro k hk'
    by_cases hn : k = nullRev
    · simp [hn]
    · simp only [hn, if_false]
      have hin : k ∈ (dedupKeys keys).filter (· ≠ nullRev) := by simp [hk', hn]
      have hok : ∀ x ∈ (dedupKeys keys).filter (· ≠ nullRev) ++ ex, RevOK x := by
        intro x hx
        rcases List.mem_append.mp hx with h | h
        · exact hk x (mem_dedupKeys.mp (List.mem_filter.mp h).1)
        · exact hex x h
      rw [served_lookup src st ex _ k hg hok hin]
      cases parentsEntry st.revs k <;> rfl

end BreezyVerif.C32
