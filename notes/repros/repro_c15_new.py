#!/venv/bin/python
"""Standalone reproductions of two C15 defects on the real code.
usage: [VERIF_REPO=/path/to/tree] /venv/bin/python repro_c15_new.py
Prints one line per experiment: FAILS (defect present) or ok; exit 1 if any FAILS."""
import os, shutil, sys, tempfile
base = tempfile.mkdtemp(prefix="c15repro-", dir="/var/tmp/imp-C15C16")
os.environ.update(HOME=base, BRZ_HOME=base, BRZ_EMAIL="T <t@e.c>", BRZ_PLUGIN_PATH="-user:-site")
sys.path.insert(0, os.environ.get("VERIF_REPO", "/repo"))
import breezy; breezy.initialize()
import breezy.bzr, breezy.bzr.bzrdir, breezy.bzr.workingtree_4, breezy.bzr.groupcompress_repo
from breezy import shelf, ui, trace
from breezy.controldir import ControlDir, format_registry
from breezy.workingtree import WorkingTree
ui.ui_factory = ui.SilentUIFactory(); trace.be_quiet(True)
bad = 0


def tree():
    d = tempfile.mkdtemp(dir=base)
    wt = ControlDir.create_standalone_workingtree(d, format=format_registry.make_controldir("2a"))
    with open(d + "/t", "wb") as f: f.write(b"a\nb\nc\n")
    wt.add(["t"], ids=[b"t-id"]); wt.commit("base")
    return wt, d


def shelve(wt, pred=lambda ch: True):
    with wt.lock_tree_write():
        cr = shelf.ShelfCreator(wt, wt.basis_tree())
        try:
            for ch in cr.iter_shelvable():
                if pred(ch):
                    cr.shelve_change(ch)
            return wt.get_shelf_manager().shelve_changes(cr)
        finally:
            cr.finalize()


def unshelve(d, sid):
    wt = WorkingTree.open(d)
    with wt.lock_tree_write():
        u = wt.get_shelf_manager().get_unshelver(sid)
        try: return u.make_merger().do_merge()
        finally: u.finalize()


def state(d):
    wt = WorkingTree.open(d)
    with wt.lock_read():
        ver = sorted(p for p, ie in wt.iter_entries_by_dir() if p)
        ch = sorted((c.path, c.versioned, c.kind) for c in wt.iter_changes(wt.basis_tree()))
    disk = sorted(os.path.relpath(os.path.join(dp, n), d) for dp, dn, fn in os.walk(d) for n in dn + fn
                  if ".bzr" not in os.path.join(dp, n))
    return dict(versioned=ver, disk=disk, changes=ch)


def report(tag, ok, detail):
    global bad
    print("%s: %s  %s" % (tag, "ok" if ok else "FAILS", detail))
    bad += 0 if ok else 1


# 1. add directory nd and file nd/f; shelve ONLY the addition of nd/f
wt, d = tree()
os.mkdir(d + "/nd")
with open(d + "/nd/f", "wb") as f: f.write(b"precious\n")
wt.add(["nd", "nd/f"], ids=[b"nd-id", b"f-id"])
before = state(d)
try:
    sid = shelve(wt, lambda ch: ch[1] == b"f-id")
    accepted = True
except Exception as e:
    accepted = False
    report("1  shelve add of nd/f without add of nd", state(d) == before,
           "refused with %s, tree %s" % (type(e).__name__, "unchanged" if state(d) == before else "CHANGED"))
if accepted:
    mid = state(d)
    try:
        nconf = unshelve(d, sid)
        after = state(d)
        report("1  shelve add of nd/f without add of nd, unshelve", after == before and not nconf,
               "conflicts=%r restored=%s" % (nconf, after == before))
    except Exception as e:
        content_lost = not os.path.exists(d + "/nd/f")
        report("1  shelve add of nd/f without add of nd, unshelve", False,
               "shelve was ACCEPTED (nd/f removed from the tree: %s) but the shelf cannot be unshelved: %s: %s"
               % (content_lost, type(e).__name__, str(e)[:120]))

# 2. versioned file missing from disk: shelve everything, unshelve
wt, d = tree()
os.unlink(d + "/t")
before = state(d)
sid = shelve(wt)
mid = state(d)
nconf = unshelve(d, sid)
after = state(d)
report("2  rm t; shelve; unshelve", after == before,
       "before versioned=%r changes=%r | after versioned=%r changes=%r" % (
           before["versioned"], before["changes"], after["versioned"], after["changes"]))

# 2b. `brz rm t` (unversion + delete): shelve; unshelve -- the reference behaviour
wt, d = tree()
wt.remove(["t"], keep_files=False, force=True)
before = state(d)
sid = shelve(wt)
nconf = unshelve(d, sid)
after = state(d)
report("2b brz rm t; shelve; unshelve", after == before, "versioned=%r" % (after["versioned"],))

shutil.rmtree(base, ignore_errors=True)
sys.exit(1 if bad else 0)
