"""Known family cr-at-line-end (F17), merge-hash variant (Lean: C20.merge_modified_witness).
A recorded hash "<current sha1>\r" is not the file's sha1, so merge_modified() should drop the
record; the rio reader strips the CR and the record is reported as current.
Also: a file id ending in CR cannot reach the merge-hashes file, WorkingTree.add refuses it.
Run: /venv/bin/python /var/tmp/imp-C18C20/repro_mm_cr.py   (exit 1 = reproduced)"""
import os, sys
sys.path.insert(0, "/verif/harness")
os.environ["RUST_BACKTRACE"] = "0"
from vlib import env
env.boot()
from breezy import osutils
from breezy.workingtree import WorkingTree
wt = env.make_tree("2a")
open(os.path.join(wt.basedir, "a"), "wb").write(b"A\n")
wt.add(["a"], ids=[b"a-id"])
sha = osutils.sha_string(b"A\n")
WorkingTree.open(wt.basedir).set_merge_modified({"a": sha + b"\r"})
back = WorkingTree.open(wt.basedir).merge_modified()
print("stored  {'a': %r}" % (sha + b"\r"))
print("read    %r   (expected {}: the stored hash is not the current sha1)" % back)
open(os.path.join(wt.basedir, "x"), "wb").write(b"X\n")
try:
    wt.add(["x"], ids=[b"i\r"])
    print("add with id b'i\\r' accepted")
except BaseException as e:
    print("add with id b'i\\r' refused: %s" % type(e).__name__)
sys.exit(1 if back else 0)
