/-
C21 — pull and push never silently drop history.

Part 1 (shared with C16): a small revision-graph model.  A graph is an
association list `revision ↦ parent list`, NEWEST ENTRY FIRST; the parents of
an entry are looked up among the OLDER entries only (the tail), so every list
denotes a finite DAG and all graph functions are structurally recursive.  A
revision without an entry is a ghost.  `none : Tip` is breezy's `null:`.
These functions are the specification of what breezy asks the external
`vcsgraph` package (`heads`, `is_ancestor`, `iter_lefthand_ancestry`,
`find_distance_to_null`, `find_unique_ancestors`); the correspondence run
compares them with vcsgraph per case.

Part 2: literal model of `breezy/branch.py`
(`Branch._revision_relations`, `_check_if_descendant_or_diverged`,
`GenericInterBranch._update_revisions`, `_basic_push`, `pull`, `push` with a
bound target), `breezy/bzr/branch.py` (`BzrBranch.set_last_revision_info`,
`BzrBranch8._check_history_violation`) and `breezy/git/branch.py`
(`_update_tip`, `GitBranch.generate_revision_history`).
-/
namespace BreezyVerif.C21

abbrev Rev := Nat
abbrev Graph := List (Rev × List Rev)
/-- a branch tip: `none` is `null:` -/
abbrev Tip := Option Rev

/-! ## Part 1: graph -/

/-- every revision id occurring in the graph (as a key or as a parent) -/
def mentioned (g : Graph) : List Rev := g.flatMap fun e => e.1 :: e.2

/-- well-formed = listed in reverse topological order (children first): no
entry is mentioned by an older entry, and no revision is its own parent -/
def wf : Graph → Bool
  | [] => true
  | (n, ps) :: g => !ps.contains n && !(mentioned g).contains n && wf g

def parentsOf : Graph → Rev → Option (List Rev)
  | [], _ => none
  | (n, ps) :: g, r => if n = r then some ps else parentsOf g r

/-- present in the repository (not a ghost) -/
def present (g : Graph) (r : Rev) : Bool := (parentsOf g r).isSome

/-- all ancestors of `r`, `r` included; ghosts are included, their parents unknown -/
def anc : Graph → Rev → List Rev
  | [], r => [r]
  | (n, ps) :: g, r => if n = r then r :: ps.flatMap (fun p => anc g p) else anc g r

/-- `graph.is_ancestor(a, b)`; `null:` is an ancestor of everything -/
def isAnc (g : Graph) (a b : Tip) : Bool :=
  match a, b with
  | none, _ => true
  | some _, none => false
  | some a, some b => (anc g b).contains a

/-- `graph.heads(keys)`: the keys that are not a proper ancestor of another key
(a set, represented by a list that may repeat an element) -/
def heads (g : Graph) (keys : List Tip) : List Tip :=
  keys.filter fun k => !(keys.any fun k' => k' != k && isAnc g k k')

/-- left-hand ancestry of `r`, newest first: `some l` = the walk reached the
origin, `none` = it ran into a ghost -/
def lefthand : Graph → Rev → Option (List Rev)
  | [], _ => none
  | (n, ps) :: g, r =>
    if n = r then
      match ps with
      | [] => some [r]
      | p :: _ => (lefthand g p).map (r :: ·)
    else lefthand g r

/-- left-hand chain of `r`, newest first, ending silently at the origin or at a
ghost (`Branch._lefthand_history`) -/
def lhChain : Graph → Rev → List Rev
  | [], _ => []
  | (n, ps) :: g, r =>
    if n = r then
      match ps with
      | [] => [r]
      | p :: _ => r :: lhChain g p
    else lhChain g r

def lhTip (g : Graph) : Tip → Option (List Rev)
  | none => some []
  | some r => lefthand g r

/-- the revision number a tip ought to have: length of its left-hand history -/
def revnoOf (g : Graph) (t : Tip) : Option Nat := (lhTip g t).map List.length

inductive Walk where
  | found | exhausted | ghost
  deriving DecidableEq, Repr

/-- walk `iter_lefthand_ancestry(r)` looking for `t`: found, or the walk ended
at the origin, or it raised `RevisionNotPresent` at a ghost -/
def lhFind : Graph → Rev → Rev → Walk
  | [], _, _ => .ghost
  | (n, ps) :: g, r, t =>
    if n = r then
      if r = t then .found
      else match ps with
        | [] => .exhausted
        | p :: _ => lhFind g p t
    else lhFind g r t

/-- `graph.find_distance_to_null(r, known)`: left-hand walk that stops at the
first revision with a known revno; `none` = `GhostRevisionsHaveNoRevno` -/
def dist (known : List (Rev × Nat)) : Graph → Rev → Option Nat
  | [], r => known.lookup r
  | (n, ps) :: g, r =>
    if n = r then
      match known.lookup r with
      | some k => some k
      | none =>
        match ps with
        | [] => some 1
        | p :: _ => (dist known g p).map (· + 1)
    else dist known g r

def distTip (known : List (Rev × Nat)) (g : Graph) : Tip → Option Nat
  | none => some 0
  | some r => dist known g r

/-- `graph.find_unique_ancestors(u, commons)`: ancestors of `u` that are not
ancestors of any of `commons` (a set, represented by a list that may repeat an element) -/
def findUniqueAncestors (g : Graph) (u : Rev) (commons : List Rev) : List Rev :=
  (anc g u).filter fun r => !(commons.any fun c => (anc g c).contains r)

/-! ## Part 2: branches -/

inductive Relation where
  | bDescendsFromA | diverged | aDescendsFromB | invalid
  deriving DecidableEq, Repr

inductive Err where
  | diverged | noSuchRevision | ghostRevno | appendOnly | notPresent | assertion
  | localRequiresBound
  deriving DecidableEq, Repr

def Err.toString : Err → String
  | .diverged => "E:Diverged" | .noSuchRevision => "E:NoSuchRevision"
  | .ghostRevno => "E:GhostRevno" | .appendOnly => "E:AppendOnly"
  | .notPresent => "E:NotPresent" | .assertion => "E:Assertion"
  | .localRequiresBound => "E:LocalRequiresBound"

/-- Python set equality between a set given as a list and a set display -/
def sameSet (l1 l2 : List Tip) : Bool := l1.all (l2.contains ·) && l2.all (l1.contains ·)

/-- `Branch._revision_relations(a, b, graph)` given `heads = graph.heads([a, b])` -/
def revisionRelations (hs : List Tip) (a b : Tip) : Relation :=
  if sameSet hs [b] then .bDescendsFromA
  else if sameSet hs [a, b] then .diverged
  else if sameSet hs [a] then .aDescendsFromB
  else .invalid

/-- `Branch._check_if_descendant_or_diverged` on the relation -/
def checkRelation : Relation → Except Err Bool
  | .bDescendsFromA => .ok true
  | .diverged => .error .diverged
  | .aDescendsFromB => .ok false
  | .invalid => .error .assertion

structure Br where
  tip : Tip
  revno : Nat
  appendOnly : Bool := false
  deriving DecidableEq, Repr

/-- `BzrBranch8._check_history_violation(revision_id)` -/
def checkHistoryViolation (g : Graph) (last new : Tip) : Except Err Unit :=
  match last with
  | none => .ok ()
  | some l =>
    match new with
    | none => .error .appendOnly
    | some r =>
      match lhFind g r l with
      | .found => .ok ()
      | .exhausted => .error .appendOnly
      | .ghost => .error .notPresent

/-- `BzrBranch.set_last_revision_info(revno, revision_id)` -/
def setLast (g : Graph) (b : Br) (revno : Nat) (tip : Tip) : Except Err Br :=
  if b.appendOnly then
    match checkHistoryViolation g b.tip tip with
    | .ok () => .ok { b with tip := tip, revno := revno }
    | .error e => .error e
  else .ok { b with tip := tip, revno := revno }

def tipPresent (g : Graph) : Tip → Bool
  | none => true
  | some r => present g r

def seed (b : Br) : List (Rev × Nat) :=
  match b.tip with
  | none => []
  | some r => [(r, b.revno)]

/-- the recorded revno is the length of the tip's left-hand history -/
def revnoOK (g : Graph) (b : Br) : Bool := revnoOf g b.tip == some b.revno

/-- the revision `_update_revisions` is asked to move to, with its revno when it
is the source tip; `none` = the source has no commits and nothing is done -/
def requested (src : Br) : Option Tip → Option (Tip × Option Nat)
  | none => if src.tip = none then none else some (src.tip, some src.revno)
  | some s => some (s, none)

/-- `GenericInterBranch._update_revisions(stop_revision, overwrite)`;
`stop = none` is `stop_revision=None`, `stop = some none` is `b"null:"` -/
def updateRevisions (g : Graph) (src tgt : Br) (stop : Option Tip) (overwrite : Bool) :
    Except Err Br :=
  match requested src stop with
  | none => .ok tgt            -- no commits in the source: done
  | some (stopRev, stopRevno) =>
    -- self.fetch(stop_revision=stop_revision)
    if !tipPresent g stopRev then .error .noSuchRevision
    else
      let cont : Except Err Bool :=
        if !overwrite then
          checkRelation (revisionRelations (heads g [stopRev, tgt.tip]) stopRev tgt.tip)
        else .ok false
      match cont with
      | .error e => .error e
      | .ok true => .ok tgt      -- target already contains stop_revision
      | .ok false =>
        match stopRevno with
        | some n => setLast g tgt n stopRev
        | none =>
          -- dict([(other_last, other_revno), (this_last, this_revno)]): `this` wins
          match distTip (seed tgt ++ seed src) g stopRev with
          | none => .error .ghostRevno
          | some n => setLast g tgt n stopRev

/-- `GenericInterBranch._basic_push` (tip part) -/
def basicPush (g : Graph) (src tgt : Br) (stop : Option Tip) (overwrite : Bool) : Except Err Br :=
  if stop = some tgt.tip then .ok tgt else updateRevisions g src tgt stop overwrite

structure Outcome where
  err : Option Err
  tgt : Br
  master : Option Br
  deriving DecidableEq, Repr

/-- run `f` on the master (if the target is bound) and then on the target; the
first exception ends the operation and whatever was written stays written -/
def bound2 (f : Br → Except Err Br) (tgt : Br) (master : Option Br) : Outcome :=
  match master with
  | none =>
    match f tgt with
    | .ok t => ⟨none, t, none⟩
    | .error e => ⟨some e, tgt, none⟩
  | some m =>
    match f m with
    | .error e => ⟨some e, tgt, some m⟩
    | .ok m' =>
      match f tgt with
      | .ok t => ⟨none, t, some m'⟩
      | .error e => ⟨some e, tgt, some m'⟩

/-- `GenericInterBranch.pull` (source is not the master) -/
def pullOp (g : Graph) (src tgt : Br) (master : Option Br) (stop : Option Tip) (ow : Bool) : Outcome :=
  bound2 (fun b => updateRevisions g src b stop ow) tgt master

/-- `GenericInterBranch.pull` with its `local` flag and the test whether the
source IS the master of the bound target (`source_is_master`): `local=True`
needs a bound target (`LocalRequiresBoundBranch`); with `local=True` or when
pulling from the master itself the master is not touched and only the target
is updated (`_pull` is called without `local`) -/
def pullOpX (g : Graph) (src tgt : Br) (master : Option Br) (stop : Option Tip) (ow : Bool)
    (isLocal srcIsMaster : Bool) : Outcome :=
  if isLocal && master.isNone then ⟨some .localRequiresBound, tgt, master⟩
  else if (isLocal || srcIsMaster) && master.isSome then
    match updateRevisions g src tgt stop ow with
    | .ok t => ⟨none, t, master⟩
    | .error e => ⟨some e, tgt, master⟩
  else pullOp g src tgt master stop ow

/-- `GenericInterBranch.push` -/
def pushOp (g : Graph) (src tgt : Br) (master : Option Br) (stop : Option Tip) (ow : Bool) : Outcome :=
  bound2 (fun b => basicPush g src b stop ow) tgt master

/-- `breezy/git/branch.py: _update_tip` + `GitBranch.generate_revision_history`
(`revid` is the fetched stop revision or the source tip) -/
def updateTipGit (g : Graph) (last revid : Tip) (overwrite : Bool) : Except Err Tip :=
  if !overwrite then
    if isAnc g revid last then .ok last
    else if !isAnc g last revid then .error .diverged
    else .ok revid
  else .ok revid

/-! ## Operation sequences over a set of branches -/

inductive Op where
  | pull (src tgt : Nat) (master : Option Nat) (stop : Option Tip) (ow : Bool)
  | push (src tgt : Nat) (master : Option Nat) (stop : Option Tip) (ow : Bool)
  deriving DecidableEq, Repr

def Op.ow : Op → Bool
  | .pull _ _ _ _ ow => ow
  | .push _ _ _ _ ow => ow

/-- pull or push from `src` into `tgt` (bound to `m`) -/
def applyOp (g : Graph) (isPull : Bool) (src tgt : Br) (m : Option Br) (stop : Option Tip) (ow : Bool) :
    Outcome :=
  if isPull then pullOp g src tgt m stop ow else pushOp g src tgt m stop ow

/-- one operation between branches `si` (source), `ti` (target) and `mi`
(master of the target) of a system of branches; ill-formed operations (index
out of range, one branch in two roles) are ignored -/
def stepAux (g : Graph) (s : List Br) (isPull : Bool) (si ti : Nat) (mi : Option Nat)
    (stop : Option Tip) (ow : Bool) : List Br :=
  match s[si]?, s[ti]? with
  | some src, some tgt =>
    if si = ti then s else
    match mi with
    | none => s.set ti (applyOp g isPull src tgt none stop ow).tgt
    | some m =>
      match s[m]? with
      | some mb =>
        if m = si ∨ m = ti then s else
        match (applyOp g isPull src tgt (some mb) stop ow).master with
        | some mb' => (s.set m mb').set ti (applyOp g isPull src tgt (some mb) stop ow).tgt
        | none => s
      | none => s
  | _, _ => s

def step (g : Graph) (s : List Br) : Op → List Br
  | .pull si ti mi stop ow => stepAux g s true si ti mi stop ow
  | .push si ti mi stop ow => stepAux g s false si ti mi stop ow

def run (g : Graph) (s : List Br) (ops : List Op) : List Br := ops.foldl (step g) s

end BreezyVerif.C21
