import BreezyVerif.Lemmas.C26Inv
/-!
C26 — the dead-holder decision (`kill(pid, 0)` errno → dead?) and the run-level
invariants about steals: every steal in progress is directed at a lock whose
holder process no longer exists, and the steal policy alone never decides to
break the lock of a live holder — for any number of stealers, any uids.
-/
namespace BreezyVerif.C26

theorem pidDeadOf_iff (r : KillRes) : pidDeadOf r = true ↔ r = .esrch := by
  cases r <;> simp [pidDeadOf]

theorem killZero_esrch_iff (e p : Bool) : killZero e p = .esrch ↔ e = false := by
  cases e <;> cases p <;> simp [killZero]

theorem pidDeadOf_killZero (e p : Bool) : pidDeadOf (killZero e p) = !e := by
  cases e <;> cases p <;> rfl

theorem pidDeadOf_probe (cfg : Nat → Cfg) (crashed : Nat → Bool) (me o : Nat) :
    pidDeadOf (probe cfg crashed me o) = crashed o := by
  simp [probe, pidDeadOf_killZero]

/-- what makes a holder stealable, with the kill probe evaluated: no mention of uids is left -/
theorem stealable_iff (cfg : Nat → Cfg) (crashed : Nat → Bool) (me : Nat) (x : Nonce) :
    stealable cfg crashed me x = true ↔
      ((cfg x.owner).host = (cfg me).host ∧ (cfg x.owner).host ≠ 0 ∧
        (cfg x.owner).user.name = (cfg me).user.name ∧ crashed x.owner = true) := by
  simp only [stealable, knownDead, pidDeadOf_probe, Bool.and_eq_true, beq_iff_eq, Bool.not_eq_true',
    beq_eq_false_iff_ne, ne_eq, Bool.and_true]
  constructor
  · rintro ⟨⟨⟨a, b⟩, c⟩, d⟩; exact ⟨a, b, c, d⟩
  · rintro ⟨a, b, c, d⟩; exact ⟨⟨⟨a, b⟩, c⟩, d⟩

/-- the facts a steal of `x` by `i` rests on (all stable under further events) -/
def StealOk (cfg : Nat → Cfg) (crashed : Nat → Bool) (i : Nat) (x : Nonce) : Prop :=
  (cfg i).steal = true ∧ (cfg x.owner).host = (cfg i).host ∧ (cfg x.owner).host ≠ 0 ∧
    (cfg x.owner).user.name = (cfg i).user.name ∧ crashed x.owner = true

theorem StealOk.of_stealable {cfg : Nat → Cfg} {crashed : Nat → Bool} {i : Nat} {x : Nonce}
    (h : stealable cfg crashed i x = true) (hs : (cfg i).steal = true) : StealOk cfg crashed i x := by
  have := (stealable_iff cfg crashed i x).1 h
  exact ⟨hs, this.1, this.2.1, this.2.2.1, this.2.2.2⟩

/-- every steal in progress is directed at a lock whose holder is ours and gone -/
def StealInv (s : Sys) : Prop :=
  ∀ i x, (s.lk i).pc.stealing = some x → StealOk s.cfg s.crashed i x

theorem StealInv.init (cfg : Nat → Cfg) (h : Option Dir) : StealInv (Sys.init cfg h) := by
  intro i x hx; simp [Sys.init, Pc.stealing] at hx

theorem StealInv.step {s : Sys} (inv : StealInv s) (e : Ev) : StealInv (s.step e) := by
  cases e with
  | crash c =>
    intro i x hx
    have h := inv i x hx
    refine ⟨h.1, h.2.1, h.2.2.1, h.2.2.2.1, ?_⟩
    simp only [Sys.step, upd]; split
    · rfl
    · exact h.2.2.2.2
  | fault c k =>
    simp only [Sys.step]; split
    · exact inv
    · intro i x hx
      by_cases hi : i = c
      · subst hi; simp [lfault_stealing] at hx
      · simp only [upd_other _ _ hi] at hx; exact inv i x hx
  | start c op =>
    simp only [Sys.step]; split
    · exact inv
    · split
      · intro i x hx
        by_cases hi : i = c
        · subst hi; simp [start_stealing] at hx
        · simp only [upd_other _ _ hi] at hx; exact inv i x hx
      · exact inv
  | step c =>
    simp only [Sys.step]; split
    · exact inv
    · intro i x hx
      by_cases hi : i = c
      · subst hi
        simp only [upd_same] at hx
        rcases lstep_stealing i s.cfg s.crashed (s.lk i) s.held x hx with h | ⟨_, _, h2, h3⟩
        · exact inv i x h
        · exact StealOk.of_stealable h2 h3
      · simp only [upd_other _ _ hi] at hx; exact inv i x hx

theorem StealInv.run {s : Sys} (inv : StealInv s) (evs : List Ev) : StealInv (s.run evs) := by
  induction evs generalizing s with
  | nil => exact inv
  | cons e es ih => simp only [Sys.run, List.foldl_cons]; exact ih (inv.step e)

/-! ### without user breaks the steal policy never decides against a live holder -/

structure NoUserBreak (s : Sys) : Prop where
  pcs : ∀ i, (s.lk i).pc.userBreaky = false
  alive : s.brokeAlive = false

theorem NoUserBreak.init (cfg : Nat → Cfg) (h : Option Dir) : NoUserBreak (Sys.init cfg h) :=
  ⟨fun _ => rfl, rfl⟩

theorem NoUserBreak.step {s : Sys} (nb : NoUserBreak s) (e : Ev) (he : e.noBreak = true) :
    NoUserBreak (s.step e) := by
  cases e with
  | crash c => exact ⟨nb.pcs, nb.alive⟩
  | fault c k =>
    simp only [Sys.step]; split
    · exact nb
    · refine ⟨?_, nb.alive⟩
      intro j; by_cases hj : j = c
      · subst hj; simp [lfault_userBreaky]
      · simpa [upd, hj] using nb.pcs j
  | start c op =>
    simp only [Sys.step]; split
    · exact nb
    · split
      · refine ⟨?_, nb.alive⟩
        intro j; by_cases hj : j = c
        · subst hj
          simp only [upd_same]
          cases hb : (startOp (s.lk j) op).pc.userBreaky
          · rfl
          · have := start_userBreaky _ _ hb
            subst this; simp [Ev.noBreak] at he
        · simpa [upd, hj] using nb.pcs j
      · exact nb
  | step c =>
    simp only [Sys.step]; split
    · exact nb
    · refine ⟨?_, ?_⟩
      · intro j; by_cases hj : j = c
        · subst hj
          simp only [upd_same]
          cases hb : (lstep j s.cfg s.crashed (s.lk j) s.held).1.pc.userBreaky
          · rfl
          · have := lstep_userBreaky j s.cfg s.crashed (s.lk j) s.held hb
            simp [nb.pcs j] at this
        · simpa [upd, hj] using nb.pcs j
      · simp only [nb.alive, Bool.false_or]
        cases hd : (lstep c s.cfg s.crashed (s.lk c) s.held).2.2 with
        | none => rfl
        | some d =>
          rcases lstep_decision_kind c s.cfg s.crashed (s.lk c) s.held d hd with h | ⟨x, hx, _, hst⟩
          · have := nb.pcs c; simp [h, Pc.userBreaky] at this
          · subst hx
            simp [decisionAlive, ((stealable_iff _ _ _ _).1 hst).2.2.2]

theorem NoUserBreak.run {s : Sys} (nb : NoUserBreak s) (evs : List Ev) (he : ∀ e ∈ evs, e.noBreak = true) :
    NoUserBreak (s.run evs) := by
  induction evs generalizing s with
  | nil => exact nb
  | cons e es ih =>
    simp only [Sys.run, List.foldl_cons]
    exact ih (nb.step e (he e (by simp))) (fun e' he' => he e' (by simp [he']))

end BreezyVerif.C26
