"""C49 — configuration values resolve by location and round-trip through files
(breezy/config.py: _iter_for_location_by_parts, LocationMatcher,
StartingPathMatcher, LocationSection.get, Stack.get/set, IniFileStore).

T2 (location resolution): generated stores (optional no-name section, 1..6
named sections whose ids are paths over a small component alphabet with `*`,
`?`, `[..]`, trailing slashes, relative and absolute, plus `ignore_parents`,
`opt:policy = appendpath|norecurse|none`, values with `{relpath}`,
`{basename}`, `{branchname}` references and quotes) are parsed by the REAL
configobj-backed IniFileStore; the parsed sections are handed to the Lean
model, and for several locations the model is compared with the real
  * Stack([LocationMatcher(store, loc).get_sections]).get(name)
  * Stack([StartingPathMatcher(store, loc).get_sections]).get(name)
  * the (id, extra_path) lists both matchers yield, in order
  * _iter_for_location_by_parts(ids, loc)
  * IniFileStore.unquote.
Section ids outside the modelled glob grammar / values with non-local option
references: the model says so ('G' / 'R') and only the oracle runs.

Oracle, independent of the model (documented semantics written here with
Python's own fnmatch and dromedary's join/basename as specifications):
component-wise glob prefix match, most specific first (more components, then
id), a section with ignore_parents=true is the last one consulted, appendpath
joins the unmatched part of the location, {relpath}/{basename} expand to it.
Round trip: Stack.set(value) -> save -> fresh store -> Stack.get == value for
values over a grammar with quotes, commas, '#', '=', '[', ';', backslashes,
leading/trailing blanks, newlines and unicode; other options of the file keep
their values; also through the real LocationStack/LocationStore
(set at a location, re-load, get at the location and below it).

FINDINGS on the unchanged code (each has its own family classifier):
  ignore-parents-own-section-dropped  LocationMatcher.get_sections breaks BEFORE
      yielding the section that says ignore_parents=true, so that section's own
      options are lost too (the old LocationConfig yields it, then stops)
  roundtrip-line-break   a value containing a line break is read back wrapped in
      two extra quote characters (quoted by Stack.set, quoted again by
      ConfigObj.write, un-quoted once)
  roundtrip-both-quote-kinds  a value with both ' and " that also has '#' or
      starts and ends with the same quote character loses/gains quotes

The ignore_parents cut exists in two modelled shapes ('excl' = the code as
found, 'incl' = documented / the proposed patch); the harness probes the live
LocationMatcher once and asks the model for the matching one.

Mutants this was built against (scratch worktree; each caught by the oracle
with a concrete input):
  M1  _iter_for_location_by_parts: `len(section_parts) > len(location_parts)` -> `>=`
  M2  extra_path from `location_parts[len(section_parts) - 1:]`
  M3  LocationMatcher.get_sections sort key `(match[0], id)` -> `(id,)` (alphabetical, not by depth)
  M4  `reverse=True` dropped (least specific first)
  M5  LocationSection.get: appendpath test `== POLICY_APPENDPATH` -> `== POLICY_NORECURSE`
  M6  LocationSection locals: relpath <- basename
  M7  StartingPathMatcher: `reversed(` dropped
  M8  Stack.set stores the raw value (no store.quote)
  M9  IniFileStore.unquote never unquotes
  M10 fnmatch(name[0], name[1]) arguments swapped
  M11 ignore_parents: `if ignore: break` -> `if ignore is not None: break`
  M12 StartingPathMatcher: `self.location.startswith(section_path)` operands swapped
  M13 MutableSection.set returns early when overwriting an option of the loaded file
  H1  harmless: `matched` computed with all(...) instead of the loop — clean.
  FIX the proposed patch for ignore_parents (yield, then break): that family disappears,
      0 mismatches; breezy.tests.test_config (717 tests) passes with it.
"""
import fnmatch
import os

from vlib import env

THEOREMS = [
    "section_match_iff", "extra_is_unmatched_suffix", "iter_by_parts_spec",
    "most_specific_first", "sorted_is_permutation", "value_from_first_defining",
    "none_iff_no_section_defines",
    "ignore_parents_stops", "ignore_parents_gap", "ignore_parents_partial",
    "ignore_parents_own_section_witness",
    "no_policy_plain_value", "appendpath_value", "relpath_basename_expansion",
    "starting_sections_spec", "store_roundtrip", "store_set_other_unchanged",
    "unquote_quoted",
]
RULE = ("location stream: one case = (store text, location, option name, matcher); non-trivial = at least one "
        "named section matches the location; round-trip stream: one case = (value, section, other options); "
        "non-trivial = the value needs quoting (blank at an end, quote, comma, '#', '=', line break) or is non-ASCII")
ASSUMPTIONS = [
    "locations have no segment parameters (','), no empty inner components and no file:// scheme",
    "option names are not registered options (Stack.get then applies only unquote)",
    "values in the location stream reference only {relpath}, {basename}, {branchname}; other references are "
    "oracle-only (stack-level expansion is not modelled)",
    "round-trip values contain no '{' (option references are a documented feature of Stack.get)",
]
TRUSTED = [
    "configobj (parser, writer, _quote/_unquote), Python fnmatch, dromedary urlutils.join/basename are external: "
    "the model takes the parsed sections from the real parser and specifies fnmatch/join/basename on a restricted "
    "grammar; the harness compares those specifications with the real functions on every generated case",
    "the store round trip is an oracle on the real code; the Lean statement is over an abstract quote/unquote pair",
]

NAMES = ["foo", "bar", "baz"]
LINEBREAKS = "\n\r\x0b\x0c\x1c\x1d\x1e\x85\u2028\u2029"


_FAMILY_SEEN = {}


def _violation(ctx, case, what, family=None):
    """record a property violation; a known input family is recorded a few times
    only (and counted), so that it cannot crowd out a NEW violation's replay"""
    if family is not None:
        ctx.count("finding:" + family)
        _FAMILY_SEEN[family] = _FAMILY_SEEN.get(family, 0) + 1
        if _FAMILY_SEEN[family] > 3:
            return
    ctx.violation(case, what, family=family)


# ----------------------------------------------------------------------
def enc(s):
    return ".".join(str(ord(c)) for c in s) or "e"


def dec(s):
    return "" if s == "e" else "".join(chr(int(x)) for x in s.split("."))


def enc_sections(secs):
    """secs: list of (id or None, [(k, v)...])"""
    out = []
    for sid, opts in secs:
        out.append(":".join(["~" if sid is None else enc(sid)] + ["%s=%s" % (enc(k), enc(v)) for k, v in opts]))
    return ",".join(out) or "-"


def show(v):
    return "N" if v is None else "S " + enc(v)


# ----------------------------------------------------------------------
# generators: stores and locations
COMP = ["a", "b", "c", "ab", "a.b", "é"]
GCOMP = ["*", "?", "a*", "*b", "?b", "[ab]", "[!a]", "[a-c]x", "a?"]
BAD_GLOB = ["[a", "a]", "[]", "[b-a]", "[!]"]


def g_section_id(rng, bad=False):
    n = rng.randint(1, 4)
    comps = []
    for _ in range(n):
        r = rng.random()
        if bad and r < 0.3:
            comps.append(rng.choice(BAD_GLOB))
        elif r < 0.7:
            comps.append(rng.choice(COMP))
        else:
            comps.append(rng.choice(GCOMP))
    s = "/".join(comps)
    if rng.random() < 0.8:
        s = "/" + s
    if rng.random() < 0.15:
        s += "/"
    if rng.random() < 0.03:
        s = rng.choice(["/", "*", "/*"])
    return s


def g_value(rng):
    r = rng.random()
    base = rng.choice(["v", "top", "x/y", "http://h/p", "a b", "", "/abs", "dir/"])
    if r < 0.45:
        return base + str(rng.randint(0, 9))
    if r < 0.75:
        ref = rng.choice(["{relpath}", "{basename}", "{branchname}", "{relpath}/{basename}"])
        return rng.choice([base, ""]) + rng.choice(["", "-", "/"]) + ref + rng.choice(["", ".x", "}"])
    if r < 0.85:
        return rng.choice(['"q %d"' % rng.randint(0, 9), "'s'", '"', "'a", '"a"b"', "{", "{1a}", "{a-}", "{}", "a{b"])
    if r < 0.93:
        return "{" + rng.choice(["foo", "bar", "nope", "a.b", "x-y"]) + "}"     # non-local reference
    return rng.choice(["true", "True", "yes", "1", "on", "false", "0", "maybe"])


def g_options(rng):
    lines = []
    used = set()
    for name in rng.sample(NAMES, rng.randint(0, 3)):
        lines.append((name, g_value(rng)))
        used.add(name)
        r = rng.random()
        if r < 0.35:
            lines.append((name + ":policy", rng.choice(["appendpath", "appendpath", "norecurse", "none", "bogus"])))
        if r < 0.03:
            lines.append((name + ":policy:policy", "appendpath"))
    r = rng.random()
    if r < 0.25:
        lines.append(("ignore_parents", rng.choice(["true", "True", "yes", "1", "on", "false", "no", "0", "maybe", "", "TRUE"])))
        if rng.random() < 0.1:
            lines.append(("ignore_parents:policy", "appendpath"))
    rng.shuffle(lines)
    return lines


def ini_line(k, v):
    return "%s = %s" % (k, v)


def globbed(rng, comp):
    """a glob that matches the component"""
    r = rng.random()
    if r < 0.5 or not comp:
        return comp
    if r < 0.65:
        return "*"
    if r < 0.75:
        return comp[0] + "*"
    if r < 0.85:
        return "?" * len(comp) if len(comp) <= 2 else "*" + comp[-1]
    if comp[0].isascii() and comp[0].isalnum():
        return "[%sz]" % comp[0] + comp[1:]
    return comp


def g_store(rng, bad=False):
    lines = []
    if rng.random() < 0.3:
        for k, v in g_options(rng):
            lines.append(ini_line(k, v))
    ids = []
    chain = None
    if rng.random() < 0.55:
        # sections along ONE path: several of them match the same location
        chain = [""] + [rng.choice(COMP) for _ in range(rng.randint(2, 5))]
    for _ in range(rng.randint(1, 6)):
        if chain and rng.random() < 0.8:
            k = rng.randint(2, len(chain))
            sid = "/".join([chain[0]] + [globbed(rng, c) for c in chain[1:k]])
            if rng.random() < 0.1:
                sid += "/"
        else:
            sid = g_section_id(rng, bad=bad)
        if sid in ids:
            continue
        ids.append(sid)
        lines.append("[%s]" % sid)
        for k, v in g_options(rng):
            lines.append(ini_line(k, v))
    return "\n".join(lines) + "\n", ids


def g_location(rng, ids):
    r = rng.random()
    if ids and r < 0.75:
        # instantiate a section id and extend / cut it
        sid = rng.choice(ids)
        comps = sid.rstrip("/").split("/")
        out = []
        for c in comps:
            if c in COMP or c == "":
                out.append(c)
            else:
                out.append(rng.choice(["a", "b", "ab", "bx", "cb", "c", "ax"]))
        r2 = rng.random()
        if r2 < 0.5:
            out += [rng.choice(COMP) for _ in range(rng.randint(1, 3))]
        elif r2 < 0.6 and len(out) > 1:
            out = out[:-1]
        loc = "/".join(out)
    else:
        loc = "/".join(rng.choice(COMP) for _ in range(rng.randint(1, 4)))
        if rng.random() < 0.8:
            loc = "/" + loc
    if rng.random() < 0.1:
        loc += "/"
    return loc or "/"


# ----------------------------------------------------------------------
# real code
_CUT = [None]


def cut_variant():
    """which cut LocationMatcher.get_sections implements, probed on the live code:
    'excl' = the section saying ignore_parents=true is itself not consulted (the
    code as found), 'incl' = it is the last one consulted (documented; the patch
    proposed with finding ignore-parents-own-section-dropped)"""
    if _CUT[0] is None:
        from breezy import config
        store = load_store("[/p]\nignore_parents = true\nfoo = x\n")
        ids = [s.id for _, s in config.LocationMatcher(store, "/p").get_sections()]
        _CUT[0] = "incl" if ids == ["/p"] else "excl"
    return _CUT[0]


def load_store(text):
    from breezy import config
    store = config.IniFileStore()
    store._load_from_string(text.encode("utf-8"))
    return store


def parsed_sections(store):
    """the sections as the real parser produced them: [(id|None, [(k, raw)...])]"""
    out = []
    cobj = store._config_obj
    if cobj.scalars:
        out.append((None, [(k, cobj[k]) for k in cobj.scalars]))
    for name in cobj.sections:
        sec = cobj[name]
        out.append((name, [(k, sec[k]) for k in sec.scalars]))
    return out


def exc_name(e):
    return "E:" + type(e).__name__


def real_get(store, matcher, loc, name):
    from breezy import config
    m = {"lm": config.LocationMatcher, "sp": config.StartingPathMatcher}[matcher](store, loc)
    st = config.Stack([m.get_sections], store)
    try:
        return show(st.get(name))
    except (config.ExpandingUnknownOption, config.OptionExpansionLoop) as e:
        return exc_name(e)
    except Exception as e:
        return exc_name(e)


def real_sections(store, matcher, loc):
    from breezy import config
    m = {"ms": config.LocationMatcher, "ss": config.StartingPathMatcher}[matcher](store, loc)
    try:
        return ",".join(("~" if s.id is None else enc(s.id)) + ">" + enc(s.extra_path) for _, s in m.get_sections()) or "-"
    except Exception as e:
        return exc_name(e)


# ----------------------------------------------------------------------
# oracle: the documented semantics, written independently of the model
def o_parts(s):
    return s.rstrip("/").split("/")


def o_matches(sid, loc):
    sp, lp = o_parts(sid), o_parts(loc)
    return len(sp) <= len(lp) and all(fnmatch.fnmatchcase(l, s) for l, s in zip(lp, sp))


def o_truth(v):
    return isinstance(v, str) and v.lower() in ("yes", "y", "on", "true", "1")


def o_expand(value, extra, branch):
    from breezy import urlutils
    return (value.replace("{relpath}", extra).replace("{basename}", urlutils.basename(extra))
            .replace("{branchname}", branch))


def o_section_value(opts, name, extra, branch, depth=0):
    """value of option `name` in a location section (None if absent); the policy
    of an option is itself the section value of `name:policy`"""
    from breezy import urlutils
    d = dict(opts)
    if name not in d or depth > len(d) + 1:
        return None
    v = d[name]
    pol = o_section_value(opts, name + ":policy", extra, branch, depth + 1)
    if pol == "appendpath":
        v = urlutils.join(v, extra)
    return o_expand(v, extra, branch)


def o_unquote(v):
    if v and v[0] == v[-1] and v[0] in "'\"":
        return v[1:-1]
    return v


def o_location_expected(secs, loc, name):
    """-> (documented value, value if the ignoring section itself is dropped, ignoring section consulted?)"""
    from breezy import urlutils
    lp = o_parts(loc)
    cands = []
    for sid, opts in secs:
        if sid is None:
            cands.append((0, "", sid, opts, loc, ""))
        elif o_matches(sid, loc):
            n = len(o_parts(sid))
            cands.append((n, sid, sid, opts, "/".join(lp[n:]), urlutils.basename(loc)))
    cands.sort(key=lambda c: (c[0], c[1]), reverse=True)
    documented = None      # first defined value among the sections consulted (the ignoring one included)
    dropped = None         # … if the ignoring section itself were skipped
    from_ignoring = False
    for n, _, sid, opts, extra, branch in cands:
        ign = o_truth(o_section_value(opts, "ignore_parents", extra, branch))
        v = o_section_value(opts, name, extra, branch)
        if documented is None and v is not None:
            documented = v
            from_ignoring = ign
        if ign:
            break
        if dropped is None and v is not None:
            dropped = v
    return documented, dropped, from_ignoring


def has_nonlocal_ref(secs):
    import re
    ref = re.compile(r"{[^\d\W](?:\.\w|-\w|\w)*}")
    for _, opts in secs:
        for _, v in opts:
            for m in ref.findall(v):
                if m not in ("{relpath}", "{basename}", "{branchname}"):
                    return True
    return False


def glob_in_grammar(sid):
    i = 0
    n = len(sid)
    while i < n:
        c = sid[i]
        if c == "]":
            return False
        if c == "[":
            j = sid.find("]", i + 1)
            if j < 0:
                return False
            body = sid[i + 1:j]
            if body.startswith("!"):
                body = body[1:]
            if not body:
                return False
            k = 0
            while k < len(body):
                a = body[k]
                if not (a.isascii() and a.isalnum()):
                    return False
                if k + 1 < len(body) and body[k + 1] == "-":
                    if k + 2 >= len(body):
                        return False
                    b = body[k + 2]
                    if not (b.isascii() and b.isalnum()) or b < a:
                        return False
                    k += 3
                else:
                    k += 1
            i = j + 1
            continue
        i += 1
    return True


# ----------------------------------------------------------------------
def run_locations(ctx, n_stores, bad_ratio=0.06):
    from breezy import config, urlutils
    rng = ctx.rng
    cases, lines, outs = [], [], []
    for _ in range(n_stores):
        bad = rng.random() < bad_ratio
        text, ids = g_store(rng, bad=bad)
        try:
            store = load_store(text)
        except Exception as e:
            ctx.count("store:parse-error:" + type(e).__name__)
            continue
        secs = parsed_sections(store)
        named = [sid for sid, _ in secs if sid is not None]
        grammar = all(glob_in_grammar(s) for s in named)
        nonlocal_ref = has_nonlocal_ref(secs)
        esecs = enc_sections(secs)
        for _ in range(ctx.pick(3, 4)):
            loc = g_location(rng, named)
            # specification checks of the external helpers on this very case
            lp = o_parts(loc)
            anymatch = False
            for sid in named:
                try:
                    if o_matches(sid, loc):
                        anymatch = True
                except Exception:
                    pass
            # ---- _iter_for_location_by_parts
            case = dict(op="it", loc=loc, ids=named)
            try:
                got = ",".join("%s>%s>%d" % (enc(s), enc(x), n) for s, x, n in config._iter_for_location_by_parts(named, loc)) or "-"
            except Exception as e:
                got = exc_name(e)
            want = ",".join("%s>%s>%d" % (enc(s), enc("/".join(lp[len(o_parts(s)):])), len(o_parts(s)))
                            for s in named if o_matches(s, loc)) or "-"
            if got != want:
                _violation(ctx, case, "_iter_for_location_by_parts(%r, %r): got %s, documented %s" % (
                    named, loc, _pp_list(got), _pp_list(want)))
            ctx.case(case, nontrivial=anymatch)
            ctx.count("op:it")
            cases.append(case)
            lines.append("it %s %s" % (enc(loc), ",".join(enc(s) for s in named) or "-"))
            outs.append(got if grammar else "G")
            # ---- section lists
            for op in ("ms", "ss"):
                case = dict(op=op, loc=loc, text=text)
                got = real_sections(store, op, loc)
                if op == "ss":
                    oracle_starting(ctx, case, secs, loc, got)
                ctx.case(case, nontrivial=anymatch)
                ctx.count("op:" + op)
                cases.append(case)
                lines.append(("ms %s %s %s" % (cut_variant(), enc(loc), esecs)) if op == "ms"
                             else "ss %s %s" % (enc(loc), esecs))
                outs.append(got if grammar else "G")
            # ---- values
            for name in NAMES:
                for op in ("lm", "sp"):
                    case = dict(op=op, loc=loc, name=name, text=text)
                    got = real_get(store, op, loc, name)
                    ctx.count("op:" + op)
                    ctx.count("result:" + ("none" if got == "N" else "error" if got.startswith("E:") else "some"))
                    if op == "lm":
                        oracle_location(ctx, case, secs, loc, name, got, nonlocal_ref)
                    ctx.case(case, nontrivial=anymatch)
                    cases.append(case)
                    lines.append(_vline(op, loc, name, esecs))
                    if not grammar:
                        outs.append("G")
                    elif nonlocal_ref and (got.startswith("E:Expanding") or got.startswith("E:OptionExpansionLoop")):
                        outs.append("R")
                    else:
                        outs.append(got)
    # the model answers R only when a reference survives in the value it found;
    # with non-local references elsewhere in the store the real value may be a plain one
    replies = ctx.model(lines)
    for c, l, i, m in zip(cases, lines, outs, replies):
        ctx.traces += 1
        if i == m:
            continue
        if m == "R" and c["op"] in ("lm", "sp") and has_nonlocal_ref(parsed_sections(load_store(c["text"]))):
            ctx.count("unmodelled-ref")
            continue
        ctx.mismatch(c, i, m, line=l)


def _vline(op, loc, name, esecs):
    if op == "lm":
        return "lm %s %s %s %s" % (cut_variant(), enc(loc), enc(name), esecs)
    return "sp %s %s %s" % (enc(loc), enc(name), esecs)


def _pp_list(s):
    if s == "-" or s.startswith("E:"):
        return s
    out = []
    for item in s.split(","):
        f = item.split(">")
        out.append("(" + ", ".join([repr(dec(f[0])) if f[0] != "~" else "None", repr(dec(f[1]))] + f[2:]) + ")")
    return "[" + ", ".join(out) + "]"


def oracle_location(ctx, case, secs, loc, name, got, nonlocal_ref):
    if nonlocal_ref:
        return
    try:
        documented, dropped, from_ignoring = o_location_expected(secs, loc, name)
    except Exception:
        return        # section id outside fnmatch's domain etc.
    want = show(None if documented is None else o_unquote(documented))
    if got == want:
        return
    fam = None
    alt = show(None if dropped is None else o_unquote(dropped))
    if from_ignoring and got == alt:
        fam = "ignore-parents-own-section-dropped"
    _violation(ctx, case, "location %r option %r: got %s, documented semantics give %s" % (
        loc, name, _pp(got), _pp(want)), family=fam)


def oracle_starting(ctx, case, secs, loc, got):
    """StartingPathMatcher: later sections of the file are more specific and come
    first; a section applies when its id is a string prefix of the location or
    globs it as a whole; the no-name section comes last"""
    lp = o_parts(loc)
    want = []
    try:
        for sid, _ in reversed(secs):
            if sid is not None and (loc.startswith(sid) or fnmatch.fnmatchcase(loc, sid)):
                want.append(enc(sid) + ">" + enc("/".join(lp[len(o_parts(sid)):])))
    except Exception:
        return
    if secs and secs[0][0] is None:
        want.append("~>" + enc(loc))
    want = ",".join(want) or "-"
    if got != want:
        _violation(ctx, case, "StartingPathMatcher(%r) yields %s, documented order %s" % (loc, _pp_list(got), _pp_list(want)))


def _pp(s):
    return "None" if s == "N" else (repr(dec(s[2:])) if s.startswith("S ") else s)


# ----------------------------------------------------------------------
# round trip
VAL_ALPHA = ["a", "b", "z", "0", " ", " ", '"', "'", ",", "#", "=", "\n", "é", "日", "\\", "[", "]", "\t", ";",
             "%", "$", "!", ":", "(", "/", "*", "\r", "}"]


VAL_ALPHA_1LINE = [c for c in VAL_ALPHA if c not in "\n\r"]


def g_rt_value(rng):
    r = rng.random()
    if r < 0.08:
        return rng.choice(["", " ", "a", "#", '"', "'", "''", '""', ",", "a,b", " a", "a ", "=", "[x]", "a#b", "é"])
    n = rng.randint(1, 12)
    alpha = VAL_ALPHA if rng.random() < 0.2 else VAL_ALPHA_1LINE
    return "".join(rng.choice(alpha) for _ in range(n))


def rt_family(v):
    """classifier of the known round-trip failures (exact on the explored grammar)"""
    if any(c in LINEBREAKS for c in v):
        return "roundtrip-line-break"
    if "'" in v and '"' in v:
        # damaged at the first read-back when it also has '#' or starts and ends with the
        # same quote character, otherwise when the loaded file is saved again
        return "roundtrip-both-quote-kinds"
    return None


def needs_quoting(v):
    return (v != v.strip() or any(c in v for c in "\"',#=\n\r") or not v.isascii() or v == "")


def roundtrip_case(args):
    """set -> save -> fresh store -> get, on a real TransportIniFileStore"""
    d, section, others, name, value, value2 = args
    from breezy import config, transport
    if d is None:
        from dromedary.memory import MemoryTransport     # same store code, bytes kept in memory
        t = MemoryTransport()
    else:
        t = transport.get_transport_from_path(d)
    try:
        t.delete("rt.conf")
    except Exception:
        pass
    store = config.TransportIniFileStore(t, "rt.conf")
    st = config.Stack([store.get_sections], store, mutable_section_id=section)
    try:
        for k, v in others:
            st.set(k, v)
        st.set(name, "overwritten " + value2)      # an earlier value of the same option must not survive
        st.set(name, value)
        store.save()
    except Exception as e:
        return dict(set_error=type(e).__name__)
    res = {}
    store2 = config.TransportIniFileStore(t, "rt.conf")
    if section is None:
        st2 = config.Stack([store2.get_sections], store2)
    else:
        st2 = config.Stack([config.NameMatcher(store2, section).get_sections], store2)
    for k, _ in list(others) + [(name, value)]:
        try:
            res[k] = st2.get(k)
        except Exception as e:
            res[k] = "E:" + type(e).__name__
    # second generation: overwrite on the loaded store, save, load again
    try:
        st3 = config.Stack([store2.get_sections], store2, mutable_section_id=section)
        st3.set(name, value2)
        store2.save()
        store4 = config.TransportIniFileStore(t, "rt.conf")
        st4 = (config.Stack([store4.get_sections], store4) if section is None
               else config.Stack([config.NameMatcher(store4, section).get_sections], store4))
        res["#again"] = st4.get(name)
        res["#others_again"] = [st4.get(k) for k, _ in others]
    except Exception as e:
        res["#again"] = "E:" + type(e).__name__
        res["#others_again"] = None
    return res


def run_roundtrip(ctx, n):
    rng = ctx.rng
    d = env.fresh_dir("rt")
    for _ in range(n):
        value = g_rt_value(rng)
        section = rng.choice([None, None, "sec", "/a/b", "DEFAULT"])
        others = []
        clean_others = rng.random() < 0.85
        for k in rng.sample(["o1", "o2", "o3"], rng.randint(0, 2)):
            v = g_rt_value(rng)
            while clean_others and rt_family(v):
                v = g_rt_value(rng)
            others.append((k, v))
        name = "opt"
        case = dict(op="rt", value=value, section=section, others=others)
        value2 = g_rt_value(rng)
        while rt_family(value2):
            value2 = g_rt_value(rng)
        case["value2"] = value2
        res = roundtrip_case((d if rng.random() < 0.1 else None, section, others, name, value, value2))
        fam = next((f for f in [rt_family(value)] + [rt_family(v) for _, v in others] if f), None)
        ctx.case(case, nontrivial=needs_quoting(value))
        ctx.count("op:rt")
        ctx.count("rt:len%d" % min(len(value), 12))
        if "set_error" in res:
            ctx.count("rt:set-error")
            _violation(ctx, case, "Stack.set(%r) / save raised %s" % (value, res["set_error"]), family=fam)
            continue
        if res[name] != value:
            ctx.count("rt:differs")
            _violation(ctx, case, "value %r read back as %r" % (value, res[name]), family=fam)
        elif res["#again"] != value2:
            _violation(ctx, case, "loaded store: option set to %r, saved, read back as %r" % (value2, res["#again"]),
                          family=fam)
        for k, v in others:
            if res[k] != v:
                # the damaged target value may swallow following lines of the file
                _violation(ctx, case, "other option %s=%r read back as %r after setting %r" % (k, v, res[k], value),
                              family=fam)
                break
        else:
            if res.get("#others_again") not in (None, [v for _, v in others]):
                _violation(ctx, case, "other options changed after the second save: %r" % (res["#others_again"],),
                              family=fam)


def run_location_stack(ctx, n):
    """the real LocationStack over locations.conf in the isolated HOME:
    set at a location, save, unload, get at the location and below it"""
    from breezy import config
    rng = ctx.rng
    for i in range(n):
        loc = "/rt%d/" % i + "/".join(rng.choice(COMP) for _ in range(rng.randint(1, 3)))
        value = g_rt_value(rng)
        while rt_family(value):
            value = g_rt_value(rng)
        name = "verif_opt_%d" % rng.randint(0, 3)
        case = dict(op="locstack", loc=loc, name=name, value=value)
        try:
            st = config.LocationStack(loc)
            st.set(name, value)
            st.store.save()
            st.store.unload()
            got_here = config.LocationStack(loc).get(name)
            below = loc + "/" + rng.choice(COMP)
            got_below = config.LocationStack(below).get(name)
            other = config.LocationStack("/elsewhere%d" % i).get(name)
        except Exception as e:
            _violation(ctx, case, "LocationStack set/get raised %s" % type(e).__name__)
            continue
        ctx.case(case, nontrivial=needs_quoting(value))
        ctx.count("op:locstack")
        if got_here != value or got_below != value:
            _violation(ctx, case, "LocationStack(%r).set(%r): read back %r at the location, %r below it" % (
                loc, value, got_here, got_below))
        if other is not None:
            _violation(ctx, case, "value set for %r is visible at an unrelated location: %r" % (loc, other))


def run_unquote(ctx, n):
    from breezy import config
    rng = ctx.rng
    store = config.IniFileStore()
    store._load_from_string(b"")
    cases, lines, outs = [], [], []
    for _ in range(n):
        v = g_rt_value(rng)
        if rng.random() < 0.4:
            q = rng.choice(["'", '"'])
            v = q + v + rng.choice([q, q, ""])
        try:
            got = enc(store.unquote(v))
        except Exception as e:
            got = exc_name(e)
        cases.append(dict(op="uq", value=v))
        lines.append("uq " + enc(v))
        outs.append(got)
        ctx.case(cases[-1], nontrivial=bool(v) and v[0] in "'\"")
    ctx.diff(cases, lines, outs)


def run_helpers(ctx, n):
    """the specifications of dromedary's join / basename used by the model"""
    from breezy import urlutils
    rng = ctx.rng
    cases, lines, outs = [], [], []
    for _ in range(n):
        base = rng.choice(["v", "x/y", "http://h/p", "a b", "/abs", "dir/", "é", "a.b/c"]) + rng.choice(["", "1", "/"])
        extra = "/".join(rng.choice(COMP) for _ in range(rng.randint(0, 3)))
        if rng.random() < 0.3:
            extra = "/" + extra + rng.choice(["", "/"])      # the no-name section's extra path is the location
        cases.append(dict(op="jn", base=base, extra=extra))
        lines.append("jn %s %s" % (enc(base), enc(extra)))
        outs.append(enc(urlutils.join(base, extra)))
        p = rng.choice(["", "/"]) + extra + rng.choice(["", "/"])
        cases.append(dict(op="bn", path=p))
        lines.append("bn " + enc(p))
        outs.append(enc(urlutils.basename(p)))
    ctx.diff(cases, lines, outs, tie="T2-spec-of-external-helper")


def run(ctx):
    import json
    import logging
    logging.getLogger("brz").setLevel(logging.ERROR)
    cdir = os.path.join(env.VERIF, "corpus", "C49")
    if os.path.isdir(cdir):
        for fn in sorted(os.listdir(cdir)):
            if fn.endswith(".json"):
                _replay_one(ctx, json.load(open(os.path.join(cdir, fn))))
    ctx.extra["ignore_parents_cut_variant"] = cut_variant()
    run_helpers(ctx, ctx.pick(500, 5000))
    run_unquote(ctx, ctx.pick(2000, 20000))
    run_locations(ctx, ctx.pick(1500, 20000))
    run_roundtrip(ctx, ctx.pick(6000, 80000))
    run_location_stack(ctx, ctx.pick(60, 600))


def _replay_one(ctx, case):
    op = case["op"]
    if op == "rt":
        d = env.fresh_dir("rt")
        res = roundtrip_case((d, case["section"], [tuple(x) for x in case["others"]], "opt", case["value"],
                              case.get("value2", "second")))
        if res.get("opt") != case["value"]:
            _violation(ctx, case, "value %r read back as %r" % (case["value"], res.get("opt", res)),
                          family=rt_family(case["value"]))
        return dict(impl=res, model="identity (store_roundtrip, abstract quote/unquote)")
    if op == "uq":
        from breezy import config
        store = config.IniFileStore()
        store._load_from_string(b"")
        impl = enc(store.unquote(case["value"]))
        return dict(impl=impl, model=ctx.model(["uq " + enc(case["value"])])[0])
    if op == "locstack":
        from breezy import config
        st = config.LocationStack(case["loc"])
        st.set(case["name"], case["value"])
        st.store.save()
        st.store.unload()
        got = config.LocationStack(case["loc"]).get(case["name"])
        if got != case["value"]:
            _violation(ctx, case, "LocationStack: %r read back as %r" % (case["value"], got))
        return dict(impl=got, model="identity")
    if op in ("jn", "bn"):
        from breezy import urlutils
        if op == "jn":
            return dict(impl=enc(urlutils.join(case["base"], case["extra"])),
                        model=ctx.model(["jn %s %s" % (enc(case["base"]), enc(case["extra"]))])[0])
        return dict(impl=enc(urlutils.basename(case["path"])), model=ctx.model(["bn " + enc(case["path"])])[0])
    if op == "it":
        from breezy import config
        got = ",".join("%s>%s>%d" % (enc(s), enc(x), n)
                       for s, x, n in config._iter_for_location_by_parts(case["ids"], case["loc"])) or "-"
        lp = o_parts(case["loc"])
        want = ",".join("%s>%s>%d" % (enc(s), enc("/".join(lp[len(o_parts(s)):])), len(o_parts(s)))
                        for s in case["ids"] if o_matches(s, case["loc"])) or "-"
        if got != want:
            _violation(ctx, case, "_iter_for_location_by_parts: got %s, documented %s" % (_pp_list(got), _pp_list(want)))
        return dict(impl=_pp_list(got),
                    model=ctx.model(["it %s %s" % (enc(case["loc"]), ",".join(enc(s) for s in case["ids"]) or "-")])[0])
    store = load_store(case["text"])
    secs = parsed_sections(store)
    esecs = enc_sections(secs)
    if op in ("ms", "ss"):
        got = real_sections(store, op, case["loc"])
        if op == "ss":
            oracle_starting(ctx, case, secs, case["loc"], got)
        line = ("ms %s %s %s" % (cut_variant(), enc(case["loc"]), esecs)) if op == "ms" else "ss %s %s" % (enc(case["loc"]), esecs)
        return dict(impl=_pp_list(got), model=_pp_list(ctx.model([line])[0]))
    got = real_get(store, op, case["loc"], case["name"])
    if op == "lm":
        oracle_location(ctx, case, secs, case["loc"], case["name"], got, has_nonlocal_ref(secs))
    model = ctx.model([_vline(op, case["loc"], case["name"], esecs)])[0]
    return dict(impl=_pp(got), model=_pp(model), sections=secs)


def widen(ctx):
    run_locations(ctx, 3000)
    run_roundtrip(ctx, 10000)


def replay(ctx, case):
    r = _replay_one(ctx, case)
    r["oracle_failures"] = [v["what"] for v in ctx.violations]
    return r
