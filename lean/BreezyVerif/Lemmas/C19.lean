import BreezyVerif.Model.C19
/-! C19 — helper lemmas -/
namespace BreezyVerif.C19

theorem newlineOf_cases (this : List Line) :
    newlineOf this = [10] ∨ newlineOf this = [13, 10] ∨ newlineOf this = [13] := by
  unfold newlineOf
  split
  · simp
  · split
    · simp
    · split <;> simp

theorem length_le_of_isPrefixOf (m l : Bytes) (h : m.isPrefixOf l = true) : m.length ≤ l.length := by
  rw [List.isPrefixOf_iff_prefix] at h
  exact h.length_le

theorem extendMarker_fresh (lines : List Line) (fuel : Nat) (m : Bytes)
    (h : ∀ l ∈ lines, l.length < m.length + fuel) :
    ∀ l ∈ lines, (extendMarker lines fuel m).isPrefixOf l = false := by
  induction fuel generalizing m with
  | zero =>
    intro l hl
    simp only [extendMarker]
    cases hp : m.isPrefixOf l with
    | false => rfl
    | true =>
      have := length_le_of_isPrefixOf m l hp
      have := h l hl
      omega
  | succ n ih =>
    simp only [extendMarker]
    split
    · apply ih
      intro l hl
      have := h l hl
      simp only [List.length_append, List.length_cons, List.length_nil]
      omega
    · rename_i hany
      intro l hl
      simp only [List.any_eq_true, not_exists, not_and, Bool.not_eq_true] at hany
      exact hany l hl

theorem extendMarker_prefix (lines : List Line) (fuel : Nat) (m : Bytes) :
    ∃ r, extendMarker lines fuel m = m ++ r := by
  induction fuel generalizing m with
  | zero => exact ⟨[], by simp [extendMarker]⟩
  | succ n ih =>
    simp only [extendMarker]
    split
    · obtain ⟨r, hr⟩ := ih (m ++ [33])
      exact ⟨[33] ++ r, by rw [hr]; simp⟩
    · exact ⟨[], by simp⟩

theorem le_maxLen (ls : List Line) (l : Line) (h : l ∈ ls) : l.length ≤ maxLen ls := by
  induction ls with
  | nil => cases h
  | cons x xs ih =>
    simp only [maxLen]
    rcases List.mem_cons.mp h with rfl | h'
    · omega
    · have := ih h'; omega

/-- the marker handed to merge3 is fresh: no BASE / OTHER / THIS line starts with it -/
theorem freshMarker_fresh (base other this : List Line) :
    ∀ l ∈ base ++ other ++ this, (freshMarker base other this).isPrefixOf l = false := by
  unfold freshMarker
  apply extendMarker_fresh
  intro l hl
  have := le_maxLen _ l hl
  omega

theorem freshMarker_form (base other this : List Line) :
    ∃ r, freshMarker base other this = sentinel ++ r :=
  extendMarker_prefix _ _ _

/-- the marker line written by merge3 is rewritten to the conventional one and sets the flag -/
theorem fix_start (M nl : Bytes) :
    fixLine M (withName M nameA ++ nl) = (withName lt7 nameA ++ nl, true) := by
  have h1 : M.isPrefixOf (withName M nameA ++ nl) = true := by
    simp [withName, List.append_assoc]
  have h2 : (withName M nameA ++ nl).drop M.length = 32 :: nameA ++ nl := by
    simp [withName, List.append_assoc]
  simp only [fixLine, h1, if_true, h2]
  simp [withName, List.append_assoc]

theorem not_prefix_of_head (p s : Bytes) (a b : UInt8) (h : a ≠ b) :
    (a :: p).isPrefixOf (b :: s) = false := by
  simp [List.isPrefixOf, h]

theorem fix_eq7 (r nl : Bytes) : fixLine (sentinel ++ r) (eq7 ++ nl) = (eq7 ++ nl, false) := by
  have : (sentinel ++ r).isPrefixOf (eq7 ++ nl) = false := not_prefix_of_head _ _ 33 61 (by decide)
  simp [fixLine, this]

theorem fix_gt7 (r nl : Bytes) :
    fixLine (sentinel ++ r) (withName gt7 nameB ++ nl) = (withName gt7 nameB ++ nl, false) := by
  have : (sentinel ++ r).isPrefixOf (withName gt7 nameB ++ nl) = false := not_prefix_of_head _ _ 33 62 (by decide)
  simp [fixLine, this]

theorem fix_bar7 (r nl : Bytes) :
    fixLine (sentinel ++ r) (withName bar7 nameBase ++ nl) = (withName bar7 nameBase ++ nl, false) := by
  have : (sentinel ++ r).isPrefixOf (withName bar7 nameBase ++ nl) = false := not_prefix_of_head _ _ 33 124 (by decide)
  simp [fixLine, this]

theorem fix_plain (M : Bytes) (l : Line) (h : M.isPrefixOf l = false) : fixLine M l = (l, false) := by
  simp [fixLine, h]

theorem map_fix_plain (M : Bytes) (ls : List Line) (h : ∀ l ∈ ls, M.isPrefixOf l = false) :
    ls.map (fun l => (fixLine M l).1) = ls ∧ ls.any (fun l => (fixLine M l).2) = false := by
  induction ls with
  | nil => simp
  | cons l t ih =>
    have hl := fix_plain M l (h l (by simp))
    have := ih (fun x hx => h x (by simp [hx]))
    simp [hl, this.1, this.2]

theorem iterMerge3_append (M : Bytes) (x y : List Line) :
    iterMerge3 M (x ++ y) =
      ((iterMerge3 M x).1 ++ (iterMerge3 M y).1, (iterMerge3 M x).2 || (iterMerge3 M y).2) := by
  simp [iterMerge3]

/-- result of the post-pass on the marker rendering vs the conventional rendering -/
def Agree (M : Bytes) (conf : Bool) : Except Err (List Line) → Except Err (List Line) → Prop
  | .ok x, .ok y => iterMerge3 M x = (y, conf)
  | .error e, .error e' => e = e'
  | _, _ => False

theorem renderRegion_agree (o : Opts) (r0 nl : Bytes)
    (r : Region) (h : ∀ l ∈ r.emitted o.showBase, (sentinel ++ r0).isPrefixOf l = false) :
    Agree (sentinel ++ r0) r.isConflict (renderRegion (withName (sentinel ++ r0) nameA) (baseMarkerOf o) nl r)
      (renderRegion (withName lt7 nameA) (baseMarkerOf o) nl r) := by
  cases r with
  | unchanged ls | a ls | same ls | b ls =>
    have := map_fix_plain _ ls h
    simp [renderRegion, Agree, iterMerge3, Region.isConflict, this.1, this.2]
  | conflict base ta tb =>
    have hs := fix_start (sentinel ++ r0) nl
    cases hb : o.showBase with
    | false =>
      simp only [Region.emitted, hb] at h
      have ha := map_fix_plain _ ta (fun l hl => h l (by simp [hl]))
      have hb' := map_fix_plain _ tb (fun l hl => h l (by simp [hl]))
      simp [renderRegion, baseMarkerOf, hb, Agree, iterMerge3, Region.isConflict, hs, fix_eq7, fix_gt7,
        ha.1, ha.2, hb'.1, hb'.2]
    | true =>
      cases base with
      | none => simp [renderRegion, baseMarkerOf, hb, Agree]
      | some bl =>
        simp only [Region.emitted, hb] at h
        have ha := map_fix_plain _ ta (fun l hl => h l (by simp [hl]))
        have hb' := map_fix_plain _ tb (fun l hl => h l (by simp [hl]))
        have hbl := map_fix_plain _ bl (fun l hl => h l (by simp [hl]))
        simp [renderRegion, baseMarkerOf, hb, Agree, iterMerge3, Region.isConflict, hs, fix_eq7, fix_gt7,
          fix_bar7, ha.1, ha.2, hb'.1, hb'.2, hbl.1, hbl.2]

theorem mergeLines_agree (o : Opts) (r0 nl : Bytes) (regions : List Region)
    (h : ∀ r ∈ regions, ∀ l ∈ r.emitted o.showBase, (sentinel ++ r0).isPrefixOf l = false) :
    Agree (sentinel ++ r0) (regions.any Region.isConflict)
      (mergeLines (withName (sentinel ++ r0) nameA) (baseMarkerOf o) nl regions)
      (mergeLines (withName lt7 nameA) (baseMarkerOf o) nl regions) := by
  induction regions with
  | nil => simp [mergeLines, Agree, iterMerge3]
  | cons r rs ih =>
    have hr := renderRegion_agree o r0 nl r (h r (by simp))
    have ih := ih (fun x hx => h x (by simp [hx]))
    simp only [mergeLines, List.any_cons]
    revert hr ih
    cases renderRegion (withName (sentinel ++ r0) nameA) (baseMarkerOf o) nl r <;>
      cases renderRegion (withName lt7 nameA) (baseMarkerOf o) nl r <;>
      cases mergeLines (withName (sentinel ++ r0) nameA) (baseMarkerOf o) nl rs <;>
      cases mergeLines (withName lt7 nameA) (baseMarkerOf o) nl rs <;>
      simp only [Agree, false_implies, implies_true, imp_self] <;>
      (try (intro h1 h2; first | exact h1 | exact h2)) <;>
      (try (intro h1 h2; rw [iterMerge3_append, h1, h2]))

/-- the form used by `text_merge_spec` -/
theorem mergeLines_marker (o : Opts) (r0 nl : Bytes) (regions : List Region)
    (h : ∀ r ∈ regions, ∀ l ∈ r.emitted o.showBase, (sentinel ++ r0).isPrefixOf l = false) :
    (match mergeLines (withName (sentinel ++ r0) nameA) (baseMarkerOf o) nl regions with
      | .error e => (.error e : Except Err (List Line × Bool))
      | .ok lines => .ok (iterMerge3 (sentinel ++ r0) lines)) =
    (match mergeLines (withName lt7 nameA) (baseMarkerOf o) nl regions with
      | .error e => .error e
      | .ok ls => .ok (ls, regions.any Region.isConflict)) := by
  have := mergeLines_agree o r0 nl regions h
  revert this
  cases mergeLines (withName (sentinel ++ r0) nameA) (baseMarkerOf o) nl regions <;>
    cases mergeLines (withName lt7 nameA) (baseMarkerOf o) nl regions <;>
    simp [Agree]

theorem mem_of_mergeLines_conflict (s : Bytes) (bm : Option Bytes) (nl : Bytes) (regions : List Region)
    (l : List Line) (hm : mergeLines s bm nl regions = .ok l)
    (r : Region) (hr : r ∈ regions) (hc : r.isConflict = true) : (s ++ nl) ∈ l := by
  induction regions generalizing l with
  | nil => cases hr
  | cons r0 rs ih =>
    simp only [mergeLines] at hm
    cases h0 : renderRegion s bm nl r0 with
    | error e => simp [h0] at hm
    | ok h =>
      cases h1 : mergeLines s bm nl rs with
      | error e => simp [h0, h1] at hm
      | ok t =>
        simp only [h0, h1, Except.ok.injEq] at hm
        subst hm
        rcases List.mem_cons.mp hr with rfl | hr'
        · cases r with
          | conflict base ta tb =>
            cases bm <;> cases base <;> simp only [renderRegion, Except.ok.injEq, reduceCtorEq] at h0 <;>
              (subst h0; simp)
          | _ => simp [Region.isConflict] at hc
        · have := ih t h1 hr'
          simp [this]

/-- a conflict region also puts the mid and the end marker line into the rendering -/
theorem mem_markers_of_conflict (s : Bytes) (bm : Option Bytes) (nl : Bytes) (regions : List Region)
    (l : List Line) (hm : mergeLines s bm nl regions = .ok l)
    (r : Region) (hr : r ∈ regions) (hc : r.isConflict = true) :
    (eq7 ++ nl) ∈ l ∧ (withName gt7 nameB ++ nl) ∈ l := by
  induction regions generalizing l with
  | nil => cases hr
  | cons r0 rs ih =>
    simp only [mergeLines] at hm
    cases h0 : renderRegion s bm nl r0 with
    | error e => simp [h0] at hm
    | ok h =>
      cases h1 : mergeLines s bm nl rs with
      | error e => simp [h0, h1] at hm
      | ok t =>
        simp only [h0, h1, Except.ok.injEq] at hm
        subst hm
        rcases List.mem_cons.mp hr with rfl | hr'
        · cases r with
          | conflict base ta tb =>
            cases bm <;> cases base <;> simp only [renderRegion, Except.ok.injEq, reduceCtorEq] at h0 <;>
              (subst h0; simp)
          | _ => simp [Region.isConflict] at hc
        · have := ih t h1 hr'
          simp [this.1, this.2]

theorem any_fix_of_conflict (M : Bytes) (bm : Option Bytes) (nl : Bytes) (regions : List Region)
    (l : List Line) (hm : mergeLines (withName M nameA) bm nl regions = .ok l)
    (r : Region) (hr : r ∈ regions) (hc : r.isConflict = true) :
    l.any (fun x => (fixLine M x).2) = true := by
  have hmem := mem_of_mergeLines_conflict _ bm nl regions l hm r hr hc
  simp only [List.any_eq_true]
  refine ⟨_, hmem, ?_⟩
  simp [fix_start]

theorem mergeLines_clean (s : Bytes) (bm : Option Bytes) (nl : Bytes) (regions : List Region)
    (hc : ∀ r ∈ regions, r.isConflict = false) :
    mergeLines s bm nl regions = .ok (regions.flatMap Region.chosen) := by
  induction regions with
  | nil => simp [mergeLines]
  | cons r rs ih =>
    have ih := ih (fun x hx => hc x (by simp [hx]))
    have h0 := hc r (by simp)
    cases r <;> simp_all [mergeLines, renderRegion, Region.chosen, Region.isConflict]

theorem mergeLines_append (s : Bytes) (bm : Option Bytes) (nl : Bytes) (r1 r2 : List Region) :
    mergeLines s bm nl (r1 ++ r2) =
      match mergeLines s bm nl r1, mergeLines s bm nl r2 with
      | .ok x, .ok y => .ok (x ++ y)
      | .error e, _ => .error e
      | .ok _, .error e => .error e := by
  induction r1 with
  | nil =>
    simp only [List.nil_append, mergeLines]
    cases mergeLines s bm nl r2 <;> simp
  | cons r rs ih =>
    simp only [List.cons_append, mergeLines, ih]
    cases renderRegion s bm nl r <;> cases mergeLines s bm nl rs <;> cases mergeLines s bm nl r2 <;> simp

theorem join_splitLinesAux (t acc : Bytes) :
    (splitLinesAux acc t).flatten = acc.reverse ++ t := by
  induction t generalizing acc with
  | nil =>
    unfold splitLinesAux
    cases acc <;> simp
  | cons c cs ih =>
    unfold splitLinesAux
    split
    · simp [ih]
    · simp [ih]

end BreezyVerif.C19
