#!/venv/bin/python
r"""C48 findings `re-escaped-open-paren-rewritten` / `re-open-paren-in-class-rewritten`.

breezy/globbing.py turns every '(' of an RE: pattern that is not followed by '?'
into '(?:' (so that user groups do not disturb Globster's lastindex lookup) —
also when the '(' is escaped (`\(`, a literal parenthesis) or stands inside a
character class (`[(]`).  `RE:a\(b` becomes `a\(?:b`: it no longer matches
'a(b' and matches 'a:b' instead; `RE:a[(]b` becomes `a[(?:]b` and additionally
matches 'a?b' and 'a:b'.

Run:  /venv/bin/python c48-re-escaped-paren-repro.py [tree]   (default /repo)
exit 1 = defect present, 0 = absent.
"""
import logging, os, re, sys, tempfile
tree = sys.argv[1] if len(sys.argv) > 1 else "/repo"
sys.path.insert(0, tree)
os.environ["HOME"] = os.environ["BRZ_HOME"] = tempfile.mkdtemp(dir="/var/tmp")
from breezy import globbing
logging.getLogger("brz").setLevel(logging.ERROR)

bad = 0
for pat, name in ((r"RE:a\(b", "a(b"), (r"RE:a\(b", "a:b"), (r"RE:a[(]b", "a(b"), (r"RE:a[(]b", "a?b"),
                  (r"RE:foo\(1\)\.txt", "foo(1).txt"), (r"RE:lib/.*\.o", "lib/x/y.o")):
    want = re.match("(?:%s)$" % pat[3:], name) is not None
    got = globbing.Globster([pat]).match(name) is not None
    print("%-20s on %-12r ignored=%-5s python-re says %-5s %s" % (pat, name, got, want, "" if got == want else "WRONG"))
    bad += got != want
sys.exit(1 if bad else 0)
