import BreezyVerif.Model.C18
/-!
C18 — theorems.  All values of any type with decidable equality, any number of
LCAs (unbounded — stronger than the property's "up to a bound").
-/
namespace BreezyVerif.C18
variable {α : Type} [DecidableEq α]

/-- Exchanging THIS and OTHER exchanges the winner, except for the documented
tie-break: when both sides agree the answer is `this` both ways. -/
theorem three_way_swap (b o t : α) (h : o ≠ t) :
    threeWay b t o = (threeWay b o t).swap := by
  unfold threeWay Winner.swap
  grind

theorem three_way_tie (b v : α) : threeWay b v v = .this := by
  unfold threeWay; grind

theorem lca_tie (b : α) (ls : List α) (v : α) (a : Bool) : lcaMultiWay b ls v v a = .this := by
  unfold lcaMultiWay; simp

theorem lca_swap (b : α) (ls : List α) (o t : α) (a : Bool) (h : o ≠ t) :
    lcaMultiWay b ls t o a = (lcaMultiWay b ls o t a).swap := by
  unfold lcaMultiWay
  have h' : t ≠ o := fun e => h e.symm
  simp only [h, h', if_false]
  split
  · exact three_way_swap b o t h
  · split
    · exact three_way_swap _ o t h
    · cases a <;> simp only [Winner.swap, Bool.false_eq_true, if_false, if_true] <;>
        (repeat' split) <;> simp_all

/-- all LCAs carry the same value `v` ⇒ plain three-way on `v` (or on `base`
when that value is the base value itself / there are no LCAs) -/
theorem lca_eq_three_way_of_const (b v : α) (ls : List α) (o t : α) (a : Bool)
    (hne : ls ≠ []) (hall : ∀ x ∈ ls, x = v) :
    lcaMultiWay b ls o t a = threeWay v o t := by
  unfold lcaMultiWay
  by_cases hot : o = t
  · subst hot; simp [three_way_tie]
  · simp only [hot, if_false]
    by_cases hv : v = b
    · have : ls.filter (fun x => decide (x ≠ b)) = [] := by
        simp only [List.filter_eq_nil_iff]; intro x hx; simp [hall x hx, hv]
      rw [this, hv]
    · have hf : ls.filter (fun x => decide (x ≠ b)) = ls := by
        simp only [List.filter_eq_self]; intro x hx; simp [hall x hx, hv]
      rw [hf]
      match ls, hne, hall with
      | x :: rest, _, hall =>
        have hx : x = v := hall x (by simp)
        subst hx
        have : rest.all (fun w => decide (w = x)) = true := by
          simp only [List.all_eq_true, decide_eq_true_eq]
          intro w hw; exact hall w (by simp [hw])
        simp [this]

theorem lca_nil_eq_three_way (b o t : α) (a : Bool) :
    lcaMultiWay b [] o t a = threeWay b o t := by
  unfold lcaMultiWay
  by_cases hot : o = t
  · subst hot; simp [three_way_tie]
  · simp [hot]

/-- A side whose value is one of the ancestors' values (it did not change)
never wins against a side whose value is new. -/
theorem three_way_unchanged_never_wins (b o t : α) (ht : t = b) (ho : o ≠ b) :
    threeWay b o t = .other := by
  unfold threeWay; grind

theorem three_way_unchanged_never_wins' (b o t : α) (ho : o = b) (_ht : t ≠ b) :
    threeWay b o t = .this := by
  unfold threeWay; grind

theorem lca_unchanged_never_wins (b : α) (ls : List α) (o t : α)
    (ht : t ∈ b :: ls) (ho : o ∉ b :: ls) :
    lcaMultiWay b ls o t true ≠ .this := by
  have hot : o ≠ t := fun e => ho (e ▸ ht)
  have hob : o ≠ b := fun e => ho (by simp [e])
  unfold lcaMultiWay
  simp only [hot, if_false]
  have hsub : ∀ x ∈ ls.filter (fun v => decide (v ≠ b)), x ∈ ls := fun x hx => (List.mem_filter.mp hx).1
  split
  · rename_i hnil
    unfold threeWay; grind
  · rename_i v rest hf
    have hvmem : v ∈ ls := hsub v (by rw [hf]; simp)
    have hov : o ≠ v := fun e => ho (by simp [e, hvmem])
    have honot : o ∉ v :: rest := fun hm => ho (by
      have := hsub o (by rw [hf]; exact hm); simp [this])
    split
    · unfold threeWay; grind
    · simp only [if_true, honot]
      split <;> simp

theorem lca_unchanged_never_wins' (b : α) (ls : List α) (o t : α)
    (ho : o ∈ b :: ls) (ht : t ∉ b :: ls) :
    lcaMultiWay b ls o t true ≠ .other := by
  have hot : o ≠ t := fun e => ht (e ▸ ho)
  have := lca_unchanged_never_wins b ls t o ho ht
  rw [lca_swap b ls o t true hot] at this
  intro h; rw [h] at this; exact this rfl

/-- non-vacuity: concrete instances of the hypotheses -/
example : lcaMultiWay 0 [1, 2] 1 3 true = .this ∧ (1 : Nat) ∈ [0, 1, 2] ∧ (3 : Nat) ∉ [0, 1, 2] := by decide
example : lcaMultiWay 0 [1, 1] 1 3 false = threeWay 1 1 3 := by decide

end BreezyVerif.C18
