import BreezyVerif.Lemmas.C43
/-!
C43 — helper lemmas, part 4: the transport operations of the remote model read
through the listing `look` (every operation changes exactly one slot).
-/
namespace BreezyVerif.C43

theorem kget_kset (k : Kids) (a : String) (v : Option Node) (b : String) :
    kget (kset k a v) b = if b = a then v else kget k b := by
  cases v with
  | none => simp [kset, kget_kdel]
  | some n => simp [kset, kget_kput]

theorem lookup_nil (n : Node) : lookup n [] = some n := by
  cases n <;> rfl

theorem lookup_dir_cons (ks : Kids) (y : String) (r : Path) :
    lookup (.dir ks) (y :: r) = (kget ks y).bind (lookup · r) := by
  simp only [lookup]
  cases kget ks y <;> rfl

theorem lookup_file_cons (c : String) (x : Bool) (y : String) (r : Path) : lookup (.file c x) (y :: r) = none := rfl

theorem lookup_link_cons (t : String) (y : String) (r : Path) : lookup (.link t) (y :: r) = none := rfl

theorem lookup_append (root : Node) (p s : Path) :
    lookup root (p ++ s) = (lookup root p).bind (lookup · s) := by
  induction p generalizing root with
  | nil => simp [lookup_nil]
  | cons a p ih =>
    cases root with
    | file c x => rfl
    | link t => rfl
    | dir ks =>
      simp only [List.cons_append, lookup_dir_cons]
      cases kget ks a with
      | none => rfl
      | some k => simp [ih]

theorem look_nil_dir (ks : Kids) : look (.dir ks) [] = some .dir := rfl

/-- a path that exists runs through directories -/
theorem look_parent (root : Node) (par : Path) (x : String) (h : lookup root (par ++ [x]) ≠ none) :
    look root par = some .dir := by
  rw [lookup_append] at h
  unfold look
  cases hp : lookup root par with
  | none => simp [hp] at h
  | some m =>
    cases m with
    | file c e => simp [hp, lookup_file_cons] at h
    | link t => simp [hp, lookup_link_cons] at h
    | dir ks => rfl

theorem look_eq_dir {root : Node} {p : Path} (h : look root p = some .dir) : ∃ ks, lookup root p = some (.dir ks) := by
  unfold look at h
  cases hp : lookup root p with
  | none => simp [hp] at h
  | some m =>
    cases m with
    | file c e => simp [hp, Node.obs] at h
    | link t => simp [hp, Node.obs] at h
    | dir ks => exact ⟨ks, rfl⟩

/-! ### `modify` -/

theorem modify_single (en : Err) (f : Option Node → Except Err (Option Node)) (ks : Kids) (x : String) :
    modify en f (.dir ks) [x] = (f (kget ks x)).map fun v => .dir (kset ks x v) := by
  simp only [modify]
  cases f (kget ks x) <;> rfl

theorem modify_descend (en : Err) (f : Option Node → Except Err (Option Node)) (ks : Kids) (a : String) (k : Node)
    (p : Path) (hp : p ≠ []) (hk : kget ks a = some k) :
    modify en f (.dir ks) (a :: p) = (modify en f k p).map fun k' => .dir (kput ks a k') := by
  cases p with
  | nil => exact absurd rfl hp
  | cons y r =>
    simp only [modify, hk]
    cases modify en f k (y :: r) <;> rfl

/-- the slot at `par ++ [x]` is replaced; nothing else changes in the listing -/
theorem modify_spec (en : Err) (f : Option Node → Except Err (Option Node)) (par : Path) (x : String) (root : Node)
    (v' : Option Node) (hpar : look root par = some .dir) (hf : f (lookup root (par ++ [x])) = .ok v') :
    ∃ r', modify en f root (par ++ [x]) = .ok r' ∧
      ∀ q, look r' q = if (par ++ [x]).isPrefixOf q
        then (v'.bind fun n => lookup n (q.drop (par.length + 1))).map Node.obs else look root q := by
  induction par generalizing root with
  | nil =>
    obtain ⟨ks, hks⟩ := look_eq_dir hpar
    rw [lookup_nil] at hks
    cases hks
    simp only [List.nil_append, lookup_dir_cons, lookup_nil] at hf
    have hf' : f (kget ks x) = .ok v' := by
      cases hk : kget ks x with
      | none => simpa [hk] using hf
      | some k => simpa [hk] using hf
    refine ⟨.dir (kset ks x v'), by simp [modify_single, hf', Except.map], ?_⟩
    intro q
    cases q with
    | nil => simp [look, lookup_nil, Node.obs, List.isPrefixOf]
    | cons y r =>
      simp only [look, lookup_dir_cons, kget_kset, List.nil_append, List.isPrefixOf, List.length_nil, Nat.zero_add,
        List.drop_succ_cons, List.drop_zero]
      by_cases hy : y = x
      · subst hy; simp
      · have : (x == y) = false := by simp [Ne.symm hy]
        simp [hy, this]
  | cons a par ih =>
    have hne : lookup root (a :: par) ≠ none := by
      obtain ⟨ks, hks⟩ := look_eq_dir hpar
      simp [hks]
    cases root with
    | file c e => exact absurd rfl hne
    | link t => exact absurd rfl hne
    | dir ks =>
      cases hk : kget ks a with
      | none => simp [lookup_dir_cons, hk] at hne
      | some k =>
        have hpar' : look k par = some .dir := by
          simpa [look, lookup_dir_cons, hk] using hpar
        have hf' : f (lookup k (par ++ [x])) = .ok v' := by
          simpa [lookup_dir_cons, hk] using hf
        obtain ⟨k', hm, hq⟩ := ih k hpar' hf'
        refine ⟨.dir (kput ks a k'), ?_, ?_⟩
        · rw [List.cons_append, modify_descend en f ks a k (par ++ [x]) (by simp) hk, hm]; rfl
        · intro q
          cases q with
          | nil => simp [look, lookup_nil, Node.obs, List.isPrefixOf]
          | cons b r =>
            simp only [look, lookup_dir_cons, kget_kput, List.cons_append, List.isPrefixOf, List.length_cons]
            by_cases hb : b = a
            · subst hb
              have := hq r
              simp only [look] at this
              simp only [if_true, Option.bind_some, beq_self_eq_true, Bool.true_and, hk]
              rw [this]
              simp
            · have : (a == b) = false := by simp [Ne.symm hb]
              simp [hb, this]

theorem modify_err (en : Err) (f : Option Node → Except Err (Option Node)) (par : Path) (x : String) (root : Node)
    (e : Err) (hpar : look root par = some .dir) (hf : f (lookup root (par ++ [x])) = .error e) :
    modify en f root (par ++ [x]) = .error e := by
  induction par generalizing root with
  | nil =>
    obtain ⟨ks, hks⟩ := look_eq_dir hpar
    rw [lookup_nil] at hks
    cases hks
    simp only [List.nil_append, lookup_dir_cons, lookup_nil] at hf
    have hf' : f (kget ks x) = .error e := by
      cases hk : kget ks x with
      | none => simpa [hk] using hf
      | some k => simpa [hk] using hf
    simp [modify_single, hf', Except.map]
  | cons a par ih =>
    have hne : lookup root (a :: par) ≠ none := by
      obtain ⟨ks, hks⟩ := look_eq_dir hpar
      simp [hks]
    cases root with
    | file c e => exact absurd rfl hne
    | link t => exact absurd rfl hne
    | dir ks =>
      cases hk : kget ks a with
      | none => simp [lookup_dir_cons, hk] at hne
      | some k =>
        have hpar' : look k par = some .dir := by
          simpa [look, lookup_dir_cons, hk] using hpar
        have hf' : f (lookup k (par ++ [x])) = .error e := by
          simpa [lookup_dir_cons, hk] using hf
        rw [List.cons_append, modify_descend en f ks a k (par ++ [x]) (by simp) hk, ih k hpar' hf']; rfl

/-- a slot without anything below it -/
def Leafy (o : Option Node) : Prop := ∀ s : Path, s ≠ [] → (o.bind fun n => lookup n s) = none

theorem leafy_none : Leafy none := fun _ _ => rfl

theorem leafy_file (c : String) (x : Bool) : Leafy (some (.file c x)) := by
  intro s hs; cases s with
  | nil => exact absurd rfl hs
  | cons y r => rfl

theorem leafy_link (t : String) : Leafy (some (.link t)) := by
  intro s hs; cases s with
  | nil => exact absurd rfl hs
  | cons y r => rfl

theorem leafy_emptydir : Leafy (some (.dir [])) := by
  intro s hs; cases s with
  | nil => exact absurd rfl hs
  | cons y r => simp [lookup_dir_cons, kget]

theorem isPrefixOf_split (p q : Path) (h : p.isPrefixOf q = true) : q = p ++ q.drop p.length := by
  have := List.isPrefixOf_iff_prefix.mp h
  exact (List.prefix_iff_eq_append.mp this).symm

/-- replacing a slot that has nothing below it by a node that has nothing below
it changes the listing at that one path only -/
theorem modify_leafy (en : Err) (f : Option Node → Except Err (Option Node)) (par : Path) (x : String) (root : Node)
    (v' : Option Node) (hpar : look root par = some .dir) (hf : f (lookup root (par ++ [x])) = .ok v')
    (hold : Leafy (lookup root (par ++ [x]))) (hnew : Leafy v') :
    ∃ r', modify en f root (par ++ [x]) = .ok r' ∧
      ∀ q, look r' q = if q = par ++ [x] then v'.map Node.obs else look root q := by
  obtain ⟨r', hm, hq⟩ := modify_spec en f par x root v' hpar hf
  refine ⟨r', hm, ?_⟩
  intro q
  rw [hq q]
  by_cases hp : (par ++ [x]).isPrefixOf q = true
  · have hsplit := isPrefixOf_split _ _ hp
    simp only [hp, if_true]
    have hlen : (par ++ [x]).length = par.length + 1 := by simp
    rw [hlen] at hsplit
    by_cases hs : q.drop (par.length + 1) = []
    · rw [hs, List.append_nil] at hsplit
      simp only [hsplit, if_true]
      cases v' <;> simp [lookup_nil]
    · have hne : q ≠ par ++ [x] := by
        intro he
        apply hs
        rw [he]; simp
      simp only [hne, if_false]
      rw [hnew _ hs]
      unfold look
      rw [hsplit, lookup_append, hold _ hs]
  · have hne : q ≠ par ++ [x] := by
      intro he; apply hp; rw [he]; simp
    simp [hp, hne]

theorem modify_leafy' (en : Err) (f : Option Node → Except Err (Option Node)) (par : Path) (x : String) (root : Node)
    (v' : Option Node) (hpar : look root par = some .dir) (hf : f (lookup root (par ++ [x])) = .ok v')
    (hold : Leafy (lookup root (par ++ [x]))) (hnew : Leafy v') (o : Option Obs) (ho : v'.map Node.obs = o) :
    ∃ r', modify en f root (par ++ [x]) = .ok r' ∧
      ∀ q, look r' q = if q = par ++ [x] then o else look root q := by
  subst ho
  exact modify_leafy en f par x root v' hpar hf hold hnew

/-! ### the operations the uploader uses, on a path `par ++ [x]` whose parent is a directory -/

theorem tPut_spec (root : Node) (par : Path) (x : String) (c : String) (e : Bool)
    (hpar : look root par = some .dir) (hslot : look root (par ++ [x]) ≠ some .dir) :
    ∃ r', tPut root (par ++ [x]) c e = .ok r' ∧
      ∀ q, look r' q = if q = par ++ [x] then some (.file c e) else look root q := by
  unfold tPut
  cases hl : lookup root (par ++ [x]) with
  | none =>
    exact modify_leafy' .notADir _ par x root (some (.file c e)) hpar (by rw [hl]) (by rw [hl]; exact leafy_none) (leafy_file c e) _ rfl
  | some n =>
    cases n with
    | dir ks => simp [look, hl, Node.obs] at hslot
    | file c' e' =>
      exact modify_leafy' .notADir _ par x root (some (.file c e)) hpar (by rw [hl]) (by rw [hl]; exact leafy_file _ _) (leafy_file c e) _ rfl
    | link t =>
      exact modify_leafy' .notADir _ par x root (some (.file c e)) hpar (by rw [hl]) (by rw [hl]; exact leafy_link _) (leafy_file c e) _ rfl

theorem look_none {root : Node} {p : Path} (h : look root p = none) : lookup root p = none := by
  unfold look at h
  cases hl : lookup root p with
  | none => rfl
  | some n => simp [hl] at h

theorem tMkdir_spec (root : Node) (par : Path) (x : String)
    (hpar : look root par = some .dir) (hslot : look root (par ++ [x]) = none) :
    ∃ r', tMkdir root (par ++ [x]) = .ok r' ∧
      ∀ q, look r' q = if q = par ++ [x] then some .dir else look root q := by
  unfold tMkdir
  have hl := look_none hslot
  exact modify_leafy' .noSuchFile _ par x root (some (.dir [])) hpar (by rw [hl]) (by rw [hl]; exact leafy_none) leafy_emptydir _ rfl

theorem tSymlink_spec (root : Node) (par : Path) (x : String) (t : String)
    (hpar : look root par = some .dir) (hslot : look root (par ++ [x]) = none) :
    ∃ r', tSymlink root (par ++ [x]) t = .ok r' ∧
      ∀ q, look r' q = if q = par ++ [x] then some (.link t) else look root q := by
  unfold tSymlink
  have hl := look_none hslot
  exact modify_leafy' .noSuchFile _ par x root (some (.link t)) hpar (by rw [hl]) (by rw [hl]; exact leafy_none) (leafy_link t) _ rfl

/-- `delete` of a file or symlink -/
theorem tDelete_spec (root : Node) (par : Path) (x : String) (o : Obs)
    (hslot : look root (par ++ [x]) = some o) (ho : o ≠ .dir) :
    ∃ r', tDelete root (par ++ [x]) = .ok r' ∧
      ∀ q, look r' q = if q = par ++ [x] then none else look root q := by
  unfold tDelete
  have hpar : look root par = some .dir := look_parent root par x (by
    intro h; simp [look, h] at hslot)
  cases hl : lookup root (par ++ [x]) with
  | none => simp [look, hl] at hslot
  | some n =>
    cases n with
    | dir ks => simp [look, hl, Node.obs] at hslot; exact absurd hslot.symm ho
    | file c' e' =>
      exact modify_leafy' .noSuchFile _ par x root none hpar (by rw [hl]) (by rw [hl]; exact leafy_file _ _) leafy_none _ rfl
    | link t =>
      exact modify_leafy' .noSuchFile _ par x root none hpar (by rw [hl]) (by rw [hl]; exact leafy_link _) leafy_none _ rfl

/-- a directory whose listing shows no child is empty -/
theorem kids_nil_of_no_child (root : Node) (p : Path) (ks : Kids) (hl : lookup root p = some (.dir ks))
    (hno : ∀ x, look root (p ++ [x]) = none) : ks = [] := by
  cases ks with
  | nil => rfl
  | cons e r =>
    obtain ⟨n, v⟩ := e
    have := hno n
    simp [look, lookup_append, hl, lookup_dir_cons, kget, lookup_nil] at this

/-- `rmdir` of a directory: removed when the listing shows no child, else
DirectoryNotEmpty (and nothing changes) -/
theorem tRmdir_spec (root : Node) (par : Path) (x : String) (hslot : look root (par ++ [x]) = some .dir) :
    ((∀ y, look root (par ++ [x] ++ [y]) = none) →
      ∃ r', tRmdir root (par ++ [x]) = .ok r' ∧ ∀ q, look r' q = if q = par ++ [x] then none else look root q) ∧
    ((∃ y, look root (par ++ [x] ++ [y]) ≠ none) → tRmdir root (par ++ [x]) = .error .dirNotEmpty) := by
  have hpar : look root par = some .dir := look_parent root par x (by
    intro h; simp [look, h] at hslot)
  obtain ⟨ks, hl⟩ := look_eq_dir hslot
  constructor
  · intro hno
    have hks := kids_nil_of_no_child root _ ks hl hno
    subst hks
    unfold tRmdir
    exact modify_leafy' .noSuchFile _ par x root none hpar (by rw [hl]) (by rw [hl]; exact leafy_emptydir) leafy_none _ rfl
  · rintro ⟨y, hy⟩
    unfold tRmdir
    apply modify_err _ _ par x root _ hpar
    rw [hl]
    cases ks with
    | nil =>
      exfalso; apply hy
      unfold look
      rw [lookup_append, hl]
      rfl
    | cons e r => rfl

end BreezyVerif.C43
