import BreezyVerif.Common
import BreezyVerif.Model.C33
/-
C51 — rebase plans.  Executable model of `breezy/plugins/rewrite/rebase.py`:
`generate_simple_plan` (with the `find_difference` todo set the `rebase`
command feeds it), `rebase_todo`, `marshall_rebase_plan` /
`unmarshall_rebase_plan`, and `generate_transpose_plan`.

Revision graphs are the parent maps of Model/C33 (`Key`, `PMap`, `parentsOf`,
`null` = NULL_REVISION; a key without entry is a ghost); ancestry is the
searcher of C33 run without stop keys.  External (vcsgraph) pieces taken as
inputs or modelled by their specification and compared per case:
`topo_sort` (its output `order` is an input of the model), `FrozenHeadsCache.heads`
(`mergedInto`, `headsOf`), `find_lca` (`unrelated`), `find_difference` (`todoSet`).
Core Lean only.
-/
namespace BreezyVerif.C51
open BreezyVerif.C33

/-- ancestors of `k` including `k` (and ghosts / null reached) -/
def anc (g : PMap) (k : Key) : List Key :=
  match bfs g [k] [] with
  | some s => s.seen
  | none => []   -- unreachable: `C33.bfs_total`

/-- `heads_cache.heads((p, onto)) == {onto}`: `p` is `onto` itself, one of its
ancestors, or NULL_REVISION (which `heads` always drops) -/
def mergedInto (g : PMap) (p onto : Key) : Bool := p == null || decide (p ∈ anc g onto)

/-- `heads_cache.heads(l)`: members that are not a proper ancestor of another member -/
def headsOf (g : PMap) (l : List Key) : List Key :=
  l.filter (fun x => !(l.any (fun y => y != x && decide (x ∈ anc g y))))

/-- `graph.find_difference(tip, onto)[0]`: ancestry of `tip` not in the ancestry of `onto` -/
def todoSet (g : PMap) (tip onto : Key) : List Key :=
  (anc g tip).filter (· ∉ anc g onto)

/-- `graph.find_lca(stop, onto) == {NULL_REVISION}` -/
def unrelated (g : PMap) (stop onto : Key) : Bool :=
  let common := (anc g stop).filter (· ∈ anc g onto)
  !common.isEmpty && common.all (· == null)

structure Entry where
  old : Key
  new : Key
  parents : List Key
  deriving Repr, DecidableEq

abbrev Plan := List Entry

/-- `replace_map[k][0]` -/
def lookupNew : Plan → Key → Option Key
  | [], _ => none
  | e :: rest, k => if e.old = k then some e.new else lookupNew rest k

inductive Err where
  | assertStart | assertStop | emptyOrder | unrelated | notInOrder | keyError | noParents | sameRevid
  deriving Repr, DecidableEq

def Err.toString : Err → String
  | .assertStart => "E:AssertionError" | .assertStop => "E:AssertionError"
  | .emptyOrder => "E:IndexError" | .unrelated => "E:UnrelatedBranches"
  | .notInOrder => "E:ValueError" | .keyError => "E:KeyError" | .noParents => "E:IndexError"
  | .sameRevid => "E:AssertionError"

/-- `skipped`: skipped (fully merged) merge revision ↦ the new parent standing in for it -/
abbrev Skipped := List (Key × Key)

/-- `skipped.get(k)` -/
def lookupSkipped : Skipped → Key → Option Key
  | [], _ => none
  | kv :: rest, k => if kv.1 = k then some kv.2 else lookupSkipped rest k

/-- what stands for old parent `k` in the new history: `replace_map[k][0]` if it
has an entry, else `skipped[k]` -/
def standIn (plan : Plan) (sk : Skipped) (k : Key) : Option Key :=
  match lookupNew plan k with
  | some n => some n
  | none => lookupSkipped sk k

/-- new left parent(s): `onto` if the old left parent is already merged into
`onto`, its stand-in if it was rewritten or skipped, else `onto` plus the old one -/
def leftParents (g : PMap) (onto : Key) (plan : Plan) (sk : Skipped) (p0 : Key) : Key × List Key :=
  if mergedInto g p0 onto then (onto, [])
  else match standIn plan sk p0 with
    | some n => (n, [])
    | none => (onto, [p0])

/-- one iteration of the `for oldparent in oldparents[1:]` loop; `ps` = `parents`
as (first, rest) -/
def addParent (g : PMap) (onto : Key) (plan : Plan) (sk : Skipped) (addl : List Key)
    (ps : Key × List Key) (op : Key) : Key × List Key :=
  if op ∈ addl then
    if mergedInto g op onto then ps
    else match standIn plan sk op with
      | some n =>
        if n ∈ ps.1 :: ps.2 then ps   -- already a parent (via a skipped merge)
        else if ps.1 = onto then (n, ps.2) else (ps.1, ps.2 ++ [n])
      | none => (ps.1, ps.2 ++ [op])
  else ps

/-- new parents of `old` whose old parents are `p0 :: rest` -/
def newParents (g : PMap) (onto : Key) (plan : Plan) (sk : Skipped) (p0 : Key) (rest : List Key) :
    Key × List Key :=
  rest.foldl (addParent g onto plan sk (headsOf g rest)) (leftParents g onto plan sk p0)

/-- body of the `for oldrevid in todo` loop; state = (`replace_map`, `skipped`) -/
def planStep (g : PMap) (gen : Key → Key) (onto : Key) (skip : Bool) (st : Plan × Skipped) (old : Key) :
    Except Err (Plan × Skipped) :=
  match parentsOf g old with
  | none => .error .keyError
  | some [] => .error .noParents
  | some (p0 :: rest) =>
    let ps := newParents g onto st.1 st.2 p0 rest
    if !rest.isEmpty && ps.2.isEmpty && skip then .ok (st.1, st.2 ++ [(old, ps.1)])
    else if gen old = old then .error .sameRevid
    else .ok (st.1 ++ [⟨old, gen old, ps.1 :: ps.2⟩], st.2)

def planLoop (g : PMap) (gen : Key → Key) (onto : Key) (skip : Bool) :
    Plan × Skipped → List Key → Except Err (Plan × Skipped)
  | st, [] => .ok st
  | st, old :: todo =>
    match planStep g gen onto skip st old with
    | .error e => .error e
    | .ok st' => planLoop g gen onto skip st' todo

def indexOf? (l : List Key) (k : Key) : Option Nat :=
  let i := l.findIdx (· == k)
  if i < l.length then some i else none

/-- `if stop_revid is None: stop_revid = order[-1]` -/
def pickStop (order : List Key) : Option Key → Except Err Key
  | some s => .ok s
  | none => match order.getLast? with
    | some s => .ok s
    | none => .error .emptyOrder

/-- `if start_revid is None:` common-base check, then `start_revid = order[0]` -/
def pickStart (g : PMap) (order : List Key) (onto stopK : Key) : Option Key → Except Err Key
  | some s => .ok s
  | none =>
    if unrelated g stopK onto then .error .unrelated
    else match order.head? with
      | some s => .ok s
      | none => .error .emptyOrder

/-- `generate_simple_plan(todo_set, start, stop, onto, graph, gen, skip)`;
`order` = `topo_sort(graph.get_parent_map(todo_set))` -/
def simplePlan (g : PMap) (gen : Key → Key) (todoS order : List Key) (start stop : Option Key)
    (onto : Key) (skip : Bool) : Except Err Plan :=
  if start.any (· ∉ todoS) then .error .assertStart
  else if stop.any (· ∉ todoS) then .error .assertStop
  else
    match pickStop order stop with
    | .error e => .error e
    | .ok stopK =>
      match pickStart g order onto stopK start with
      | .error e => .error e
      | .ok startK =>
        match indexOf? order startK, indexOf? order stopK with
        | some i, some j =>
          match planLoop g gen onto skip ([], []) ((order.drop i).take (j + 1 - i)) with
          | .ok st => .ok st.1
          | .error e => .error e
        | _, _ => .error .notInOrder

/-- `rebase_todo(repository, replace_map)`; `revs` = revisions the repository has -/
def rebaseTodo (revs : List Key) (plan : Plan) : List Key :=
  (plan.filter (fun e => e.new ∉ revs)).map (·.old)

/-! ### plan file -/

structure WEntry where
  old : Bytes
  new : Bytes
  parents : List Bytes
  deriving Repr, DecidableEq

structure WPlan where
  revno : Nat
  revid : Bytes
  entries : List WEntry
  deriving Repr, DecidableEq

def str (s : String) : Bytes := s.toList.map (fun c => UInt8.ofNat c.toNat)

/-- `b"# Bazaar rebase plan %d" % REBASE_PLAN_VERSION` -/
def header : Bytes := str "# Bazaar rebase plan 1"

def entryLine (e : WEntry) : Bytes :=
  e.old ++ SP :: e.new ++ (e.parents.flatMap (fun p => SP :: p))

/-- `marshall_rebase_plan((revno, revid), replace_map)` -/
def marshal (p : WPlan) : Bytes :=
  header ++ [NL] ++ (toDec p.revno ++ SP :: p.revid ++ [NL]) ++
    p.entries.flatMap (fun e => entryLine e ++ [NL])

/-- `dict[k] = v`: replace in place or append -/
def dictSet (d : List WEntry) (e : WEntry) : List WEntry :=
  if d.any (·.old == e.old) then d.map (fun x => if x.old == e.old then e else x) else d ++ [e]

inductive WErr where
  | unknownFormat | indexError | valueError
  deriving Repr, DecidableEq

/-- `bytes.split(sep, 1)` -/
def split1 (sep : UInt8) : Bytes → Bytes × Option Bytes
  | [] => ([], none)
  | c :: cs =>
    if c = sep then ([], some cs)
    else let r := split1 sep cs; (c :: r.1, r.2)

def parseLines : List Bytes → List WEntry → Except WErr (List WEntry)
  | [], acc => .ok acc
  | l :: ls, acc =>
    if l.isEmpty then parseLines ls acc
    else match split SP l with
      | o :: n :: ps => parseLines ls (dictSet acc ⟨o, n, ps⟩)
      | _ => .error .indexError

/-- `unmarshall_rebase_plan(text)` (revno restricted to plain decimal digits) -/
def unmarshal (text : Bytes) : Except WErr WPlan :=
  match split NL text with
  | [] => .error .indexError
  | l0 :: rest =>
    if l0 ≠ header then .error .unknownFormat
    else match rest with
      | [] => .error .indexError
      | l1 :: ls =>
        match split1 SP l1 with
        | (a, some b) =>
          match parseDec a with
          | none => .error .valueError
          | some n =>
            match parseLines ls [] with
            | .ok es => .ok ⟨n, b, es⟩
            | .error e => .error e
        | (a, none) =>
          -- int(pts[0]) is evaluated before pts[1]
          match parseDec a with
          | none => .error .valueError
          | some _ => .error .indexError

/-! ### `generate_transpose_plan` -/

/-- `children[r]` after the ancestry loop: for every `(c, some ps)` in ancestry
order, `c` once per occurrence of `r` in `ps`; `none` = `KeyError` -/
def childrenIn (ancestry : List (Key × Option (List Key))) (r : Key) : Option (List Key) :=
  if ancestry.any (fun a => a.1 == r || (match a.2 with | some ps => ps.contains r | none => false)) then
    some (ancestry.flatMap (fun a => match a.2 with
      | some ps => (ps.filter (· == r)).map (fun _ => a.1)
      | none => []))
  else none

/-- `parent_map` after the ancestry loop and the `graph.get_parent_map` update
(later ancestry entries win; the graph only fills in keys still unknown) -/
def tParents (ancestry : List (Key × Option (List Key))) (g : PMap) (renameTargets : List Key)
    (k : Key) : Option (List Key) :=
  match (ancestry.reverse.find? (fun a => a.1 == k && a.2.isSome)) with
  | some (_, some ps) => some ps
  | _ => if k ∈ renameTargets then parentsOf g k else none

def lookupEntry : Plan → Key → Option Entry
  | [], _ => none
  | e :: rest, k => if e.old = k then some e else lookupEntry rest k

def planSet (d : Plan) (e : Entry) : Plan :=
  if d.any (·.old == e.old) then d.map (fun x => if x.old == e.old then e else x) else d ++ [e]

def replaceFirst (r n : Key) : List Key → Option (List Key)
  | [] => none
  | x :: xs => if x = r then some (n :: xs) else (replaceFirst r n xs).map (x :: ·)

inductive TErr where
  | keyError | valueError | fuel
  deriving Repr, DecidableEq

/-- the `for c in children[r]` loop -/
def tChildren (pmap : Key → Option (List Key)) (gen : Key → Key) (renames : List (Key × Key))
    (r rnew : Key) (processed : List Key) :
    List Key → Plan → List Key → Except TErr (Plan × List Key)
  | [], rm, todo => .ok (rm, todo)
  | c :: cs, rm, todo =>
    if renames.any (·.1 == c) then tChildren pmap gen renames r rnew processed cs rm todo
    else
      let parents? := match lookupEntry rm c with
        | some e => some e.parents
        | none => pmap c
      match parents? with
      | none => .error .keyError
      | some parents =>
        let parents'? := if rnew ∈ parents then some parents else replaceFirst r rnew parents
        match parents'? with
        | none => .error .valueError
        | some parents' =>
          let rm' := planSet rm ⟨c, gen c, parents'⟩
          if gen c = c then tChildren pmap gen renames r rnew processed cs (rm'.filter (·.old != c)) todo
          else if c ∈ processed then tChildren pmap gen renames r rnew processed cs rm' todo
          else tChildren pmap gen renames r rnew processed cs rm' (todo ++ [c])

/-- the `while len(todo) > 0` loop; `todo` is a stack whose top is the last element -/
def tLoop (ancestry : List (Key × Option (List Key))) (pmap : Key → Option (List Key))
    (gen : Key → Key) (renames : List (Key × Key)) :
    Nat → Plan → List Key → List Key → Except TErr Plan
  | 0, _, _, _ => .error .fuel
  | fuel + 1, rm, todo, processed =>
    match todo.getLast? with
    | none => .ok rm
    | some r =>
      let todo' := todo.dropLast
      match lookupEntry rm r, childrenIn ancestry r with
      | some er, some cs =>
        match tChildren pmap gen renames r er.new (processed ++ [r]) cs rm todo' with
        | .error e => .error e
        | .ok (rm', todo'') => tLoop ancestry pmap gen renames fuel rm' todo'' (processed ++ [r])
      | _, _ => .error .keyError

/-- `generate_transpose_plan(ancestry, renames, graph, generate_revid)` -/
def transposePlan (ancestry : List (Key × Option (List Key))) (renames : List (Key × Key)) (g : PMap)
    (gen : Key → Key) (fuel : Nat) : Except TErr Plan :=
  let pmap := tParents ancestry g (renames.map (·.2))
  let init : Except TErr Plan := renames.foldl (fun acc rv =>
    match acc with
    | .error e => .error e
    | .ok rm => match pmap rv.2 with
      | some ps => .ok (planSet rm ⟨rv.1, rv.2, ps⟩)
      | none => .error .keyError) (.ok [])
  match init with
  | .error e => .error e
  | .ok rm0 =>
    match tLoop ancestry pmap gen renames fuel rm0 (renames.map (·.1)) [] with
    | .error e => .error e
    | .ok rm => .ok (rm.filter (fun e => !(renames.any (·.1 == e.old))))

end BreezyVerif.C51
