import BreezyVerif.Model.C07
import BreezyVerif.Lemmas.C07
/-!
C07 — autopack planning is well-formed for EVERY pack size distribution.

All theorems are universally quantified over every list of packs (any length,
any counts, duplicates, any order, any pack identities) and every total
revision count `total ≥` the sum of the per-pack counts.  The real caller
passes exactly the sum (`keyCount`: `CombinedGraphIndex.key_count()` adds the
per-pack key counts, revisions duplicated across packs counted once per pack —
checked on a real repository holding duplicated revisions on every run), for
which `autopack_real_ok`/`autopack_real_spec`/`autopack_execute_bound` need no
hypothesis on the total.  `plan_error_witness` shows what a de-duplicating
`key_count` would do: with `total <` sum the real planner raises `IndexError`.
`maxPackCount_eq_digit_sum` ties the bound to the digits of `str(total)`;
`execute_*` describe `_execute_pack_operations` (one new pack per combination,
duplicates stored once).

The loop invariant (`loop_spec`) and the complete description of the planner
(`plan_spec`) are in `Lemmas/C07.lean`.
-/
namespace BreezyVerif.C07

/-! ### property theorems -/

/-- `pack_distribution(t)` distributes exactly `t` revisions … -/
theorem distribution_sum (t : Nat) : (packDistribution t).sum = t := packDistribution_sum t

/-- … over exactly `_max_pack_count(t)` buckets (the digit sum, `1` for `0`). -/
theorem distribution_length (t : Nat) : (packDistribution t).length = maxPackCount t :=
  packDistribution_length t

/-- Planning never fails with an internal error (`IndexError`,
`AssertionError`): all pack lists with positive counts, all totals ≥ their sum. -/
theorem plan_ok (packs : List Pack) (total : Nat)
    (hpos : ∀ p ∈ packs, 0 < p.1) (htot : cnt packs ≤ total) :
    ∃ ops, plan packs (packDistribution total) = .ok ops := by
  rcases plan_spec packs (packDistribution total) hpos (by rw [packDistribution_sum]; exact htot) with
    ⟨_, h⟩ | ⟨_, ps, kept, h, _⟩
  · exact ⟨_, h⟩
  · exact ⟨_, h⟩

/-- The plan is empty or a single combination `(n, ps)` of at least two of the
given packs (`ps` is a sub-multiset of the input: `ps ++ kept` is a permutation
of it, and `ps` appears in descending `(count, pack)` order), and `n` is the
sum of the combined packs' revision counts. -/
theorem plan_shape (packs : List Pack) (total : Nat) (ops : List Op)
    (hpos : ∀ p ∈ packs, 0 < p.1) (htot : cnt packs ≤ total)
    (h : plan packs (packDistribution total) = .ok ops) :
    ops = [] ∨ ∃ ps kept, ops = [(cnt ps, ps)] ∧ 2 ≤ ps.length ∧
      (ps ++ kept).Perm packs ∧ ps.Sublist (sortDesc packs) := by
  rcases plan_spec packs (packDistribution total) hpos (by rw [packDistribution_sum]; exact htot) with
    ⟨_, h'⟩ | ⟨_, ps, kept, h', h2, h3, h4, _⟩
  · left; rw [h'] at h; injection h with h; exact h.symm
  · right; rw [h'] at h; injection h with h
    exact ⟨ps, kept, h.symm, h2, h3, h4⟩

/-- After carrying out a non-empty plan the number of packs is at most
`_max_pack_count(total)` — the digit sum of the total revision count. -/
theorem plan_bound (packs : List Pack) (total : Nat) (ops : List Op)
    (hpos : ∀ p ∈ packs, 0 < p.1) (htot : cnt packs ≤ total)
    (h : plan packs (packDistribution total) = .ok ops) (hne : ops ≠ []) :
    packsAfter packs.length ops ≤ maxPackCount total := by
  rcases plan_spec packs (packDistribution total) hpos (by rw [packDistribution_sum]; exact htot) with
    ⟨_, h'⟩ | ⟨_, ps, kept, h', h2, h3, _, h5⟩
  · rw [h'] at h; injection h with h; exact absurd h.symm hne
  · rw [h'] at h; injection h with h
    subst h
    have hl : ps.length + kept.length = packs.length := by simpa using h3.length_eq
    rw [packDistribution_length] at h5
    have hne' : ps ≠ [] := by intro h; subst h; simp at h2
    have hnz : (ps.length != 0) = true := by simp [hne']
    simp only [packsAfter, List.map_cons, List.map_nil, List.sum_cons, List.sum_nil,
      List.filter_cons, hnz, if_true, List.filter_nil, List.length_cons, List.length_nil]
    omega

/-- Planning plans nothing when the pack count is already within the bound … -/
theorem plan_idle (packs : List Pack) (total : Nat)
    (hlen : packs.length ≤ maxPackCount total) :
    plan packs (packDistribution total) = .ok [] := by
  simp [plan, packDistribution_length, hlen]

/-- … and only then: whenever there are more packs than the bound allows, a
combination is planned. -/
theorem plan_nonidle (packs : List Pack) (total : Nat)
    (hpos : ∀ p ∈ packs, 0 < p.1) (htot : cnt packs ≤ total)
    (hlen : maxPackCount total < packs.length) :
    plan packs (packDistribution total) ≠ .ok [] := by
  rcases plan_spec packs (packDistribution total) hpos (by rw [packDistribution_sum]; exact htot) with
    ⟨h1, _⟩ | ⟨_, ps, kept, h', _⟩
  · rw [packDistribution_length] at h1; omega
  · rw [h']; intro h; injection h with h; cases h

/-- The trigger in `_do_autopack`: nothing is done exactly when the number of
packs (zero-revision packs included) is within `_max_pack_count`. -/
theorem autopack_none_iff (packs : List Pack) (total : Nat) :
    doAutopack total packs = .ok none ↔ packs.length ≤ maxPackCount total := by
  unfold doAutopack
  split
  · next h => simp [h]
  · next h =>
    constructor
    · intro h'; split at h' <;> cases h'
    · intro h'; exact absurd h' h

/-- `_do_autopack`'s planning never fails, zero-revision packs included
(they are skipped), as long as `total` is at least the sum of the counts. -/
theorem autopack_ok (packs : List Pack) (total : Nat) (htot : cnt packs ≤ total) :
    ∃ r, doAutopack total packs = .ok r := by
  unfold doAutopack
  split
  · exact ⟨_, rfl⟩
  · have hpos : ∀ p ∈ packs.filter (fun p => p.1 != 0), 0 < p.1 := by
      intro p hp
      have := (List.mem_filter.mp hp).2
      simp at this; omega
    obtain ⟨ops, h⟩ := plan_ok (packs.filter (fun p => p.1 != 0)) total hpos
      (Nat.le_trans (cnt_filter_le packs _) htot)
    exact ⟨some ops, by rw [h]⟩

/-- For a collection of packs with positive revision counts `_do_autopack`
either does nothing (count within the bound) or plans one combination of at
least two packs after which the count is within the bound. -/
theorem autopack_spec (packs : List Pack) (total : Nat)
    (hpos : ∀ p ∈ packs, 0 < p.1) (htot : cnt packs ≤ total) :
    (packs.length ≤ maxPackCount total ∧ doAutopack total packs = .ok none) ∨
    (∃ ps kept, doAutopack total packs = .ok (some [(cnt ps, ps)]) ∧ 2 ≤ ps.length ∧
      (ps ++ kept).Perm packs ∧ packsAfter packs.length [(cnt ps, ps)] ≤ maxPackCount total) := by
  by_cases hlen : packs.length ≤ maxPackCount total
  · left; exact ⟨hlen, (autopack_none_iff packs total).mpr hlen⟩
  · right
    rcases plan_spec packs (packDistribution total) hpos (by rw [packDistribution_sum]; exact htot) with
      ⟨h1, _⟩ | ⟨_, ps, kept, h', h2, h3, _, _⟩
    · rw [packDistribution_length] at h1; exact absurd h1 hlen
    · refine ⟨ps, kept, ?_, h2, h3, ?_⟩
      · simp [doAutopack, hlen, filter_pos_id packs hpos, h']
      · exact plan_bound packs total _ hpos htot h' (by simp)

/-! ### the caller's total, carrying out the plan, and the digit sum -/

/-- `_max_pack_count(total)` is literally the sum of the decimal digits of
`str(total)` (`Nat.toDigits 10` is the digit list `Nat.repr` prints), so
"digit sum" in the statements above is the real digit sum and not an artefact
of the fuelled recursion of the model. -/
theorem maxPackCount_eq_digit_sum (t : Nat) (ht : 0 < t) :
    maxPackCount t = ((Nat.toDigits 10 t).map charDigit).sum := by
  have := digitSumAux_eq_toDigits t t (Nat.le_refl t)
  simp only [maxPackCount, Nat.ne_of_gt ht, if_false] at this ⊢
  exact this

/-- With the total the real caller passes (`key_count()` ADDS the per-pack
counts, revisions duplicated across packs included — `keyCount`) planning
never fails: every pack list, zero-revision packs and duplicates included, no
side condition. -/
theorem autopack_real_ok (packs : List Pack) :
    ∃ r, doAutopack (keyCount packs) packs = .ok r :=
  autopack_ok packs (keyCount packs) (Nat.le_refl _)

/-- `autopack_spec` for the total the real caller passes: no hypothesis on the total. -/
theorem autopack_real_spec (packs : List Pack) (hpos : ∀ p ∈ packs, 0 < p.1) :
    (packs.length ≤ maxPackCount (keyCount packs) ∧ doAutopack (keyCount packs) packs = .ok none) ∨
    (∃ ps kept, doAutopack (keyCount packs) packs = .ok (some [(cnt ps, ps)]) ∧ 2 ≤ ps.length ∧
      (ps ++ kept).Perm packs ∧
      packsAfter packs.length [(cnt ps, ps)] ≤ maxPackCount (keyCount packs)) :=
  autopack_spec packs (keyCount packs) hpos (Nat.le_refl _)

/-- Carrying out a single combination `ps` of `packs` (`ps ++ kept` a
permutation of `packs`) replaces exactly the packs of `ps` by one new pack
holding their revisions once (`dups` = number of revision-index entries of
`ps` that are duplicates of another entry of `ps`): the collection afterwards
is `kept` plus the new pack. -/
theorem execute_perm (dups : Nat) (packs ps kept : List Pack) (hne : ps ≠ [])
    (hperm : (ps ++ kept).Perm packs) :
    (executeOpsDup dups packs [(cnt ps, ps)]).Perm ((cnt ps - dups, 0) :: kept) :=
  executeOpsDup_single dups (cnt ps) packs ps kept hne hperm

/-- … so the number of packs afterwards is the arithmetic `packsAfter` that
`plan_bound` bounds, whatever the number of duplicated revisions … -/
theorem execute_length (dups : Nat) (packs ps kept : List Pack) (hne : ps ≠ [])
    (hperm : (ps ++ kept).Perm packs) :
    (executeOpsDup dups packs [(cnt ps, ps)]).length = packsAfter packs.length [(cnt ps, ps)] := by
  have h1 := (execute_perm dups packs ps kept hne hperm).length_eq
  have hl : ps.length + kept.length = packs.length := by simpa using hperm.length_eq
  have hpos : 0 < ps.length := List.length_pos_iff.mpr hne
  have hnz : (ps.length != 0) = true := by simp [hne]
  simp only [packsAfter, List.map_cons, List.map_nil, List.sum_cons, List.sum_nil,
    List.filter_cons, hnz, if_true, List.filter_nil, List.length_cons, List.length_nil] at h1 ⊢
  omega

/-- … and no revision-index entry is lost except the `dups` duplicates. -/
theorem execute_cnt (dups : Nat) (packs ps kept : List Pack) (hne : ps ≠ [])
    (hperm : (ps ++ kept).Perm packs) (hd : dups ≤ cnt ps) :
    cnt (executeOpsDup dups packs [(cnt ps, ps)]) + dups = cnt packs := by
  rw [cnt_perm (execute_perm dups packs ps kept hne hperm), cnt_cons, ← cnt_perm hperm]
  have : cnt (ps ++ kept) = cnt ps + cnt kept := by simp [cnt, counts]
  simp only at *
  omega

/-- The whole of `_do_autopack` on a collection of packs with positive counts
and the total the real caller passes: whatever it plans can be carried out,
and afterwards the number of packs is within `_max_pack_count` of the total
the plan was made for — also when `dups` revisions were duplicated. -/
theorem autopack_execute_bound (dups : Nat) (packs : List Pack) (ops : List Op)
    (hpos : ∀ p ∈ packs, 0 < p.1)
    (h : doAutopack (keyCount packs) packs = .ok (some ops)) :
    (executeOpsDup dups packs ops).length ≤ maxPackCount (keyCount packs) := by
  rcases autopack_real_spec packs hpos with ⟨_, h'⟩ | ⟨ps, kept, h', h2, h3, h4⟩
  · rw [h'] at h; cases h
  · rw [h'] at h
    injection h with h; injection h with h
    subst h
    have hne : ps ≠ [] := by intro h; subst h; simp at h2
    rw [execute_length dups packs ps kept hne h3]
    exact h4

/-- Autopack reaches a fixed point in one step: after carrying out whatever
`_do_autopack` planned for a collection with positive counts and no duplicated
revisions, the revision total is unchanged and a second `_do_autopack` on the
resulting collection (with the total the caller would pass then) does nothing. -/
theorem autopack_fixpoint (packs : List Pack) (ops : List Op)
    (hpos : ∀ p ∈ packs, 0 < p.1)
    (h : doAutopack (keyCount packs) packs = .ok (some ops)) :
    keyCount (executeOpsDup 0 packs ops) = keyCount packs ∧
      doAutopack (keyCount (executeOpsDup 0 packs ops)) (executeOpsDup 0 packs ops) = .ok none := by
  have hb := autopack_execute_bound 0 packs ops hpos h
  have hk : keyCount (executeOpsDup 0 packs ops) = keyCount packs := by
    rcases autopack_real_spec packs hpos with ⟨_, h'⟩ | ⟨ps, kept, h', h2, h3, _⟩
    · rw [h'] at h; cases h
    · rw [h'] at h
      injection h with h; injection h with h
      subst h
      have hne : ps ≠ [] := by intro h; subst h; simp at h2
      have := execute_cnt 0 packs ps kept hne h3 (Nat.zero_le _)
      simpa [keyCount] using this
  refine ⟨hk, ?_⟩
  rw [autopack_none_iff, hk]
  exact hb

/-- With `dups` duplicated revisions dropped by the combination the total the
next caller passes is smaller, and the fixed point may need further rounds:
the pack count is still within the bound of the OLD total (`autopack_execute_bound`),
and the revision total never grows. -/
theorem autopack_total_nonincreasing (dups : Nat) (packs : List Pack) (ops : List Op)
    (hpos : ∀ p ∈ packs, 0 < p.1)
    (h : doAutopack (keyCount packs) packs = .ok (some ops)) :
    keyCount (executeOpsDup dups packs ops) ≤ keyCount packs := by
  rcases autopack_real_spec packs hpos with ⟨_, h'⟩ | ⟨ps, kept, h', h2, h3, _⟩
  · rw [h'] at h; cases h
  · rw [h'] at h
    injection h with h; injection h with h
    subst h
    have hne : ps ≠ [] := by intro h; subst h; simp at h2
    have hp := cnt_perm (execute_perm dups packs ps kept hne h3)
    have hq := cnt_perm h3
    have : cnt (ps ++ kept) = cnt ps + cnt kept := by simp [cnt, counts]
    simp only [keyCount, cnt_cons] at *
    omega

/-- Why `cnt packs ≤ total` is needed: with a total smaller than the sum of
the per-pack counts the planner runs out of buckets — `IndexError` in the real
code (reproduced by the harness on the real method). -/
theorem plan_error_witness :
    plan [(10, 1), (10, 2), (1, 3)] (packDistribution 20) = .error .index := by decide

/-! ### non-vacuity: concrete non-trivial inputs satisfying the hypotheses -/

/-- hypotheses of `plan_ok`/`plan_shape`/`plan_bound`/`plan_nonidle` hold for a
collection with duplicate sizes that does need packing … -/
example : (∀ p ∈ [((5 : Nat), (1 : Nat)), (5, 2), (10, 3)], 0 < p.1) ∧
    cnt [(5, 1), (5, 2), (10, 3)] ≤ 20 ∧
    maxPackCount 20 < [((5 : Nat), (1 : Nat)), (5, 2), (10, 3)].length := by decide

/-- … for which the planner combines the two small packs: -/
example : plan [(5, 1), (5, 2), (10, 3)] (packDistribution 20) = .ok [(10, [(5, 2), (5, 1)])] := by
  decide

example : packsAfter 3 [(10, [(5, 2), (5, 1)])] = 2 ∧ maxPackCount 20 = 2 := by decide

/-- `autopack_fixpoint` on that collection: one combination, then nothing. -/
example : doAutopack (keyCount [(5, 1), (5, 2), (10, 3)]) [(5, 1), (5, 2), (10, 3)]
      = .ok (some [(10, [(5, 2), (5, 1)])]) ∧
    doAutopack 20 (executeOpsDup 0 [(5, 1), (5, 2), (10, 3)] [(10, [(5, 2), (5, 1)])]) = .ok none := by
  constructor <;> rfl

/-- a larger run with a partially used bucket (`12` eats one bucket of ten and
two units of the next) -/
example : plan [(4, 1), (12, 2), (4, 3)] (packDistribution 20) = .ok [(8, [(4, 3), (4, 1)])] := by
  decide

/-- `plan_idle`: a collection within the bound -/
example : [((10 : Nat), (1 : Nat)), (10, 2)].length ≤ maxPackCount 20 := by decide

/-- `autopack_ok` with a zero-revision pack -/
example : doAutopack 2 [(1, 1), (1, 2), (0, 3)] = .ok (some []) := by decide

example : packDistribution 2015 = [1000, 1000, 10, 1, 1, 1, 1, 1] := by decide

/-- `execute_perm`/`execute_length`/`execute_cnt` on a collection where the two
combined packs share one revision (3 + 1 entries, 3 distinct revisions) -/
example : executeOpsDup 1 [(18, 1), (9, 2), (3, 3), (1, 4), (10, 5)] [(4, [(3, 3), (1, 4)])]
    = [(3, 0), (18, 1), (9, 2), (10, 5)] := by decide

example : ([((3 : Nat), (3 : Nat)), (1, 4)] ++ [(18, 1), (9, 2), (10, 5)]).Perm
    [(18, 1), (9, 2), (3, 3), (1, 4), (10, 5)] := by decide

/-- `autopack_execute_bound`: the planner's view of the duplicated-revision
repository of the finding reproduced by the harness -/
example : doAutopack (keyCount [(18, 1), (9, 2), (2, 3), (1, 4), (10, 5)])
    [(18, 1), (9, 2), (2, 3), (1, 4), (10, 5)] = .ok (some [(3, [(2, 3), (1, 4)])]) := by decide

example : maxPackCount 2015 = 8 ∧ ((Nat.toDigits 10 2015).map charDigit).sum = 8 := by decide

end BreezyVerif.C07
