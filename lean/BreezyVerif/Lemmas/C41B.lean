import BreezyVerif.Lemmas.C41
/-!
Helper lemmas for C41, part 2: `splitlines` is injective on canonical texts;
the short form determines the long form.
-/
namespace BreezyVerif.C41

theorem joinNl_cons_cons (c : Char) (l : Str) (ls : List Str) :
    joinNl ((c :: l) :: ls) = c :: joinNl (l :: ls) := by
  cases ls <;> rfl

theorem msgCanon_tail {c : Char} {rest : Str} (h : msgCanon (c :: rest) = true) : msgCanon rest = true := by
  unfold msgCanon at h ⊢
  simp only [List.all_cons, Bool.and_eq_true] at h
  rw [Bool.and_eq_true]
  refine ⟨h.1.2, ?_⟩
  cases rest with
  | nil => simp
  | cons d r => simpa [List.getLast?_cons_cons] using h.2

theorem msgCanon_head {c : Char} {rest : Str} (h : msgCanon (c :: rest) = true) (hb : isBreak c = true) :
    c = '\n' ∧ rest ≠ [] := by
  unfold msgCanon at h
  simp only [List.all_cons, Bool.and_eq_true] at h
  have hc : c = '\n' := by
    have := h.1.1
    rw [hb] at this
    simpa using this
  refine ⟨hc, ?_⟩
  intro e
  subst e
  subst hc
  simp at h

/-- on canonical texts `"\n".join(s.splitlines()) == s` -/
theorem splitlines_joinNl (s : Str) : msgCanon s = true → joinNl (splitlines s) = s := by
  fun_induction splitlines s with
  | case1 => intro _; rfl
  | case2 rest ih =>
    intro h
    exact absurd (msgCanon_head h (by decide)).1 (by decide)
  | case3 c rest hne hb ih =>
    intro h
    obtain ⟨hc, hr⟩ := msgCanon_head h hb
    have ih' := ih (msgCanon_tail h)
    subst hc
    cases hsp : splitlines rest with
    | nil =>
      rw [hsp] at ih'
      exact absurd ih'.symm hr
    | cons l ls =>
      rw [hsp] at ih'
      simp only [joinNl, List.nil_append]
      rw [ih']
  | case4 c rest hne hb hnil ih =>
    intro h
    have ih' := ih (msgCanon_tail h)
    rw [hnil] at ih'
    simp only [joinNl] at ih' ⊢
    rw [← ih']
  | case5 c rest hne hb l0 ls heq ih =>
    intro h
    have ih' := ih (msgCanon_tail h)
    rw [heq] at ih'
    rw [joinNl_cons_cons, ih']

/-- `splitlines` is injective on canonical texts -/
theorem splitlines_inj_canon {a b : Str} (ha : msgCanon a = true) (hb : msgCanon b = true)
    (h : splitlines a = splitlines b) : a = b := by
  rw [← splitlines_joinNl a ha, ← splitlines_joinNl b hb, h]

theorem text_ok_check {v : Variant} {r : Rev} {t : Str} (h : text v r = .ok t) : check r = none := by
  unfold text at h
  split at h
  · cases h
  · assumption

/-- the short form determines the digest argument: equal short texts of two
records that render come from equal long texts, when `sha` is injective -/
theorem shortText_text {sha : Str → Str} (hinj : Function.Injective sha) {v : Variant} {r r' : Rev} {s : Str}
    (h : shortText sha v r = .ok s) (h' : shortText sha v r' = .ok s) :
    ∃ t, text v r = .ok t ∧ text v r' = .ok t := by
  unfold shortText at h h'
  cases ht : text v r with
  | error e => rw [ht] at h; cases h
  | ok t =>
    cases ht' : text v r' with
    | error e => rw [ht'] at h'; cases h'
    | ok t' =>
      rw [ht] at h
      rw [ht'] at h'
      simp only [Except.ok.injEq] at h h'
      have e := h.trans h'.symm
      have e1 := List.append_cancel_left (List.append_cancel_left e)
      have c1 := (check_none (text_ok_check ht)).1
      have c2 := (check_none (text_ok_check ht')).1
      have n1 : '\n' ∉ r.revisionId := fun m => hasWs_false c1 _ m (Or.inr rfl)
      have n2 : '\n' ∉ r'.revisionId := fun m => hasWs_false c2 _ m (Or.inr rfl)
      have e2 := (split_at_char n1 n2 e1).2
      have e3 := List.append_cancel_right (List.append_cancel_left e2)
      have : t = t' := hinj e3
      subst this
      exact ⟨t, rfl, rfl⟩

end BreezyVerif.C41
