"""C52 — format upgrades and reconfigurations preserve history and trees.

Mechanism: breezy/reconfigure.py Reconfigure (__init__ discovery, _plan_changes,
_set_use_shared, _check, _select_bind_location, apply), breezy/upgrade.py
(upgrade / smart_upgrade / Convert), breezy/bzr/bzrdir.py ConvertMetaToMeta
(+ the repository / branch / working-tree converters it drives:
CopyConverter, Converter5to6/6to7/7to8, Converter3to4 / 4to5 / 4or5to6).

Model: Model/C52.lean.  A location = layout (working tree?, local branch
bound/unbound | branch reference, local repository | shared repository above |
none, format tag) + observation (branch tip, history code, tag dictionary, tree
state = content code + pending-change flag) + what is known about the bind
location (found?, tip / history / tags of the branch there).  `plan` is the
literal `_plan_changes` / `_set_use_shared` flag computation, `reconfigure` = the
to_* factory + `_check` + `apply` stage by stage; replacing the local branch by a
reference makes the referenced branch's tip / history the location's and merges
the tags (`mergeTo` = `_reconcile_tags`): unforced, `_check` refuses that unless
the tips agree.  `upgrade` = `Convert.convert`'s loop around
`ConvertMetaToMeta.convert`: which converters run, in which order, in how many
passes, and what each does to the branch / tree data (revision-history ->
last-revision, last-revision + pending-merges -> dirstate parents).

T2 (the substance): generated histories (commits, a merge, tags incl. tags on
one side only, tags on absent revisions, conflicting tags) with a clean or dirty
working tree (edit, add, rename, chmod, unknown, pending merge, recorded conflict,
missing file) are built in every layout x repository placement that real breezy
can create, with the branch at the remembered location in sync, ahead or behind,
also for branches WITHOUT commits (tip null:; plain, or with another branch merged
into the tree: the tree's only parent is the merged tip) for every transition,
and
 * every ordered (source layout, target) pair is driven through the real
   Reconfigure factory + apply() (quick tier: a seed-rotated third + a fixed
   destructive core, formats rotating; thorough: all), a fixed set of forced /
   refused replacements by an out-of-sync reference on every run, then random
   chains of 2..4 reconfigurations (15 % forced, 15 % out of sync);
 * every creatable source format (knit, pack-0.92, 1.x, 2a, rich-root / subtree
   variants; working tree formats 3-6, branch formats 5-8) is upgraded to the
   default through upgrade.upgrade() EVERY run, from rotating source kinds: tree,
   checkout (master first / alone), branch without tree, lightweight checkout
   (alone: the referenced branch is converted through the reference; or after its
   master), shared repository with two branches; every Convert is logged (control
   dir, component formats before / after, converter calls per pass);
the outcome (ok / error kind), the resulting layout, tree state, tip (original /
the reference's) and tag values per step, and per Convert the converter sequence
per pass, resulting formats, last_revision_info and tree parents are compared
with the model and, independently, with the observation before (oracle).
Oracle (no model): tip, revno, testament map never change — except after a FORCED
replacement of the branch by a reference to a branch with another tip, where they
must become exactly that branch's; an unforced replacement by an out-of-sync
reference is a violation; every tag keeps its definition and every new tag comes
from the referenced branch; a working tree that exists before and after a step
has the same entries, contents, exec bits, file ids, iter_changes output,
parents, unknowns and conflicts; a tree with pending changes is never removed
(unless forced); the revision of every tree parent (basis, pending merges) is
still in the branch's repository, and so is the whole history the tree refers to
beyond the branch's (testament of every revision in the ancestry of the tree's
parents); a created tree is the clean tree of the tip
(its parent is the tip); a successful to_X yields layout X; a successful upgrade
yields the default formats and keeps tip, testaments, tags, remembered locations,
tree dump and status (also of a second branch in the shared repository); the
location can always be opened afterwards.

Findings of this check, FIXED in /repo (995730b tree-parent revisions, 8a6b4cf tag-conflict check; a regression is a
plain violation; patches + repro were in /var/tmp/imp-C51C52/c52): (1) reconfigure-pending-merge-revision-not-copied (and
reconfigure-tree-basis-revision-not-copied for a tree that is not at the branch
tip) — to_standalone / to_tree / to_checkout / to_lightweight_checkout fetch only
the branch tip, the revisions of the working tree's pending merges / basis are
left in the old repository (the next commit records a ghost); (2) reconfigure-reference-tag-conflict-local-
definition-dropped — to_lightweight_checkout merges the local tags into the
referenced branch and silently drops a local definition that conflicts.  The
model has a variant flag (tagCheck, probed on the code under test) for (2).
Observations (not violations of the property): a failed to_checkout on a
tree-less branch without remembered location leaves the freshly created working
tree behind (partial_apply_witness); to_standalone on a lightweight checkout
creates a repository of the default format; BzrBranch5 branches raise
UpgradeRequired in _select_bind_location; Converter5to6 turns "no push location"
into the empty string (which _select_bind_location then returns as a location);
upgrading a lightweight checkout converts the REFERENCED branch although upgrade
says it must be upgraded separately; UnsyncedBranches.__init__ passes the
controldir as message, str() of the error raises TypeError.

Mutants (scratch worktree): _check ignoring has_changes (oracle: tree with
pending changes destroyed); create_branch without set_last_revision_info (oracle:
tip null:); new repository not filled by fetch (oracle: cannot be opened);
to_tree planning want_bound=True (oracle: layout + model mismatch); Converter5to6
writing revno-1 (oracle: upgrade changed revno).  Improvement round:
_check never raising UnsyncedBranches (oracle: unforced replacement by a
reference with another tip); tags.merge_to into the reference dropped (oracle:
local-only tag lost); Converter5to6 not copying the parent location (oracle:
locations); Convert's `while needs_format_conversion` -> `if` (oracle: knit tree
left at format 4, + model mismatch on the passes); Converter3to4 dropping the
pending merges (oracle: status/parents); branch converter chain spread over two
passes (harmless for the result: T2 tie break on the converter sequence only).
Seeded change C52b (to_standalone skips the fetch — and the copy of the revisions the tree refers to — when the
branch tip is null:) -> oracle: the merged revision of a branch without commits is gone from the new repository.
Harmless rewrites kept clean: tree flags of _plan_changes as boolean expressions,
isinstance -> type identity in ConvertMetaToMeta.
"""
import os
import random
import shutil

from vlib import env

THEOREMS = ["reconfigure_keeps_any", "convert_preserves_obs", "reconfigure_composes", "forced_path_tip",
            "forced_synced_preserves", "reconfigure_ok_layout", "already_iff_layout", "refusal_changes_nothing",
            "force_destroys_witness", "force_moves_tip_witness", "tag_conflict_witness", "tagcheck_refuses_conflict",
            "partial_apply_witness",
            "upgrade_preserves_obs", "upgrade_reaches_target", "upgrade_uptodate_iff", "knit_two_pass_witness",
            "branch_downgrade_witness"]
RULE = ("case = (history script, dirty kinds, tag / sync knobs, source layout x repository placement, target | chain of targets "
        "(forced?) | source format x source kind); non-trivial = the operation succeeds and changes the layout / format; "
        "distinct by (layout, target(s), dirty operations, knobs, history shape)")
ASSUMPTIONS = [
    "theorems about tags assume the local and the referenced branch define no tag differently (NoConflict, decidable); the "
    "conflicting case is generated, modelled (tag_conflict_witness / tagcheck_refuses_conflict) and reported as a finding",
    "reconfiguration chains use formats whose branch supports old-bound locations and tags (2a, 1.9, pack-0.92); "
    "knit-era formats appear in the upgrade stream only",
    "a cross-format fetch refused with IncompatibleRepositories (repository created by to_standalone for a lightweight "
    "checkout has the default format) is an excluded, counted outcome: nothing changes",
]
TRUSTED = [
    "history is abstracted to a code in the model (a function of the tip: RefInv): that fetch / the repository converter keep "
    "every revision's testament is what the correspondence run measures (testament sha1 of the whole ancestry before and "
    "after), not what is proved; the working tree's content is a code as well",
    "repository format classes are compared by identity in the model (the code uses isinstance); ConvertMetaToColo and "
    "pre-metadir control directories are outside the upgrade model (counted convert-not-modelled)",
    "the model's view of a location (tree?, bound?, reference?, repository placement, remembered location, in sync) is read "
    "from the real objects by the harness, independently of Reconfigure",
]

TARGETS = ["branch", "tree", "checkout", "lightweight-checkout", "standalone", "use-shared"]
SOURCES = ["tree", "branch", "checkout", "lightweight-checkout"]


# --------------------------------------------------------------------------
# building locations

def _commit(wt, msg, rev_id, ts):
    return wt.commit(msg, rev_id=rev_id, timestamp=1000000000 + ts, timezone=0, committer="V <v@e.c>")


def write_history(wt, rng, tag):
    """3..5 revisions incl. renames / deletes / a merge, 0..2 tags; returns list of revids"""
    d = wt.basedir
    revs = []
    with open(d + "/a", "wb") as f:
        f.write(b"a 1\n")
    os.mkdir(d + "/dir")
    with open(d + "/dir/b", "wb") as f:
        f.write(b"b 1\n")
    os.chmod(d + "/dir/b", 0o755)
    os.symlink("a", d + "/link")
    wt.add(["a", "dir", "dir/b", "link"], ids=[b"a-id", b"dir-id", b"b-id", b"link-id"])
    revs.append(_commit(wt, "one\nsecond line", b"%s-r1" % tag, 1))
    n = rng.randint(2, 4)
    for i in range(2, n + 1):
        r = rng.random()
        if r < 0.35:
            with open(d + "/a", "ab") as f:
                f.write(b"a %d\n" % i)
        elif r < 0.6 and os.path.exists(d + "/dir/b"):
            wt.rename_one("dir/b", "b%d" % i)
        elif r < 0.8:
            with open(d + "/n%d" % i, "wb") as f:
                f.write(b"n %d\n" % i)
            wt.add(["n%d" % i], ids=[b"n%d-id" % i])
        else:
            with open(d + "/a", "wb") as f:
                f.write(b"rewritten %d\n" % i)
        revs.append(_commit(wt, "rev %d \xe2\x82\xac" % i if False else "rev %d" % i, b"%s-r%d" % (tag, i), i))
    if rng.random() < 0.5:
        # a merged side branch
        side = wt.controldir.sprout(env.fresh_dir("c52side"), revision_id=revs[0]).open_workingtree()
        with open(side.basedir + "/side", "wb") as f:
            f.write(b"side\n")
        side.add(["side"], ids=[b"side-id"])
        _commit(side, "side", b"%s-s1" % tag, 9)
        wt.merge_from_branch(side.branch)
        revs.append(_commit(wt, "merge", b"%s-m" % tag, 10))
        shutil.rmtree(side.basedir, ignore_errors=True)
    if wt.branch.supports_tags():
        for j in range(rng.randint(0, 2)):
            wt.branch.tags.set_tag("tag%d" % j, rng.choice(revs))
    return revs


def flags_of(seedt):
    """optional 7th element of a location seed: comma separated knobs
    pm = a pending merge in the dirty tree, cf = a recorded conflict, ms = a versioned file missing from disk,
    xt = the branch at the bind location has a tag the local branch lacks, ct = ... a DIFFERENT definition of tag0,
    gt = a tag pointing to a revision that is absent, lt = a tag only the local branch has,
    bh = the branch at the bind location is one revision BEHIND,
    b2 = a second branch in the shared repository,
    nt = the branch has NO commits (tip null:); with pm its working tree holds an uncommitted merge of another branch (what
         `brz merge ../other` into a freshly initialised branch leaves: the tree's only parent is the merged tip)"""
    return set(x for x in (seedt[6].split(",") if len(seedt) > 6 else []) if x)


def make_dirty(wt, rng, flags=(), tag=b"x"):
    d = wt.basedir
    ops = []
    if "pm" in flags and wt.branch.last_revision() != b"null:":
        # an uncommitted merge of a side branch: a second tree parent, whose revision lives in the repository only
        side = wt.controldir.sprout(env.fresh_dir("c52pm"), revision_id=wt.branch.last_revision()).open_workingtree()
        with open(side.basedir + "/pside", "wb") as f:
            f.write(b"pending side\n")
        side.add(["pside"], ids=[b"pside-id"])
        _commit(side, "pending side", b"%s-pm" % tag, 20)
        wt.merge_from_branch(side.branch)
        shutil.rmtree(side.basedir, ignore_errors=True)
        ops.append("pending-merge")
    with open(d + "/a", "ab") as f:
        f.write(b"uncommitted\n")
    ops.append("edit")
    if rng.random() < 0.6:
        with open(d + "/new", "wb") as f:
            f.write(b"new\n")
        wt.add(["new"], ids=[b"new-id"])
        ops.append("add")
    if rng.random() < 0.4 and wt.is_versioned("link"):
        wt.rename_one("link", "link2")
        ops.append("rename")
    if rng.random() < 0.3:
        os.chmod(d + "/a", 0o755)
        ops.append("chmod")
    with open(d + "/unknown.txt", "wb") as f:
        f.write(b"unversioned\n")
    if "cf" in flags:
        from breezy.bzr.conflicts import TextConflict
        wt.add_conflicts([TextConflict("a")])
        ops.append("conflict")
    if "ms" in flags:
        for p in ("dir/b", "b2", "b3", "b4", "n2", "n3", "n4"):
            if os.path.isfile(os.path.join(d, p)) and wt.is_versioned(p):
                os.unlink(os.path.join(d, p))
                ops.append("missing")
                break
    return ops


def build_location(seedt):
    """seedt = (seed, index, source, shared, dirty, fmt[, flags]) -> dict(path=..., master=..., ...)"""
    from breezy.controldir import ControlDir, format_registry
    from breezy.branch import Branch
    seed, idx, source, shared, dirty, fmt = seedt[:6]
    flags = flags_of(seedt)
    rng = random.Random(repr(("hist", seed, idx)))
    root = env.fresh_dir("c52")
    cformat = format_registry.make_controldir(fmt)
    info = dict(root=root, seed=list(seedt), source=source, shared=shared, dirty=dirty, fmt=fmt)
    repo_parent = os.path.join(root, "repo")
    os.mkdir(repo_parent)
    if shared:
        ControlDir.create(repo_parent, format=cformat).create_repository(shared=True)
    loc = os.path.join(repo_parent, "loc")
    master = os.path.join(root, "master")
    tag = b"h%d" % idx
    nt = "nt" in flags
    if nt:
        flags = flags - {"bh", "xt", "ct", "lt", "b2"}          # (they need revisions)
    if source in ("tree", "branch"):
        if shared:
            br = ControlDir.create_branch_convenience(loc, force_new_tree=True, format=cformat)
            wt = br.controldir.open_workingtree()
        else:
            wt = ControlDir.create_standalone_workingtree(loc, format=cformat)
        try:
            wt.set_root_id(b"root-id")
        except Exception:  # noqa
            pass
        revs = write_history(wt, rng, tag) if not nt else []
        info["parent"] = None
        if rng.random() < 0.5 or flags & {"xt", "ct", "bh"}:
            # a remembered parent location holding the same history (a bind candidate)
            at = wt.branch.last_revision()
            if "bh" in flags:
                at = revs[-2]                                                         # one mainline revision behind
            wt.controldir.sprout(master, revision_id=at)
            wt.branch.set_parent(master)
            info["parent"] = master
        if shared and "b2" in flags:
            # a second branch (with its own tree) in the same shared repository
            wt.controldir.sprout(os.path.join(repo_parent, "loc2"), revision_id=revs[0])
        if source == "branch":
            wt.controldir.destroy_workingtree()
            wt = None
        local_branch = Branch.open(loc)
    else:
        mwt = ControlDir.create_standalone_workingtree(master, format=cformat)
        try:
            mwt.set_root_id(b"root-id")
        except Exception:  # noqa
            pass
        revs = write_history(mwt, rng, tag) if not nt else []
        if source == "checkout":
            os.makedirs(loc, exist_ok=True)
            wt = mwt.branch.create_checkout(loc, lightweight=False)
        else:
            wt = mwt.branch.create_checkout(loc, lightweight=True)
        info["parent"] = master
        local_branch = wt.branch
    if local_branch.supports_tags():
        if "gt" in flags:
            local_branch.tags.set_tag("ghosttag", b"absent-revision-%d" % idx)
        if "lt" in flags and source in ("tree", "branch"):
            local_branch.tags.set_tag("localtag", revs[0])                  # (not bound: the master does not get it)
        if "ct" in flags and source != "lightweight-checkout":
            local_branch.tags.set_tag("tag0", revs[-1])                     # (a bound branch sets it on its master too)
        if info["parent"]:
            mb = Branch.open(master)
            if "xt" in flags:
                mb.tags.set_tag("mastertag", revs[0])
            if "ct" in flags and source != "lightweight-checkout":
                mb.tags.set_tag("tag0", revs[0])                            # two definitions of tag0
    info["dirty_ops"] = []
    if nt and "pm" in flags and wt is not None:
        # an uncommitted merge of ANOTHER branch's history into the branch without commits
        other = ControlDir.create_standalone_workingtree(env.fresh_dir("c52other"), format=cformat)
        try:
            other.set_root_id(b"root-id")
        except Exception:  # noqa
            pass
        orevs = write_history(other, random.Random(repr(("other", seed, idx))), tag + b"o")
        wt.merge_from_branch(other.branch)
        if local_branch.supports_tags():
            local_branch.tags.set_tag("merged", orevs[-1])
        shutil.rmtree(other.basedir, ignore_errors=True)
        info["dirty_ops"].append("merge-into-empty-branch")
    if wt is not None and dirty:
        info["dirty_ops"] += make_dirty(wt, rng, flags, tag)
    info.update(path=loc, master=master if os.path.isdir(master) else None, revs=[r.decode() for r in revs])
    return info


# --------------------------------------------------------------------------
# observation

def layout_of(path):
    from breezy.controldir import ControlDir
    from breezy import errors
    cd = ControlDir.open(path)
    out = {}
    try:
        wt = cd.open_workingtree()
        out["tree"] = True
    except errors.NoWorkingTree:
        out["tree"] = False
    br = cd.open_branch()
    if br.user_url != cd.user_url:
        out["branch"] = "reference"
    else:
        out["branch"] = "bound" if br.get_bound_location() else "local"
    try:
        repo = cd.find_repository()
        out["repo"] = "local" if repo.user_url == cd.user_url else "shared"
    except errors.NoRepositoryPresent:
        out["repo"] = "none"
    return out


def branch_obs(br):
    """tip, revno, revision -> testament sha1 of the whole ancestry, tags, remembered locations"""
    from breezy.bzr.testament import StrictTestament3
    obs = {}
    with br.lock_read():
        tip = br.last_revision()
        obs["tip"] = tip.decode()
        obs["revno"] = br.revno()
        graph = br.repository.get_graph()
        anc = sorted(r for r, _ in graph.iter_ancestry([tip]) if r != b"null:")
        tm = {}
        for r in anc:
            t = StrictTestament3.from_revision(br.repository, r)
            tm[r.decode()] = t.as_sha1().decode() if isinstance(t.as_sha1(), bytes) else t.as_sha1()
        obs["testaments"] = tm
        obs["tags"] = ({k: v.decode() for k, v in sorted(br.tags.get_tag_dict().items())}
                       if br.supports_tags() else {})
    return obs


def observe(path, locations=False):
    """(tip, {rev: testament sha1}, tags, tree dump | None, status | None, formats)"""
    from breezy.controldir import ControlDir
    from breezy import errors
    import hashlib
    cd = ControlDir.open(path)
    br = cd.open_branch()
    obs = branch_obs(br)
    if locations:
        tail = lambda u: None if u is None else u.rstrip("/").rsplit("/", 1)[-1]  # noqa
        # (Converter5to6 turns "no push location" into the empty string: read as "none" here, see the report)
        obs["locations"] = [tail(br.get_parent()) or None, tail(br.get_bound_location()) or None, tail(br.get_push_location()) or None]
    try:
        wt = cd.open_workingtree()
    except errors.NoWorkingTree:
        obs["tree"] = None
        obs["status"] = None
        obs["ghost_parents"] = []
        obs["tree_history"] = {}
        return obs
    with wt.lock_read():
        dump = {}
        for p, ie in wt.iter_entries_by_dir():
            full = os.path.join(wt.basedir, p) if p else wt.basedir
            if os.path.islink(full):
                dump[p] = ("l", os.readlink(full))
            elif os.path.isdir(full):
                dump[p] = ("d", "")
            elif os.path.isfile(full):
                dump[p] = ("f", hashlib.sha1(open(full, "rb").read()).hexdigest()[:12] + ("x" if os.stat(full).st_mode & 0o100 else ""))
            else:
                dump[p] = ("missing", "")
            dump[p] = dump[p] + (ie.file_id.decode(),)
        obs["tree"] = dump
        st = sorted((c.file_id.decode(), tuple(c.path), c.changed_content, tuple(c.versioned), tuple(c.kind), tuple(c.executable))
                    for c in wt.iter_changes(wt.basis_tree())
                    if not (c.path[0] is None and c.path[1] == ""))        # (the root of a tree that was never committed)
        parents = wt.get_parent_ids()
        obs["status"] = dict(changes=st, parents=[p.decode() for p in parents],
                             unknowns=sorted(wt.unknowns()),
                             conflicts=sorted((c.typestring, c.path) for c in wt.conflicts()))
        # a tree parent whose revision the branch's repository does not hold (the next commit records a ghost)
        repo = wt.branch.repository
        with repo.lock_read():
            obs["ghost_parents"] = [p.decode() for p in parents if not repo.has_revision(p)]
            # the history the TREE refers to beyond the branch's (pending merges, a merge into a branch without commits, a
            # basis that is not the branch tip): revision -> testament sha1, "MISSING" for a revision that is absent
            from breezy.bzr.testament import StrictTestament3
            th = {}
            heads = [p for p in parents if p.decode() not in obs["testaments"] and repo.has_revision(p)]
            for r, ps in repo.get_graph().iter_ancestry(heads):
                if r == b"null:" or r.decode() in obs["testaments"]:
                    continue
                if ps is None:
                    th[r.decode()] = "MISSING"
                else:
                    t = StrictTestament3.from_revision(repo, r).as_sha1()
                    th[r.decode()] = t.decode() if isinstance(t, bytes) else t
            obs["tree_history"] = th
    return obs


def err_kind(e):
    return "E:" + type(e).__name__


# --------------------------------------------------------------------------
# driving the real code

TCODE = {"branch": "b", "tree": "t", "checkout": "c", "lightweight-checkout": "l", "standalone": "s", "use-shared": "u"}
ERRMAP = {"AlreadyBranch": "E:Already", "AlreadyTree": "E:Already", "AlreadyCheckout": "E:Already",
          "AlreadyLightweightCheckout": "E:Already", "AlreadyUsingShared": "E:Already", "AlreadyStandalone": "E:Already",
          "UncommittedChanges": "E:UncommittedChanges", "UnsyncedBranches": "E:UnsyncedBranches",
          "NoBindLocation": "E:NoBindLocation", "ReconfigurationNotSupported": "E:NotSupported"}


def factory(target):
    from breezy import reconfigure
    R = reconfigure.Reconfigure
    return {"branch": R.to_branch, "tree": R.to_tree, "checkout": R.to_checkout,
            "lightweight-checkout": R.to_lightweight_checkout, "standalone": R.to_standalone,
            "use-shared": R.to_use_shared}[target]


def bind_location(br):
    """what _select_bind_location would find for a local branch (read from the branch, not through Reconfigure)"""
    loc = br.get_bound_location()
    for getter in (br.get_old_bound_location, br.get_push_location, br.get_parent):
        if loc is None:
            loc = getter()
    return loc


def model_state(path, info=None, want_ref=False):
    """the model's view of the location, read from the real objects (not through Reconfigure)"""
    from breezy.controldir import ControlDir
    from breezy.branch import Branch
    lay = layout_of(path)
    cd = ControlDir.open(path)
    br = cd.open_branch()
    dirty = False
    if lay["tree"]:
        wt = cd.open_workingtree()
        with wt.lock_read():
            dirty = wt.has_changes()
    ref = None
    if lay["branch"] == "reference":
        known, synced = True, True
        if want_ref:
            ref = branch_obs(br)
    else:
        loc = bind_location(br)
        known = loc is not None
        synced = True
        if known:
            try:
                rb = Branch.open(loc)
                synced = rb.last_revision() == br.last_revision()
                if want_ref:
                    ref = branch_obs(rb)
            except Exception:  # noqa
                synced = False
    above = os.path.isdir(os.path.join(os.path.dirname(path), ".bzr", "repository"))
    b = lambda x: "T" if x else "F"  # noqa
    st = "%s %s %s %s %s %s %s" % (b(lay["tree"]), b(dirty), {"local": "u", "bound": "b", "reference": "r"}[lay["branch"]],
                                   {"none": "n", "local": "o", "shared": "s"}[lay["repo"]], b(above), b(known), b(synced))
    return (st, ref) if want_ref else st


def short_state(path):
    st = model_state(path, None).split(" ")
    return "".join(st[:4]) + st[5]


def _picklable_errors(fn):
    """an exception class that cannot be pickled would hang the fork pool: re-raise as RuntimeError with the traceback"""
    import functools
    import traceback

    @functools.wraps(fn)
    def w(arg):
        try:
            return fn(arg)
        except Exception:  # noqa
            raise RuntimeError("%s%r failed:\n%s" % (fn.__name__, (arg,), traceback.format_exc())) from None
    return w


@_picklable_errors
def run_chain(arg):
    """(seedt, targets, force, unsync) -> result dict; module level for the fork pool"""
    seedt, targets, force, unsync = arg
    from breezy.controldir import ControlDir
    info = build_location(seedt)
    path = info["path"]
    res = dict(info=dict(source=info["source"], shared=info["shared"], dirty=info["dirty"], fmt=info["fmt"],
                         parent=bool(info["parent"]), dirty_ops=info["dirty_ops"], nrevs=len(info["revs"]),
                         flags=sorted(flags_of(seedt))), steps=[])
    try:
        if unsync and info["master"]:
            # the remembered location moves on: the branches are no longer in sync
            mwt = ControlDir.open(info["master"]).open_workingtree()
            with open(mwt.basedir + "/master-only", "wb") as f:
                f.write(b"m\n")
            mwt.add(["master-only"])
            _commit(mwt, "master moves", b"master-extra", 50)
            res["info"]["unsynced"] = True
        res["state0"], res["ref0"] = model_state(path, info, want_ref=True)
        res["obs0"] = observe(path)
        for t in targets:
            try:
                r = factory(t)(ControlDir.open(path))
                r.apply(force)
                out = "ok"
            except Exception as e:  # noqa
                n = type(e).__name__
                out = ERRMAP.get(n, "E:" + n)
                if n == "NotBranchError" and t == "use-shared":
                    out = "E:NoSharedRepository"
            step = dict(target=t, out=out)
            try:
                step["state"] = short_state(path)
                step["obs"] = observe(path)
            except Exception as e:  # noqa
                step["broken"] = "%s: %s" % (type(e).__name__, str(e)[:200])
            res["steps"].append(step)
            if "broken" in step:
                break
    finally:
        shutil.rmtree(info["root"], ignore_errors=True)
    return res


def tree_state(obs0, obs):
    if obs["tree"] is None:
        return "none"
    if obs0["tree"] is not None and obs["tree"] == obs0["tree"] and obs["status"] == obs0["status"]:
        return "kept"
    st = obs["status"]
    if not st["changes"] and len(st["parents"]) <= 1 and all(c[0] == "duplicate" for c in st["conflicts"]):
        return "clean"      # ('duplicate' conflicts: files a forced destroy_workingtree left behind, moved aside)
    return "other"


def tag_tables(obs0, ref0):
    names = sorted(set(obs0["tags"]) | set(ref0["tags"] if ref0 else ()))
    vals = sorted(set(obs0["tags"].values()) | set(ref0["tags"].values() if ref0 else ()))
    return names, vals


def enc_tags(tags, names, vals):
    """n:v list for the model request"""
    return ",".join("%d:%d" % (names.index(n), vals.index(v) + 1) for n, v in sorted(tags.items())) or "-"


def show_tags(tags, names, vals):
    """the value of every known tag name, in the model's reply format"""
    out = []
    for n in names:
        v = tags.get(n)
        out.append("-" if v is None else (str(vals.index(v) + 1) if v in vals else "?"))
    extra = sorted(set(tags) - set(names))
    return ",".join(out + ["+" + x for x in extra]) or "-"


_VARIANT = []


def probe_variant():
    """which behaviour does the code under test have: does an unforced to_lightweight_checkout refuse to replace a branch
    by a reference to a branch that defines one of its tags differently ("T"), or does it go ahead ("F", the unchanged
    code)?  Selects the model variant; the ORACLE does not depend on it."""
    if not _VARIANT:
        from breezy.controldir import ControlDir
        info = build_location((0, 0, "tree", False, False, "2a", "ct"))
        try:
            factory("lightweight-checkout")(ControlDir.open(info["path"])).apply(False)
            _VARIANT.append("F")
        except Exception as e:  # noqa
            _VARIANT.append("T" if type(e).__name__ == "UnsyncedBranches" else "F")
        finally:
            shutil.rmtree(info["root"], ignore_errors=True)
    return _VARIANT[0]


def check_chain(ctx, arg, res):
    seedt, targets, force, unsync = arg
    case = dict(seed=list(seedt), targets=list(targets), force=force, unsync=unsync)
    ctx.case(dict(state=res.get("state0"), targets=targets, force=force, nrevs=res["info"]["nrevs"], ops=res["info"]["dirty_ops"],
                  flags=res["info"]["flags"]),
             nontrivial=any(s["out"] == "ok" for s in res["steps"]))
    ctx.count("source:%s/%s/%s" % (res["info"]["source"], "shared" if res["info"]["shared"] else "own",
                                   "dirty" if res["info"]["dirty"] else "clean"))
    ctx.count("chain:%s%s" % ("forced" if force else "checked", "+unsynced" if res["info"].get("unsynced") else ""))
    for fl in res["info"]["flags"]:
        ctx.count("flag:" + fl)
    for op in res["info"]["dirty_ops"]:
        ctx.count("dirty:" + op)
    obs0, ref0 = res["obs0"], res["ref0"]
    names, vals = tag_tables(obs0, ref0)
    prev = obs0
    prev_state = "".join(res["state0"].split(" ")[:4]) + res["state0"].split(" ")[5]
    # what the history must look like: the observation at the start; after a FORCED replacement of the local branch by a
    # reference to a branch with another tip (the user overrode UnsyncedBranches), that branch's history
    base = {k: obs0[k] for k in ("tip", "revno", "testaments")}
    reftags = dict(ref0["tags"]) if ref0 else {}
    left_behind = False
    impl = []
    for idx, s in enumerate(res["steps"]):
        ctx.count("step:%s:%s" % (s["target"], s["out"]))
        if "broken" in s:
            ctx.violation(case, "after to_%s (%s) the location cannot be opened: %s" % (s["target"], s["out"], s["broken"]))
            impl.append("%s:broken" % s["out"])
            break
        o = s["obs"]
        # ---- oracle: history, tags; the tree when one is kept; no pending change is ever lost
        switch = s["target"] == "lightweight-checkout" and s["out"] == "ok" and prev_state[2] != "r"
        if switch and ref0 is not None and ref0["tip"] != prev["tip"]:
            if force:
                ctx.count("forced-switch-to-unsynced-reference")
                base = {k: ref0[k] for k in ("tip", "revno", "testaments")}
            else:
                ctx.violation(case, "to_lightweight-checkout (not forced) replaced the branch by a reference to a branch with "
                                    "another tip: %r -> %r" % (prev["tip"], ref0["tip"]))
        for k in ("tip", "revno", "testaments"):
            if o[k] != base[k]:
                ctx.violation(case, "to_%s (%s) changed %s: %r -> %r" % (s["target"], s["out"], k, base[k], o[k]))
        if switch:
            # local tags are merged into the referenced branch: every local definition survives, nothing else appears
            lost = sorted(n for n, v in prev["tags"].items() if o["tags"].get(n) != v)
            for n in lost:
                conflict = n in reftags and reftags[n] != prev["tags"][n] and o["tags"].get(n) == reftags[n]
                if conflict and force:
                    ctx.count("forced-switch-drops-conflicting-tag")        # the user overrode _check
                    continue
                ctx.violation(case, "to_lightweight-checkout changed tag %r: %r -> %r%s" % (
                    n, prev["tags"][n], o["tags"].get(n), " (conflicting definition in the referenced branch)" if conflict else ""))
            for n, v in o["tags"].items():
                if prev["tags"].get(n) != v and reftags.get(n) != v:
                    ctx.violation(case, "to_lightweight-checkout invented tag %r = %r" % (n, v))
            reftags = dict(o["tags"])
        elif o["tags"] != prev["tags"]:
            ctx.violation(case, "to_%s (%s) changed tags: %r -> %r" % (s["target"], s["out"], prev["tags"], o["tags"]))
        if prev["tree"] is not None and o["tree"] is not None and (o["tree"] != prev["tree"] or o["status"] != prev["status"]):
            ctx.violation(case, "to_%s (%s) changed the working tree: %r" % (
                s["target"], s["out"], [k for k in set(o["tree"]) | set(prev["tree"]) if o["tree"].get(k) != prev["tree"].get(k)][:4]
                or [k for k in o["status"] if o["status"][k] != prev["status"][k]]))
        if prev["tree"] is not None and o["tree"] is None:
            st = prev["status"]
            if st["changes"] or len(st["parents"]) > 1:
                if not force:
                    ctx.violation(case, "to_%s destroyed a working tree with pending changes" % s["target"])
                else:
                    ctx.count("forced-destroy-of-dirty-tree")
                    left_behind = True          # modified files stay on disk
        if prev["tree"] is None and o["tree"] is not None:
            st = o["status"]
            bad_conflicts = [c for c in st["conflicts"] if not (left_behind and c[0] == "duplicate")]
            if st["changes"] or bad_conflicts or st["parents"] != ([o["tip"]] if o["tip"] != "null:" else []):
                ctx.violation(case, "to_%s created a working tree that is not the clean tree of the tip" % s["target"])
        pparents = (prev["status"] or {}).get("parents", [])
        exempt_basis = False
        newghost = [p for p in o["ghost_parents"] if p not in prev["ghost_parents"] and p in pparents]
        if newghost and force and switch and o["tip"] != prev["tip"] and newghost == pparents[:1]:
            # forced replacement by a reference to a branch that lacks the old tip: the kept tree's basis is not in
            # that branch's repository (the user overrode UnsyncedBranches)
            ctx.count("forced-switch-leaves-tree-basis-behind")
            newghost = []
            exempt_basis = True
        if newghost:
            # a parent of the kept working tree is still listed, but the revision it names is gone from the repository of
            # the branch: a pending merge, or the basis of a tree that is not at the branch tip (fixed in /repo by 995730b)
            ctx.violation(case, "to_%s (%s): the revision of tree parent %r is no longer in the repository of the branch"
                          % (s["target"], s["out"], newghost))
        if prev["tree"] is not None and o["tree"] is not None and not exempt_basis:
            now = dict(o["testaments"])
            now.update(o["tree_history"])
            lost = sorted(r for r, t in prev["tree_history"].items() if t != "MISSING" and now.get(r) != t)
            if lost and not newghost:
                ctx.violation(case, "to_%s (%s): history the working tree refers to (ancestry of its parents %r) is no longer "
                                    "in the repository of the branch / changed: %r" % (s["target"], s["out"], pparents, lost[:4]))
        if s["out"] not in ("ok", "E:NoBindLocation") and s["state"] != prev_state:
            ctx.count("error-changed-layout:%s" % s["out"])
        if s["out"] == "ok":
            # the layout asked for is the layout obtained (state = tree, dirty, branch kind, repository kind, ...)
            st = s["state"]
            want = {"branch": st[0] == "F" and st[2] == "u", "tree": st[0] == "T" and st[2] == "u",
                    "checkout": st[0] == "T" and st[2] == "b", "lightweight-checkout": st[0] == "T" and st[2] == "r",
                    "standalone": st[3] == "o", "use-shared": st[3] != "o"}[s["target"]]
            if not want:
                ctx.violation(case, "to_%s succeeded but the location is %s (tree, dirty, branch u|b|r, repository n|o|s, "
                                    "bind location known)" % (s["target"], st))
        tipc = "o" if o["tip"] == obs0["tip"] else ("m" if ref0 is not None and o["tip"] == ref0["tip"] else "?")
        impl.append("%s:%s:%s:%s:%s" % (s["out"], s["state"], tree_state(obs0, o), tipc, show_tags(o["tags"], names, vals)))
        prev = o
        prev_state = s["state"]
    line = "chain %s %s %s %s %s %s" % (probe_variant(), "T" if force else "F", ",".join(TCODE[t] for t in targets), res["state0"],
                                     enc_tags(obs0["tags"], names, vals), enc_tags(ref0["tags"], names, vals) if ref0 else "-")
    if obs0["status"] and obs0["status"]["parents"] == ([obs0["tip"]] if obs0["tip"] != "null:" else []):
        res["state0"] += " U"
        if obs0["tip"] == "null:" and res["state0"].split(" ")[1] == "F":
            # the re-created (empty) tree of a branch without commits is the original one up to its root id, which is
            # fresh in rich-root formats: "kept" and "clean" are the same observation here
            impl = [x.replace(":clean:o:", ":kept:o:") for x in impl]
    else:
        ctx.count("start:tree-absent-or-not-at-tip")
    return case, line, " ".join(impl)


def canon_model(reply, state0):
    """a re-created clean tree of the ORIGINAL tip is indistinguishable from the original tree when that was clean and
    up to date (state0 ends in "U" then; an out-of-date lightweight checkout is TreeInv-false: its re-created tree differs)"""
    st = state0.split(" ")
    if st[0] == "T" and st[1] == "F" and st[-1] == "U":
        return " ".join(x.replace(":clean:o:", ":kept:o:") for x in reply.split(" "))
    return reply


def corpus_cases():
    """corpus/C52/*.json: past failures / false alarms / findings, run first on every run"""
    import glob
    import json
    return [json.load(open(f)) for f in sorted(glob.glob(os.path.join(env.VERIF, "corpus", "C52", "*.json")))]


def scenarios(ctx):
    """(seedt, targets, force, unsync) jobs"""
    rng = ctx.rng
    combos = []
    for source in SOURCES:
        for shared in (False, True):
            for dirty in (False, True):
                if source == "branch" and dirty:
                    continue
                combos.append((source, shared, dirty))
    pairs = [(c, t) for c in combos for t in TARGETS]        # 14 x 6 = 84 ordered (source layout, target) pairs
    if not ctx.thorough():
        # rotate by seed: a third of the pairs per run, every pair within three consecutive seeds
        pairs = [p for i, p in enumerate(pairs) if (i + ctx.seed) % 3 == 0]
    jobs = [(tuple(c["seed"]), c["targets"], c["force"], c.get("unsync", False)) for c in corpus_cases() if "targets" in c]
    idx = 0
    if not ctx.thorough():
        # the transitions that destroy or re-create something run on every seed
        core = [(("tree", False, True), "branch"), (("checkout", True, True), "branch"),
                (("lightweight-checkout", False, True), "branch"), (("lightweight-checkout", True, True), "tree"),
                (("tree", True, True), "standalone"), (("checkout", False, True), "lightweight-checkout")]
        pairs = core + [p for p in pairs if p not in core]
    fmts = ["2a", "2a", "1.9", "pack-0.92"]     # (knit-era branches lack old-bound locations: upgrade stream only)

    def flags(dirty, p=0.3):
        fl = [f for f in ("xt", "gt", "lt") if rng.random() < p * 0.7]
        if dirty:
            fl += [f for f in ("pm", "cf", "ms") if rng.random() < p]
        if rng.random() < p * 0.3:
            fl.append("ct")
        if rng.random() < p * 0.4:
            fl.append("bh")
        if rng.random() < p * 0.25:
            fl = ["nt"] + [f for f in fl if f in ("pm", "cf", "gt")]
        return ",".join(fl)

    for (source, shared, dirty), t in pairs:
        idx += 1
        jobs.append(((ctx.seed, idx, source, shared, dirty, fmts[idx % len(fmts)] if ctx.thorough() else fmts[(idx + ctx.seed) % 4],
                      flags(dirty)), [t], False, rng.random() < 0.15))
    # every run: forced and refused replacements of a branch by a reference to a branch that has moved on / lags behind,
    # with and without a working tree to re-create, then back again
    for k, (source, shared, dirty, force, unsync, fl, ts) in enumerate([
            ("checkout", False, True, True, True, "", ["lightweight-checkout", "tree"]),
            ("tree", True, False, True, False, "bh", ["lightweight-checkout", "branch", "tree"]),
            ("branch", False, False, True, True, "xt", ["lightweight-checkout", "checkout"]),
            ("checkout", True, True, False, True, "", ["lightweight-checkout", "branch"]),
            ("tree", False, True, False, False, "bh,xt", ["lightweight-checkout", "checkout", "lightweight-checkout"]),
            ("tree", rng.random() < 0.5, True, True, True, "pm", ["branch", "tree", "lightweight-checkout"]),
            # in sync, tags on both sides that the other lacks: merged into the referenced branch, kept when coming back
            ("tree", rng.random() < 0.5, True, False, False, "lt,xt,pm", ["lightweight-checkout", "tree"])]):
        idx += 1
        jobs.append(((ctx.seed, idx, source, shared, dirty, fmts[(k + ctx.seed) % 4], fl), ts, force, unsync))
    # branches WITHOUT commits (tip null:), for every transition: with an uncommitted merge of another branch in the tree
    # (its only parent is the merged tip) and plain empty; quick tier: the tree sources x every target + a rotating rest
    ntjobs = []
    for source in SOURCES:
        for shared in (False, True):
            for t in TARGETS:
                for fl, dirty in (("nt,pm", True), ("nt,pm", False), ("nt", False)):
                    if source == "branch" and (dirty or "pm" in fl):
                        continue
                    ntjobs.append((source, shared, dirty, fl, t))
    if not ctx.thorough():
        keep = [j for j in ntjobs if j[0] == "tree" and j[3] == "nt,pm" and j[2]]
        rest = [j for j in ntjobs if j not in keep]
        ntjobs = keep + [j for i, j in enumerate(rest) if (i + ctx.seed) % 8 == 0]
    for source, shared, dirty, fl, t in ntjobs:
        idx += 1
        jobs.append(((ctx.seed, idx, source, shared, dirty, fmts[(idx + ctx.seed) % 4], fl), [t], False, False))
    for _ in range(ctx.pick(10, 120)):
        idx += 1
        source, shared, dirty = rng.choice(combos)
        k = rng.randint(2, 4)
        jobs.append(((ctx.seed, idx, source, shared, dirty, rng.choice(fmts), flags(dirty, 0.4)),
                     [rng.choice(TARGETS) for _ in range(k)], rng.random() < 0.15, rng.random() < 0.15))
    return jobs


# --------------------------------------------------------------------------
# format upgrades

UPGRADE_FORMATS = ["knit", "dirstate", "dirstate-tags", "pack-0.92", "rich-root", "rich-root-pack", "1.6", "1.6.1-rich-root",
                   "1.9", "1.9-rich-root", "1.14", "1.14-rich-root", "2a", "dirstate-with-subtree", "pack-0.92-subtree"]
DEFAULT_TRIPLE = ("RepositoryFormat2a", "BzrBranchFormat7", "WorkingTreeFormat6")
BRANCH_FMT = {"BzrBranchFormat5": 5, "BzrBranchFormat6": 6, "BzrBranchFormat7": 7, "BzrBranchFormat8": 8}
TREE_FMT = {"WorkingTreeFormat3": 3, "WorkingTreeFormat4": 4, "WorkingTreeFormat5": 5, "WorkingTreeFormat6": 6}

_UPLOG = []
_UPLOG_INSTALLED = [False]


def component_formats(cd):
    """(repository class | None, branch class | None, working tree class | None) of ONE control directory"""
    from breezy import errors
    try:
        r = type(cd.open_repository()._format).__name__
    except errors.NoRepositoryPresent:
        r = None
    try:
        # (a branch reference is followed: ConvertMetaToMeta uses list_branches(), which opens the referenced branch)
        b = type(cd.open_branch(unsupported=True)._format).__name__
    except errors.NotBranchError:
        b = None
    try:
        t = type(cd.open_workingtree(recommend_upgrade=False)._format).__name__
    except errors.NoWorkingTree:
        t = None
    return [r, b, t]


def install_upgrade_log():
    """record, in this process, every Convert (control dir, component formats before / after, target, outcome), every pass
    of ConvertMetaToMeta.convert and every component converter it runs, in order"""
    if _UPLOG_INSTALLED[0]:
        return
    _UPLOG_INSTALLED[0] = True
    from breezy import upgrade, repository
    from breezy.bzr import bzrdir, branch as bzrbranch, workingtree_4

    def wrap(cls, label):
        orig = cls.convert

        def convert(self, *a, **k):
            _UPLOG.append(label)
            return orig(self, *a, **k)
        cls.convert = convert
    wrap(repository.CopyConverter, "repo")
    wrap(bzrbranch.Converter5to6, "b5to6")
    wrap(bzrbranch.Converter6to7, "b6to7")
    wrap(bzrbranch.Converter7to8, "b7to8")
    wrap(workingtree_4.Converter3to4, "t3to4")
    wrap(workingtree_4.Converter4to5, "t4to5")
    wrap(workingtree_4.Converter4or5to6, "t4or5to6")
    wrap(bzrdir.ConvertMetaToMeta, "/")
    wrap(bzrdir.ConvertMetaToColo, "colo")
    orig_init = upgrade.Convert.__init__

    def init(self, url=None, format=None, control_dir=None):
        from breezy.controldir import ControlDir
        cd = control_dir if control_dir is not None else ControlDir.open_unsupported(url)
        if format is None:
            target = list(DEFAULT_TRIPLE)
        else:
            target = [type(format.repository_format).__name__, type(format.get_branch_format()).__name__,
                      type(format.workingtree_format).__name__]
        rec = dict(dir=cd.user_url.rstrip("/").rsplit("/", 1)[-1], before=component_formats(cd), target=target,
                   meta=type(cd._format).__name__, meta_target=type(format).__name__ if format is not None else None)
        _UPLOG.append(rec)
        start = len(_UPLOG)
        try:
            orig_init(self, url=url, format=format, control_dir=control_dir)
            rec["out"] = "ok"
        except Exception as e:  # noqa
            rec["out"] = "E:" + type(e).__name__
            raise
        finally:
            rec["steps"] = _UPLOG[start:]
            del _UPLOG[start:]
            try:
                rec["after"] = component_formats(ControlDir.open_unsupported(cd.user_url))
            except Exception as e:  # noqa
                rec["after"] = "E:" + type(e).__name__
    upgrade.Convert.__init__ = init


def formats_of(path):
    from breezy.controldir import ControlDir
    from breezy import errors
    cd = ControlDir.open(path)
    try:
        t = type(cd.open_workingtree()._format).__name__
    except errors.NoWorkingTree:
        t = None
    br = cd.open_branch()
    return (type(br.repository._format).__name__, type(br._format).__name__, t, type(cd._format).__name__)


@_picklable_errors
def run_upgrade(arg):
    """(seedt, target format name | None) -> result dict"""
    seedt, target = arg
    from breezy import upgrade
    from breezy.controldir import format_registry
    install_upgrade_log()
    info = build_location(seedt)
    res = dict(fmt=info["fmt"], target=target, shared=info["shared"], source=info["source"], dirty=info["dirty"],
               dirty_ops=info["dirty_ops"], flags=sorted(flags_of(seedt)))
    try:
        path = info["path"]
        path2 = os.path.join(os.path.dirname(path), "loc2")
        res["obs0"] = observe(path, locations=True)
        res["f0"] = formats_of(path)
        if os.path.isdir(path2):
            res["second0"] = observe(path2, locations=True)
        todo = [path]
        if info["shared"]:
            todo = [os.path.dirname(path)]          # the shared repository (its branches are upgraded with it)
        elif info["source"] in ("checkout", "lightweight-checkout") and "um" in flags_of(seedt):
            todo = [info["master"], path]           # the master first, then what was checked out of it
        del _UPLOG[:]
        try:
            excs = []
            for p in todo:
                excs += upgrade.upgrade(p, None if target is None else format_registry.make_controldir(target), clean_up=True)
            res["out"] = "ok" if not excs else "E:" + type(excs[0]).__name__
            if excs:
                res["errtext"] = str(excs[0])[:200]
        except Exception as e:  # noqa
            res["out"] = "E:" + type(e).__name__
            res["errtext"] = str(e)[:200]
        res["log"] = [x for x in _UPLOG if isinstance(x, dict)]
        try:
            res["obs"] = observe(path, locations=True)
            res["f1"] = formats_of(path)
            if os.path.isdir(path2):
                res["second"] = observe(path2, locations=True)
            res["leftovers"] = sorted(n for n in os.listdir(path) if n.startswith("backup.bzr"))
        except Exception as e:  # noqa
            res["broken"] = "%s: %s" % (type(e).__name__, str(e)[:200])
    finally:
        shutil.rmtree(info["root"], ignore_errors=True)
    return res


def upgrade_lines(res):
    """one model request + the implementation's reply in the model's format per Convert the upgrade made"""
    out = []
    obs0 = res["obs0"]
    for rec in res["log"]:
        if rec["meta_target"] not in (None, "BzrDirMetaFormat1") or rec["meta"] != "BzrDirMetaFormat1" or isinstance(rec["after"], str):
            out.append(None)            # a control directory format change (development-colo): not ConvertMetaToMeta
            continue
        rnames = sorted(set(x for x in (rec["before"][0], rec["target"][0], rec["after"][0]) if x))
        rid = lambda x: "~" if x is None else str(rnames.index(x) + 1)           # noqa
        bid = lambda x: "~" if x is None else str(BRANCH_FMT.get(x, 99))          # noqa
        tid = lambda x: "~" if x is None else str(TREE_FMT.get(x, 99))            # noqa
        mine = rec["dir"] == "loc"
        n = obs0["revno"] if rec["dir"] in ("loc", "master") else 1
        parents0 = (obs0["status"]["parents"] if obs0["status"] else []) if mine and rec["before"][2] else None
        pm = max(0, len(parents0) - 1) if parents0 is not None else 0
        line = "upgrade %s %s %s %s %s %s %d %d" % (rid(rec["before"][0]), bid(rec["before"][1]), tid(rec["before"][2]),
                                                    rid(rec["target"][0]), bid(rec["target"][1]), tid(rec["target"][2]), n, pm)
        passes = []
        for x in rec["steps"]:
            if x == "/":
                passes.append([])
            elif passes:
                passes[-1].append(x)
        ptxt = "/".join("+".join(p) or "0" for p in passes) or "-"
        a = rec["after"]
        kind = {"ok": "ok", "E:UpToDateFormat": "E:UpToDate", "E:BadConversionTarget": "E:BadConversionTarget"}.get(rec["out"], rec["out"])
        # last_revision_info and the tree's parents as OBSERVED afterwards (for the location under test), in the model's
        # numbering: mainline revision k is k, pending merge i is 100 + i
        info = "~" if a[1] is None else "%d.%d" % (n, n)
        par = "~" if a[2] is None else (",".join([str(n)] * (1 if n else 0) + [str(100 + i) for i in range(pm)]) or "-")
        if mine and "obs" in res:
            o = res["obs"]
            if a[1] is not None:
                info = "%d.%s" % (o["revno"], n if o["tip"] == obs0["tip"] else "?")
            if a[2] is not None and parents0 is not None and o["status"]:
                num = {obs0["tip"]: str(n)}
                num.update({p: str(100 + i) for i, p in enumerate(parents0[1:])})
                par = ",".join(num.get(p, "?") for p in o["status"]["parents"]) or "-"
        out.append((line, "%s %s %s %s %s %s %s T" % (kind, rid(a[0]), bid(a[1]), tid(a[2]), ptxt, info, par)))
    return out


def check_upgrade(ctx, arg, res):
    """-> case, [(model request, implementation reply in the model's format)]"""
    seedt, target = arg
    case = dict(seed=list(seedt), upgrade_to=target or "default")
    ctx.case(dict(fmt=res["fmt"], target=target, shared=res["shared"], dirty=res["dirty"], source=res["source"],
                  flags=res["flags"], ops=res["dirty_ops"]),
             nontrivial=res.get("f0") != res.get("f1"))
    ctx.count("upgrade:%s->%s:%s" % (res["fmt"], target or "default", res.get("out")))
    ctx.count("upgrade-source:%s/%s%s" % (res["source"], "shared" if res["shared"] else "own",
                                          "".join("+" + f for f in res["flags"])))
    for op in res["dirty_ops"]:
        ctx.count("upgrade-dirty:" + op)
    if "broken" in res:
        ctx.violation(case, "after upgrading %s the location cannot be opened: %s" % (res["fmt"], res["broken"]))
        return case, []
    for a0, a1, what in ((res["obs0"], res["obs"], ""), (res.get("second0"), res.get("second"), "of the second branch ")):
        if a0 is None:
            continue
        for k in a0:
            if a1[k] != a0[k]:
                a, b = a0[k], a1[k]
                detail = ""
                if isinstance(a, dict) and isinstance(b, dict):
                    detail = repr([(x, a.get(x), b.get(x)) for x in sorted(set(a) | set(b), key=str) if a.get(x) != b.get(x)][:3])
                else:
                    detail = "%r -> %r" % (a, b)
                ctx.violation(case, "upgrade %s -> %s changed %s%s %s" % (res["fmt"], target or "default", what, k, detail))
    if res["out"] == "ok" and target is None:
        want = DEFAULT_TRIPLE if res["f1"][2] is not None else DEFAULT_TRIPLE[:2] + (None,)
        if res["source"] == "lightweight-checkout" and "um" not in res["flags"]:
            # the repository of the referenced branch is not touched; the referenced branch itself IS converted
            # (ConvertMetaToMeta follows the reference), although upgrade says it "needs to be upgraded separately"
            want = (res["f0"][0], DEFAULT_TRIPLE[1], DEFAULT_TRIPLE[2])
            ctx.count("upgrade-through-reference:%s->%s" % (res["f0"][1], res["f1"][1]))
        if res["f1"][:3] != want:
            ctx.violation(case, "upgrade of %s reports success but the formats are %r" % (res["fmt"], res["f1"]))
    if res["out"] != "ok":
        ctx.violation(case, "upgrade of %s failed: %s %s" % (res["fmt"], res["out"], res.get("errtext", "")))
    if res.get("leftovers"):
        ctx.count("backup-left")
    pairs = []
    for rec, lp in zip(res["log"], upgrade_lines(res)):
        ctx.count("convert:%s:%s" % ("/".join("%s" % (x or "-") for x in rec["before"]), rec["out"]))
        if lp is None:
            ctx.count("convert-not-modelled:%s" % rec["meta_target"])
        else:
            pairs.append(lp)
    return case, pairs


# --------------------------------------------------------------------------

def upgrade_jobs(ctx):
    ujobs = [(tuple(c["seed"]), None if c["upgrade_to"] == "default" else c["upgrade_to"]) for c in corpus_cases()
             if "upgrade_to" in c]
    if ctx.thorough():
        fmts = UPGRADE_FORMATS
    else:
        # every run covers every converter class (branch 5 -> 6 -> 7 -> 8, tree 3 -> 4 -> 5 -> 6, knit / pack -> 2a):
        # knit (branch 5, tree 3), dirstate-tags (branch 6, tree 4), 1.14 (branch 7, tree 5) first, then the others
        fmts = ["knit", "dirstate-tags", "1.14"] + [f for f in UPGRADE_FORMATS if f not in ("knit", "dirstate-tags", "1.14")]
    # source kinds: (source, shared, flags)
    kinds = [("tree", False, "pm,cf"), ("checkout", False, "ms"), ("tree", True, "b2,pm"), ("branch", False, ""),
             ("lightweight-checkout", False, "um,pm"), ("branch", True, "b2"), ("lightweight-checkout", False, ""),
             ("checkout", False, "um,cf,gt"), ("tree", False, "gt,ms")]
    idx = 1000
    for i, f in enumerate(fmts):
        for k in range(ctx.pick(1, 4)):
            idx += 1
            source, shared, fl = kinds[(i + k * 2 + ctx.seed) % len(kinds)] if (ctx.thorough() or i >= 3) else kinds[k]
            if ctx.thorough() and k == 3:
                source, shared, fl = kinds[ctx.rng.randrange(len(kinds))]
            ujobs.append(((ctx.seed, idx, source, shared, source != "branch", f, fl), None))
    if not ctx.thorough():
        # the three converter-chain formats also from a second source kind, rotating
        for j, f in enumerate(("knit", "dirstate-tags", "1.14")):
            idx += 1
            source, shared, fl = kinds[3 + (ctx.seed + j) % (len(kinds) - 3)]
            ujobs.append(((ctx.seed, idx, source, shared, source != "branch", f, fl), None))
    idx += 1
    ujobs.append(((ctx.seed, idx, "tree", False, True, "2a", ""), "development-colo"))
    return ujobs


def run(ctx):
    # create the user configuration (config dir, ignore file) BEFORE forking: concurrent first use in the pool workers
    # races in bedding.ensure_config_dir_exists (FileExistsError)
    from breezy import ignores
    ignores.get_user_ignores()
    ctx.extra["model_variant_tagCheck"] = probe_variant()
    jobs = scenarios(ctx)
    results = ctx.pmap(run_chain, jobs)
    cases, lines, impls, states = [], [], [], []
    for a, r in zip(jobs, results):
        if "state0" not in r or "obs0" not in r:
            ctx.count("scenario-build-failed")
            continue
        c, l, i = check_chain(ctx, a, r)
        if "E:IncompatibleRepositories" in i:
            # a repository created by to_standalone for a lightweight checkout has the default format, not the
            # branch's: a later fetch into an older shared repository is refused (nothing changes). Counted only.
            ctx.count("excluded:incompatible-repositories")
            continue
        cases.append(c); lines.append(l); impls.append(i); states.append(r["state0"])
    ujobs = upgrade_jobs(ctx)
    uresults = ctx.pmap(run_upgrade, ujobs)
    for a, r in zip(ujobs, uresults):
        c, pairs = check_upgrade(ctx, a, r)
        for l, i in pairs:
            cases.append(c); lines.append(l); impls.append(i); states.append(None)
    if ctx.model_available and lines:
        outs = ctx.model(lines)
        for c, l, i, m, st in zip(cases, lines, impls, outs, states):
            ctx.traces += 1
            if st is not None:
                m = canon_model(m, st)
            if i != m:
                ctx.mismatch(c, i, m, line=l)


def replay(ctx, case):
    if "targets" in case:
        arg = (tuple(case["seed"]), case["targets"], case["force"], case.get("unsync", False))
        r = run_chain(arg)
        c, l, i = check_chain(ctx, arg, r)
        m = canon_model(ctx.model([l])[0], r["state0"]) if ctx.model_available else None
        return dict(case=case, impl=i, model=m, agree=(i == m), oracle_failures=[v["what"] for v in ctx.violations])
    arg = (tuple(case["seed"]), None if case["upgrade_to"] == "default" else case["upgrade_to"])
    r = run_upgrade(arg)
    c, pairs = check_upgrade(ctx, arg, r)
    i = [x[1] for x in pairs]
    m = ctx.model([x[0] for x in pairs]) if ctx.model_available and pairs else []
    return dict(case=case, impl=i, model=m, agree=(i == m), log=r.get("log"), out=r.get("out"),
                oracle_failures=[v["what"] for v in ctx.violations])
