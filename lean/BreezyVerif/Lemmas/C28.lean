import BreezyVerif.Model.C28
/-!
C28 — specification vocabulary (balanced physical logs, invariants, log-free
"core" of a state) and the step lemmas behind the theorems of `Props/C28.lean`.
-/
namespace BreezyVerif.C28

/-- `alternates held log`: walk a log of physical calls starting from `held`;
`none` as soon as a lock is acquired while held or released while not held,
otherwise whether the lock is held at the end. -/
def alternates : Bool → List Ev → Option Bool
  | b, [] => some b
  | b, e :: l =>
    if e = .rel then (if b then alternates false l else none)
    else (if b then none else alternates true l)

/-- the log is a prefix of `(acquire release)*` and ends with the lock `held` -/
def Balanced (log : List Ev) (held : Bool) : Prop := alternates false log = some held

theorem alternates_append (l₁ l₂ : List Ev) : ∀ b,
    alternates b (l₁ ++ l₂) = (alternates b l₁).bind (fun b' => alternates b' l₂) := by
  induction l₁ with
  | nil => intro b; simp [alternates]
  | cons e l ih =>
    intro b
    simp only [List.cons_append, alternates]
    split <;> split <;> simp [ih]

theorem Balanced.acquire {log : List Ev} (h : Balanced log false) (e : Ev) (he : e ≠ .rel) :
    Balanced (log ++ [e]) true := by
  unfold Balanced at *
  rw [alternates_append, h]
  simp [alternates, he]

theorem Balanced.release {log : List Ev} (h : Balanced log true) :
    Balanced (log ++ [.rel]) false := by
  unfold Balanced at *
  rw [alternates_append, h]
  simp [alternates]

theorem Balanced.nil : Balanced [] false := rfl

/-- a lock taken and given back within one call keeps a free lock balanced -/
theorem Balanced.acquire_release {log : List Ev} (h : Balanced log false) (e : Ev) (he : e ≠ .rel) :
    Balanced (log ++ [e] ++ [.rel]) false := (h.acquire e he).release

/-! ### invariants -/

/-- CountedLock: mode, count and the physical lock agree, the log is balanced -/
structure CL.Inv (s : CL) : Prop where
  mode_held : s.mode = s.phys.held
  mode_count : s.mode.isSome = true ↔ 0 < s.count
  bal : Balanced s.phys.log s.phys.held.isSome

/-- LockableFiles: additionally a transaction of the lock's mode is open -/
structure LF.Inv (s : LF) : Prop where
  mode_held : s.mode = s.phys.held
  txn_mode : s.txn = s.mode
  mode_count : s.mode.isSome = true ↔ 0 < s.count
  bal : Balanced s.phys.log s.phys.held.isSome

/-- nesting depth of a PackRepository -/
def Repo.depth (s : Repo) : Nat := s.wcount + s.cf.count

/-- PackRepository: write count and control-files read count exclude each
other, the fallbacks are locked once exactly while the repository is locked -/
structure Repo.Inv (s : Repo) : Prop where
  cf : s.cf.Inv
  excl : s.wcount = 0 ∨ s.cf.count = 0
  fb_pos : 0 < s.depth → s.fb = 1
  fb_zero : s.depth = 0 → s.fb = 0
  fb_bal_pos : 0 < s.depth → Balanced s.fbLog true
  fb_bal_zero : s.depth = 0 → Balanced s.fbLog false

structure Branch.Inv (s : Branch) : Prop where
  cf : s.cf.Inv
  repo : s.repo.Inv

/-- the branch holds its repository while it is locked (violated only when a
caller unlocks the repository behind the branch's back) -/
def Branch.Consistent (s : Branch) : Prop := 0 < s.cf.count → 0 < s.repo.depth

/-! ### log-free cores -/

/-- `viaTok` is dead data while the lock is not held (`lock_write` assigns it on every
acquisition, `unlock` is its only reader), so the core normalises it then -/
def Phys.core (p : Phys) : Phys := { p with log := [], viaTok := p.held.isSome && p.viaTok }
def LF.core (s : LF) : LF := { s with phys := s.phys.core }
def Repo.core (s : Repo) : Repo := { s with cf := s.cf.core, fbLog := [] }
def Branch.core (s : Branch) : Branch := { cf := s.cf.core, repo := s.repo.core }

/-! ### CountedLock -/

theorem CL.inv_init (ext : Bool) (rb : Bool := false) : (CL.init ext rb).Inv :=
  ⟨rfl, by simp [CL.init], Balanced.nil⟩

theorem Phys.lockWrite_ok {p p' : Phys} {tok t : Option Nat} (h : p.lockWrite tok = .ok (p', t)) :
    p'.held = some .w ∧ ∃ e, e ≠ Ev.rel ∧ p'.log = p.log ++ [e] := by
  unfold Phys.lockWrite at h
  split at h
  · split at h
    · injection h with h; injection h with h1 h2; subst h1
      exact ⟨rfl, .acqT, by decide, rfl⟩
    · cases h
  · split at h
    · cases h
    · injection h with h; injection h with h1 h2; subst h1
      exact ⟨rfl, .acqW, by decide, rfl⟩

theorem Phys.lockRead_ok {p p' : Phys} (h : p.lockRead = .ok p') :
    p' = { p with held := some .r, log := p.log ++ [.acqR] } ∧ p.rblock = false := by
  unfold Phys.lockRead at h
  split at h
  · cases h
  · next hb => injection h with h; exact ⟨h.symm, by simpa using hb⟩

theorem Phys.lockRead_err {p : Phys} {e : Err} (h : p.lockRead = .error e) :
    e = .contention ∧ p.rblock = true := by
  unfold Phys.lockRead at h
  split at h
  · next hb => injection h with h; exact ⟨h.symm, hb⟩
  · cases h

theorem CL.inv_step {s : CL} (h : s.Inv) (o : Op) : (s.step o).1.Inv := by
  obtain ⟨h1, h2, h3⟩ := h
  cases o with
  | lockRead =>
    simp only [CL.step, CL.lockRead]
    split
    · next hm => exact ⟨h1, by simp_all, h3⟩
    · next hm =>
      have hh : s.phys.held = none := by rw [← h1]; simpa using hm
      split
      · exact ⟨h1, h2, h3⟩
      · next p hp =>
        obtain ⟨rfl, _⟩ := Phys.lockRead_ok hp
        refine ⟨rfl, by simp, ?_⟩
        simp only [Option.isSome_some]
        rw [hh] at h3
        exact h3.acquire _ (by decide)
  | lockWrite tok =>
    simp only [CL.step, CL.lockWrite]
    split
    · next hc =>
      split
      · exact ⟨h1, h2, h3⟩
      · next p t hp =>
        obtain ⟨hw, e, he, hl⟩ := Phys.lockWrite_ok hp
        have hm : s.mode = none := by
          cases hm : s.mode with
          | none => rfl
          | some m => have := h2.mp (by simp [hm]); omega
        refine ⟨by simp [hw], by simp, ?_⟩
        simp only [hw, hl, Option.isSome_some]
        rw [← h1, hm] at h3
        exact h3.acquire e he
    · split
      · exact ⟨h1, h2, h3⟩
      · split
        · exact ⟨h1, h2, h3⟩
        · exact ⟨h1, by simp_all, h3⟩
  | unlock =>
    simp only [CL.step, CL.unlock]
    split
    · exact ⟨h1, h2, h3⟩
    · next hc =>
      split
      · next hc1 =>
        have hm : s.mode.isSome = true := h2.mpr (by omega)
        refine ⟨rfl, by simp, ?_⟩
        simp only [Phys.unlock, Option.isSome_none]
        rw [← h1, hm] at h3
        exact h3.release
      · next hc1 =>
        refine ⟨h1, ⟨fun _ => ?_, fun _ => h2.mpr (by omega)⟩, h3⟩
        show 0 < s.count - 1
        omega

theorem CL.inv_run {s : CL} (h : s.Inv) (ops : List Op) : (s.run ops).Inv := by
  induction ops generalizing s with
  | nil => exact h
  | cons o ops ih => exact ih (CL.inv_step h o)

/-! ### LockableFiles -/

theorem LF.inv_init (ext : Bool) (rb : Bool := false) : (LF.init ext rb).Inv :=
  ⟨rfl, rfl, by simp [LF.init], Balanced.nil⟩

theorem LF.inv_step {s : LF} (h : s.Inv) (o : Op) : (s.step o).1.Inv := by
  obtain ⟨h1, ht, h2, h3⟩ := h
  cases o with
  | lockRead =>
    simp only [LF.step, LF.lockRead]
    split
    · next hm => exact ⟨h1, ht, by simp_all, h3⟩
    · next hm =>
      have hmn : s.mode = none := by simpa using hm
      have hh : s.phys.held = none := by rw [← h1]; exact hmn
      have htn : s.txn = none := by rw [ht]; exact hmn
      split
      · exact ⟨h1, ht, h2, h3⟩
      · next p hp =>
        obtain ⟨rfl, _⟩ := Phys.lockRead_ok hp
        simp only [htn, Option.isSome_none, Bool.false_eq_true, if_false]
        refine ⟨rfl, rfl, by simp, ?_⟩
        simp only [Option.isSome_some]
        rw [hh] at h3
        exact h3.acquire _ (by decide)
  | lockWrite tok =>
    simp only [LF.step, LF.lockWrite]
    split
    · next hm =>
      split
      · exact ⟨h1, ht, h2, h3⟩
      · split
        · exact ⟨h1, ht, h2, h3⟩
        · exact ⟨h1, ht, by simp_all, h3⟩
    · next hm =>
      have hmn : s.mode = none := by simpa using hm
      have htn : s.txn = none := by rw [ht]; exact hmn
      split
      · exact ⟨h1, ht, h2, h3⟩
      · next p t hp =>
        obtain ⟨hw, e, he, hl⟩ := Phys.lockWrite_ok hp
        simp only [htn, Option.isSome_none, Bool.false_eq_true, if_false]
        refine ⟨by simp [hw], rfl, by simp, ?_⟩
        simp only [hw, hl, Option.isSome_some]
        rw [← h1, hmn] at h3
        exact h3.acquire e he
  | unlock =>
    simp only [LF.step, LF.unlock]
    split
    · exact ⟨h1, ht, h2, h3⟩
    · next hm =>
      split
      · next hc =>
        refine ⟨h1, ht, ⟨fun _ => ?_, fun _ => h2.mpr (by omega)⟩, h3⟩
        show 0 < s.count - 1
        omega
      · next hc =>
        split
        · exact ⟨h1, ht, h2, h3⟩
        · have hs : s.mode.isSome = true := by
            cases hmm : s.mode with
            | none => simp [hmm] at hm
            | some _ => rfl
          refine ⟨rfl, rfl, by simp, ?_⟩
          simp only [Phys.unlock, Option.isSome_none]
          rw [← h1, hs] at h3
          exact h3.release

theorem LF.inv_run {s : LF} (h : s.Inv) (ops : List Op) : (s.run ops).Inv := by
  induction ops generalizing s with
  | nil => exact h
  | cons o ops ih => exact ih (LF.inv_step h o)

/-- `lock_read`: refused by the physical lock (only on the first lock of a
read-blocked lock) with nothing changed, or granted -/
theorem LF.lockRead_spec {s : LF} (h : s.Inv) :
    (s.count = 0 ∧ s.phys.rblock = true ∧ s.lockRead = (s, .error .contention)) ∨
    (∃ s', s.lockRead = (s', .ok none) ∧ s'.count = s.count + 1 ∧ s'.Inv ∧
      (0 < s.count → s' = { s with count := s.count + 1 }) ∧
      (s.count = 0 → s.phys.rblock = false)) := by
  have hi := LF.inv_step h .lockRead
  obtain ⟨h1, ht, h2, h3⟩ := h
  simp only [LF.step] at hi
  unfold LF.lockRead at hi ⊢
  split
  · next hm =>
    right
    have := h2.mp hm
    exact ⟨_, rfl, rfl, by simpa [hm] using hi, fun _ => rfl, by intro; omega⟩
  · next hm =>
    have hmn : s.mode = none := by simpa using hm
    have htn : s.txn = none := by rw [ht]; exact hmn
    have hc : s.count = 0 := by
      have : ¬ 0 < s.count := fun h => hm (h2.mpr h)
      omega
    cases hp : s.phys.lockRead with
    | error e =>
      left
      obtain ⟨rfl, hb⟩ := Phys.lockRead_err hp
      exact ⟨hc, hb, rfl⟩
    | ok p =>
      right
      obtain ⟨_, hb⟩ := Phys.lockRead_ok hp
      simp only [hm, hp, htn, Option.isSome_none, Bool.false_eq_true, if_false] at hi ⊢
      exact ⟨_, rfl, by simp [hc], hi, fun h => by omega, fun _ => hb⟩

theorem LF.unlock_spec {s : LF} (h : s.Inv) :
    (s.count = 0 ∧ s.unlock = (s, .error .notHeld)) ∨
    (0 < s.count ∧ ∃ s', s.unlock = (s', .ok none) ∧ s'.count + 1 = s.count ∧ s'.Inv) := by
  have hi := LF.inv_step h .unlock
  obtain ⟨h1, ht, h2, h3⟩ := h
  simp only [LF.step] at hi
  unfold LF.unlock at hi ⊢
  by_cases hm : s.mode.isNone = true
  · left
    have hmn : s.mode = none := Option.isNone_iff_eq_none.mp hm
    have : s.count = 0 := by
      have : ¬ 0 < s.count := fun h => by
        have := h2.mpr h
        rw [hmn] at this
        cases this
      omega
    exact ⟨this, by simp [hm]⟩
  · right
    have hs : s.mode.isSome = true := by
      cases hmm : s.mode with
      | none => rw [hmm] at hm; exact absurd rfl hm
      | some _ => rfl
    have hc := h2.mp hs
    refine ⟨hc, ?_⟩
    simp only [hm] at hi ⊢
    by_cases hc1 : s.count > 1
    · simp only [hc1, if_true] at hi ⊢
      exact ⟨_, rfl, by simp; omega, hi⟩
    · have htn : s.txn.isNone = false := by
        rw [ht]
        cases hmm : s.mode with
        | none => rw [hmm] at hs; cases hs
        | some _ => rfl
      simp only [hc1, if_false, htn, Bool.false_eq_true] at hi ⊢
      exact ⟨_, rfl, by simp; omega, hi⟩

theorem Repo.isLocked_iff (s : Repo) : s.isLocked = true ↔ 0 < s.depth := by
  simp [Repo.isLocked, Repo.depth, LF.isLocked]; omega

/-! ### PackRepository -/

theorem Repo.lockWrite_spec {s : Repo} (_h : s.Inv) (tok : Option Nat) :
    (s.wcount = 0 ∧ 0 < s.cf.count ∧ s.lockWrite tok = (s, .error .readOnly)) ∨
    (0 < s.wcount ∧ s.lockWrite tok = ({ s with wcount := s.wcount + 1 }, .ok none)) ∨
    (s.depth = 0 ∧ s.lockWrite tok =
      ({ s with wcount := 1, fb := s.fb + 1, fbLog := s.fbLog ++ [.acqR] }, .ok none)) := by
  have hl := Repo.isLocked_iff s
  unfold Repo.depth at hl ⊢
  unfold Repo.lockWrite Repo.lockFallbacks
  by_cases hw : s.wcount = 0
  · by_cases hc : 0 < s.cf.count
    · left
      have : s.isLocked = true := hl.mpr (by omega)
      exact ⟨hw, hc, by simp [hw, this]⟩
    · right; right
      have : s.isLocked = false := by
        cases hb : s.isLocked with
        | false => rfl
        | true => have := hl.mp hb; omega
      exact ⟨by omega, by simp [hw, this]⟩
  · right; left
    have : s.isLocked = true := hl.mpr (by omega)
    exact ⟨by omega, by simp [hw, this]⟩

theorem Repo.lockRead_spec {s : Repo} (h : s.Inv) :
    (0 < s.wcount ∧ s.lockRead = ({ s with wcount := s.wcount + 1 }, .ok none)) ∨
    (s.depth = 0 ∧ s.cf.phys.rblock = true ∧ s.lockRead = (s, .error .contention)) ∨
    (s.wcount = 0 ∧ ∃ cf', s.cf.lockRead = (cf', .ok none) ∧ cf'.count = s.cf.count + 1 ∧ cf'.Inv ∧
      (0 < s.cf.count → cf' = { s.cf with count := s.cf.count + 1 }) ∧
      s.lockRead = (if 0 < s.cf.count then { s with cf := cf' }
        else { s with cf := cf', fb := s.fb + 1, fbLog := s.fbLog ++ [.acqR] }, .ok none)) := by
  have hl := Repo.isLocked_iff s
  unfold Repo.depth at hl ⊢
  unfold Repo.lockRead Repo.lockFallbacks
  by_cases hw : s.wcount = 0
  · right
    rcases LF.lockRead_spec h.cf with ⟨hc, hb, he⟩ | ⟨cf', h1, h2, h3, h4, _⟩
    · left
      refine ⟨by omega, hb, ?_⟩
      simp only [hw, ne_eq, not_true_eq_false, if_false, he]
      cases s
      simp_all
    · right
      refine ⟨hw, cf', h1, h2, h3, h4, ?_⟩
      by_cases hc : 0 < s.cf.count
      · have : s.isLocked = true := hl.mpr (by omega)
        simp [hw, h1, this, hc]
      · have : s.isLocked = false := by
          cases hb : s.isLocked with
          | false => rfl
          | true => have := hl.mp hb; omega
        simp [hw, h1, this, hc]
  · left
    have : s.isLocked = true := hl.mpr (by omega)
    exact ⟨by omega, by simp [hw, this]⟩

theorem Repo.unlock_spec {s : Repo} (h : s.Inv) :
    (s.depth = 0 ∧ s.unlock = (s, .error .notHeld)) ∨
    (0 < s.wcount ∧ s.unlock =
      (if 1 < s.wcount then { s with wcount := s.wcount - 1 }
       else { s with wcount := 0, fb := s.fb - 1, fbLog := s.fbLog ++ [.rel] }, .ok none)) ∨
    (s.wcount = 0 ∧ 0 < s.cf.count ∧ ∃ cf', s.cf.unlock = (cf', .ok none) ∧
      cf'.count + 1 = s.cf.count ∧ cf'.Inv ∧
      s.unlock = (if 1 < s.cf.count then { s with cf := cf' }
        else { s with cf := cf', fb := s.fb - 1, fbLog := s.fbLog ++ [.rel] }, .ok none)) := by
  unfold Repo.depth
  by_cases hw : s.wcount = 0
  · rcases LF.unlock_spec h.cf with ⟨hc, hu⟩ | ⟨hc, cf', hu, hcc, hi⟩
    · left
      refine ⟨by omega, ?_⟩
      simp only [Repo.unlock, hw, hu]
      cases s
      simp_all
    · right; right
      refine ⟨hw, hc, cf', hu, hcc, hi, ?_⟩
      by_cases h1 : 1 < s.cf.count
      · have : 1 ≤ cf'.count := by omega
        simp [Repo.unlock, hw, hu, Repo.isLocked, LF.isLocked, h1, this]
      · have : ¬ 1 ≤ cf'.count := by omega
        simp [Repo.unlock, hw, hu, Repo.isLocked, LF.isLocked, h1, this]
  · right; left
    refine ⟨by omega, ?_⟩
    have hc : s.cf.count = 0 := by
      rcases h.excl with h | h
      · exact absurd h hw
      · exact h
    by_cases h1 : 1 < s.wcount
    · have : ¬ s.wcount - 1 = 0 := by omega
      simp [Repo.unlock, hw, Repo.isLocked, LF.isLocked, h1, this]
    · have : s.wcount - 1 = 0 := by omega
      simp [Repo.unlock, hw, Repo.isLocked, LF.isLocked, h1, this, hc]

theorem Repo.inv_step {s : Repo} (h : s.Inv) (o : Op) : (s.step o).1.Inv := by
  have hcf := h.cf
  have hex := h.excl
  have hp := h.fb_pos
  have hz := h.fb_zero
  have hbp := h.fb_bal_pos
  have hbz := h.fb_bal_zero
  unfold Repo.depth at hp hz hbp hbz
  cases o with
  | lockWrite tok =>
    simp only [Repo.step]
    rcases Repo.lockWrite_spec h tok with ⟨hw, hc, e⟩ | ⟨hw, e⟩ | ⟨hd, e⟩
    · rw [e]; exact h
    · rw [e]
      have hc : s.cf.count = 0 := by omega
      refine ⟨hcf, Or.inr hc, ?_, ?_, ?_, ?_⟩ <;> dsimp only [Repo.depth] <;> intro h0
      · exact hp (by omega)
      · omega
      · exact hbp (by omega)
      · omega
    · rw [e]
      unfold Repo.depth at hd
      refine ⟨hcf, Or.inr (show s.cf.count = 0 by omega), ?_, ?_, ?_, ?_⟩ <;> dsimp only [Repo.depth] <;> intro h0
      · have := hz (by omega); omega
      · omega
      · exact (hbz (by omega)).acquire .acqR (by decide)
      · omega
  | lockRead =>
    simp only [Repo.step]
    rcases Repo.lockRead_spec h with ⟨hw, e⟩ | ⟨_, _, e⟩ | ⟨hw, cf', _, hcc, hi, _, e⟩
    · rw [e]
      have hc : s.cf.count = 0 := by omega
      refine ⟨hcf, Or.inr hc, ?_, ?_, ?_, ?_⟩ <;> dsimp only [Repo.depth] <;> intro h0
      · exact hp (by omega)
      · omega
      · exact hbp (by omega)
      · omega
    · rw [e]; exact h
    · rw [e]
      by_cases hc : 0 < s.cf.count
      · simp only [hc, if_true]
        refine ⟨hi, Or.inl hw, ?_, ?_, ?_, ?_⟩ <;> dsimp only [Repo.depth] <;> intro h0
        · exact hp (by omega)
        · omega
        · exact hbp (by omega)
        · omega
      · simp only [hc, if_false]
        refine ⟨hi, Or.inl hw, ?_, ?_, ?_, ?_⟩ <;> dsimp only [Repo.depth] <;> intro h0
        · have := hz (by omega); omega
        · omega
        · exact (hbz (by omega)).acquire .acqR (by decide)
        · omega
  | unlock =>
    simp only [Repo.step]
    rcases Repo.unlock_spec h with ⟨hd, e⟩ | ⟨hw, e⟩ | ⟨hw, hc, cf', _, hcc, hi, e⟩
    · rw [e]; exact h
    · rw [e]
      have hc : s.cf.count = 0 := by omega
      by_cases h1 : 1 < s.wcount
      · simp only [h1, if_true]
        refine ⟨hcf, Or.inr hc, ?_, ?_, ?_, ?_⟩ <;> dsimp only [Repo.depth] <;> intro h0
        · exact hp (by omega)
        · omega
        · exact hbp (by omega)
        · omega
      · simp only [h1, if_false]
        refine ⟨hcf, Or.inl rfl, ?_, ?_, ?_, ?_⟩ <;> dsimp only [Repo.depth] <;> intro h0
        · omega
        · have := hp (by omega); omega
        · omega
        · exact (hbp (by omega)).release
    · rw [e]
      by_cases h1 : 1 < s.cf.count
      · simp only [h1, if_true]
        refine ⟨hi, Or.inl hw, ?_, ?_, ?_, ?_⟩ <;> dsimp only [Repo.depth] <;> intro h0
        · exact hp (by omega)
        · omega
        · exact hbp (by omega)
        · omega
      · simp only [h1, if_false]
        refine ⟨hi, Or.inl hw, ?_, ?_, ?_, ?_⟩ <;> dsimp only [Repo.depth] <;> intro h0
        · omega
        · have := hp (by omega); omega
        · omega
        · exact (hbp (by omega)).release

theorem Repo.inv_init (ext : Bool) (rb : Bool := false) : (Repo.init ext rb).Inv :=
  ⟨LF.inv_init ext rb, Or.inl rfl, by intro h; simp [Repo.init, Repo.depth, LF.init] at h, fun _ => rfl,
   by intro h; simp [Repo.init, Repo.depth, LF.init] at h, fun _ => Balanced.nil⟩

theorem Repo.inv_run {s : Repo} (h : s.Inv) (ops : List Op) : (s.run ops).Inv := by
  induction ops generalizing s with
  | nil => exact h
  | cons o ops ih => exact ih (Repo.inv_step h o)

/-! ### BzrBranch -/

theorem Repo.unlock_inv {s : Repo} (h : s.Inv) : s.unlock.1.Inv := Repo.inv_step h .unlock
theorem Repo.lockRead_inv {s : Repo} (h : s.Inv) : s.lockRead.1.Inv := Repo.inv_step h .lockRead
theorem Repo.lockWrite_inv {s : Repo} (h : s.Inv) (t : Option Nat) : (s.lockWrite t).1.Inv :=
  Repo.inv_step h (.lockWrite t)
theorem LF.unlock_inv {s : LF} (h : s.Inv) : s.unlock.1.Inv := LF.inv_step h .unlock
theorem LF.lockRead_inv {s : LF} (h : s.Inv) : s.lockRead.1.Inv := LF.inv_step h .lockRead
theorem LF.lockWrite_inv {s : LF} (h : s.Inv) (t : Option Nat) : (s.lockWrite t).1.Inv :=
  LF.inv_step h (.lockWrite t)

theorem Branch.finishLock_inv {s : Branch} (h : s.Inv) (b : Bool) (r : LF × Res) (hr : r.1.Inv) :
    (Branch.finishLock s b r).1.Inv := by
  obtain ⟨cf, res⟩ := r
  cases res with
  | ok t => exact ⟨hr, h.repo⟩
  | error e =>
    cases b with
    | false => exact ⟨hr, h.repo⟩
    | true =>
      have hu := Repo.unlock_inv h.repo
      simp only [Branch.finishLock, if_true]
      rcases hx : s.repo.unlock with ⟨repo, r'⟩
      rw [hx] at hu
      cases r' <;> exact ⟨hr, hu⟩

theorem Branch.inv_step {s : Branch} (h : s.Inv) (o : SOp) : (s.step o).1.Inv := by
  cases o with
  | repo o =>
    simp only [Branch.step]
    exact ⟨h.cf, Repo.inv_step h.repo o⟩
  | branch o =>
    cases o with
    | lockRead =>
      simp only [Branch.step, Branch.lockRead]
      split
      · have hr := Repo.lockRead_inv h.repo
        rcases hx : s.repo.lockRead with ⟨repo, r'⟩
        rw [hx] at hr
        cases r' with
        | error e => exact ⟨h.cf, hr⟩
        | ok t =>
          exact Branch.finishLock_inv (s := { s with repo := repo }) ⟨h.cf, hr⟩ true _ (LF.lockRead_inv h.cf)
      · exact Branch.finishLock_inv h false _ (LF.lockRead_inv h.cf)
    | lockWrite tok =>
      simp only [Branch.step, Branch.lockWrite]
      split
      · have hr := Repo.lockWrite_inv h.repo none
        rcases hx : s.repo.lockWrite none with ⟨repo, r'⟩
        rw [hx] at hr
        cases r' with
        | error e => exact ⟨h.cf, hr⟩
        | ok t =>
          exact Branch.finishLock_inv (s := { s with repo := repo }) ⟨h.cf, hr⟩ true _ (LF.lockWrite_inv h.cf tok)
      · exact Branch.finishLock_inv h false _ (LF.lockWrite_inv h.cf tok)
    | unlock =>
      simp only [Branch.step, Branch.unlock]
      have hc := LF.unlock_inv h.cf
      rcases hx : s.cf.unlock with ⟨cf, r⟩
      rw [hx] at hc
      simp only
      split
      · have hu := Repo.unlock_inv h.repo
        rcases hy : s.repo.unlock with ⟨repo, r'⟩
        rw [hy] at hu
        cases r' <;> exact ⟨hc, hu⟩
      · exact ⟨hc, h.repo⟩

theorem Branch.inv_init (ext : Bool) (rbB : Bool := false) (rbR : Bool := false) :
    (Branch.init ext rbB rbR).Inv := ⟨LF.inv_init ext rbB, Repo.inv_init ext rbR⟩

theorem Branch.inv_run {s : Branch} (h : s.Inv) (ops : List SOp) : (s.run ops).Inv := by
  induction ops generalizing s with
  | nil => exact h
  | cons o ops ih => exact ih (Branch.inv_step h o)

/-- `lock_write` on unlocked control files: refused by the physical lock with
nothing changed, or granted with count 1 -/
theorem LF.lockWrite_unlocked {s : LF} (h : s.Inv) (hc : s.count = 0) (tok : Option Nat) :
    (∃ e, s.lockWrite tok = (s, .error e)) ∨ (∃ s' t, s.lockWrite tok = (s', .ok t) ∧ s'.count = 1) := by
  obtain ⟨h1, ht, h2, h3⟩ := h
  have hmn : s.mode = none := by
    cases hm : s.mode with
    | none => rfl
    | some m => have := h2.mp (by simp [hm]); omega
  have htn : s.txn = none := by rw [ht]; exact hmn
  unfold LF.lockWrite
  simp only [hmn, Option.isSome_none, Bool.false_eq_true, if_false]
  cases hp : s.phys.lockWrite tok with
  | error e => left; exact ⟨e, rfl⟩
  | ok r =>
    obtain ⟨p, t⟩ := r
    right
    simp only [htn, Option.isSome_none, Bool.false_eq_true, if_false]
    exact ⟨_, t, rfl, rfl⟩

/-- taking a repository lock and giving it back restores the lock state -/
theorem Repo.lockWrite_unlock_core {s : Repo} (h : s.Inv) {r : Repo} {t : Option Nat}
    (e : s.lockWrite none = (r, .ok t)) : ∃ r', r.unlock = (r', .ok none) ∧ r'.core = s.core := by
  have hr : r.Inv := by have := Repo.lockWrite_inv h none; rw [e] at this; exact this
  rcases Repo.lockWrite_spec h none with ⟨_, _, e'⟩ | ⟨hw, e'⟩ | ⟨hd, e'⟩
  · rw [e'] at e; cases e
  · rw [e'] at e; injection e with e1 _; subst e1
    rcases Repo.unlock_spec hr with ⟨hd', _⟩ | ⟨_, eu⟩ | ⟨hw', _⟩
    · simp only [Repo.depth] at hd'; omega
    · refine ⟨_, eu, ?_⟩
      have : 1 < s.wcount + 1 := by omega
      simp only [this, if_true]
      simp [Repo.core]
    · simp only at hw'; omega
  · rw [e'] at e; injection e with e1 _; subst e1
    simp only [Repo.depth] at hd
    rcases Repo.unlock_spec hr with ⟨hd', _⟩ | ⟨_, eu⟩ | ⟨hw', _⟩
    · simp only [Repo.depth] at hd'; omega
    · refine ⟨_, eu, ?_⟩
      simp only [Nat.lt_irrefl, if_false]
      simp [Repo.core]; omega
    · simp only at hw'; omega

/-- taking a read lock on control files and giving it back restores the lock state -/
theorem LF.lockRead_unlock_core {s s' : LF} (h : s.Inv) {t : Option Nat}
    (e : s.lockRead = (s', .ok t)) : ∃ s'', s'.unlock = (s'', .ok none) ∧ s''.core = s.core := by
  obtain ⟨h1, ht, h2, h3⟩ := h
  unfold LF.lockRead at e
  split at e
  · next hm =>
    have hc := h2.mp hm
    injection e with e1 _; subst e1
    refine ⟨s, ?_, rfl⟩
    have : s.mode.isNone = false := by
      cases hmm : s.mode with
      | none => simp [hmm] at hm
      | some _ => rfl
    have h1' : s.count + 1 > 1 := by omega
    simp only [LF.unlock, this, Bool.false_eq_true, if_false, h1', if_true]
    cases s; simp
  · next hm =>
    have hmn : s.mode = none := by simpa using hm
    have htn : s.txn = none := by rw [ht]; exact hmn
    have hh : s.phys.held = none := by rw [← h1]; exact hmn
    have hc : s.count = 0 := by
      have : ¬ 0 < s.count := fun h => hm (h2.mpr h)
      omega
    split at e
    · cases e
    · next p hp =>
      obtain ⟨rfl, _⟩ := Phys.lockRead_ok hp
      simp only [htn, Option.isSome_none, Bool.false_eq_true, if_false] at e
      have e1 := (Prod.mk.inj e).1
      refine ⟨s'.unlock.1, ?_, ?_⟩ <;> rw [← e1]
      · simp [LF.unlock]
      · simp only [LF.unlock, LF.core, Phys.core, Phys.unlock]
        cases s with
        | mk mode count txn tfl phys =>
          cases phys
          simp_all

/-- taking a repository read lock and giving it back restores the lock state -/
theorem Repo.lockRead_unlock_core {s : Repo} (h : s.Inv) {r : Repo} {t : Option Nat}
    (e : s.lockRead = (r, .ok t)) : ∃ r', r.unlock = (r', .ok none) ∧ r'.core = s.core := by
  have hr : r.Inv := by have := Repo.lockRead_inv h; rw [e] at this; exact this
  rcases Repo.lockRead_spec h with ⟨hw, e'⟩ | ⟨_, _, e'⟩ | ⟨hw, cf', ecf, hcc, hi, hn, e'⟩
  · rw [e'] at e; injection e with e1 _; subst e1
    rcases Repo.unlock_spec hr with ⟨hd', _⟩ | ⟨_, eu⟩ | ⟨hw', _⟩
    · simp only [Repo.depth] at hd'; omega
    · refine ⟨_, eu, ?_⟩
      have : 1 < s.wcount + 1 := by omega
      simp only [this, if_true]
      simp [Repo.core]
    · simp only at hw'; omega
  · rw [e'] at e; cases e
  · rw [e'] at e; injection e with e1 _; subst e1
    obtain ⟨cf'', eu2, hcore⟩ := LF.lockRead_unlock_core h.cf ecf
    by_cases hc : 0 < s.cf.count
    · simp only [hc, if_true] at hr ⊢
      rcases Repo.unlock_spec hr with ⟨hd', _⟩ | ⟨hw', _⟩ | ⟨_, _, cf3, eu3, _, _, eu⟩
      · simp only [Repo.depth] at hd'; omega
      · simp only at hw'; omega
      · simp only at eu3 eu
        rw [eu2] at eu3; injection eu3 with e3 _; subst e3
        refine ⟨_, eu, ?_⟩
        have : 1 < cf'.count := by omega
        simp only [this, if_true]
        simp [Repo.core, hcore]
    · simp only [hc, if_false] at hr ⊢
      rcases Repo.unlock_spec hr with ⟨hd', _⟩ | ⟨hw', _⟩ | ⟨_, _, cf3, eu3, _, _, eu⟩
      · simp only [Repo.depth] at hd'; omega
      · simp only at hw'; omega
      · simp only at eu3 eu
        rw [eu2] at eu3; injection eu3 with e3 _; subst e3
        refine ⟨_, eu, ?_⟩
        have : ¬ 1 < cf'.count := by omega
        simp only [this, if_false]
        simp [Repo.core, hcore]

end BreezyVerif.C28
